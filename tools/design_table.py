#!/usr/bin/env python3
"""Print the per-property status table of DESIGN.md §10.1 from props/*.json (theorem counts by kind)."""
import json, glob, collections
tot = collections.Counter()
print("| property | Lean modules (theorem files) | theorems proved / partial / witness | deciding technique (MANIFEST) |")
print("|---|---|---|---|")
for f in sorted(glob.glob('/verif/props/C*.json')):
    d = json.load(open(f)); pid = f.split('/')[-1][:-5]
    k = collections.Counter(t['kind'] for t in d['theorems']); tot.update(k)
    mods = ", ".join(m.replace('LopdfModel.', '') for m in d.get('lean_modules', []))
    print(f"| {pid} | {mods} | {k['proved']} / {k['partial']} / {k['witness']} | {d['manifest'].get('technique','')[:160]} |")
print(f"\nTotal: {sum(tot.values())} theorems listed ({tot['proved']} proved, {tot['partial']} partial, {tot['witness']} witness).")
