#!/usr/bin/env python3
"""Resolve the three files that every property branch touches after `git merge` reported conflicts:
lean/LopdfModel.lean (union of import lines), known_findings.json (union of findings by id),
MANIFEST.json (regenerated)."""
import json, subprocess, sys, os
V = os.path.dirname(os.path.dirname(os.path.abspath(__file__)))
def show(stage, path):
    r = subprocess.run(["git", "-C", V, "show", f":{stage}:{path}"], capture_output=True, text=True)
    return r.stdout if r.returncode == 0 else None
# LopdfModel.lean
ours, theirs = show(2, "lean/LopdfModel.lean"), show(3, "lean/LopdfModel.lean")
if ours is not None and theirs is not None:
    lines = ours.splitlines()
    for l in theirs.splitlines():
        if l not in lines: lines.append(l)
    open(os.path.join(V, "lean/LopdfModel.lean"), "w").write("\n".join(lines) + "\n")
# known findings
ours, theirs = show(2, "known_findings.json"), show(3, "known_findings.json")
if ours is not None and theirs is not None:
    a, b = json.loads(ours), json.loads(theirs)
    owned = set(sys.argv[1:])        # properties whose entries are taken from THEIR side entirely
    a["findings"] = [f for f in a["findings"] if f["property"] not in owned]
    ids = {f["id"] for f in a["findings"]}
    for f in b["findings"]:
        if f["id"] not in ids and (f["property"] in owned or not owned or True): a["findings"].append(f)
    json.dump(a, open(os.path.join(V, "known_findings.json"), "w"), indent=1)
subprocess.run([sys.executable, os.path.join(V, "tools/mkmanifest.py")])
