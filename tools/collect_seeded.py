#!/usr/bin/env python3
"""Collect verified seeded changes into /verif/seeded/<id>/ and write seeded/RESULTS.md
from the verification logs produced by tools/mutverify.sh.
usage: collect_seeded.py [<root>:<round-tag>:] <log>… [<root2>:<tag2>: <log>…]
  e.g.  collect_seeded.py /tmp/mut:: w1.log w2.log /tmp/mut2:r2: w5.log w6.log"""
import json, os, re, shutil, sys
V = os.path.dirname(os.path.dirname(os.path.abspath(__file__)))
rows = {}
root, tag = "/tmp/mut", ""
for log in sys.argv[1:]:
    g = re.match(r"^(/\S+):(\w*):$", log)
    if g: root, tag = g.group(1), g.group(2); continue
    cur = None
    for line in open(log, errors="replace"):
        m = re.match(r"######## (\S+)", line)
        if m:
            cur = (root, tag, m.group(1))
            if cur not in rows: rows[cur] = {"demo_without": None, "demo_with": None, "suite": None, "checks": {}, "history": []}
            stage = None; continue
        if cur is None: continue
        r = rows[cur]
        if line.startswith("--- demo WITHOUT"): stage = "without"; continue
        if line.startswith("--- demo WITH change"): stage = "with"; continue
        if line.startswith("--- suite WITH"): stage = "suite"; continue
        m = re.match(r"=== (C\d+)", line)
        if m:
            stage = ("check", m.group(1))
            if m.group(1) in r["checks"]: r["history"].append({m.group(1): r["checks"][m.group(1)]["verdict"] + " [before the check was strengthened]"})
            r["checks"][m.group(1)] = {"verdict": "no VIOLATION (missed)", "detail": ""}; continue
        if stage == "without" and line.startswith("test result:"): r["demo_without"] = "ok" if line.startswith("test result: ok") else "FAILED"
        if stage == "with" and line.startswith("test result:"): r["demo_with"] = "ok" if line.startswith("test result: ok") else "FAILED"
        if stage == "suite" and line.startswith("test result:"):
            parts = re.findall(r"(\d+) passed; (\d+) failed", line)
            r["suite"] = f"{sum(int(a) for a, b in parts)} passed / {sum(int(b) for a, b in parts)} failed (baseline: 85 + demo passed, annotation_count + demo failed)"
        if isinstance(stage, tuple):
            p = stage[1]
            if "theorems" in line and line.startswith(p): r["checks"][p]["detail"] = line.strip()
            if line.startswith("VIOLATION"):
                r["checks"][p]["verdict"] = "VIOLATION" + (" (no-failing-input-found)" if "no-failing-input-found" in line else " with failing input")
                mm = re.search(r"replay=\S+/(C\d+-[a-z-]+)-", line)
                if mm: r["checks"][p]["kind"] = mm.group(1)
out = ["# Seeded changes: verification and detection", "",
       "Produced by independent sub-agents (property text + own worktree only), re-verified with `tools/mutverify.sh`.",
       "`demo` = the agent's demonstration test without / with the change; `suite` = existing tests with the change.", "",
       "| id | breaks | demo w/o → with | checks run → verdict |", "|---|---|---|---|"]
for (root, tag, mid), r in rows.items():
    src = f"{root}/{mid}"
    sid = mid.replace("/out2", f"-{tag}b").replace("/out", f"-{tag}a")
    dst = os.path.join(V, "seeded", sid)
    meta = {}
    # the agent's own meta (summary, what it needs to manifest, commands): from the source directory if it is still
    # there, else from what an earlier collection stored
    if not os.path.isdir(src) and os.path.exists(os.path.join(dst, "meta.json")):
        try:
            meta = json.load(open(os.path.join(dst, "meta.json"))); meta.pop("verified_by_me", None)
        except Exception: meta = {}
    if os.path.isdir(src):
        os.makedirs(dst, exist_ok=True)
        for f in ("patch.diff", "mut_demo.rs", "cargo_dev_dep.diff"):
            if os.path.exists(os.path.join(src, f)): shutil.copy(os.path.join(src, f), os.path.join(dst, f))
        try: meta = json.load(open(os.path.join(src, "meta.json")))
        except Exception: meta = {}
    meta["verified_by_me"] = {"demo_without_change": r["demo_without"], "demo_with_change": r["demo_with"], "suite_with_change": r["suite"],
                              "checks": r["checks"], "earlier_runs": r["history"], "commands": [f"tools/mutverify.sh {root}/{mid} " + " ".join(r["checks"].keys())]}
    if os.path.isdir(dst): json.dump(meta, open(os.path.join(dst, "meta.json"), "w"), indent=1)
    breaks = (meta.get("summary") or meta.get("what_it_breaks") or "")[:140].replace("|", "/").replace("\n", " ")
    ch = "; ".join(f"{p}: {c['verdict']}" for p, c in r["checks"].items())
    if r["history"]: ch += " — earlier: " + "; ".join(f"{k}: {v}" for h in r["history"] for k, v in h.items())
    out.append(f"| {sid} | {breaks} | {r['demo_without']} → {r['demo_with']} | {ch} |")
os.makedirs(os.path.join(V, "seeded"), exist_ok=True)
open(os.path.join(V, "seeded", "RESULTS.md"), "w").write("\n".join(out) + "\n")
print("\n".join(out[6:]))
