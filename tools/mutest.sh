#!/bin/sh
# Mutation test bench: apply a patch to a scratch worktree of /repo and run checks from a scratch
# worktree of /verif against it.   usage: tools/mutest.sh <patch.diff> <Cxx> [<Cyy> …]
# Neither /repo nor /verif's main worktree is touched.
set -e
MT="${MT:-/tmp/mt}"
PATCH="$(readlink -f "$1")"; shift
SHA=$(git -C /verif rev-parse HEAD)
mkdir -p $MT
[ -d $MT/verif ] || { git -C /verif worktree add --detach $MT/verif "$SHA" >/dev/null; cp -r /verif/lean/.lake $MT/verif/lean/.lake; cp -r /verif/harness/target /verif/harness/target-seq /verif/harness/target-dbg $MT/verif/harness/ 2>/dev/null || true; cp /verif/harness/Cargo.lock $MT/verif/harness/; }
git -C $MT/verif checkout -q -f --detach "$SHA"
rm -rf $MT/repo; git -C /repo worktree prune; git -C /repo worktree add --detach $MT/repo HEAD >/dev/null 2>&1
git -C $MT/repo apply "$PATCH"
cd $MT/verif
for P in "$@"; do
  echo "=== $P"
  VERIF_REPO=$MT/repo ./check "$P" 2>&1 | grep -v "^KNOWN-FINDING" | tail -4 || true
done
git -C /repo worktree remove --force $MT/repo
