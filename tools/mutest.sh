#!/bin/sh
# Mutation test bench: apply a patch to a scratch worktree of /repo and run checks from a scratch
# worktree of /verif against it.   usage: tools/mutest.sh <patch.diff> <Cxx> [<Cyy> …]
# Neither /repo nor /verif's main worktree is touched.
set -e
PATCH="$(readlink -f "$1")"; shift
SHA=$(git -C /verif rev-parse HEAD)
[ -d /tmp/mt/verif ] || git -C /verif worktree add --detach /tmp/mt/verif "$SHA" >/dev/null
git -C /tmp/mt/verif checkout -q -f --detach "$SHA"
rm -rf /tmp/mt/repo; git -C /repo worktree prune; git -C /repo worktree add --detach /tmp/mt/repo HEAD >/dev/null 2>&1
git -C /tmp/mt/repo apply "$PATCH"
cd /tmp/mt/verif
for P in "$@"; do
  echo "=== $P"
  VERIF_REPO=/tmp/mt/repo ./check "$P" 2>&1 | grep -v "^KNOWN-FINDING" | tail -4 || true
done
git -C /repo worktree remove --force /tmp/mt/repo
