#!/usr/bin/env python3
"""Published charts of the predefined one-byte encodings, INDEPENDENT of lopdf's source.

  tools/mkcharts.py          writes lean/LopdfModel/Spec/ChartsFull.lean and harness/src/props/c16_charts.txt

Sources
  WinAnsiEncoding   python3 codec `cp1252` + the deviations documented in ISO 32000-1 Annex D:
                    every unused code above 0x28 (0x7F 0x81 0x8D 0x8F 0x90 0x9D) is the bullet U+2022,
                    0xA0 is a space, 0xAD is the hyphen; 0x00-0x1F carry no character
  MacRomanEncoding  python3 codec `mac_roman` (Mac OS Roman) + the deviations: 0xDB is the currency sign
                    (Mac OS Roman later put the Euro there), 0xCA (no-break space) is a space, 0xBD "Omega"
                    is U+2126 as in the Adobe Glyph List, 0x7F and 0x00-0x1F carry no character.
                    NOTE the 15 mathematical entries and the apple (0xF0) of Mac OS Roman, which Annex D
                    lists for MacOS only, are kept as Mac OS Roman has them.
  PDFDocEncoding    ISO 32000-1 Annex D.2 written out: ASCII, Latin-1 (python3 `latin_1`) at 0xA1-0xFF with
                    0xAD undefined, 0xA0 the Euro sign, 0x18-0x1F the spacing accents, 0x80-0x9E the list below,
                    0x00-0x17, 0x7F, 0x9F undefined
  StandardEncoding, MacExpertEncoding (and Expert, Symbol): no independent source in the sandbox —
                    FROZEN at the pinned commit (tools/charts_frozen.json)
"""
import json, os, sys
V = os.path.dirname(os.path.dirname(os.path.abspath(__file__)))

def codec(name):
    out = []
    for b in range(256):
        try: out.append(ord(bytes([b]).decode(name)))
        except Exception: out.append(None)
    return out

def winansi():
    t = codec("cp1252")
    for b in range(0x20): t[b] = None
    for b in (0x7F, 0x81, 0x8D, 0x8F, 0x90, 0x9D): t[b] = 0x2022
    t[0xA0] = 0x20; t[0xAD] = 0x2D
    return t

def macroman():
    t = codec("mac_roman")
    for b in range(0x20): t[b] = None
    t[0x7F] = None; t[0xDB] = 0xA4; t[0xCA] = 0x20; t[0xBD] = 0x2126
    return t

PDFDOC_LOW = {0x18: 0x02D8, 0x19: 0x02C7, 0x1A: 0x02C6, 0x1B: 0x02D9, 0x1C: 0x02DD, 0x1D: 0x02DB, 0x1E: 0x02DA, 0x1F: 0x02DC}
PDFDOC_80 = [0x2022, 0x2020, 0x2021, 0x2026, 0x2014, 0x2013, 0x0192, 0x2044, 0x2039, 0x203A, 0x2212, 0x2030, 0x201E, 0x201C,
             0x201D, 0x2018, 0x2019, 0x201A, 0x2122, 0xFB01, 0xFB02, 0x0141, 0x0152, 0x0160, 0x0178, 0x017D, 0x0131, 0x0142,
             0x0153, 0x0161, 0x017E]
def pdfdoc():
    l1 = codec("latin_1")
    t = [None] * 256
    for b in range(0x20, 0x7F): t[b] = b
    for b, u in PDFDOC_LOW.items(): t[b] = u
    for i, u in enumerate(PDFDOC_80): t[0x80 + i] = u
    for b in range(0xA1, 0x100): t[b] = l1[b]
    t[0xA0] = 0x20AC; t[0xAD] = None
    return t

def main():
    fr = json.load(open(os.path.join(V, "tools", "charts_frozen.json")))
    charts = [("WIN_ANSI_ENCODING", winansi(), "python3 cp1252 + ISO 32000-1 Annex D deviations"),
              ("MAC_ROMAN_ENCODING", macroman(), "python3 mac_roman + documented deviations"),
              ("PDF_DOC_ENCODING", pdfdoc(), "ISO 32000-1 Annex D.2 written out (+ python3 latin_1)"),
              ("STANDARD_ENCODING", fr["STANDARD_ENCODING"], "FROZEN at lopdf " + fr["frozen_at"][:12]),
              ("MAC_EXPERT_ENCODING", fr["MAC_EXPERT_ENCODING"], "FROZEN at lopdf " + fr["frozen_at"][:12]),
              ("EXPERT_ENCODING", fr["EXPERT_ENCODING"], "FROZEN at lopdf " + fr["frozen_at"][:12]),
              ("SYMBOL_ENCODING", fr["SYMBOL_ENCODING"], "FROZEN at lopdf " + fr["frozen_at"][:12])]
    L = ["/- GENERATED ONCE by tools/mkcharts.py (committed). Published charts of the predefined one-byte encodings,",
         "   from sources other than lopdf where the sandbox has any; see the script for the sources. Do not edit. -/",
         "namespace Lopdf.Spec", ""]
    T = []
    for name, t, srcnote in charts:
        assert len(t) == 256
        L.append(f"/-- chart of `{name}`: {srcnote} -/")
        L.append(f"def CHART_{name} : List (Option Nat) := [" + ", ".join("none" if c is None else f"some {c}" for c in t) + "]")
        L.append("")
        T.append(name + " " + ",".join("_" if c is None else format(c, "x") for c in t))
    L.append("end Lopdf.Spec")
    open(os.path.join(V, "lean", "LopdfModel", "Spec", "ChartsFull.lean"), "w").write("\n".join(L) + "\n")
    open(os.path.join(V, "harness", "src", "props", "c16_charts.txt"), "w").write("\n".join(T) + "\n")
    print("charts written")

if __name__ == "__main__":
    main()
