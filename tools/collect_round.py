#!/usr/bin/env python3
"""Collect one round of seeded changes verified with tools/mutverify.sh, one directory per property:
   <root>/<Cxx>/out/{patch.diff,mut_demo.rs,meta.json}, <root>/<Cxx>/verify.log (final run) and optionally
   verify.0.log (the run before the checks were strengthened).
usage: collect_round.py <root> <tag>        e.g. collect_round.py /tmp/mut5 r5
Writes seeded/<Cxx>-<tag>a/, seeded/logs/<tag>-<Cxx>[.0].log and appends a section to seeded/RESULTS.md."""
import json, os, re, shutil, sys
V = os.path.dirname(os.path.dirname(os.path.abspath(__file__)))
root, tag = sys.argv[1], sys.argv[2]
def parse(log):
    r = {"demo_without": None, "demo_with": None, "suite": None, "checks": {}}
    stage = None
    for line in open(log, errors="replace"):
        if line.startswith("--- demo WITHOUT"): stage = "without"; continue
        if line.startswith("--- demo WITH change"): stage = "with"; continue
        if line.startswith("--- suite WITH"): stage = "suite"; continue
        m = re.match(r"=== (C\d+)", line)
        if m: stage = ("check", m.group(1)); r["checks"][m.group(1)] = {"verdict": "no VIOLATION (missed)", "detail": ""}; continue
        if stage == "without" and line.startswith("test result:"): r["demo_without"] = "ok" if line.startswith("test result: ok") else "FAILED"
        if stage == "with" and line.startswith("test result:"): r["demo_with"] = "ok" if line.startswith("test result: ok") else "FAILED"
        if stage == "with" and r["demo_with"] is None and ("panicked" in line or "FAILED" in line or "has to" in line): r["demo_with"] = "FAILED"
        if stage == "suite" and line.startswith("test result:"):
            parts = re.findall(r"(\d+) passed; (\d+) failed", line)
            r["suite"] = f"{sum(int(a) for a, b in parts)} passed / {sum(int(b) for a, b in parts)} failed (baseline: 85 + 3 doc-tests + demo passed, annotation_count + demo failed)"
        if isinstance(stage, tuple):
            p = stage[1]
            if "theorems" in line and line.startswith(p): r["checks"][p]["detail"] = line.strip()
            if line.startswith("VIOLATION"):
                r["checks"][p]["verdict"] = "VIOLATION" + (" (no-failing-input-found)" if "no-failing-input-found" in line else " with failing input")
    return r
rows = []
os.makedirs(os.path.join(V, "seeded", "logs"), exist_ok=True)
for pid in sorted(os.listdir(root)):
    src = os.path.join(root, pid, "out"); log = os.path.join(root, pid, "verify.log")
    if not (re.fullmatch(r"C\d\d", pid) and os.path.exists(os.path.join(src, "patch.diff")) and os.path.exists(log)): continue
    sid = f"{pid}-{tag}a"; dst = os.path.join(V, "seeded", sid); os.makedirs(dst, exist_ok=True)
    for f in ("patch.diff", "mut_demo.rs", "cargo_dev_dep.diff"):
        if os.path.exists(os.path.join(src, f)): shutil.copy(os.path.join(src, f), os.path.join(dst, f))
    try: meta = json.load(open(os.path.join(src, "meta.json")))
    except Exception: meta = {}
    r = parse(log); shutil.copy(log, os.path.join(V, "seeded", "logs", f"{tag}-{pid}.log"))
    hist = []
    log0 = os.path.join(root, pid, "verify.0.log")
    if os.path.exists(log0):
        r0 = parse(log0); shutil.copy(log0, os.path.join(V, "seeded", "logs", f"{tag}-{pid}.0.log"))
        hist = [{p: c["verdict"] + " [before the check was strengthened]"} for p, c in r0["checks"].items()]
    meta["verified_by_me"] = {"demo_without_change": r["demo_without"], "demo_with_change": r["demo_with"], "suite_with_change": r["suite"],
                              "checks": r["checks"], "earlier_runs": hist, "commands": [f"tools/mutverify.sh {src} " + " ".join(r["checks"].keys())]}
    json.dump(meta, open(os.path.join(dst, "meta.json"), "w"), indent=1)
    breaks = (meta.get("summary") or meta.get("what_it_breaks") or "")[:140].replace("|", "/").replace("\n", " ")
    ch = "; ".join(f"{p}: {c['verdict']}" for p, c in r["checks"].items())
    if hist: ch += " — earlier: " + "; ".join(f"{k}: {v}" for h in hist for k, v in h.items())
    rows.append(f"| {sid} | {breaks} | {r['demo_without']} → {r['demo_with']} | {ch} |")
res = os.path.join(V, "seeded", "RESULTS.md")
old = open(res).read() if os.path.exists(res) else ""
marker = f"\n## Round {tag}\n"
tail = ""
if marker in old:
    i = old.index(marker); j = old.find("\n## Round ", i + 1)
    tail = old[j:] if j >= 0 else ""          # later rounds stay
    old = old[:i]
open(res, "w").write(old.rstrip("\n") + "\n" + marker + "\n| id | breaks | demo w/o → with | checks run → verdict |\n|---|---|---|---|\n" + "\n".join(rows) + "\n" + tail)
print("\n".join(rows))
