#!/bin/sh
# Verify one seeded change and run the checks against it.
#   tools/mutverify.sh <dir with patch.diff, mut_demo.rs, meta.json> <Cxx> [more props…]
# 1. patch applies to /repo HEAD, compiles, existing suite matches the baseline (only annotation_count fails)
# 2. the demonstration fails with the change and passes without it
# 3. ./check for the given properties on a scratch copy (tools/mutest.sh)
MT="${MT:-/tmp/mt}"; export MT
D="$(readlink -f "$1")"; shift
W=$MT/repo2
rm -rf $W; git -C /repo worktree prune; git -C /repo worktree add --detach $W HEAD >/dev/null 2>&1
cd $W
export CARGO_NET_OFFLINE=true
cp "$D/mut_demo.rs" tests/mut_demo.rs
[ -f "$D/cargo_dev_dep.diff" ] && git apply "$D/cargo_dev_dep.diff"
grep -q "rayon::" tests/mut_demo.rs && ! grep -q '^rayon = "1"' Cargo.toml && sed -i 's/^\[dev-dependencies\]/[dev-dependencies]\nrayon = "1"/' Cargo.toml
echo "--- demo WITHOUT change:"; cargo test --offline --test mut_demo 2>&1 | grep -E "^test result|error(\[|:)" | head -3
git apply "$D/patch.diff" || { echo "PATCH DOES NOT APPLY"; exit 1; }
echo "--- demo WITH change:"; timeout 600 cargo test --offline --test mut_demo 2>&1 | grep -E "^test result|error(\[|:)" | head -3
echo "--- suite WITH change:"; cargo test --offline --workspace --no-fail-fast 2>&1 | grep -E "^test result" | tr '\n' ';' | sed 's/finished in [0-9.]*s//g'; echo
cd /verif; git -C /repo worktree remove --force $W
/verif/tools/mutest.sh "$D/patch.diff" "$@"
