#!/bin/sh
# False-alarm bench: all behaviour-preserving patches of /verif/benign applied to a scratch worktree of /repo,
# every check's quick tier run from a scratch worktree of /verif.  Expected: no VIOLATION line.
#   usage: tools/benign.sh [Cxx …]
set -e
MT="${MT:-/tmp/mt}"
SHA=$(git -C /verif rev-parse HEAD)
mkdir -p "$MT"
[ -d "$MT/verif" ] || { git -C /verif worktree add --detach "$MT/verif" "$SHA" >/dev/null; cp -r /verif/lean/.lake "$MT/verif/lean/.lake"; cp -r /verif/harness/target /verif/harness/target-seq /verif/harness/target-dbg "$MT/verif/harness/" 2>/dev/null || true; cp /verif/harness/Cargo.lock "$MT/verif/harness/"; }
git -C "$MT/verif" checkout -q -f --detach "$SHA"
rm -rf "$MT/bnrepo"; git -C /repo worktree prune; git -C /repo worktree add --detach "$MT/bnrepo" HEAD >/dev/null 2>&1
for p in /verif/benign/B*/patch.diff; do git -C "$MT/bnrepo" apply "$p"; done
cd "$MT/verif"
PROPS="$*"; [ -n "$PROPS" ] || PROPS="C01 C02 C03 C04 C05 C06 C07 C08 C09 C10 C11 C12 C13 C14 C15 C16 C17 C18 C19"
for P in $PROPS; do
  VERIF_REPO="$MT/bnrepo" ./check "$P" --tier quick > "$MT/bn_$P.log" 2>&1 && rc=0 || rc=$?
  echo "$P rc=$rc violations=$(grep -c '^VIOLATION' "$MT/bn_$P.log" || true) degraded=$(grep -c '^TIE-DEGRADED' "$MT/bn_$P.log" || true)"
done
git -C /repo worktree remove --force "$MT/bnrepo"
