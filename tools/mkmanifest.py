#!/usr/bin/env python3
"""Regenerate MANIFEST.json from props/*.json (one entry per claimed property)."""
import json, glob, os, subprocess
V = os.path.dirname(os.path.dirname(os.path.abspath(__file__)))
ALL = [f"C{i:02d}" for i in range(1, 20)]
checks, claimed = [], set()
for p in sorted(glob.glob(os.path.join(V, "props", "C*.json"))):
    d = json.load(open(p))
    if d.get("claimed", True) is False:
        continue
    m = d["manifest"]
    claimed.add(d["id"])
    checks.append({
        "property_id": d["id"],
        "quick_cmd": f"./check {d['id']} --tier quick",
        "thorough_cmd": f"./check {d['id']} --tier thorough",
        "evidence_file": f"/verif/evidence/{d['id']}.json",
        "replay_cmd_template": f"./check {d['id']} --replay {{path}}",
        "engine": "lean4-model+correspondence",
        "level_claimed": {"category": "proof", "text": m["level_text"], "design_ref": m.get("design_ref", "DESIGN.md §5")},
        "level_note": m["level_note"],
        "technique": m["technique"],
    })
na_reasons = json.load(open(os.path.join(V, "props", "not_applicable.json")))
try:
    commits = subprocess.run(["git", "-C", "/repo", "log", "--format=%H %s", "--grep=^hook:"], capture_output=True, text=True).stdout.split("\n")
    commits = [c.split(" ")[0] for c in commits if c.strip()]
except Exception:
    commits = []
man = {
    "version": 1,
    "setup_cmd": "./setup.sh",
    "hooks": {
        "guard": "--cfg lopdf_verif",
        "enable": "RUSTFLAGS=\"--cfg lopdf_verif\" (set in harness/.cargo/config.toml; the harness crate depends on /repo by path)",
        "baseline_off_cmd": "cd /repo && cargo test --workspace --no-fail-fast --offline",
        "source_commits": commits,
        "add_only": True,
    },
    "engines": [{
        "name": "lean4-model+correspondence", "path": "/verif/lean + /verif/harness + /verif/check",
        "serves_properties": sorted(claimed),
        "kind_free_text": "Lean 4 model and kernel-checked theorems (lake build + #print axioms audit), data regenerated from the Rust source by tools/translate.py, and a Rust differential harness driving the compiled Lean model and the real lopdf on the same generated inputs with an independent property oracle",
    }],
    "checks": checks,
    "not_applicable": [{"property_id": p, "reason": na_reasons.get(p, "check not built yet in this round (see DESIGN.md §9 staging); no other technique substituted")} for p in ALL if p not in claimed],
    "notes": "Every check: regen (translator) -> prove (lake build + axiom audit) -> correspond (model vs implementation) + oracle on the real code -> verdict against known_findings.json. See DESIGN.md.",
}
json.dump(man, open(os.path.join(V, "MANIFEST.json"), "w"), indent=1)
print("MANIFEST.json:", len(checks), "checks,", len(man["not_applicable"]), "not claimed")
