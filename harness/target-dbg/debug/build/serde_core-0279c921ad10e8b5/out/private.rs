#[doc(hidden)]
pub mod __private229 {
    #[doc(hidden)]
    pub use crate::private::*;
}
