#[doc(hidden)]
pub mod __private20 {
    #[doc(hidden)]
    pub use crate::private::*;
}
