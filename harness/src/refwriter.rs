//! Independent reference PDF writer: takes an abstract document and a PRNG and randomises
//! every syntactic choice ISO 32000-1 §7.2–7.5 leaves open (one counter per choice).
//! Shares no code with lopdf's writer. Used by C02, C04, C07, C08.
use crate::rng::Rng;
use lopdf::{Dictionary, Object, StringFormat};
use std::collections::BTreeMap;
use std::io::Write;

pub type Counters = BTreeMap<String, u64>;
fn hit(c: &mut Counters, k: &str) { *c.entry(k.to_string()).or_insert(0) += 1; }

#[derive(Clone, Debug)]
pub struct AObj { pub obj: Object, pub stream: Option<Vec<u8>> }   // stream = Some(data): obj must be a Dictionary (the stream dict without Length)
pub type AObjects = BTreeMap<(u32, u16), AObj>;

#[derive(Clone, Debug)]
pub struct Revision { pub objects: AObjects, pub trailer_extra: Dictionary }

#[derive(Clone, Copy, Debug, PartialEq)]
pub enum XrefStyle { Table, Stream }

#[derive(Clone, Debug)]
pub struct Style {
    pub xref: XrefStyle,
    pub objstm: bool,          // put eligible objects into object streams (needs Stream xref)
    pub compress: bool,        // Flate (+ maybe PNG predictor) on structural streams
    pub indirect_length: bool, // some stream Lengths are references
    pub raw_cr_in_strings: bool, // emit raw CR / CRLF inside literal strings (ISO: read as LF) — F-C02-a territory
    pub junk_before_header: bool,
    pub lexical_freedom: bool, // random white space / comments / escapes / number spellings
}

pub struct W<'a> { pub r: &'a mut Rng, pub c: &'a mut Counters, pub st: Style, pub out: Vec<u8> }

impl<'a> W<'a> {
    fn ws(&mut self) {
        if !self.st.lexical_freedom { self.out.push(b' '); return; }
        match self.r.below(12) {
            0 => { self.out.extend_from_slice(b"\n"); hit(self.c, "ws.lf"); }
            1 => { self.out.extend_from_slice(b"\r\n"); hit(self.c, "ws.crlf"); }
            2 => { self.out.extend_from_slice(b"\r"); hit(self.c, "ws.cr"); }
            3 => { self.out.extend_from_slice(b"\t "); hit(self.c, "ws.tab"); }
            4 => { self.out.extend_from_slice(b" % comment ( [ <<\n"); hit(self.c, "ws.comment"); }
            5 => { self.out.extend_from_slice(b"\x00\x0c "); hit(self.c, "ws.nul_ff"); }
            6 => { self.out.extend_from_slice(b"  "); }
            _ => self.out.push(b' '),
        }
    }
    fn opt_ws(&mut self) { if self.st.lexical_freedom && self.r.chance(1, 3) { self.ws(); } }
    fn eol(&mut self) {
        if !self.st.lexical_freedom { self.out.push(b'\n'); return; }
        match self.r.below(3) { 0 => { self.out.extend_from_slice(b"\r\n"); hit(self.c, "eol.crlf"); } 1 => { self.out.push(b'\r'); hit(self.c, "eol.cr"); } _ => { self.out.push(b'\n'); hit(self.c, "eol.lf"); } }
    }
    fn name(&mut self, n: &[u8]) {
        self.out.push(b'/');
        for &b in n {
            let must = !(33..=126).contains(&b) || b"()<>[]{}/%#".contains(&b);
            if must || (self.st.lexical_freedom && self.r.chance(1, 10)) {
                let up = self.r.chance(1, 2);
                let s = if up { format!("#{:02X}", b) } else { format!("#{:02x}", b) };
                self.out.extend_from_slice(s.as_bytes()); hit(self.c, "name.escape");
            } else { self.out.push(b); }
        }
    }
    fn literal(&mut self, s: &[u8]) {
        self.out.push(b'(');
        // balanced pairs of parentheses may stay raw — decided per PAIR; unmatched ones are escaped.
        // Raw nesting is kept within 50 levels (readers limit it; lopdf accepts 100).
        let mut raw_ok = vec![false; s.len()]; let mut stack: Vec<(usize, bool)> = vec![];
        let free = self.st.lexical_freedom;
        for (i, &b) in s.iter().enumerate() {
            if b == b'(' {
                let raw_depth = stack.iter().filter(|e| e.1).count();
                let raw = raw_depth < 50 && (!free || self.r.chance(2, 3));
                stack.push((i, raw));
            } else if b == b')' { if let Some((j, raw)) = stack.pop() { if raw { raw_ok[i] = true; raw_ok[j] = true; } } }
        }
        // pairs still open at the end are unmatched: their '(' must be escaped
        for (j, _) in stack { raw_ok[j] = false; }
        let mut i = 0;
        while i < s.len() {
            let b = s[i];
            match b {
                b'(' | b')' => {
                    if raw_ok[i] { self.out.push(b); hit(self.c, "lit.raw_paren"); }
                    else { self.out.push(b'\\'); self.out.push(b); hit(self.c, "lit.esc_paren"); }
                }
                b'\\' => { self.out.extend_from_slice(b"\\\\"); hit(self.c, "lit.esc_backslash"); }
                b'\r' => {
                    if self.st.raw_cr_in_strings { self.out.push(b'\r'); hit(self.c, "lit.raw_cr"); }
                    else if free && self.r.chance(1, 2) { self.out.extend_from_slice(b"\\015"); hit(self.c, "lit.octal"); }
                    else { self.out.extend_from_slice(b"\\r"); hit(self.c, "lit.esc_r"); }
                }
                b'\n' => {
                    if free && self.r.chance(1, 2) { self.out.push(b'\n'); hit(self.c, "lit.raw_lf"); }
                    else { self.out.extend_from_slice(b"\\n"); hit(self.c, "lit.esc_n"); }
                }
                _ => {
                    if free && self.r.chance(1, 8) {
                        // octal escape; a short form needs a following non-digit
                        let next_is_digit = s.get(i + 1).map_or(false, |c| c.is_ascii_digit());
                        let short = !next_is_digit && self.r.chance(1, 2);
                        let t = if short { format!("\\{:o}", b) } else { format!("\\{:03o}", b) };
                        self.out.extend_from_slice(t.as_bytes()); hit(self.c, if short { "lit.octal_short" } else { "lit.octal" });
                    } else if free && self.r.chance(1, 12) && matches!(b, 9 | 8 | 12) {
                        self.out.extend_from_slice(match b { 9 => b"\\t", 8 => b"\\b", _ => b"\\f" }); hit(self.c, "lit.esc_tbf");
                    } else { self.out.push(b); }
                    if free && self.r.chance(1, 25) { self.out.extend_from_slice(if self.r.chance(1, 2) { b"\\\n" } else { b"\\\r\n" }); hit(self.c, "lit.line_continuation"); }
                }
            }
            i += 1;
        }
        self.out.push(b')');
    }
    fn hexstr(&mut self, s: &[u8]) {
        self.out.push(b'<');
        let free = self.st.lexical_freedom;
        let lower = free && self.r.chance(1, 2);
        for (i, &b) in s.iter().enumerate() {
            if free && self.r.chance(1, 6) { self.out.extend_from_slice(*self.r.pick(&[&b" "[..], b"\n", b"\r\n", b"\t"])); hit(self.c, "hex.ws"); }
            let last_odd = free && i + 1 == s.len() && b & 0x0f == 0 && self.r.chance(1, 2);
            let t = if lower { format!("{:02x}", b) } else { format!("{:02X}", b) };
            if last_odd { self.out.push(t.as_bytes()[0]); hit(self.c, "hex.odd"); } else { self.out.extend_from_slice(t.as_bytes()); }
            if free && self.r.chance(1, 10) { self.out.push(b' '); }
        }
        self.out.push(b'>');
    }
    fn integer(&mut self, i: i64) {
        if self.st.lexical_freedom && i >= 0 && self.r.chance(1, 6) { self.out.push(b'+'); hit(self.c, "num.plus"); }
        if self.st.lexical_freedom && self.r.chance(1, 8) && i != i64::MIN {
            if i < 0 { self.out.push(b'-'); }
            self.out.extend_from_slice(b"00"); self.out.extend_from_slice(i.unsigned_abs().to_string().as_bytes()); hit(self.c, "num.leading_zeros");
        } else { self.out.extend_from_slice(i.to_string().as_bytes()); }
    }
    fn real(&mut self, f: f32) {
        // decimal spelling without exponent; value must parse back to the same f32
        let mut t = format!("{}", f);
        if !t.contains('.') { if self.st.lexical_freedom && self.r.chance(1, 2) { t.push('.'); hit(self.c, "real.trailing_dot"); } else { t.push_str(".0"); } }
        else if self.st.lexical_freedom && self.r.chance(1, 3) {
            if let Some(rest) = t.strip_prefix("0.") { t = format!(".{}", rest); hit(self.c, "real.leading_dot"); }
            else if let Some(rest) = t.strip_prefix("-0.") { t = format!("-.{}", rest); hit(self.c, "real.leading_dot"); }
            else if self.r.chance(1, 2) { t.push_str("00"); hit(self.c, "real.trailing_zeros"); }
        }
        if self.st.lexical_freedom && f >= 0.0 && !t.starts_with('-') && self.r.chance(1, 8) { t.insert(0, '+'); hit(self.c, "num.plus"); }
        self.out.extend_from_slice(t.as_bytes());
    }
    /// a direct object followed by nothing; callers separate tokens
    pub fn object(&mut self, o: &Object) {
        match o {
            Object::Null => self.out.extend_from_slice(b"null"),
            Object::Boolean(b) => self.out.extend_from_slice(if *b { b"true" } else { b"false" }),
            Object::Integer(i) => self.integer(*i),
            Object::Real(f) => self.real(*f),
            Object::Name(n) => self.name(n),
            Object::String(s, StringFormat::Literal) => self.literal(s),
            Object::String(s, StringFormat::Hexadecimal) => self.hexstr(s),
            Object::Reference((n, g)) => { self.out.extend_from_slice(n.to_string().as_bytes()); self.ws(); self.out.extend_from_slice(g.to_string().as_bytes()); self.ws(); self.out.push(b'R'); }
            Object::Array(a) => { self.out.push(b'['); self.opt_ws(); for x in a { self.object(x); self.ws(); } self.out.push(b']'); }
            Object::Dictionary(d) => self.dict(d),
            Object::Stream(_) => panic!("refwriter: stream inside a direct object"),
        }
    }
    pub fn dict(&mut self, d: &Dictionary) {
        self.out.extend_from_slice(b"<<"); self.opt_ws();
        for (k, v) in d.iter() { self.name(k); self.ws(); self.object(v); self.ws(); }
        self.out.extend_from_slice(b">>");
    }
}

fn flate(data: &[u8]) -> Vec<u8> {
    let mut e = flate2::write::ZlibEncoder::new(Vec::new(), flate2::Compression::default());
    e.write_all(data).unwrap(); e.finish().unwrap()
}
/// PNG predictor encoder over rows of `cols` bytes (bpp = 1): each row gets its own filter type
/// (0 None, 1 Sub, 2 Up, 3 Average, 4 Paeth), chosen by `pick` — written from the PNG specification
fn png_encode(data: &[u8], cols: usize, mut pick: impl FnMut() -> u8) -> Vec<u8> {
    fn paeth(a: i32, b: i32, c: i32) -> i32 { let p = a + b - c; let (pa, pb, pc) = ((p - a).abs(), (p - b).abs(), (p - c).abs()); if pa <= pb && pa <= pc { a } else if pb <= pc { b } else { c } }
    let mut out = vec![]; let mut prev = vec![0u8; cols];
    for row in data.chunks(cols) {
        let mut row = row.to_vec(); row.resize(cols, 0);
        let t = pick();
        out.push(t);
        for i in 0..cols {
            let left = if i >= 1 { row[i - 1] as i32 } else { 0 };
            let up = prev[i] as i32;
            let ul = if i >= 1 { prev[i - 1] as i32 } else { 0 };
            let pred = match t { 0 => 0, 1 => left, 2 => up, 3 => (left + up) / 2, _ => paeth(left, up, ul) };
            out.push((row[i] as i32 - pred) as u8);
        }
        prev = row;
    }
    out
}

/// A structural stream (object stream / cross-reference stream) through a chain of 1..3 filters out of FlateDecode, LZWDecode and
/// ASCII85Decode, a PNG predictor (every row filter) possibly on the innermost Flate / LZW stage, `EarlyChange 0` possibly on an LZW
/// stage; `Filter` as a name or an array, `DecodeParms` as a dictionary, a one-element array, or an array parallel to the filters
/// with `null` for the stages that take no parameters (ISO 32000-1 7.3.8.2, Table 5). Returns the encoded bytes; sets the entries.
fn encode_structural(r: &mut Rng, c: &mut Counters, tag: &str, mut data: Vec<u8>, cols: usize, pad: u8, d: &mut Dictionary) -> Vec<u8> {
    use crate::props::c09::{lzw_encode, ref_a85_encode, A85Style};
    let n = *r.pick(&[1usize, 1, 1, 2, 2, 3]);
    let kinds: Vec<u8> = (0..n).map(|_| *r.pick(&[0u8, 0, 2, 1])).collect();      // 0 Flate, 1 A85, 2 LZW
    let mut parms: Vec<Option<Dictionary>> = vec![None; n];
    let last = n - 1;
    if kinds[last] != 1 && cols > 0 && r.chance(1, 2) {
        while data.len() % cols != 0 { data.push(pad); }
        let mode = r.below(6) as u8;
        let mut types: Vec<u8> = vec![];
        for _ in 0..(data.len() / cols + 1) { types.push(if mode == 5 { r.below(5) as u8 } else { mode }); }
        let mut k = 0;
        data = png_encode(&data, cols, || { let t = types[k % types.len()]; k += 1; t });
        let mut dp = Dictionary::new(); dp.set("Predictor", Object::Integer(10 + mode as i64)); dp.set("Columns", Object::Integer(cols as i64));
        parms[last] = Some(dp); hit(c, &format!("{}.predictor{}", tag, 10 + mode));
    }
    let mut early = vec![true; n];
    for i in 0..n { if kinds[i] == 2 && r.chance(1, 3) { early[i] = false; let mut dp = parms[i].take().unwrap_or_default(); dp.set("EarlyChange", Object::Integer(0)); parms[i] = Some(dp); hit(c, &format!("{}.early_change_0", tag)); } }
    for i in (0..n).rev() {
        data = match kinds[i] {
            0 => flate(&data),
            1 => ref_a85_encode(&data, A85Style { use_z: r.chance(1, 2), wrap: *r.pick(&[0usize, 0, 16, 60]), ws: b'\n', eod: true }),
            _ => lzw_encode(&data, early[i]),
        };
    }
    let names: Vec<Object> = kinds.iter().map(|k| Object::Name(match k { 0 => b"FlateDecode".to_vec(), 1 => b"ASCII85Decode".to_vec(), _ => b"LZWDecode".to_vec() })).collect();
    hit(c, &format!("{}.chain_{}", tag, kinds.iter().map(|k| ["Fl", "A85", "LZW"][*k as usize]).collect::<Vec<_>>().join("+")));
    if n == 1 && r.chance(1, 2) { d.set("Filter", names[0].clone()); } else { d.set("Filter", Object::Array(names)); hit(c, &format!("{}.filter_array", tag)); }
    let any = parms.iter().any(|p| p.is_some());
    if n == 1 {
        if let Some(p) = parms[0].clone() { if r.chance(1, 2) { d.set("DecodeParms", Object::Dictionary(p)); } else { d.set("DecodeParms", Object::Array(vec![Object::Dictionary(p)])); hit(c, &format!("{}.parms_array1", tag)); } }
    } else if any || r.chance(1, 4) {
        d.set("DecodeParms", Object::Array(parms.iter().map(|p| match p { Some(p) => Object::Dictionary(p.clone()), None => Object::Null }).collect()));
        hit(c, &format!("{}.parms_array_with_null", tag));
        if any && parms.iter().filter(|p| p.is_none()).count() > 0 && kinds.iter().zip(parms.iter()).any(|(k, p)| *k != 1 && p.is_none()) { hit(c, &format!("{}.null_parms_on_flate_or_lzw_next_to_a_dictionary", tag)); }
    }
    data
}

thread_local! {
    /// helper object numbers (lengths, containers, cross-reference streams) that the last `write_file*` call on this thread
    /// took from the gaps BELOW the highest object number (read by `compare_abstract`)
    pub static LOW_HELPER_IDS: std::cell::RefCell<Vec<u32>> = std::cell::RefCell::new(vec![]);
}

pub struct Written { pub bytes: Vec<u8>, pub startxrefs: Vec<usize>, pub containers: Vec<u32> }

/// write revisions[0] as the base file and each later revision as an appended update
pub fn write_file(r: &mut Rng, c: &mut Counters, style: &Style, version: &str, revisions: &[Revision]) -> Written {
    write_file_with(r, c, style, version, revisions, &|_| true)
}

/// `objstm_in(ri)`: whether revision `ri` may use object streams (when the style has them)
pub fn write_file_with(r: &mut Rng, c: &mut Counters, style: &Style, version: &str, revisions: &[Revision], objstm_in: &dyn Fn(usize) -> bool) -> Written {
    let mut out: Vec<u8> = vec![];
    if style.junk_before_header {
        // short prefixes, and every third time a LONG one around 1 KiB (readers that look for the header only in the first 1024 bytes
        // and writers that do so when they re-base offsets disagree exactly there)
        if r.chance(1, 3) {
            let n = *r.pick(&[1019usize, 1020, 1023, 1024, 1025, 2048, 4999]);
            let mut j = vec![b'#'; n - 1]; j.push(b'\n'); out.extend_from_slice(&j); hit(c, "file.junk_before_header.long");
        } else { out.extend_from_slice(*r.pick(&[&b"\xef\xbb\xbf"[..], b"junk line\n", b"\n\n", b"%!PS-Adobe\n"])); }
        hit(c, "file.junk_before_header");
    }
    // offsets are relative to the start of the header (bytes before it do not count)
    let base = out.len();
    out.extend_from_slice(format!("%PDF-{}", version).as_bytes());
    out.extend_from_slice(if style.lexical_freedom { *r.pick(&[&b"\n"[..], b"\r\n"]) } else { b"\n" });
    out.extend_from_slice(b"%\xe2\xe3\xcf\xd3\n");
    let mut all_ids: BTreeMap<u32, ()> = BTreeMap::new();
    let mut prev_startxref: Option<usize> = None;
    let mut startxrefs = vec![]; let mut containers = vec![];
    let mut max_num: u32 = 0;
    for rev in revisions { for (n, _) in rev.objects.keys() { max_num = max_num.max(*n); } }
    let mut next_free = max_num + 1;   // numbers for helper objects (lengths, containers, xref streams)
    // numbers below the highest object number that no revision uses: half of the files take helper numbers from here first,
    // so that the HIGHEST number of the file may belong to an ordinary object or to a member of an object stream
    let mut low_free: Vec<u32> = { let used: std::collections::BTreeSet<u32> = revisions.iter().flat_map(|rv| rv.objects.keys().map(|k| k.0)).collect(); (1..max_num).filter(|n| !used.contains(n)).collect() };
    let use_low = style.xref == XrefStyle::Stream && r.chance(1, 2);
    if !use_low { low_free.clear(); } else { r.shuffle(&mut low_free); if !low_free.is_empty() { hit(c, "file.helper_numbers_below_max"); } }
    LOW_HELPER_IDS.with(|l| l.borrow_mut().clear());
    macro_rules! alloc { () => {{ if let Some(v) = low_free.pop() { LOW_HELPER_IDS.with(|l| l.borrow_mut().push(v)); v } else { let v = next_free; next_free += 1; v } }}; }
    for (ri, rev) in revisions.iter().enumerate() {
        if ri > 0 { if style.lexical_freedom && r.chance(1, 2) { out.push(b'\n'); } hit(c, "file.update_revision"); }
        // entries of this revision: num -> (kind, a, b): 1 = offset/gen, 2 = container/index
        let mut entries: BTreeMap<u32, (u8, u64, u64)> = BTreeMap::new();
        let mut ids: Vec<(u32, u16)> = rev.objects.keys().cloned().collect();
        if style.lexical_freedom { r.shuffle(&mut ids); hit(c, "file.object_order_shuffled"); }
        // choose members of object streams
        let mut in_stm: Vec<(u32, u16)> = vec![];
        if style.objstm && style.xref == XrefStyle::Stream && objstm_in(ri) {
            for id in &ids { let a = &rev.objects[id]; if id.1 == 0 && a.stream.is_none() && r.chance(2, 3) { in_stm.push(*id); } }
        }
        let mut pending_lengths: Vec<(u32, i64)> = vec![];
        for id in &ids {
            if in_stm.contains(id) { continue; }
            let a = &rev.objects[id];
            all_ids.insert(id.0, ());
            if style.lexical_freedom && r.chance(1, 5) { out.extend_from_slice(b"% between objects\n"); }
            entries.insert(id.0, (1, (out.len() - base) as u64, id.1 as u64));
            let mut w = W { r, c, st: style.clone(), out: std::mem::take(&mut out) };
            w.out.extend_from_slice(id.0.to_string().as_bytes()); w.ws(); w.out.extend_from_slice(id.1.to_string().as_bytes()); w.ws(); w.out.extend_from_slice(b"obj"); w.ws();
            match &a.stream {
                None => { w.object(&a.obj); w.ws(); }
                Some(data) => {
                    let mut d = a.obj.as_dict().expect("stream dict").clone();
                    if style.indirect_length && w.r.chance(1, 2) {
                        // two streams of equal length may legally share one Length object
                        let shared = pending_lengths.iter().find(|(_, l)| *l == data.len() as i64).map(|(id, _)| *id).filter(|_| w.r.chance(1, 2));
                        let lid = match shared { Some(id) => { hit(w.c, "stream.indirect_length_shared"); id } None => { let id = alloc!(); pending_lengths.push((id, data.len() as i64)); id } };
                        d.set("Length", Object::Reference((lid, 0))); hit(w.c, "stream.indirect_length");
                    } else { d.set("Length", Object::Integer(data.len() as i64)); }
                    w.dict(&d); w.opt_ws();
                    w.out.extend_from_slice(b"stream");
                    if w.st.lexical_freedom && w.r.chance(1, 2) { w.out.extend_from_slice(b"\r\n"); hit(w.c, "stream.crlf"); } else { w.out.push(b'\n'); }
                    w.out.extend_from_slice(data);
                    match if w.st.lexical_freedom { w.r.below(3) } else { 0 } { 0 => w.out.push(b'\n'), 1 => { w.out.extend_from_slice(b"\r\n"); hit(w.c, "stream.eol_crlf_before_endstream"); } _ => { hit(w.c, "stream.no_eol_before_endstream"); } }
                    w.out.extend_from_slice(b"endstream"); w.ws();
                }
            }
            w.out.extend_from_slice(b"endobj"); w.eol();
            out = w.out;
        }
        // the integers that indirect Lengths point to: plain objects, or (legal and unusual) members of an object stream of their own
        let lengths_in_stm = !pending_lengths.is_empty() && style.objstm && style.xref == XrefStyle::Stream && objstm_in(ri) && r.chance(1, 2);
        if lengths_in_stm {
            let cid = alloc!(); containers.push(cid);
            let mut body: Vec<u8> = vec![]; let mut index = String::new();
            for (k, (lid, len)) in pending_lengths.iter().enumerate() {
                index.push_str(&format!("{} {} ", lid, body.len()));
                body.extend_from_slice(format!("{} ", len).as_bytes());
                entries.insert(*lid, (2, cid as u64, k as u64));
            }
            let first = index.len();
            let mut content = index.into_bytes(); content.extend_from_slice(&body);
            entries.insert(cid, (1, (out.len() - base) as u64, 0));
            out.extend_from_slice(format!("{} 0 obj\n<< /Type /ObjStm /N {} /First {} /Length {} >>\nstream\n", cid, pending_lengths.len(), first, content.len()).as_bytes());
            out.extend_from_slice(&content); out.extend_from_slice(b"\nendstream\nendobj\n");
            hit(c, "stream.indirect_length_in_objstm");
        } else {
            for (lid, len) in pending_lengths {
                entries.insert(lid, (1, (out.len() - base) as u64, 0));
                out.extend_from_slice(format!("{} 0 obj\n{}\nendobj\n", lid, len).as_bytes());
            }
        }
        // object streams
        if !in_stm.is_empty() {
            let per = 1 + r.usize(in_stm.len());
            for chunk in in_stm.chunks(per) {
                let cid = alloc!(); containers.push(cid);
                let mut body: Vec<u8> = vec![]; let mut index = String::new();
                for (k, id) in chunk.iter().enumerate() {
                    index.push_str(&format!("{} {} ", id.0, body.len()));
                    let mut w = W { r, c, st: style.clone(), out: vec![] };
                    w.object(&rev.objects[id].obj); w.out.push(if w.r.chance(1, 2) { b'\n' } else { b' ' });
                    body.extend_from_slice(&w.out);
                    entries.insert(id.0, (2, cid as u64, k as u64));
                }
                let first = index.len();
                let mut content = index.into_bytes(); content.extend_from_slice(&body);
                let mut d = Dictionary::new();
                d.set("Type", Object::Name(b"ObjStm".to_vec())); d.set("N", Object::Integer(chunk.len() as i64)); d.set("First", Object::Integer(first as i64));
                if style.compress {
                    if r.chance(1, 2) { content = flate(&content); d.set("Filter", Object::Name(b"FlateDecode".to_vec())); hit(c, "objstm.flate"); }
                    else { let cols = 1 + r.usize(8); content = encode_structural(r, c, "objstm", content, cols, b' ', &mut d); }
                }
                d.set("Length", Object::Integer(content.len() as i64));
                entries.insert(cid, (1, (out.len() - base) as u64, 0));
                out.extend_from_slice(format!("{} 0 obj\n", cid).as_bytes());
                let mut w = W { r, c, st: Style { lexical_freedom: false, ..style.clone() }, out: std::mem::take(&mut out) };
                w.dict(&d); out = w.out;
                out.extend_from_slice(b"\nstream\n"); out.extend_from_slice(&content); out.extend_from_slice(b"\nendstream\nendobj\n");
                hit(c, "objstm.container");
            }
        }
        // cross-reference section
        let mut trailer = rev.trailer_extra.clone();
        let xref_pos = out.len() - base;
        match style.xref {
            XrefStyle::Table => {
                let size = next_free.max(max_num + 1);
                trailer.set("Size", Object::Integer(size as i64));
                if let Some(p) = prev_startxref { trailer.set("Prev", Object::Integer(p as i64)); }
                out.extend_from_slice(b"xref"); out.extend_from_slice(if style.lexical_freedom && r.chance(1, 2) { b"\r\n" } else { b"\n" });
                // subsections: maximal runs, randomly split; object 0 free entry in the base revision
                let mut nums: Vec<u32> = entries.keys().cloned().collect();
                if ri == 0 { nums.insert(0, 0); }
                let mut i = 0;
                while i < nums.len() {
                    let mut j = i + 1;
                    while j < nums.len() && nums[j] == nums[j - 1] + 1 && !(style.lexical_freedom && r.chance(1, 5)) { j += 1; }
                    if j - i < nums.len() { hit(c, "xref.multi_subsection"); }
                    out.extend_from_slice(format!("{} {}", nums[i], j - i).as_bytes());
                    out.extend_from_slice(if style.lexical_freedom && r.chance(1, 3) { b"\r\n" } else { b"\n" });
                    for n in &nums[i..j] {
                        let line = if *n == 0 { "0000000000 65535 f".to_string() } else { let (_, off, g) = entries[n]; format!("{:010} {:05} n", off, g) };
                        out.extend_from_slice(line.as_bytes());
                        out.extend_from_slice(if style.lexical_freedom { *r.pick(&[&b" \n"[..], b" \r", b"\r\n"]) } else { b" \n" });
                    }
                    i = j;
                }
                out.extend_from_slice(b"trailer"); 
                let mut w = W { r, c, st: style.clone(), out: std::mem::take(&mut out) };
                w.ws(); w.dict(&trailer); w.eol(); out = w.out;
                hit(c, "xref.table");
            }
            XrefStyle::Stream => {
                // occasionally a row of an UNDEFINED type (Table 18: a reference to the null object) for a number no revision
                // uses — below the other numbers where the ids are sparse, so that the rows after it depend on its being
                // skipped as a whole (the arm repaired by lopdf e3a88e7, former finding F-C02-b)
                if style.lexical_freedom && r.chance(1, 4) {
                    let mut used: std::collections::BTreeSet<u32> = std::collections::BTreeSet::new();
                    for rv in revisions { for (n, _) in rv.objects.keys() { used.insert(*n); } }
                    LOW_HELPER_IDS.with(|l| for v in l.borrow().iter() { used.insert(*v); });
                    for v in &low_free { used.insert(*v); }   // numbers a later revision may still take for its helpers
                    let free: Vec<u32> = (1..=max_num).filter(|n| !used.contains(n)).collect();
                    let uid = if free.is_empty() { let u = next_free; next_free += 1; u } else { *r.pick(&free) };
                    let t = 3 + r.below(253) as u8;
                    let b = if r.chance(1, 2) { 0 } else { r.below(100) };
                    entries.insert(uid, (t, r.below(1000), b));
                    hit(c, "xrefstm_unknown_row");
                }
                let xid = alloc!();
                entries.insert(xid, (1, xref_pos as u64, 0));
                let size = next_free.max(max_num + 1);
                // widths: enough for the largest values, randomly wider
                let maxf2 = entries.values().map(|e| e.1).max().unwrap_or(0);
                let maxf3 = entries.values().map(|e| e.2).max().unwrap_or(0);
                let need = |v: u64| -> usize { let mut n = 1; while n < 8 && v >= (1u64 << (8 * n)) { n += 1; } n };
                let w2 = (need(maxf2) + if style.lexical_freedom { *r.pick(&[0usize, 0, 1, 2, 3, 4, 5, 6]) } else { 0 }).min(8);
                if w2 > 4 { hit(c, "xrefstm.field2_wider_than_4"); }
                let w3 = if maxf3 == 0 && style.lexical_freedom && r.chance(1, 3) { hit(c, "xrefstm.w3_zero"); 0 } else { (need(maxf3) + if style.lexical_freedom { *r.pick(&[0usize, 0, 1, 3, 5]) } else { 0 }).min(8) };
                if w3 > 4 { hit(c, "xrefstm.field3_wider_than_4"); }
                let all_type1 = entries.values().all(|e| e.0 == 1) && ri > 0;
                let w1 = if all_type1 && style.lexical_freedom && r.chance(1, 2) { hit(c, "xrefstm.w1_zero"); 0 } else { 1 };
                let mut nums: Vec<u32> = entries.keys().cloned().collect();
                if ri == 0 && w1 > 0 { nums.insert(0, 0); }
                let mut index: Vec<Object> = vec![]; let mut content: Vec<u8> = vec![];
                let mut i = 0;
                while i < nums.len() {
                    let mut j = i + 1;
                    while j < nums.len() && nums[j] == nums[j - 1] + 1 && !(style.lexical_freedom && r.chance(1, 6)) { j += 1; }
                    index.push(Object::Integer(nums[i] as i64)); index.push(Object::Integer((j - i) as i64));
                    for n in &nums[i..j] {
                        let (t, a, b) = if *n == 0 { (0u8, 0u64, 65535u64) } else { entries[n] };
                        let b = if *n == 0 && w3 < 2 { 0 } else { b };
                        if w1 > 0 { content.push(t); }
                        content.extend_from_slice(&a.to_be_bytes()[8 - w2..]);
                        if w3 > 0 { content.extend_from_slice(&b.to_be_bytes()[8 - w3..]); }
                    }
                    i = j;
                }
                let default_index = index.len() == 2 && index[0] == Object::Integer(0) && index[1] == Object::Integer(size as i64);
                trailer.set("Type", Object::Name(b"XRef".to_vec()));
                trailer.set("Size", Object::Integer(size as i64));
                trailer.set("W", Object::Array(vec![Object::Integer(w1 as i64), Object::Integer(w2 as i64), Object::Integer(w3 as i64)]));
                if !(default_index && r.chance(1, 2)) { trailer.set("Index", Object::Array(index)); } else { hit(c, "xrefstm.default_index"); }
                if let Some(p) = prev_startxref { trailer.set("Prev", Object::Integer(p as i64)); }
                if style.compress && r.chance(1, 3) {
                    content = encode_structural(r, c, "xrefstm", content, w1 + w2 + w3, 0, &mut trailer);
                } else if style.compress {
                    let cols = w1 + w2 + w3;
                    if r.chance(1, 2) {
                        // every PNG row filter; Predictor 10..15 all read the per-row type byte
                        let mode = r.below(6) as u8;
                        let mut types: Vec<u8> = vec![];
                        for _ in 0..(content.len() / cols.max(1) + 1) { types.push(if mode == 5 { r.below(5) as u8 } else { mode }); }
                        let mut k = 0;
                        content = flate(&png_encode(&content, cols, || { let t = types[k % types.len()]; k += 1; t }));
                        let mut dp = Dictionary::new(); dp.set("Predictor", Object::Integer(10 + mode as i64)); dp.set("Columns", Object::Integer(cols as i64));
                        trailer.set("DecodeParms", Object::Dictionary(dp)); hit(c, &format!("xrefstm.flate_predictor{}", 10 + mode));
                    } else { content = flate(&content); hit(c, "xrefstm.flate"); }
                    trailer.set("Filter", Object::Name(b"FlateDecode".to_vec()));
                }
                trailer.set("Length", Object::Integer(content.len() as i64));
                out.extend_from_slice(format!("{} 0 obj\n", xid).as_bytes());
                let mut w = W { r, c, st: Style { lexical_freedom: false, ..style.clone() }, out: std::mem::take(&mut out) };
                w.dict(&trailer); out = w.out;
                out.extend_from_slice(b"\nstream\n"); out.extend_from_slice(&content); out.extend_from_slice(b"\nendstream\nendobj\n");
                hit(c, &format!("xrefstm.W_{}_{}_{}", w1, w2.min(9), w3));
            }
        }
        out.extend_from_slice(b"startxref\n"); out.extend_from_slice(xref_pos.to_string().as_bytes()); out.extend_from_slice(b"\n%%EOF");
        if style.lexical_freedom || ri + 1 < revisions.len() { out.extend_from_slice(*r.pick(&[&b"\n"[..], b"\r\n", b""])); }
        startxrefs.push(xref_pos);
        prev_startxref = Some(xref_pos);
    }
    Written { bytes: out, startxrefs, containers }
}
