//! Process isolation for cases that may abort, overflow the stack or hang.
//! Parent: `run_isolated(prop, cases, timeout)`; child: `vharness worker <prop>` reads one
//! case per line on stdin and answers `<idx> <outcome…>` per case, flushing after each.
use std::io::{BufRead, BufReader, Write};
use std::process::{Command, Stdio};
use std::sync::mpsc;
use std::time::Duration;

pub fn worker_main(args: &[String]) {
    crate::ctx::install_panic_hook();
    let prop = args.get(0).cloned().unwrap_or_default();
    let stdin = std::io::stdin();
    let stdout = std::io::stdout();
    for line in stdin.lock().lines() {
        let line = match line { Ok(l) => l, Err(_) => break };
        let (idx, case) = line.split_once(' ').unwrap_or((&line, ""));
        let reply = match crate::ctx::guard(|| crate::props::worker_case(&prop, case)) {
            Ok(r) => r,
            Err((site, msg)) => format!("panic {} {}", site, msg.replace('\n', " ")),
        };
        let mut o = stdout.lock();
        let _ = writeln!(o, "{} {}", idx, reply);
        let _ = o.flush();
    }
}

/// Outcome per case: the worker's reply, or `abort <signal/code>` / `timeout`.
/// A `timeout` is only reported after the case, run again ALONE with six times the limit (at least 20 s),
/// still does not answer: a slow machine (other builds running) must not look like a hang. After two
/// confirmed hangs no further confirmation is made (the code under test really hangs).
pub fn run_isolated(prop: &str, cases: &[String], timeout_ms: u64, mem_mb: u64) -> Vec<String> {
    use std::sync::atomic::Ordering::Relaxed;
    let mut out = run_isolated_once(prop, cases, timeout_ms, mem_mb);
    for i in 0..out.len() {
        // once two timeouts have been confirmed as real hangs in this process, the code under test hangs
        // for real: further confirmations would only cost time
        if out[i] == "timeout" && CONFIRMED_HANGS.load(Relaxed) < 2 {
            let again = run_isolated_once(prop, &cases[i..i + 1], (timeout_ms * 6).max(20_000), mem_mb);
            if let Some(r) = again.into_iter().next() {
                if r != "timeout" { SLOW_CASES.fetch_add(1, Relaxed); } else { CONFIRMED_HANGS.fetch_add(1, Relaxed); }
                out[i] = r;
            }
        }
    }
    out
}
static CONFIRMED_HANGS: std::sync::atomic::AtomicU64 = std::sync::atomic::AtomicU64::new(0);
/// cases that exceeded the per-case limit in the batch but answered when run alone
pub static SLOW_CASES: std::sync::atomic::AtomicU64 = std::sync::atomic::AtomicU64::new(0);

fn run_isolated_once(prop: &str, cases: &[String], timeout_ms: u64, mem_mb: u64) -> Vec<String> {
    let exe = std::env::current_exe().expect("exe");
    let mut out: Vec<String> = Vec::with_capacity(cases.len());
    let mut next = 0usize;
    while next < cases.len() {
        // (re)start a worker for cases[next..]
        let mut child = Command::new("/bin/sh")
            .arg("-c")
            // 2 MiB = the default stack of a spawned Rust thread; the dev profile's frames are several times larger
            // (the unchanged parser needs about 3 MiB for its own 128-level limit there), so it gets 16 MiB
            .arg(format!("ulimit -v {}; ulimit -s {}; exec \"$0\" worker {}", mem_mb * 1024, if cfg!(debug_assertions) { 16384 } else { 2048 }, prop))
            .arg(&exe)
            .stdin(Stdio::piped()).stdout(Stdio::piped()).stderr(Stdio::null())
            .spawn().expect("spawn worker");
        let mut stdin = child.stdin.take().unwrap();
        let stdout = child.stdout.take().unwrap();
        let (tx, rx) = mpsc::channel::<String>();
        let reader = std::thread::spawn(move || {
            for l in BufReader::new(stdout).lines() { if let Ok(l) = l { if tx.send(l).is_err() { break; } } else { break; } }
        });
        let mut dead = false;
        while next < cases.len() && !dead {
            if writeln!(stdin, "{} {}", next, cases[next]).and_then(|_| stdin.flush()).is_err() {
                // worker died before accepting the case
                dead = true;
            }
            if !dead {
                let mut disconnected = false;
                match rx.recv_timeout(Duration::from_millis(timeout_ms)) {
                    Ok(l) => {
                        let (_i, r) = l.split_once(' ').unwrap_or(("", ""));
                        out.push(r.to_string()); next += 1; continue;
                    }
                    Err(mpsc::RecvTimeoutError::Timeout) => {
                        let _ = child.kill(); let _ = child.wait();
                        out.push("timeout".into()); next += 1; dead = true;
                    }
                    Err(mpsc::RecvTimeoutError::Disconnected) => { dead = true; disconnected = true; }
                }
                // (a timeout has pushed its own outcome above; only a worker that died by itself is reported here —
                //  testing `out.len() == next` also held after a timeout and marked the FOLLOWING case `abort signal9` unrun)
                if disconnected {
                    // disconnected without reply: the worker died on this case
                    let st = child.wait().ok();
                    let code = st.map(|s| {
                        use std::os::unix::process::ExitStatusExt;
                        if let Some(sig) = s.signal() { format!("signal{}", sig) } else { format!("exit{}", s.code().unwrap_or(-1)) }
                    }).unwrap_or("?".into());
                    out.push(format!("abort {}", code)); next += 1;
                }
            } else {
                let st = child.wait().ok();
                let code = st.map(|s| {
                    use std::os::unix::process::ExitStatusExt;
                    if let Some(sig) = s.signal() { format!("signal{}", sig) } else { format!("exit{}", s.code().unwrap_or(-1)) }
                }).unwrap_or("?".into());
                out.push(format!("abort {}", code)); next += 1;
            }
        }
        drop(stdin);
        let _ = child.kill(); let _ = child.wait();
        let _ = reader.join();
    }
    out
}
