//! Strict structural reader (C03): follows ONLY the file structure — header, startxref,
//! cross-reference table / stream, `n g obj` headers at the recorded offsets, stream Lengths —
//! rejects on any inconsistency and accounts for every byte. Independent of lopdf's parser.
use crate::refparse::P;
use lopdf::{Dictionary, Object};
use std::collections::BTreeMap;

pub struct StrictDoc {
    pub version: Vec<u8>,
    pub objects: BTreeMap<(u32, u16), Object>,
    pub trailer: Dictionary,
    pub revisions: usize,
    pub xref_stream_ids: Vec<u32>,
}

type Seg = (usize, usize, &'static str);

fn eol_len(b: &[u8], i: usize) -> Option<usize> {
    if b[i.min(b.len())..].starts_with(b"\r\n") { Some(2) } else if matches!(b.get(i), Some(b'\n') | Some(b'\r')) { Some(1) } else { None }
}
fn digits_at(b: &[u8], i: usize) -> Option<(u64, usize)> {
    let mut j = i; while matches!(b.get(j), Some(c) if c.is_ascii_digit()) { j += 1; }
    if j == i || j - i > 19 { return None; }
    Some((std::str::from_utf8(&b[i..j]).ok()?.parse().ok()?, j))
}
fn rule<T>(r: &str) -> Result<T, String> { Err(r.to_string()) }

/// parse the object at `off`: header must be exactly `num gen obj` EOL. Returns (object, end offset)
fn object_at(b: &[u8], off: usize, num: u32, gen: u16, lengths: &dyn Fn((u32, u16)) -> Option<i64>) -> Result<(Object, usize), String> {
    let hdr = format!("{} {} obj", num, gen);
    if !b[off.min(b.len())..].starts_with(hdr.as_bytes()) { return rule("entry offset is not at the object's own `n g obj` header"); }
    let mut i = off + hdr.len();
    i += eol_len(b, i).ok_or("no EOL after `obj`")?;
    let mut p = P::new(b, i);
    let obj = p.object().ok_or("object body does not parse")?;
    let mut i = p.i;
    let obj = if let Object::Dictionary(d) = &obj {
        // stream?
        let mut q = P::new(b, i); q.skip_ws();
        if q.starts(b"stream") {
            if q.i != i { return rule("white space between stream dictionary and `stream`"); }
            let mut j = i + 6;
            // `stream` must be followed by CRLF or LF (not CR alone)
            if b[j..].starts_with(b"\r\n") { j += 2 } else if b.get(j) == Some(&b'\n') { j += 1 } else { return rule("`stream` not followed by LF or CRLF"); }
            let len = match d.get(b"Length") { Ok(Object::Integer(n)) => *n, Ok(Object::Reference(id)) => lengths(*id).ok_or("indirect Length unresolved")?, _ => return rule("stream without Length") };
            if len < 0 || j + len as usize > b.len() { return rule("stream Length out of range"); }
            let content = b[j..j + len as usize].to_vec();
            let mut k = j + len as usize;
            if let Some(n) = eol_len(b, k) { k += n; }
            if !b[k..].starts_with(b"endstream") { return rule("stream Length does not match the bytes between `stream` EOL and `endstream`"); }
            i = k + 9;
            Object::Stream(lopdf::Stream { dict: d.clone(), content, allows_compression: true, start_position: None })
        } else { obj }
    } else { obj };
    let mut q = P::new(b, i);
    while matches!(q.peek(), Some(c) if crate::refparse::is_ws(c)) { q.i += 1; }
    if !q.eat(b"endobj") { return rule("missing `endobj`"); }
    let mut e = q.i;
    e += eol_len(b, e).ok_or("no EOL after `endobj`")?;
    Ok((obj, e))
}

struct Rev { entries: BTreeMap<u32, (usize, u16)>, trailer: Dictionary, seg: Seg, prev: Option<usize>, size: i64, xref_stream_id: Option<u32> }

/// the cross-reference section at `x`; `tail` = offset of the `\nstartxref` that must follow
fn xref_section(b: &[u8], x: usize) -> Result<Rev, String> {
    let mut entries = BTreeMap::new();
    if b[x.min(b.len())..].starts_with(b"xref") {
        let mut i = x + 4;
        i += eol_len(b, i).ok_or("no EOL after `xref`")?;
        let mut subsections = 0;
        while matches!(b.get(i), Some(c) if c.is_ascii_digit()) {
            let (start, j) = digits_at(b, i).ok_or("bad subsection header")?;
            if b.get(j) != Some(&b' ') { return rule("bad subsection header"); }
            let (count, k) = digits_at(b, j + 1).ok_or("bad subsection header")?;
            i = k + eol_len(b, k).ok_or("bad subsection header EOL")?;
            for n in 0..count {
                let e = b.get(i..i + 20).ok_or("truncated xref entry")?;
                let ok = e[..10].iter().all(u8::is_ascii_digit) && e[10] == b' ' && e[11..16].iter().all(u8::is_ascii_digit) && e[16] == b' '
                    && (e[17] == b'n' || e[17] == b'f') && (&e[18..] == b" \n" || &e[18..] == b" \r" || &e[18..] == b"\r\n");
                if !ok { return rule("xref table entry is not 20 bytes of the form `dddddddddd ddddd [nf] EOL`"); }
                if e[17] == b'n' {
                    let off: usize = std::str::from_utf8(&e[..10]).unwrap().parse().unwrap();
                    let gen: u32 = std::str::from_utf8(&e[11..16]).unwrap().parse().unwrap();
                    if gen > 65535 { return rule("generation > 65535"); }
                    if entries.insert((start + n) as u32, (off, gen as u16)).is_some() { return rule("object number listed twice in one section"); }
                }
                i += 20;
            }
            subsections += 1;
        }
        if subsections == 0 { return rule("xref table without subsections"); }
        if !b[i..].starts_with(b"trailer") { return rule("`trailer` does not follow the last subsection"); }
        let mut p = P::new(b, i + 7); p.skip_ws();
        let trailer = p.dict().ok_or("trailer dictionary does not parse")?;
        let size = match trailer.get(b"Size") { Ok(Object::Integer(n)) => *n, _ => return rule("trailer without Size") };
        let prev = match trailer.get(b"Prev") { Ok(Object::Integer(n)) if *n >= 0 => Some(*n as usize), Ok(_) => return rule("bad Prev"), Err(_) => None };
        Ok(Rev { entries, trailer, seg: (x, p.i, "xref table + trailer"), prev, size, xref_stream_id: None })
    } else {
        // cross-reference stream: `n g obj` whose object is a /Type /XRef stream
        let (num, j) = digits_at(b, x).ok_or("startxref points neither at `xref` nor at an object header")?;
        let (gen, _) = digits_at(b, j + 1).ok_or("startxref points at no object header")?;
        let (obj, end) = object_at(b, x, num as u32, gen as u16, &|_| None)?;
        let st = match obj { Object::Stream(s) => s, _ => return rule("startxref object is not a stream") };
        if !st.dict.has_type(b"XRef") { return rule("startxref object is not /Type /XRef") }
        if st.dict.has(b"Filter") { return rule("strict reader: filtered xref stream not supported") }
        let ints = |k: &[u8]| -> Option<Vec<i64>> { st.dict.get(k).ok()?.as_array().ok()?.iter().map(|o| o.as_i64().ok()).collect() };
        let w = ints(b"W").ok_or("xref stream without W")?;
        if w.len() != 3 || w.iter().any(|x| *x < 0 || *x > 8) { return rule("bad W") }
        let size = match st.dict.get(b"Size") { Ok(Object::Integer(n)) => *n, _ => return rule("xref stream without Size") };
        let index = ints(b"Index").unwrap_or(vec![0, size]);
        if index.len() % 2 != 0 || index.iter().any(|x| *x < 0) { return rule("bad Index") }
        let rowlen: i64 = w.iter().sum();
        let rows: i64 = index.chunks(2).map(|c| c[1]).sum();
        if rows * rowlen != st.content.len() as i64 { return rule("W, Index and Length are inconsistent (Length != rows * row width)") }
        let mut pos = 0usize;
        let field = |pos: &mut usize, n: i64, default: u64| -> u64 { if n == 0 { return default; } let mut v = 0u64; for _ in 0..n { v = v << 8 | st.content[*pos] as u64; *pos += 1; } v };
        for c in index.chunks(2) {
            for k in 0..c[1] {
                let t = field(&mut pos, w[0], 1); let f2 = field(&mut pos, w[1], 0); let f3 = field(&mut pos, w[2], 0);
                match t {
                    1 => { if f3 > 65535 { return rule("generation > 65535") } if entries.insert((c[0] + k) as u32, (f2 as usize, f3 as u16)).is_some() { return rule("object number listed twice in one section") } }
                    0 => {}
                    2 => return rule("strict reader: compressed entries not expected in files written by lopdf"),
                    _ => return rule("unknown xref entry type"),
                }
            }
        }
        let prev = match st.dict.get(b"Prev") { Ok(Object::Integer(n)) if *n >= 0 => Some(*n as usize), Ok(_) => return rule("bad Prev"), Err(_) => None };
        match entries.get(&(num as u32)) { Some((o, _)) if *o == x => {}, _ => return rule("xref stream does not list itself at its own offset") }
        Ok(Rev { entries, trailer: st.dict.clone(), seg: (x, end, "xref stream object"), prev, size, xref_stream_id: Some(num as u32) })
    }
}

/// strict load of a file with one or more revisions (each revision as lopdf writes it)
pub fn strict_load(b: &[u8]) -> Result<StrictDoc, String> {
    let mut segs: Vec<Seg> = vec![];
    // --- tail of the newest revision
    if !b.ends_with(b"\n%%EOF") { return rule("file does not end with `%%EOF`"); }
    let mut end = b.len();
    let mut objects: BTreeMap<(u32, u16), Object> = BTreeMap::new();
    let mut seen_nums: BTreeMap<u32, usize> = BTreeMap::new();
    let mut trailer: Option<Dictionary> = None;
    let mut revisions = 0; let mut xref_stream_ids = vec![];
    let mut expected_x: Option<usize> = None;
    let mut version = vec![];
    let mut newest_size: Option<i64> = None;
    loop {
        // `\nstartxref\n<digits>\n%%EOF` ends this revision at `end`
        let tail_eof = end - 6;
        let mut j = tail_eof; while j > 0 && b[j - 1].is_ascii_digit() { j -= 1; }
        if j == tail_eof { return rule("no offset before %%EOF"); }
        let x: usize = std::str::from_utf8(&b[j..tail_eof]).unwrap().parse().map_err(|_| "startxref offset")?;
        if j < 11 || &b[j - 11..j] != b"\nstartxref\n" { return rule("`startxref` keyword missing before the offset"); }
        let tail_start = j - 11;
        if let Some(e) = expected_x { if e != x { return rule("Prev does not equal the previous revision's startxref"); } }
        if x >= tail_start { return rule("startxref beyond the cross-reference section"); }
        let rev = xref_section(b, x)?;
        if rev.seg.1 != tail_start { return rule("bytes between cross-reference section and `startxref`"); }
        segs.push(rev.seg); segs.push((tail_start, end, "startxref … %%EOF"));
        if let Some(id) = rev.xref_stream_id { xref_stream_ids.push(id); }
        // objects of this revision
        let lens: BTreeMap<u32, (usize, u16)> = rev.entries.clone();
        // the Size a reader uses is the newest trailer's: it has to exceed every object number of the WHOLE file
        let file_size = *newest_size.get_or_insert(rev.size);
        for (num, (off, gen)) in rev.entries.iter() {
            if (*num as i64) >= rev.size { return rule("Size does not exceed every object number"); }
            if (*num as i64) >= file_size { return rule("Size of the newest trailer does not exceed an object number of an older revision"); }
            // the cross-reference stream occupies its number in this revision: an older object of that number is shadowed
            if Some(*num) == rev.xref_stream_id { seen_nums.entry(*num).or_insert(revisions); continue; }
            let resolve = |id: (u32, u16)| -> Option<i64> { let (o, g) = lens.get(&id.0)?; if *g != id.1 { return None; } match object_at(b, *o, id.0, id.1, &|_| None).ok()?.0 { Object::Integer(n) => Some(n), _ => None } };
            let (obj, e) = object_at(b, *off, *num, *gen, &resolve)?;
            segs.push((*off, e, "object"));
            if !seen_nums.contains_key(num) { seen_nums.insert(*num, revisions); objects.insert((*num, *gen), obj); }
        }
        if trailer.is_none() { trailer = Some(rev.trailer.clone()); }
        revisions += 1;
        match rev.prev {
            None => {
                // oldest revision: header at 0
                let mut i = 0;
                if !b.starts_with(b"%PDF-") { return rule("missing %PDF- header at offset 0"); }
                while i < b.len() && b[i] != b'\n' && b[i] != b'\r' { i += 1; }
                version = b[5..i].to_vec();
                i += eol_len(b, i).ok_or("header EOL")?;
                if b.get(i) != Some(&b'%') { return rule("binary comment line missing after the header"); }
                while i < b.len() && b[i] != b'\n' && b[i] != b'\r' { i += 1; }
                i += eol_len(b, i).ok_or("binary comment EOL")?;
                segs.push((0, i, "header"));
                break;
            }
            Some(p) => {
                // an appended revision as lopdf writes it: [optional LF] header line, binary comment line, then objects
                // the previous revision ends with %%EOF somewhere before our first byte
                let first = segs.iter().filter(|s| s.0 >= p).map(|s| s.0).min().unwrap();
                let _ = first;
                // find the previous %%EOF: the last occurrence before the lowest segment start of this revision
                let low = segs.iter().map(|s| s.0).filter(|s| *s > p).min().ok_or("empty revision")?;
                let hay = &b[..low];
                let pos = hay.windows(5).rposition(|w| w == b"%%EOF").ok_or("no %%EOF of the previous revision")?;
                let prev_end = pos + 5;
                // bytes between prev_end and low must be: optional EOL, `%PDF-…` line, `%…` line
                let mut i = prev_end;
                // end-of-line characters after the previous %%EOF (any number: LF, CRLF, CR, blank lines)
                while matches!(b.get(i), Some(b'\n') | Some(b'\r')) { i += 1; }
                if !b[i..].starts_with(b"%PDF-") { return rule("unaccounted bytes between revisions"); }
                while i < low && b[i] != b'\n' { i += 1; } i += 1;
                if b.get(i) != Some(&b'%') { return rule("unaccounted bytes between revisions"); }
                while i < low && b[i] != b'\n' { i += 1; } i += 1;
                segs.push((prev_end, i, "revision header"));
                end = prev_end; expected_x = Some(p);
            }
        }
    }
    // --- every byte accounted for exactly once
    segs.sort();
    let mut pos = 0;
    for (s, e, what) in &segs {
        if *s != pos { return Err(format!("bytes {}..{} are not accounted for (next: {} at {})", pos, s, what, s)); }
        pos = *e;
    }
    if pos != b.len() { return Err(format!("bytes {}..{} are not accounted for", pos, b.len())); }
    Ok(StrictDoc { version, objects, trailer: trailer.unwrap(), revisions, xref_stream_ids })
}
