//! Text codec of the line protocol (mirror of lean/Driver/Codec.lean).
use lopdf::{Dictionary, Object, Stream, StringFormat};

pub fn hex(bs: &[u8]) -> String {
    let mut s = String::with_capacity(bs.len() * 2);
    for b in bs { s.push_str(&format!("{:02x}", b)); }
    s
}
pub fn hex_tok(bs: &[u8]) -> String { if bs.is_empty() { "-".into() } else { hex(bs) } }
pub fn unhex(s: &str) -> Option<Vec<u8>> {
    if s == "-" { return Some(vec![]); }
    if s.len() % 2 != 0 { return None; }
    (0..s.len() / 2).map(|i| u8::from_str_radix(&s[2 * i..2 * i + 2], 16).ok()).collect()
}

/// canonical text of a real: Rust's `Display` of the f32 (DESIGN §4)
pub fn real_text(f: f32) -> String { format!("{}", f) }

pub fn show_obj(o: &Object) -> String {
    let mut s = String::new();
    push_obj(&mut s, o);
    s
}
fn push_kv(s: &mut String, d: &Dictionary) {
    for (k, v) in d.iter() {
        s.push(' '); s.push_str(&hex_tok(k)); s.push(' '); push_obj(s, v);
    }
}
pub fn push_obj(s: &mut String, o: &Object) {
    match o {
        Object::Null => s.push('n'),
        Object::Boolean(true) => s.push('t'),
        Object::Boolean(false) => s.push('f'),
        Object::Integer(i) => { s.push('i'); s.push_str(&i.to_string()); }
        Object::Real(f) => { s.push('r'); s.push_str(&real_text(*f)); }
        Object::Name(n) => { s.push('N'); s.push_str(&hex(n)); }
        Object::String(b, StringFormat::Literal) => { s.push('S'); s.push_str(&hex(b)); }
        Object::String(b, StringFormat::Hexadecimal) => { s.push('H'); s.push_str(&hex(b)); }
        Object::Reference((n, g)) => { s.push_str(&format!("R{}_{}", n, g)); }
        Object::Array(a) => {
            s.push_str(&format!("A{}", a.len()));
            for x in a { s.push(' '); push_obj(s, x); }
        }
        Object::Dictionary(d) => { s.push_str(&format!("D{}", d.len())); push_kv(s, d); }
        Object::Stream(st) => {
            s.push_str(&format!("M{}", st.dict.len())); push_kv(s, &st.dict);
            s.push(' '); s.push_str(&hex_tok(&st.content));
        }
    }
}

pub fn show_objects<'a, I: IntoIterator<Item = (&'a (u32, u16), &'a Object)>>(it: I) -> String {
    let v: Vec<_> = it.into_iter().collect();
    let mut s = v.len().to_string();
    for ((n, g), o) in v { s.push_str(&format!(" {} {} ", n, g)); push_obj(&mut s, o); }
    s
}

/// parse one object from tokens (used for replay and for model replies)
pub fn parse_obj<'a>(t: &mut std::slice::Iter<'a, &'a str>) -> Option<Object> {
    let tok = *t.next()?;
    let (c, body) = tok.split_at(1);
    Some(match c {
        "n" => Object::Null,
        "t" => Object::Boolean(true),
        "f" => Object::Boolean(false),
        "i" => Object::Integer(body.parse().ok()?),
        "r" => Object::Real(body.parse().ok()?),
        "N" => Object::Name(unhex(body)?),
        "S" => Object::String(unhex(body)?, StringFormat::Literal),
        "H" => Object::String(unhex(body)?, StringFormat::Hexadecimal),
        "R" => { let (a, b) = body.split_once('_')?; Object::Reference((a.parse().ok()?, b.parse().ok()?)) }
        "A" => { let k: usize = body.parse().ok()?; let mut v = Vec::new(); for _ in 0..k { v.push(parse_obj(t)?); } Object::Array(v) }
        "D" => Object::Dictionary(parse_kv(body.parse().ok()?, t)?),
        "M" => {
            let d = parse_kv(body.parse().ok()?, t)?;
            let content = unhex(t.next()?)?;
            // keep the dictionary exactly as given (no Length fix-up)
            Object::Stream(Stream { dict: d, content, allows_compression: true, start_position: None })
        }
        _ => return None,
    })
}
fn parse_kv<'a>(k: usize, t: &mut std::slice::Iter<'a, &'a str>) -> Option<Dictionary> {
    let mut d = Dictionary::new();
    for _ in 0..k { let key = unhex(t.next()?)?; let v = parse_obj(t)?; d.set(key, v); }
    Some(d)
}

/// canonicalise a reply line: every `r<text>` token is re-printed through f32
/// (the model carries reals as text; see DESIGN §4).
pub fn canon_line(line: &str) -> String {
    line.split(' ').map(|tok| {
        if let Some(body) = tok.strip_prefix('r') {
            if let Ok(f) = body.parse::<f32>() {
                if body.bytes().all(|b| b.is_ascii_digit() || b == b'.' || b == b'-' || b == b'+') {
                    return format!("r{}", real_text(f));
                }
            }
        }
        tok.to_string()
    }).collect::<Vec<_>>().join(" ")
}
