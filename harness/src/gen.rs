//! Shared structured generators: bytes, reals, objects, documents.
use crate::rng::Rng;
use lopdf::{Dictionary, Document, Object, ObjectId, Stream, StringFormat};

/// bytes weighted towards the characters the lexer treats specially
pub fn special_byte(r: &mut Rng) -> u8 {
    const SPECIAL: &[u8] = b"()\\#/%<>[]{} \t\r\n\x00\x0c\x08\x7f+-.0123456789RnrtbfzZ~";
    match r.below(10) {
        0..=4 => *r.pick(SPECIAL),
        5..=6 => 0x80 + (r.byte() & 0x7f),
        7 => r.byte() & 0x1f,
        _ => 33 + (r.byte() % 94),
    }
}
pub fn gen_bytes(r: &mut Rng, max: usize) -> Vec<u8> {
    let n = match r.below(8) { 0 => 0, 1..=4 => r.usize(6), _ => r.usize(max + 1) };
    (0..n).map(|_| special_byte(r)).collect()
}
/// nested parentheses material for literal strings
pub fn gen_paren_string(r: &mut Rng) -> Vec<u8> {
    let n = r.usize(40);
    (0..n).map(|_| match r.below(6) { 0 | 1 => b'(', 2 | 3 => b')', 4 => b'\\', _ => special_byte(r) }).collect()
}
/// every finite f32 (bit space) plus "nice" decimals
pub fn gen_real(r: &mut Rng) -> f32 {
    loop {
        let f = match r.below(6) {
            0 => f32::from_bits(r.next() as u32),
            1 => (r.range(-100000, 100000) as f32) / 1000.0,
            2 => r.range(-50, 50) as f32,                       // integral reals
            3 => *r.pick(&[0.0f32, -0.0, 1.0, -1.0, 0.5, 1e-10, 1e10, 16777216.0, 9.2233715e18, 9.223372e18, -9.223372e18, 1e19, -1e19, 3.4028235e38, -3.4028235e38, 1e-45, 1.17549435e-38, 4294967296.0, 65536.0]),
            4 => f32::from_bits((r.next() as u32) & 0x7fff_ffff) * if r.chance(1, 2) { 1.0 } else { -1.0 },
            _ => (r.range(-9, 9) as f32) * 10f32.powi(r.range(-12, 25) as i32),
        };
        if f.is_finite() { return f; }
    }
}
pub fn gen_int(r: &mut Rng) -> i64 {
    match r.below(8) {
        0 => i64::MAX, 1 => i64::MIN, 2 => r.next() as i64, 3 => 0,
        4 => r.range(-5, 5), 5 => *r.pick(&[4294967295i64, 4294967296, 65535, 65536, -1, 2147483647, -2147483648]),
        _ => r.range(-100000, 100000),
    }
}
pub fn gen_ref(r: &mut Rng) -> ObjectId {
    let n = match r.below(6) { 0 => u32::MAX, 1 => 0, 2 => r.next() as u32, _ => r.below(200) as u32 };
    let g = match r.below(6) { 0 => u16::MAX, 1 => r.next() as u16, _ => r.below(3) as u16 };
    (n, g)
}
pub fn gen_name(r: &mut Rng) -> Vec<u8> {
    if r.chance(1, 3) { const NAMES: &[&[u8]] = &[b"Type", b"Length", b"Kids", b"Root", b"A", b"true", b"null", b"R", b"obj", b"Filter"]; r.pick(NAMES).to_vec() }
    else { gen_bytes(r, 12) }
}
pub fn gen_key(r: &mut Rng) -> Vec<u8> {
    // keys that would make the writer skip the object or the reader misread a stream are kept out
    loop {
        let k = gen_name(r);
        if k != b"Type" && k != b"Length" && k != b"Linearized" && k != b"Filter" && k != b"DecodeParms" { return k; }
    }
}

/// a direct object (no stream) of nesting depth <= depth
pub fn gen_obj(r: &mut Rng, depth: usize) -> Object {
    let kinds = if depth == 0 { 8 } else { 10 };
    match r.below(kinds) {
        0 => Object::Null,
        1 => Object::Boolean(r.chance(1, 2)),
        2 => Object::Integer(gen_int(r)),
        3 => Object::Real(gen_real(r)),
        4 => Object::Name(gen_name(r)),
        5 => Object::String(if r.chance(1, 3) { gen_paren_string(r) } else { gen_bytes(r, 24) }, StringFormat::Literal),
        6 => Object::String(gen_bytes(r, 16), StringFormat::Hexadecimal),
        7 => Object::Reference(gen_ref(r)),
        8 => { let n = r.usize(6); Object::Array((0..n).map(|_| gen_obj(r, depth - 1)).collect()) }
        _ => Object::Dictionary(gen_dict(r, depth - 1)),
    }
}
pub fn gen_dict(r: &mut Rng, depth: usize) -> Dictionary {
    let mut d = Dictionary::new();
    for _ in 0..r.usize(6) { d.set(gen_key(r), gen_obj(r, depth)); }
    d
}
pub fn gen_stream(r: &mut Rng, depth: usize) -> Stream {
    let n = match r.below(4) { 0 => 0, 1 => r.usize(4), _ => r.usize(200) };
    let content: Vec<u8> = (0..n).map(|_| if r.chance(1, 3) { special_byte(r) } else { r.byte() }).collect();
    let mut s = Stream::new(gen_dict(r, depth), content);
    s.allows_compression = true;
    s
}

/// random well-formed document: sparse ids, non-zero generations, all kinds, any version / binary mark
pub fn gen_doc(r: &mut Rng) -> Document {
    let versions: &[&str] = &["1.0", "1.4", "1.5", "1.7", "2.0", "", "1.7 x", "9.9\u{e9}", "1.7 ", "2.0\t", " 1.4", "1.6  \t ", "%%EOF", "1.4 startxref"];
    let mut doc = Document::with_version(*r.pick(versions));
    doc.binary_mark = match r.below(4) { 0 => vec![], 1 => vec![0xe2, 0xe3, 0xcf, 0xd3], _ => (0..r.usize(8)).map(|_| 0x80 | r.byte()).collect() };
    let n = r.usize(12);
    let mut num = 0u32;
    for _ in 0..n {
        num += 1 + if r.chance(1, 4) { r.below(5) as u32 } else { 0 };
        let gen = if r.chance(1, 6) { 1 + r.below(3) as u16 } else { 0 };
        let o = match r.below(5) { 0 => Object::Stream(gen_stream(r, 2)), _ => gen_obj(r, 4) };
        doc.objects.insert((num, gen), o);
    }
    doc.max_id = num + if r.chance(1, 4) { r.below(4) as u32 } else { 0 };
    doc.trailer = gen_dict(r, 2);
    for k in [&b"Size"[..], b"Prev", b"W", b"Index", b"XRefStm", b"Encrypt"] { doc.trailer.remove(k); }
    if r.chance(2, 3) && num > 0 { doc.trailer.set("Root", Object::Reference((1 + r.below(num as u64) as u32, 0))); }
    doc
}

/// A sink that behaves legally but unusually: accepts at most `cap` bytes per `write` call and answers
/// every `intr`-th call with `ErrorKind::Interrupted` (0 = never). What it received must be exactly what a
/// `Vec` receives (C19), so C01 / C03 / C07 also save through it and compare the bytes.
pub struct OddSink { pub data: Vec<u8>, cap: usize, intr: usize, calls: usize }
impl OddSink {
    pub fn new(r: &mut Rng) -> OddSink { OddSink { data: vec![], cap: *r.pick(&[1usize, 3, 7, 64, 512]), intr: *r.pick(&[0usize, 2, 3, 5]), calls: 0 } }
    pub fn describe(&self) -> String { format!("at most {} bytes per write, Interrupted every {} calls", self.cap, self.intr) }
}
impl std::io::Write for OddSink {
    fn write(&mut self, buf: &[u8]) -> std::io::Result<usize> {
        self.calls += 1;
        if self.intr > 0 && self.calls % self.intr == 0 { return Err(std::io::Error::new(std::io::ErrorKind::Interrupted, "interrupted")); }
        let n = buf.len().min(self.cap);
        self.data.extend_from_slice(&buf[..n]);
        Ok(n)
    }
    fn flush(&mut self) -> std::io::Result<()> { Ok(()) }
}
