//! Independent reference parser for PDF objects (ISO 32000-1 §7.2–7.3), written from the
//! specification and sharing no code with lopdf's parser. Used by the strict reader (C03) and
//! as semantic oracle for files written by the reference writer (C02).
use lopdf::{Dictionary, Object, StringFormat};

pub struct P<'a> { pub b: &'a [u8], pub i: usize }

pub fn is_ws(c: u8) -> bool { matches!(c, 0 | 9 | 10 | 12 | 13 | 32) }
pub fn is_delim(c: u8) -> bool { matches!(c, b'(' | b')' | b'<' | b'>' | b'[' | b']' | b'{' | b'}' | b'/' | b'%') }
pub fn is_regular(c: u8) -> bool { !is_ws(c) && !is_delim(c) }

impl<'a> P<'a> {
    pub fn new(b: &'a [u8], i: usize) -> Self { P { b, i } }
    pub fn peek(&self) -> Option<u8> { self.b.get(self.i).copied() }
    pub fn starts(&self, s: &[u8]) -> bool { self.b[self.i.min(self.b.len())..].starts_with(s) }
    pub fn eat(&mut self, s: &[u8]) -> bool { if self.starts(s) { self.i += s.len(); true } else { false } }
    /// white space and comments
    pub fn skip_ws(&mut self) {
        loop {
            match self.peek() {
                Some(c) if is_ws(c) => self.i += 1,
                Some(b'%') => { while let Some(c) = self.peek() { if c == b'\r' || c == b'\n' { break; } self.i += 1; } }
                _ => return,
            }
        }
    }
    fn digits(&mut self) -> &'a [u8] { let s = self.i; while matches!(self.peek(), Some(c) if c.is_ascii_digit()) { self.i += 1; } &self.b[s..self.i] }
    pub fn uint(&mut self) -> Option<u64> { let d = self.digits(); if d.is_empty() { None } else { std::str::from_utf8(d).ok()?.parse().ok() } }

    fn number(&mut self) -> Option<Object> {
        let s = self.i;
        if matches!(self.peek(), Some(b'+') | Some(b'-')) { self.i += 1; }
        let d1 = self.digits().len();
        let mut real = false; let mut d2 = 0;
        if self.peek() == Some(b'.') { real = true; self.i += 1; d2 = self.digits().len(); }
        if d1 + d2 == 0 { self.i = s; return None; }
        let text = std::str::from_utf8(&self.b[s..self.i]).ok()?;
        if real { Some(Object::Real(text.parse::<f32>().ok()?)) } else { Some(Object::Integer(text.parse::<i64>().ok()?)) }
    }
    fn name(&mut self) -> Option<Vec<u8>> {
        if !self.eat(b"/") { return None; }
        let mut out = vec![];
        while let Some(c) = self.peek() {
            if !is_regular(c) { break; }
            if c == b'#' {
                let h = self.b.get(self.i + 1..self.i + 3)?;
                let v = u8::from_str_radix(std::str::from_utf8(h).ok()?, 16).ok()?;
                out.push(v); self.i += 3;
            } else { out.push(c); self.i += 1; }
        }
        Some(out)
    }
    fn literal(&mut self) -> Option<Vec<u8>> {
        if !self.eat(b"(") { return None; }
        let mut out = vec![]; let mut depth = 1usize;
        loop {
            let c = self.peek()?; self.i += 1;
            match c {
                b'(' => { depth += 1; out.push(c); }
                b')' => { depth -= 1; if depth == 0 { return Some(out); } out.push(c); }
                b'\\' => {
                    let e = self.peek()?; self.i += 1;
                    match e {
                        b'n' => out.push(b'\n'), b'r' => out.push(b'\r'), b't' => out.push(b'\t'), b'b' => out.push(8), b'f' => out.push(12),
                        b'(' | b')' | b'\\' => out.push(e),
                        b'\r' => { if self.peek() == Some(b'\n') { self.i += 1; } }
                        b'\n' => {}
                        b'0'..=b'7' => {
                            let mut v = (e - b'0') as u32; let mut n = 1;
                            while n < 3 { match self.peek() { Some(d @ b'0'..=b'7') => { v = v * 8 + (d - b'0') as u32; self.i += 1; n += 1; } _ => break } }
                            out.push(v as u8);
                        }
                        other => out.push(other), // backslash ignored
                    }
                }
                // an unescaped end-of-line inside a literal string is read as LF (ISO 32000-1 7.3.4.2)
                b'\r' => { if self.peek() == Some(b'\n') { self.i += 1; } out.push(b'\n'); }
                _ => out.push(c),
            }
        }
    }
    fn hexstr(&mut self) -> Option<Vec<u8>> {
        if !self.eat(b"<") { return None; }
        let mut out = vec![]; let mut hi: Option<u8> = None;
        loop {
            let c = self.peek()?; self.i += 1;
            if c == b'>' { if let Some(h) = hi { out.push(h << 4); } return Some(out); }
            if is_ws(c) { continue; }
            let v = (c as char).to_digit(16)? as u8;
            match hi { None => hi = Some(v), Some(h) => { out.push(h << 4 | v); hi = None; } }
        }
    }
    /// one object (no stream); references recognised by look-ahead
    pub fn object(&mut self) -> Option<Object> {
        self.skip_ws();
        let c = self.peek()?;
        if c == b'/' { return self.name().map(Object::Name); }
        if c == b'(' { return self.literal().map(|s| Object::String(s, StringFormat::Literal)); }
        if c == b'[' {
            self.i += 1; let mut v = vec![];
            loop { self.skip_ws(); if self.eat(b"]") { return Some(Object::Array(v)); } v.push(self.object()?); }
        }
        if self.starts(b"<<") { return self.dict().map(Object::Dictionary); }
        if c == b'<' { return self.hexstr().map(|s| Object::String(s, StringFormat::Hexadecimal)); }
        if self.keyword(b"true") { return Some(Object::Boolean(true)); }
        if self.keyword(b"false") { return Some(Object::Boolean(false)); }
        if self.keyword(b"null") { return Some(Object::Null); }
        // number or reference
        let save = self.i;
        if c.is_ascii_digit() {
            if let Some(n) = self.uint() {
                let mut q = P::new(self.b, self.i);
                if matches!(q.peek(), Some(w) if is_ws(w)) {
                    q.skip_ws();
                    if let Some(g) = q.uint() {
                        if matches!(q.peek(), Some(w) if is_ws(w)) {
                            q.skip_ws();
                            if q.peek() == Some(b'R') && !matches!(q.b.get(q.i + 1), Some(&x) if is_regular(x)) {
                                if n <= u32::MAX as u64 && g <= u16::MAX as u64 { self.i = q.i + 1; return Some(Object::Reference((n as u32, g as u16))); }
                            }
                        }
                    }
                }
            }
            self.i = save;
        }
        self.number()
    }
    fn keyword(&mut self, k: &[u8]) -> bool {
        if self.starts(k) && !matches!(self.b.get(self.i + k.len()), Some(&x) if is_regular(x)) { self.i += k.len(); true } else { false }
    }
    pub fn dict(&mut self) -> Option<Dictionary> {
        if !self.eat(b"<<") { return None; }
        let mut d = Dictionary::new();
        loop {
            self.skip_ws();
            if self.eat(b">>") { return Some(d); }
            let k = self.name()?;
            let v = self.object()?;
            d.set(k, v);
        }
    }
}
