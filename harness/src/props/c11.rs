//! C11 — editing operations keep the document sound.
//! Random programs of public editing calls on random documents (c10's generator; 1 in 4 saved and
//! re-loaded). After EVERY step: (a) correspondence of the whole document + return value against the
//! Lean `step` started from the real pre-state, (b) the oracle: allocation invariant, freshness,
//! per-operation frame conditions, prune = exactly the unreachable objects, delete leaves no
//! reference (leftovers classified structurally by where they sit), page-tree Counts.
use crate::codec::*;
use crate::ctx::{guard, Ctx};
use crate::props::c10::{self, add_deep_refs, add_stale_refs, collect_refs, gen_doc, gen_obj, oracle_pages, reachable, show_doc, through_file, Dangling, Opts, RefPool};
use crate::rng::Rng;
use lopdf::{Dictionary, Document, Object, ObjectId};
use serde_json::json;
use std::collections::{BTreeMap, BTreeSet};

#[derive(Clone, Debug)]
enum Op { NewId, Add(Object), Set(ObjectId, Object), Del(ObjectId), Prune, DelZero, Renum(u32), DelPages(Vec<u32>), AddContent(ObjectId, Vec<u8>),
          RmAnnot(ObjectId), AddXObj(ObjectId, Vec<u8>, ObjectId), AddGs(ObjectId, Vec<u8>, ObjectId), ChgStream(ObjectId, Vec<u8>), ChgPage(ObjectId, Vec<u8>), Compress, Decompress }

/// what `ZlibEncoder::new(_, Compression::best())` returns: the external codec result shipped with the request
fn deflate_best(data: &[u8]) -> Vec<u8> {
    use std::io::Write;
    let mut e = flate2::write::ZlibEncoder::new(Vec::new(), flate2::Compression::best());
    e.write_all(data).unwrap();
    e.finish().unwrap()
}
/// exactly what `decompress_zlib` asks of flate2 (errors ignored, partial output kept) — as in C09
fn ext_inflate(input: &[u8]) -> Vec<u8> {
    use std::io::Read;
    let mut out = Vec::new();
    if !input.is_empty() { let _ = flate2::read::ZlibDecoder::new(input).read_to_end(&mut out); }
    out
}
/// exactly what `decompress_lzw` asks of weezl
fn ext_lzw(input: &[u8], early: bool) -> Vec<u8> {
    use weezl::{decode::Decoder, BitOrder};
    let mut d = if early { Decoder::with_tiff_size_switch(BitOrder::Msb, 8) } else { Decoder::new(BitOrder::Msb, 8) };
    let mut out = vec![];
    let _ = d.into_stream(&mut out).decode_all(input);
    out
}
fn ext_add(tab: &mut Vec<(String, Vec<u8>, Vec<u8>)>, kind: &str, i: &[u8], o: Vec<u8>) {
    if !tab.iter().any(|(k, a, _)| k == kind && a == i) { tab.push((kind.into(), i.to_vec(), o)); }
}
fn ext_text(tab: &[(String, Vec<u8>, Vec<u8>)]) -> String {
    let mut s = tab.len().to_string();
    for (k, i, o) in tab { s.push_str(&format!(" {} {} {}", k, hex_tok(i), hex_tok(o))); }
    s
}
/// external decoder results for every Flate / LZW stage the real filter chain of `s` reaches
fn ext_for(tab: &mut Vec<(String, Vec<u8>, Vec<u8>)>, s: &lopdf::Stream) {
    let Ok(filters) = s.filters() else { return };
    let filters: Vec<Vec<u8>> = filters.into_iter().map(|f| f.to_vec()).collect();
    let mut input = s.content.clone();
    for (k, f) in filters.iter().enumerate() {
        match f.as_slice() {
            b"FlateDecode" => ext_add(tab, "z", &input, ext_inflate(&input)),
            b"LZWDecode" => { ext_add(tab, "l0", &input, ext_lzw(&input, false)); ext_add(tab, "l1", &input, ext_lzw(&input, true)); }
            _ => {}
        }
        if k + 1 == filters.len() { break; }
        let mut p = s.clone();
        p.dict.set("Filter", Object::Array(filters[..=k].iter().map(|n| Object::Name(n.clone())).collect()));
        match guard(|| p.decompressed_content()) { Ok(Ok(v)) => input = v, _ => break }
    }
}
fn compress_ext(doc: &Document) -> String {
    let mut tab = vec![];
    for (_, o) in doc.objects.iter() { if let Object::Stream(s) = o { if !s.dict.has(b"Filter") { ext_add(&mut tab, "d", &s.content, deflate_best(&s.content)); } } }
    ext_text(&tab)
}
fn decompress_ext(doc: &Document) -> String {
    let mut tab = vec![];
    for (_, o) in doc.objects.iter() { if let Object::Stream(s) = o { ext_for(&mut tab, s); } }
    ext_text(&tab)
}
fn inflate(data: &[u8]) -> Option<Vec<u8>> {
    use std::io::Read;
    let mut out = vec![];
    flate2::read::ZlibDecoder::new(data).read_to_end(&mut out).ok()?;
    Some(out)
}

fn op_text(op: &Op, doc: &Document) -> String {
    match op {
        Op::Compress => format!("compress {}", compress_ext(doc)),
        Op::Decompress => format!("decompress {}", decompress_ext(doc)),
        Op::NewId => "newid".into(),
        Op::Add(o) => format!("add {}", show_obj(o)),
        Op::Set(id, o) => format!("set {} {} {}", id.0, id.1, show_obj(o)),
        Op::Del(id) => format!("del {} {}", id.0, id.1),
        Op::Prune => "prune".into(),
        Op::DelZero => "delzero".into(),
        Op::Renum(s) => format!("renum {}", s),
        Op::DelPages(v) => format!("delpages {}{}", v.len(), v.iter().map(|n| format!(" {}", n)).collect::<String>()),
        Op::AddContent(id, c) => format!("addcontent {} {} {}", id.0, id.1, hex_tok(c)),
        Op::RmAnnot(id) => format!("rmannot {} {}", id.0, id.1),
        Op::AddXObj(p, n, x) => format!("addxobj {} {} {} {} {}", p.0, p.1, hex_tok(n), x.0, x.1),
        Op::AddGs(p, n, x) => format!("addgs {} {} {} {} {}", p.0, p.1, hex_tok(n), x.0, x.1),
        Op::ChgStream(id, c) => format!("chgstream {} {} {} {}", id.0, id.1, hex_tok(c), hex_tok(&deflate_best(c))),
        Op::ChgPage(id, c) => format!("chgpage {} {} {} {}", id.0, id.1, hex_tok(c), hex_tok(&deflate_best(c))),
    }
}
fn ids_text(v: &[ObjectId]) -> String { format!("{}{}", v.len(), v.iter().map(|(n, g)| format!(" {}_{}", n, g)).collect::<String>()) }

/// run the real call; returns the protocol text of the return value
fn apply(doc: &mut Document, op: &Op) -> String {
    match op {
        Op::NewId => { let id = doc.new_object_id(); format!("id {}_{}", id.0, id.1) }
        Op::Add(o) => { let id = doc.add_object(o.clone()); format!("id {}_{}", id.0, id.1) }
        Op::Set(id, o) => { doc.set_object(*id, o.clone()); "unit".into() }
        Op::Del(id) => match doc.delete_object(*id) { Some(o) => format!("some {}", show_obj(&o)), None => "none".into() },
        Op::Prune => format!("ids {}", ids_text(&doc.prune_objects())),
        Op::DelZero => format!("ids {}", ids_text(&doc.delete_zero_length_streams())),
        Op::Renum(s) => { doc.renumber_objects_with(*s); "unit".into() }
        Op::DelPages(v) => { doc.delete_pages(v); "unit".into() }
        Op::AddContent(id, c) => match doc.add_page_contents(*id, c.clone()) { Ok(()) => "unit".into(), Err(_) => "err".into() },
        Op::RmAnnot(id) => match doc.remove_object(id) { Ok(()) => "unit".into(), Err(_) => "err".into() },
        Op::AddXObj(p, n, x) => match doc.add_xobject(*p, n.clone(), *x) { Ok(()) => "unit".into(), Err(_) => "err".into() },
        Op::AddGs(p, n, x) => match doc.add_graphics_state(*p, n.clone(), *x) { Ok(()) => "unit".into(), Err(_) => "err".into() },
        Op::ChgStream(id, c) => { doc.change_content_stream(*id, c.clone()); "unit".into() }
        Op::ChgPage(id, c) => match doc.change_page_content(*id, c.clone()) { Ok(()) => "unit".into(), Err(_) => "err".into() },
        Op::Compress => { doc.compress(); "unit".into() }
        Op::Decompress => { doc.decompress(); "unit".into() }
    }
}

// ---------------------------------------------------------------- resources in effect (nearest dictionary up the Parent chain)

fn resolve<'a>(doc: &'a Document, mut o: &'a Object) -> Option<&'a Object> {
    for _ in 0..200 { match o { Object::Reference(r) => o = doc.objects.get(r)?, x => return Some(x) } }
    None
}
/// (category, name) -> value of the resource dictionary in effect for the page; `own` says whether it is the page's own
fn effective_resources(doc: &Document, page: ObjectId) -> Option<(BTreeMap<(Vec<u8>, Vec<u8>), Object>, bool)> {
    let mut cur = page; let mut own = true;
    for _ in 0..100 {
        let d = match resolve(doc, doc.objects.get(&cur)?)? { Object::Dictionary(d) => d, _ => return None };
        if let Ok(r) = d.get(b"Resources") {
            let mut m = BTreeMap::new();
            if let Some(Object::Dictionary(rd)) = resolve(doc, r) {
                for (cat, v) in rd.iter() {
                    if let Some(Object::Dictionary(cd)) = resolve(doc, v) { for (n, x) in cd.iter() { m.insert((cat.clone(), n.clone()), x.clone()); } }
                }
            }
            return Some((m, own));
        }
        match d.get(b"Parent") { Ok(Object::Reference(p)) => { cur = *p; own = false; } _ => return Some((BTreeMap::new(), own)) }
    }
    None
}
fn decoded(s: &lopdf::Stream) -> Option<Vec<u8>> {
    match s.dict.get(b"Filter") {
        Err(_) => Some(s.content.clone()),
        Ok(Object::Name(n)) if n == b"FlateDecode" && !s.dict.has(b"DecodeParms") => inflate(&s.content),
        _ => None,
    }
}
fn check_changed_stream(c: &mut Ctx, sc: &StepCtx, before: &Document, after: &Document, sid: ObjectId, content: &[u8]) {
    if let (Some(Object::Stream(b)), Some(Object::Stream(a))) = (before.objects.get(&sid), after.objects.get(&sid)) {
        if decoded(a).as_deref() != Some(content) { fail(c, sc, "content:decoded", "the stream does not decode to the new content", before); }
        if !matches!(a.dict.get(b"Length"), Ok(Object::Integer(l)) if *l == a.content.len() as i64) { fail(c, sc, "content:length", "Length is not the stored length", before); }
        for (k, v) in b.dict.iter() { if k != b"Length" && k != b"Filter" && k != b"DecodeParms" && a.dict.get(k).ok() != Some(v) { fail(c, sc, "frame:change_content_stream", "stream dictionary entry lost", before); break; } }
        if a.dict.has(b"Filter") { c.count("content_compressed"); } else { c.count("content_plain"); }
    } else { fail(c, sc, "frame:change_content_stream", "stream missing", before); }
}

// ---------------------------------------------------------------- what delete_object leaves behind (shape of F-C11-a)

#[derive(Default, Debug)]
struct Left { kinds: BTreeSet<&'static str>, count: usize }

fn is_ref_to(o: &Object, id: ObjectId) -> bool { matches!(o, Object::Reference(r) if *r == id) }
fn count_all(o: &Object, id: ObjectId) -> usize { let mut v = vec![]; collect_refs(o, &mut v); v.iter().filter(|r| **r == id).count() }

/// predicted leftovers inside a visited value
fn predict_value(o: &Object, id: ObjectId, l: &mut Left) {
    match o {
        Object::Array(a) => {
            for x in a { if !is_ref_to(x, id) { predict_value(x, id, l); } }
        }
        Object::Dictionary(d) => { for (_, v) in d.iter() { if !is_ref_to(v, id) { predict_value(v, id, l); } } }
        Object::Stream(s) => {
            for (_, v) in s.dict.iter() { if !is_ref_to(v, id) { predict_value(v, id, l); } }
        }
        Object::Reference(r) => { if *r == id { l.kinds.insert("top-level-reference"); l.count += 1; } }
        _ => {}
    }
}
/// what `delete_object`'s action does to one node (first array occurrence, all direct dictionary entries;
/// nothing on a stream's own dictionary or on a bare reference)
fn code_action(o: &Object, id: ObjectId) -> Object {
    match o {
        Object::Array(a) => Object::Array(a.iter().filter(|x| !is_ref_to(x, id)).cloned().collect()),
        Object::Stream(st) => { let mut n = st.clone(); let keys: Vec<Vec<u8>> = st.dict.iter().filter(|(_, v)| is_ref_to(v, id)).map(|(k, _)| k.clone()).collect(); for k in keys { n.dict.remove(&k); } Object::Stream(n) }
        Object::Dictionary(d) => { let mut n = d.clone(); let keys: Vec<Vec<u8>> = d.iter().filter(|(_, v)| is_ref_to(v, id)).map(|(k, _)| k.clone()).collect(); for k in keys { n.remove(&k); } Object::Dictionary(n) }
        x => x.clone(),
    }
}
/// references still followed from a visited value (after the action was applied top-down)
fn refs_after_action(o: &Object, id: ObjectId, out: &mut Vec<ObjectId>) {
    match code_action(o, id) {
        Object::Array(a) => for x in &a { refs_after_action(x, id, out) },
        Object::Dictionary(d) => for (_, v) in d.iter() { refs_after_action(v, id, out) },
        Object::Stream(s) => for (_, v) in s.dict.iter() { refs_after_action(v, id, out) },
        Object::Reference(r) => out.push(r),
        _ => {}
    }
}
/// where references to `id` will survive `delete_object(id)` — the exact shape of the known finding:
/// direct trailer entries, direct stream-dictionary entries, later duplicates in an array, bare
/// top-level reference objects, and every holder the traversal does not reach (unreachable before, or
/// reachable only through the references that were just stripped)
fn predict_leftovers(doc: &Document, id: ObjectId) -> Left {
    let mut l = Left::default();
    let mut todo = vec![];
    for (_, v) in doc.trailer.iter() { if !is_ref_to(v, id) { predict_value(v, id, &mut l); refs_after_action(v, id, &mut todo); } }
    let mut reach: BTreeSet<ObjectId> = BTreeSet::new();
    while let Some(k) = todo.pop() {
        if !reach.insert(k) { continue; }
        if let Some(o) = doc.objects.get(&k) { refs_after_action(o, id, &mut todo); }
    }
    for (k, o) in doc.objects.iter() {
        if *k == id { continue; }
        if reach.contains(k) { predict_value(o, id, &mut l); }
        else { let n = count_all(o, id); if n > 0 { l.kinds.insert("unreachable-holder"); l.count += n; } }
    }
    l
}
fn actual_leftovers(doc: &Document, id: ObjectId) -> usize {
    let mut n = 0;
    for (_, v) in doc.trailer.iter() { n += count_all(v, id); }
    for (_, o) in doc.objects.iter() { n += count_all(o, id); }
    n
}
/// the object with every reference to `id` stripped (all array occurrences, all dictionary entries)
fn strip_all(o: &Object, id: ObjectId, top: bool) -> Object {
    match o {
        Object::Array(a) => Object::Array(a.iter().filter(|x| !is_ref_to(x, id)).map(|x| strip_all(x, id, false)).collect()),
        Object::Dictionary(d) => { let mut n = Dictionary::new(); for (k, v) in d.iter() { if !is_ref_to(v, id) { n.set(k.clone(), strip_all(v, id, false)); } } Object::Dictionary(n) }
        Object::Stream(s) => { let mut s2 = s.clone(); let mut n = Dictionary::new(); for (k, v) in s.dict.iter() { if !is_ref_to(v, id) { n.set(k.clone(), strip_all(v, id, false)); } } s2.dict = n; Object::Stream(s2) }
        x => { let _ = top; x.clone() }
    }
}

// ---------------------------------------------------------------- invariants

fn max_num(doc: &Document) -> u32 { doc.objects.keys().map(|k| k.0).max().unwrap_or(0) }

/// Count of every Pages node = number of leaf pages below it (own DFS over direct Kids)
fn counts_ok(doc: &Document) -> bool {
    fn leaves(doc: &Document, id: ObjectId, depth: usize) -> Option<i64> {
        if depth > 60 { return None; }
        match doc.objects.get(&id) {
            Some(Object::Dictionary(d)) => match d.get(b"Type") {
                Ok(Object::Name(n)) if n == b"Page" => Some(1),
                Ok(Object::Name(n)) if n == b"Pages" => {
                    let mut s = 0;
                    if let Ok(Object::Array(kids)) = d.get(b"Kids") { for k in kids { if let Object::Reference(kid) = k { s += leaves(doc, *kid, depth + 1)?; } } }
                    match d.get(b"Count") { Ok(Object::Integer(c)) if *c == s => Some(s), _ => None }
                }
                _ => Some(0),
            },
            _ => Some(0),
        }
    }
    if let Ok(Object::Reference(cat)) = doc.trailer.get(b"Root") {
        if let Some(Object::Dictionary(c)) = doc.objects.get(cat) {
            if let Ok(Object::Reference(root)) = c.get(b"Pages") { return leaves(doc, *root, 0).is_some(); }
        }
    }
    true
}
fn same(a: &Object, b: &Object) -> bool { a == b }

struct StepCtx<'a> { stream: &'a str, step: usize, op: String }

fn fail(c: &mut Ctx, sc: &StepCtx, sig: &str, what: &str, before: &Document) {
    let req = format!("step {} {}", sc.op, show_doc(before));
    c.oracle_fail(sig, what, json!({"stream": sc.stream, "step": sc.step, "op": sc.op, "request": if req.len() < 900 { req } else { format!("{}…", &req[..900]) }}));
}

/// the oracle for one step on the REAL documents
fn oracle(c: &mut Ctx, sc: &StepCtx, op: &Op, before: &Document, after: &Document, ret: &str) {
    // allocation invariant
    if before.max_id >= max_num(before) && after.max_id < max_num(after) {
        fail(c, sc, &format!("inv:max_id-below-object-number:{}", sc.op.split(' ').next().unwrap_or("")), "max_id is smaller than an object number", before);
    }
    let unchanged = |c: &mut Ctx, except: &[ObjectId], sig: &str| {
        for (k, o) in before.objects.iter() {
            if except.contains(k) { continue; }
            if after.objects.get(k).map(|a| same(a, o)) != Some(true) { fail(c, sc, sig, "an operation that is not a deletion removed or altered an object", before); return; }
        }
        if after.trailer != before.trailer { fail(c, sc, sig, "trailer altered", before); }
    };
    match op {
        Op::NewId => {
            let id = (after.max_id, 0u16);
            if before.objects.keys().any(|k| k.0 >= id.0) || ret != format!("id {}_0", id.0) { fail(c, sc, "fresh:new_object_id", "allocated id is not above every existing number", before); }
            unchanged(c, &[], "frame:new_object_id");
            if after.objects.len() != before.objects.len() { fail(c, sc, "frame:new_object_id", "object count changed", before); }
        }
        Op::Add(o) => {
            let id = (after.max_id, 0u16);
            if before.objects.contains_key(&id) || before.objects.keys().any(|k| k.0 >= id.0) { fail(c, sc, "fresh:add_object", "allocated id collides with / is not above existing objects", before); }
            if after.objects.get(&id).map(|x| same(x, o)) != Some(true) || after.objects.len() != before.objects.len() + 1 { fail(c, sc, "frame:add_object", "object not stored under the fresh id", before); }
            unchanged(c, &[], "frame:add_object");
        }
        Op::Set(id, o) => {
            if after.objects.get(id).map(|x| same(x, o)) != Some(true) { fail(c, sc, "frame:set_object", "object not stored", before); }
            unchanged(c, &[*id], "frame:set_object");
        }
        Op::Del(id) => {
            check_delete(c, sc, before, after, &[*id], true);
            let want = before.objects.contains_key(id);
            if (ret != "none") != want { fail(c, sc, "del:return", "return value does not say whether the object existed", before); }
        }
        Op::DelZero => {
            let empties: Vec<ObjectId> = before.objects.iter().filter(|(_, o)| matches!(o, Object::Stream(s) if s.content.is_empty())).map(|(k, _)| *k).collect();
            if ret != format!("ids {}", ids_text(&empties)) { fail(c, sc, "delzero:ids", "returned ids are not the zero-length streams", before); }
            check_delete(c, sc, before, after, &empties, true);
        }
        Op::Prune => {
            let reach = reachable(before);
            let want: Vec<ObjectId> = before.objects.keys().filter(|k| !reach.contains(k)).cloned().collect();
            if ret != format!("ids {}", ids_text(&want)) { fail(c, sc, "prune:exact", "pruned ids are not exactly the unreachable objects", before); }
            for k in &want { if after.objects.contains_key(k) { fail(c, sc, "prune:exact", "unreachable object kept", before); break; } }
            unchanged(c, &want, "frame:prune_objects");
            c.count_n("pruned_objects", want.len() as u64);
        }
        Op::Renum(start) => {
            if after.objects.len() != before.objects.len() {
                let pages: Vec<ObjectId> = before.page_iter().collect();
                let distinct: BTreeSet<ObjectId> = pages.iter().cloned().collect();
                if distinct.len() != pages.len() { c.count("renumber_duplicate_page"); fail(c, sc, "frame:renumber:duplicate-page", "renumbering lost an object (a page is enumerated twice)", before); }
                else { fail(c, sc, "frame:renumber", "object count changed", before); }
            }
            let n = after.objects.len() as u32;
            if n > 0 && after.max_id != start + n - 1 { fail(c, sc, "inv:renumber-max_id", "max_id is not the last number", before); }
        }
        Op::DelPages(nums) => {
            let pages = oracle_pages(before);
            let real_pages: Vec<ObjectId> = before.page_iter().collect();
            if pages != real_pages {
                // the program made the page tree malformed (e.g. set_object replaced a page): only correspondence here
                c.count("delete_pages_on_malformed_tree");
                return;
            }
            let gone: Vec<ObjectId> = nums.iter().filter_map(|n| if *n >= 1 { pages.get(*n as usize - 1).cloned() } else { None }).collect();
            let want: Vec<ObjectId> = pages.iter().filter(|p| !gone.contains(p)).cloned().collect();
            let got = oracle_pages(after);
            let clean = gone.iter().all(|g| predict_leftovers(before, *g).count == 0);
            if clean {
                if got != want { fail(c, sc, "delete_pages:pages", "remaining pages are not the old pages minus the deleted ones", before); }
                if counts_ok(before) && !counts_ok(after) { fail(c, sc, "delete_pages:count", "a Pages node's Count is not its number of leaf pages", before); }
                c.count("delete_pages_checked");
            }
            check_delete(c, sc, before, after, &gone, false);
        }
        Op::AddContent(page, content) => {
            if ret == "unit" {
                let nid = (after.max_id, 0u16);
                if before.objects.keys().any(|k| k.0 >= nid.0) { fail(c, sc, "fresh:add_page_contents", "content stream id not fresh", before); }
                let ok_stream = matches!(after.objects.get(&nid), Some(Object::Stream(s)) if &s.content == content && matches!(s.dict.get(b"Length"), Ok(Object::Integer(l)) if *l == content.len() as i64));
                if !ok_stream { fail(c, sc, "add_page_contents:stream", "new content stream wrong (content / Length)", before); }
                // the page (following top-level references) keeps everything but Contents; Contents = old list + new ref
                let mut pid = *page; let mut hops = 0;
                while let Some(Object::Reference(r)) = before.objects.get(&pid) { pid = *r; hops += 1; if hops > 200 { break; } }
                if let (Some(Object::Dictionary(b)), Some(Object::Dictionary(a))) = (before.objects.get(&pid), after.objects.get(&pid)) {
                    let old: Vec<Object> = match b.get(b"Contents") { Ok(Object::Reference(r)) => vec![Object::Reference(*r)], Ok(Object::Array(v)) => v.clone(), _ => vec![] };
                    let mut wantl = old; wantl.push(Object::Reference(nid));
                    if a.get(b"Contents").ok() != Some(&Object::Array(wantl)) { fail(c, sc, "add_page_contents:list", "Contents is not the old list plus the new stream", before); }
                    for (k, v) in b.iter() { if k != b"Contents" && a.get(k).ok() != Some(v) { fail(c, sc, "frame:add_page_contents", "page entry altered", before); break; } }
                } else { fail(c, sc, "frame:add_page_contents", "page is no dictionary", before); }
                unchanged(c, &[pid], "frame:add_page_contents");
                c.count("add_page_contents_ok");
            } else { c.count("add_page_contents_err"); }
        }
        Op::RmAnnot(id) => {
            if ret == "unit" {
                let pages: Vec<ObjectId> = before.page_iter().collect();
                let mut targets = vec![];
                for p in &pages {
                    let mut pid = *p; let mut hops = 0;
                    while let Some(Object::Reference(r)) = before.objects.get(&pid) { pid = *r; hops += 1; if hops > 200 { break; } }
                    targets.push(pid);
                    if let (Some(Object::Dictionary(b)), Some(Object::Dictionary(a))) = (before.objects.get(&pid), after.objects.get(&pid)) {
                        let want: Option<Vec<Object>> = match b.get(b"Annots") { Ok(Object::Array(v)) => Some(v.iter().filter(|o| !is_ref_to(o, *id)).cloned().collect()), _ => None };
                        if a.get(b"Annots").ok().and_then(|x| x.as_array().ok()).cloned() != want { fail(c, sc, "remove_object:annots", "Annots is not the old array without the references to the annotation", before); }
                        for (k, v) in b.iter() { if k != b"Annots" && a.get(k).ok() != Some(v) { fail(c, sc, "frame:remove_object", "page entry altered", before); break; } }
                    }
                }
                unchanged(c, &targets, "frame:remove_object");
                c.count("remove_object_ok");
            } else { c.count("remove_object_err"); }
        }
        Op::AddXObj(page, name, x) | Op::AddGs(page, name, x) => {
            let cat: &[u8] = if matches!(op, Op::AddXObj(..)) { b"XObject" } else { b"ExtGState" };
            let eb = effective_resources(before, *page);
            let ea = effective_resources(after, *page);
            if let (Some((eb, own_before)), Some((ea, _))) = (&eb, &ea) {
                let mut lost = false;
                for (k, v) in eb.iter() {
                    if (k.0.as_slice(), k.1.as_slice()) == (cat, name.as_slice()) { continue; }
                    // a resource is a name bound to an object: still bound, and to the same object when it is a reference
                    match (v, ea.get(k)) { (_, None) => lost = true, (Object::Reference(a), Some(Object::Reference(b))) if a != b => lost = true, (Object::Reference(_), Some(x)) if !matches!(x, Object::Reference(_)) => lost = true, _ => {} }
                }
                if lost {
                    if !*own_before { c.count("resources_inherited_shadowed"); fail(c, sc, "resources:inherited-shadowed", "adding a resource gave the page an own Resources dictionary that hides the inherited one", before); }
                    else { fail(c, sc, "resources:lost", "adding a resource took an existing resource away", before); }
                } else { c.count("resources_monotone_checked"); }
                let changed = after.objects != before.objects;
                if changed && ret == "unit" && ea.get(&(cat.to_vec(), name.clone())) != Some(&Object::Reference(*x)) {
                    fail(c, sc, "resources:not-added", "the new resource is not in the page's resource dictionary", before);
                }
            }
            if after.trailer != before.trailer || after.max_id != before.max_id || after.objects.len() != before.objects.len() { fail(c, sc, "frame:add_resource", "trailer / max_id / object count changed", before); }
        }
        Op::ChgStream(sid, content) => {
            if matches!(before.objects.get(sid), Some(Object::Stream(_))) { check_changed_stream(c, sc, before, after, *sid, content); unchanged(c, &[*sid], "frame:change_content_stream"); }
            else { unchanged(c, &[], "frame:change_content_stream"); }
        }
        Op::Compress | Op::Decompress => {
            // frame: nothing but stream objects changes; every stream still decodes to the same bytes and its
            // Length is the stored length; decompress leaves no FlateDecode stream compressed
            if after.trailer != before.trailer || after.max_id != before.max_id || after.objects.len() != before.objects.len() { fail(c, sc, "frame:compress", "trailer / max_id / object count changed", before); }
            for (k, o) in before.objects.iter() {
                match (o, after.objects.get(k)) {
                    (Object::Stream(b), Some(Object::Stream(a))) => {
                        if let (Some(x), y) = (decoded(b), decoded(a)) { if y.as_deref() != Some(&x[..]) { fail(c, sc, "compress:content", "a stream no longer decodes to the same content", before); break; } c.count("compress_streams_checked"); }
                        if a != b && !matches!(a.dict.get(b"Length"), Ok(Object::Integer(l)) if *l == a.content.len() as i64) { fail(c, sc, "compress:length", "Length of a rewritten stream is not its stored length", before); break; }
                        if matches!(op, Op::Decompress) && decoded(b).is_some() && a.dict.has(b"Filter") { fail(c, sc, "decompress:still-compressed", "a decodable stream is still compressed", before); break; }
                        for (dk, dv) in b.dict.iter() { if dk != b"Length" && dk != b"Filter" && dk != b"DecodeParms" && a.dict.get(dk).ok() != Some(dv) { fail(c, sc, "frame:compress", "stream dictionary entry lost", before); break; } }
                    }
                    (x, Some(y)) => if x != y { fail(c, sc, "frame:compress", "a non-stream object changed", before); break; },
                    (_, None) => { fail(c, sc, "frame:compress", "object lost", before); break; }
                }
            }
        }
        Op::ChgPage(page, content) => {
            if ret == "unit" && (after.objects != before.objects) {
                // the page's content afterwards = the new content (own decoding of the streams Contents names)
                let mut pid = *page; let mut hops = 0;
                while let Some(Object::Reference(r)) = after.objects.get(&pid) { pid = *r; hops += 1; if hops > 200 { break; } }
                if let Some(Object::Dictionary(a)) = after.objects.get(&pid) {
                    let ids: Vec<ObjectId> = match a.get(b"Contents") { Ok(Object::Reference(r)) => vec![*r], Ok(Object::Array(v)) => v.iter().filter_map(|o| o.as_reference().ok()).collect(), _ => vec![] };
                    let mut all = vec![]; let mut ok = true;
                    for i in &ids { match after.objects.get(i) { Some(Object::Stream(s)) => match decoded(s) { Some(d) => all.extend(d), None => ok = false }, _ => ok = false } }
                    if !ok || all != *content { fail(c, sc, "content:page", "the page's decoded content is not the new content", before); } else { c.count("change_page_content_checked"); }
                }
                if after.objects.len() > before.objects.len() {
                    let nid = (after.max_id, 0u16);
                    if before.objects.keys().any(|k| k.0 >= nid.0) { fail(c, sc, "fresh:change_page_content", "content stream id not fresh", before); }
                }
            }
        }
    }
}

/// after deleting `ids`: gone, no reference left except in the positions of the known finding, everything else only stripped
fn check_delete(c: &mut Ctx, sc: &StepCtx, before: &Document, after: &Document, ids: &[ObjectId], frame: bool) {
    let mut any_left = false;
    for id in ids {
        if after.objects.contains_key(id) { fail(c, sc, "del:still-there", "deleted object still present", before); }
        if !before.objects.contains_key(id) { continue; }
        let left = actual_leftovers(after, *id);
        if left == 0 { c.count("delete_clean"); continue; }
        any_left = true;
        // with several deletions in one call later ones see the earlier ones' result: classify on `before` only for single deletions
        let p = predict_leftovers(before, *id);
        if ids.len() == 1 && left != p.count {
            fail(c, sc, "ref-left-in:other", &format!("{} references to the deleted object left, {} explained by the known positions {:?}", left, p.count, p.kinds), before);
        } else if p.kinds.is_empty() {
            if ids.len() == 1 { fail(c, sc, "ref-left-in:other", "reference to the deleted object left in an unexplained position", before); }
            else { c.count("multi_delete_leftover_unclassified"); }
        } else {
            for k in &p.kinds { c.count(&format!("leftover.{}", k)); fail(c, sc, &format!("ref-left-in:{}", k), "delete_object left a reference to the deleted object behind", before); }
        }
    }
    if frame && !any_left && ids.len() == 1 && before.objects.contains_key(&ids[0]) {
        let id = ids[0];
        for (k, o) in before.objects.iter() {
            if *k == id { continue; }
            if after.objects.get(k) != Some(&strip_all(o, id, true)) { fail(c, sc, "del:frame", "an object other than the deleted one changed beyond losing references to it", before); break; }
        }
    }
}

// ---------------------------------------------------------------- programs

fn gen_op(r: &mut Rng, doc: &Document, safe_only: bool) -> Option<Op> {
    let ids: Vec<ObjectId> = doc.objects.keys().cloned().collect();
    let rp_ids: Vec<ObjectId> = if ids.is_empty() { vec![(1, 0)] } else { ids.clone() };
    let rp = RefPool { ids: &rp_ids, dangling: Dangling::Safe };
    let pages = oracle_pages(doc);
    let safe = |id: &ObjectId| predict_leftovers(doc, *id).count == 0;
    let streams: Vec<ObjectId> = doc.objects.iter().filter(|(_, o)| matches!(o, Object::Stream(_))).map(|(k, _)| *k).collect();
    let gen_content = |r: &mut Rng| -> Vec<u8> { if r.chance(1, 2) { let pat: Vec<u8> = (0..1 + r.usize(6)).map(|_| r.byte()).collect(); let n = r.usize(60); (0..n).flat_map(|_| pat.clone()).collect() } else { (0..r.usize(40)).map(|_| r.byte()).collect() } };
    let res_names: [&[u8]; 4] = [b"Im1", b"X", b"GS0", b"F1"];
    Some(match r.below(20) {
        0 => Op::NewId,
        1 | 2 => Op::Add(gen_obj(r, 0, &rp)),
        3 => {
            // replace an existing object, store above max_id, or fill a free number below max_id
            if r.chance(1, 4) { Op::Set((doc.max_id.saturating_add(1 + r.below(6) as u32), if r.chance(1, 8) { 1 } else { 0 }), gen_obj(r, 0, &rp)) }
            else if !ids.is_empty() && r.chance(3, 4) { Op::Set(*r.pick(&ids), gen_obj(r, 0, &rp)) }
            else if doc.max_id >= 1 {
                // a free NUMBER (two live objects never share a number with different generations)
                let n = 1 + r.below(doc.max_id as u64) as u32;
                if ids.iter().any(|k| k.0 == n && k.1 != 0) { return None; }
                Op::Set((n, 0), gen_obj(r, 0, &rp))
            } else { return None }
        }
        4 | 5 => {
            if ids.is_empty() { return None; }
            if safe_only { let s: Vec<ObjectId> = ids.iter().filter(|i| safe(i)).cloned().collect(); if s.is_empty() { return None; } Op::Del(*r.pick(&s)) }
            else if r.chance(1, 10) { Op::Del((r.below(50) as u32, 0)) } else { Op::Del(*r.pick(&ids)) }
        }
        6 => Op::Prune,
        7 => {
            if safe_only { let e: Vec<ObjectId> = doc.objects.iter().filter(|(_, o)| matches!(o, Object::Stream(s) if s.content.is_empty())).map(|(k, _)| *k).collect();
                if e.len() > 1 || !e.iter().all(|i| safe(i)) { return None; } }
            Op::DelZero
        }
        8 => { let hi = max_num(doc); Op::Renum(match r.below(4) { 0 | 1 => 1, 2 => 1 + r.below(hi.max(1) as u64) as u32 /* inside the range in use */, _ => hi + 1 + r.below(10) as u32 }) }
        9 => {
            if pages.is_empty() { return None; }
            let n = 1 + r.below(pages.len() as u64) as u32;
            if safe_only && !safe(&pages[n as usize - 1]) { return None; }
            let mut v = vec![n];
            if !safe_only && r.chance(1, 3) { v.push(r.below(pages.len() as u64 + 2) as u32); }
            Op::DelPages(v)
        }
        10 | 11 => {
            let target = if !pages.is_empty() && r.chance(5, 6) { *r.pick(&pages) } else if !ids.is_empty() { *r.pick(&ids) } else { (1, 0) };
            Op::AddContent(target, (0..r.usize(8)).map(|_| r.byte()).collect())
        }
        12 => {
            if ids.is_empty() { return None; }
            // mostly an id that some page's Annots really holds; sometimes the same number with another generation
            let mut annots: Vec<ObjectId> = vec![];
            for p in &pages { if let Some(Object::Dictionary(d)) = doc.objects.get(p) { if let Ok(Object::Array(a)) = d.get(b"Annots") { for x in a { if let Object::Reference(i) = x { annots.push(*i); } } } } }
            if !annots.is_empty() && r.chance(3, 4) { let a = *r.pick(&annots); if r.chance(1, 3) { Op::RmAnnot((a.0, a.1.wrapping_add(1))) } else { Op::RmAnnot(a) } }
            else { Op::RmAnnot(*r.pick(&ids)) }
        }
        13 | 14 => {
            if ids.is_empty() { return None; }
            let page = if !pages.is_empty() && r.chance(7, 8) { *r.pick(&pages) } else { *r.pick(&ids) };
            let name = r.pick(&res_names).to_vec(); let x = *r.pick(&ids);
            if r.chance(1, 2) { Op::AddXObj(page, name, x) } else { Op::AddGs(page, name, x) }
        }
        15 => {
            let t = if !streams.is_empty() && r.chance(5, 6) { *r.pick(&streams) } else if !ids.is_empty() { *r.pick(&ids) } else { return None };
            Op::ChgStream(t, gen_content(r))
        }
        16 | 17 => {
            let target = if !pages.is_empty() && r.chance(7, 8) { *r.pick(&pages) } else if !ids.is_empty() { *r.pick(&ids) } else { return None };
            Op::ChgPage(target, gen_content(r))
        }
        18 => Op::Compress,
        _ => Op::Decompress,
    })
}

/// the calls the hard documents are made for: prune / renumber / delete (of an object some reference names) on
/// deep and stale-generation documents, add_xobject / add_graphics_state on a page for inherited resources
fn gen_op_focused(r: &mut Rng, doc: &Document, kind: u64) -> Option<Op> {
    let ids: Vec<ObjectId> = doc.objects.keys().cloned().collect();
    if ids.is_empty() { return None; }
    if kind == 2 {
        let pages = oracle_pages(doc);
        if pages.is_empty() { return None; }
        let page = *r.pick(&pages); let x = *r.pick(&ids);
        let name = r.pick(&[&b"Im1"[..], b"X", b"GS0", b"F1"]).to_vec();
        return Some(if r.chance(1, 2) { Op::AddXObj(page, name, x) } else { Op::AddGs(page, name, x) });
    }
    Some(match r.below(4) {
        0 | 1 => Op::Prune,
        2 => { let hi = max_num(doc); Op::Renum(match r.below(3) { 0 => 1, 1 => 1 + r.below(hi.max(1) as u64) as u32, _ => hi + 1 + r.below(10) as u32 }) }
        _ => {
            // an object that is the target of a deeply nested reference, when there is one and deleting it leaves nothing behind
            let deep: Vec<ObjectId> = doc.objects.iter().filter(|(_, o)| matches!(o, Object::Dictionary(d) if d.has(b"DeepTarget"))).map(|(k, _)| *k).collect();
            let pool = if !deep.is_empty() { deep } else { ids };
            let s: Vec<ObjectId> = pool.iter().filter(|i| predict_leftovers(doc, **i).count == 0).cloned().collect();
            if s.is_empty() { return None; }
            Op::Del(*r.pick(&s))
        }
    })
}

/// give pages / Pages nodes resource dictionaries in the shapes the API has to cope with: own direct
/// dictionary, own dictionary behind a reference, sub-dictionaries direct or behind a reference, none
/// (inherited from an ancestor)
fn decorate_resources(r: &mut Rng, doc: &mut Document, leaves: &[ObjectId]) {
    let ids: Vec<ObjectId> = doc.objects.keys().cloned().collect();
    let sub = |r: &mut Rng, ids: &[ObjectId]| -> Dictionary { let mut d = Dictionary::new(); for n in [&b"F1"[..], b"Im1", b"GS0"].iter().take(1 + r.usize(3)) { d.set(n.to_vec(), Object::Reference(*r.pick(ids))); } d };
    let nodes: Vec<ObjectId> = doc.objects.iter().filter(|(_, o)| matches!(o, Object::Dictionary(d) if d.has_type(b"Pages"))).map(|(k, _)| *k).collect();
    for n in nodes {
        if r.chance(1, 2) {
            let mut res = Dictionary::new(); res.set("Font", Object::Dictionary(sub(r, &ids)));
            if r.chance(1, 2) { res.set("XObject", Object::Dictionary(sub(r, &ids))); }
            if let Some(Object::Dictionary(d)) = doc.objects.get_mut(&n) { d.set("Resources", Object::Dictionary(res)); }
        }
    }
    for p in leaves {
        let mut res = Dictionary::new();
        if r.chance(2, 3) { res.set("Font", Object::Dictionary(sub(r, &ids))); }
        match r.below(6) { 0 => {} 1 => { res.set("XObject", Object::Dictionary(sub(r, &ids))); }
            2 => { let x = doc.add_object(Object::Dictionary(sub(r, &ids))); res.set("XObject", Object::Reference(x)); }
            3 => { let x = doc.add_object(Object::Dictionary(sub(r, &ids))); res.set("ExtGState", Object::Reference(x)); }
            4 => { let x = doc.add_object(Object::Dictionary(sub(r, &ids))); res.set("ExtGState", Object::Reference(x));
                   let y = doc.add_object(Object::Dictionary(sub(r, &ids))); res.set("XObject", Object::Reference(y)); }
            _ => { res.set("ExtGState", Object::Dictionary(sub(r, &ids))); } }
        let v = match r.below(4) {
            0 => None,                                               // inherited (or none at all)
            1 => Some(Object::Reference(doc.add_object(Object::Dictionary(res)))),
            _ => Some(Object::Dictionary(res)),
        };
        if let Some(Object::Dictionary(d)) = doc.objects.get_mut(p) { match v { Some(v) => d.set("Resources", v), None => { d.remove(b"Resources"); } } }
    }
}

/// resources that are inherited over two and more levels: no page and no Pages node has a `Resources` entry
/// except ONE node high up (the root, or a node that has Pages nodes below it)
fn decorate_resources_high(r: &mut Rng, doc: &mut Document, leaves: &[ObjectId]) {
    let ids: Vec<ObjectId> = doc.objects.keys().cloned().collect();
    let nodes: Vec<ObjectId> = doc.objects.iter().filter(|(_, o)| matches!(o, Object::Dictionary(d) if d.has_type(b"Pages"))).map(|(k, _)| *k).collect();
    let inner: Vec<ObjectId> = nodes.iter().filter(|n| match doc.objects.get(n) { Some(Object::Dictionary(d)) => match d.get(b"Kids") {
        Ok(Object::Array(ks)) => ks.iter().any(|k| matches!(k, Object::Reference(x) if nodes.contains(x))), _ => false }, _ => false }).cloned().collect();
    for id in nodes.iter().chain(leaves.iter()) { if let Some(Object::Dictionary(d)) = doc.objects.get_mut(id) { d.remove(b"Resources"); } }
    if inner.is_empty() { return; }
    let holder = *r.pick(&inner);
    let mut res = Dictionary::new();
    for cat in [&b"Font"[..], b"XObject", b"ExtGState", b"ColorSpace"] {
        if cat == b"Font" || r.chance(1, 2) {
            let mut d = Dictionary::new();
            for n in [&b"F1"[..], b"Im1", b"GS0"].iter().take(1 + r.usize(3)) { d.set(n.to_vec(), Object::Reference(*r.pick(&ids))); }
            // a category dictionary may itself be an indirect object (`/ExtGState 7 0 R`)
            if cat != b"Font" && r.chance(1, 3) { let x = doc.add_object(Object::Dictionary(d)); res.set(cat.to_vec(), Object::Reference(x)); }
            else { res.set(cat.to_vec(), Object::Dictionary(d)); }
        }
    }
    let v = if r.chance(1, 3) { Object::Reference(doc.add_object(Object::Dictionary(res))) } else { Object::Dictionary(res) };
    if let Some(Object::Dictionary(d)) = doc.objects.get_mut(&holder) { d.set("Resources", v); }
}

/// how many Pages nodes lie between the page and the nearest ancestor that carries `Resources` (None: none does)
fn inherit_distance(doc: &Document, page: ObjectId) -> Option<usize> {
    let mut cur = page;
    for k in 0..60 {
        let d = match doc.objects.get(&cur) { Some(Object::Dictionary(d)) => d, _ => return None };
        if d.has(b"Resources") { return Some(k); }
        match d.get(b"Parent") { Ok(Object::Reference(p)) => cur = *p, _ => return None }
    }
    None
}

fn run_program(c: &mut Ctx, r: &mut Rng, stream: &str, safe_only: bool, max_len: usize) {
    let hard = stream == "programs_hard";
    let o = Opts { pages_in_id_order: r.chance(1, 2), bookmarks: false, dangling: if r.chance(1, 3) { Dangling::Safe } else { Dangling::None }, malformed: false, max_other: 8, deep_tree: hard, loose_bookmarks: false };
    let mut g = gen_doc(r, &o);
    // hard: references nested up to 128 deep that are the only way to their target; references with a generation
    // the stored object does not have; resources inherited from two and more levels up
    let kind = if hard { r.below(3) } else { 9 };
    if kind == 0 { for d in add_deep_refs(r, &mut g) { c.count(if d >= 126 { "deep_ref_depth_ge_126" } else { "deep_ref_depth_lt_126" }); } }
    if kind == 1 { let n = add_stale_refs(r, &mut g); c.count_n("stale_generation_refs", n as u64); }
    let mut doc = g.doc;
    if kind == 2 { decorate_resources_high(r, &mut doc, &g.leaves); }
    else if r.chance(2, 3) { decorate_resources(r, &mut doc, &g.leaves); }
    if r.chance(1, 4) { if let Some(l) = through_file(&doc) { doc = l; c.count("loaded_from_generated_file"); } }
    let len = 1 + r.usize(max_len);
    let mut key = String::new();
    for step in 0..len {
        let focused = if hard && r.chance(1, 2) { gen_op_focused(r, &doc, kind) } else { None };
        let Some(op) = focused.or_else(|| gen_op(r, &doc, safe_only)) else { c.count("op_skipped"); continue };
        if let Op::AddXObj(p, ..) | Op::AddGs(p, ..) = &op { if let Some(k) = inherit_distance(&doc, *p) { c.count(&format!("add_resource_inherit_distance_{}", k.min(3))); } }
        let before = doc.clone();
        let text = op_text(&op, &before);
        let req = format!("step {} {}", text, show_doc(&before));
        c.count(&format!("op.{}", text.split(' ').next().unwrap()));
        let sc = StepCtx { stream, step, op: text.clone() };
        match guard(|| { let mut d = before.clone(); let ret = apply(&mut d, &op); (d, ret) }) {
            Ok((d, ret)) => {
                c.corr(req, format!("ok {} | {}", ret, show_doc(&d)));
                oracle(c, &sc, &op, &before, &d, &ret);
                doc = d;
            }
            Err((site, msg)) => {
                c.corr(req, format!("panic {}", c10::panic_class(&msg)));
                fail(c, &sc, &format!("panic@{}", site), &msg, &before);
                break;
            }
        }
        key.push_str(&text); key.push(';');
    }
    c.nontrivial(&format!("{}{}", key, show_doc(&doc)));
    c.sample(json!({"stream": stream, "program": key.chars().take(300).collect::<String>(), "objects_at_end": doc.objects.len()}));
}

pub fn run(c: &mut Ctx) {
    c.rule = "random programs (length <= 12 quick, <= 40 thorough) of new_object_id / add_object / set_object / delete_object / prune_objects / \
delete_zero_length_streams / renumber_objects_with / delete_pages / add_page_contents with random arguments on random documents (C10's generator, 1 in 4 \
saved and re-loaded); every step compared with the Lean `step` from the real pre-state and checked by the oracle. Stream programs_hard: page trees up to 5 levels and one of (a) references inside 1..128 nested containers that are the only way to their target, (b) references whose generation the stored object does not have (mostly naming unreachable objects), (c) Resources on one high Pages node only (inherited over two and more levels), with half of the calls drawn from prune / renumber / delete resp. add_xobject / add_graphics_state. Non-trivial = a program that ran; distinct by program text + final document.".into();
    witnesses(c);
    let max_len = if c.quick() { 12 } else { 40 };
    for i in 0..c.n(3000, 25000) {
        let Some(mut r) = c.case("programs", i) else { continue };
        run_program(c, &mut r, "programs", true, max_len);
    }
    // references nested up to 128 deep, stale generations, resources inherited over several levels; page trees up to 5 levels
    for i in 0..c.n(700, 6000) {
        let Some(mut r) = c.case("programs_hard", i) else { continue };
        run_program(c, &mut r, "programs_hard", true, max_len.min(8));
    }
    // known-finding territory: arbitrary deletion targets
    for i in 0..c.n(600, 5000) {
        let Some(mut r) = c.case("programs_delete_any", i) else { continue };
        run_program(c, &mut r, "programs_delete_any", false, max_len);
    }
}

fn witnesses(c: &mut Ctx) {
    // F-C11-a: the three probed positions
    if let Some(_r) = c.case("witness_delete", 0) {
        let mut d = c10::witness_doc_1to5();
        // 5 0 R directly in the trailer (Info), directly in a stream dictionary, twice in an array
        d.objects.insert((6, 0), Object::Stream(lopdf::Stream::new({ let mut x = Dictionary::new(); x.set("Meta", Object::Reference((5, 0))); x }, vec![1, 2, 3])));
        d.objects.insert((7, 0), Object::Array(vec![Object::Reference((5, 0)), Object::Integer(1), Object::Reference((5, 0))]));
        if let Some(Object::Dictionary(cat)) = d.objects.get_mut(&(1, 0)) { cat.set("S", Object::Reference((6, 0))); cat.set("A", Object::Reference((7, 0))); cat.set("I", Object::Reference((5, 0))); }
        d.max_id = 7;
        let before = d.clone();
        let req = format!("step del 5 0 {}", show_doc(&before));
        match guard(|| { let mut x = before.clone(); let r = x.delete_object((5, 0)); (x, r) }) {
            Ok((x, ret)) => {
                c.corr(req, format!("ok {} | {}", match &ret { Some(o) => format!("some {}", show_obj(o)), None => "none".into() }, show_doc(&x)));
                let in_trailer = matches!(x.trailer.get(b"Info"), Ok(Object::Reference((5, 0))));
                let in_stream = matches!(x.objects.get(&(6, 0)), Some(Object::Stream(s)) if matches!(s.dict.get(b"Meta"), Ok(Object::Reference((5, 0)))));
                let in_array = matches!(x.objects.get(&(7, 0)), Some(Object::Array(a)) if a.iter().filter(|o| is_ref_to(o, (5, 0))).count() == 1);
                let dict_clean = matches!(x.objects.get(&(1, 0)), Some(Object::Dictionary(cat)) if !cat.has(b"I"));
                // after the partial fix the three probed positions are clean; what remains open is the unreachable holder
                let mut y = before.clone();
                y.objects.insert((9, 0), Object::Array(vec![Object::Reference((5, 0))]));
                let _ = y.delete_object((5, 0));
                let unreachable_left = matches!(y.objects.get(&(9, 0)), Some(Object::Array(a)) if a.len() == 1);
                let _ = (in_trailer, in_stream, in_array);
                c.witness("F-C11-a", unreachable_left && dict_clean && !x.objects.contains_key(&(5, 0)),
                    &format!("delete_object((5,0)): left in trailer /Info: {}, in stream dictionary: {}, second array occurrence: {}, plain dictionary entry removed: {}", in_trailer, in_stream, in_array, dict_clean));
            }
            Err((s, m)) => c.oracle_fail(&format!("panic@{}", s), &m, json!({"witness": "F-C11-a"})),
        }
    }
    // F-C11-d: a page listed twice in the page tree: renumber_objects loses an object
    if let Some(_r) = c.case("witness_renumber_duplicate_page", 0) {
        let mut d = c10::witness_doc_1to5();
        if let Some(Object::Dictionary(p)) = d.objects.get_mut(&(3, 0)) {
            p.set("Kids", Object::Array(vec![Object::Reference((2, 0)), Object::Reference((4, 0)), Object::Reference((2, 0))]));
        }
        let before = d.clone();
        if let Ok(x) = guard(|| { let mut x = before.clone(); x.renumber_objects(); x }) {
            c.corr(format!("step renum 1 {}", show_doc(&before)), format!("ok unit | {}", show_doc(&x)));
            c.witness("F-C11-d", x.objects.len() == 4 && before.objects.len() == 5,
                &format!("Kids [2 0 R, 4 0 R, 2 0 R]: renumber_objects() leaves {} of {} objects", x.objects.len(), before.objects.len()));
        }
    }
    // F-C11-e: a page that only inherits Resources gets an own (nearly empty) dictionary that hides them
    if let Some(_r) = c.case("witness_inherited_resources_shadowed", 0) {
        let mut d = c10::witness_doc_1to5();
        if let Some(Object::Dictionary(p)) = d.objects.get_mut(&(3, 0)) {
            let mut f = Dictionary::new(); f.set("F1", Object::Reference((5, 0)));
            let mut res = Dictionary::new(); res.set("Font", Object::Dictionary(f));
            p.set("Resources", Object::Dictionary(res));
        }
        let before = d.clone();
        if let Ok(x) = guard(|| { let mut x = before.clone(); let _ = x.add_xobject((2, 0), "Im1", (5, 0)); x }) {
            c.corr(format!("step addxobj 2 0 {} 5 0 {}", hex_tok(b"Im1"), show_doc(&before)), format!("ok unit | {}", show_doc(&x)));
            let eb = effective_resources(&before, (2, 0)).map(|e| e.0).unwrap_or_default();
            let ea = effective_resources(&x, (2, 0)).map(|e| e.0).unwrap_or_default();
            let key = (b"Font".to_vec(), b"F1".to_vec());
            c.witness("F-C11-e", eb.contains_key(&key) && !ea.contains_key(&key),
                &format!("page 2 inherits /Font /F1 from its parent; after add_xobject((2,0), Im1, ..) the page's own Resources has keys {:?}", ea.keys().map(|k| String::from_utf8_lossy(&k.0).to_string()).collect::<Vec<_>>()));
        }
    }
    // F-C11-b: set_object above max_id, then add_object overwrites it
    if let Some(_r) = c.case("witness_set_above_max", 0) {
        let d = c10::witness_doc_1to5();
        let before = d.clone();
        let req = format!("step set 6 0 i1 {}", show_doc(&before));
        let res = guard(|| { let mut x = before.clone(); x.set_object((6, 0), Object::Integer(1)); let mid = x.clone(); let id = x.add_object(Object::Integer(2)); (mid, x, id) });
        if let Ok((mid, x, id)) = res {
            c.corr(req, format!("ok unit | {}", show_doc(&mid)));
            c.corr(format!("step add i2 {}", show_doc(&mid)), format!("ok id {}_{} | {}", id.0, id.1, show_doc(&x)));
            // fixed by f7b469f: reproduced = the defect is back
            c.witness("F-C11-b", id == (6, 0) || x.objects.get(&(6, 0)) != Some(&Object::Integer(1)) || mid.max_id < 6,
                &format!("set_object((6,0), 1) on a document with max_id 5: max_id afterwards {}; the next add_object returned {:?}; object (6,0) is now {:?}", mid.max_id, id, x.objects.get(&(6, 0))));
        }
    }
    // F-C11-c (fixed): delete_pages on a cyclic Parent chain returns (the walk visits every ancestor once).
    // The real call is first made in an isolated worker with a time limit; only if it returned there is it
    // repeated in-process for the correspondence with the model.
    if let Some(_r) = c.case("witness_delete_pages_cycle", 0) {
        let out = crate::iso::run_isolated("C11", &["cycle".to_string()], 3000, 512);
        let d = cyclic_parent_doc();
        let returned = out.get(0).map(|s| s == "returned").unwrap_or(false);
        if returned {
            c.count("observation.delete_pages_cyclic_parent_returns");
            if let Ok(x) = guard(|| { let mut x = d.clone(); x.delete_pages(&[1]); x }) {
                c.corr(format!("step delpages 1 1 {}", show_doc(&d)), format!("ok unit | {}", show_doc(&x)));
                // the self-referencing root was decremented exactly once
                let count_ok = matches!(x.objects.get(&(3, 0)), Some(Object::Dictionary(p)) if matches!(p.get(b"Count"), Ok(Object::Integer(1))));
                if !count_ok { c.oracle_fail("delete_pages:cyclic-count", "the cyclic root's Count was not decremented exactly once", json!({"witness": "F-C11-c"})); }
            }
        } else { c.count("observation.delete_pages_cyclic_parent_hangs"); }
        c.witness("F-C11-c", !returned, &format!("delete_pages(&[1]) on a page tree whose root is its own Parent: worker outcome {:?}", out.get(0)));
    }
}

fn cyclic_parent_doc() -> Document {
    let mut d = c10::witness_doc_1to5();
    if let Some(Object::Dictionary(p)) = d.objects.get_mut(&(3, 0)) { p.set("Parent", Object::Reference((3, 0))); }
    d
}

pub fn worker_case(case: &str) -> String {
    match case {
        "cycle" => { let mut d = cyclic_parent_doc(); d.delete_pages(&[1]); "returned".into() }
        _ => "bad-case".into(),
    }
}
#[allow(dead_code)]
fn _unused(_: BTreeMap<u8, u8>) {}
