//! C11 — not yet built
use crate::ctx::Ctx;
pub fn run(c: &mut Ctx) { c.notes.push("C11: not implemented".into()); }
