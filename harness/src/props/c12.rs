//! C12 — page enumeration is the depth-first order of the page tree.
//! Generator: abstract page trees -> real `Document` + protocol `pages` request.
//! Oracle: leaves of the abstract tree (independent DFS), numbering 1..n, only-Page ids.
use crate::codec::*;
use crate::ctx::Ctx;
use crate::rng::Rng;
use lopdf::{Dictionary, Document, Object, ObjectId};
use serde_json::json;

#[derive(Clone, Debug)]
enum T { Page, Pages(Vec<T>) }

fn gen_tree(r: &mut Rng, depth: usize, max_depth: usize, budget: &mut usize) -> T {
    if depth >= max_depth || *budget == 0 || (depth > 0 && r.chance(55, 100)) { return T::Page; }
    let n = match r.below(10) { 0 => 0, 1..=6 => 1 + r.usize(3), _ => 1 + r.usize(8) };
    let mut kids = vec![];
    for _ in 0..n { if *budget == 0 { break; } *budget -= 1; kids.push(gen_tree(r, depth + 1, max_depth, budget)); }
    T::Pages(kids)
}
/// a path-like tree of the given depth with pages hanging off each level
fn gen_deep(r: &mut Rng, depth: usize) -> T {
    let mut t = T::Pages(vec![T::Page]);
    for _ in 0..depth {
        let mut kids = vec![];
        if r.chance(1, 2) { kids.push(T::Page); }
        kids.push(t);
        if r.chance(1, 2) { kids.push(T::Page); }
        if r.chance(1, 4) { kids.push(T::Pages(vec![])); }
        t = T::Pages(kids);
    }
    t
}
/// comb: every level has a following sibling, so the iterator's stack grows by one per level
fn gen_comb(r: &mut Rng, depth: usize) -> T {
    let mut t = T::Pages(vec![T::Page]);
    for _ in 0..depth {
        let mut kids = vec![];
        if r.chance(1, 3) { kids.push(T::Page); }
        kids.push(t);
        kids.push(T::Page);
        t = T::Pages(kids);
    }
    t
}
fn height(t: &T) -> usize { match t { T::Page => 0, T::Pages(k) => 1 + k.iter().map(height).max().unwrap_or(0) } }

struct Builder { doc: Document, ids: Vec<ObjectId>, next: usize, leaves: Vec<ObjectId>, kids_by_ref: u64 }

impl Builder {
    fn fresh(&mut self) -> ObjectId { let id = self.ids[self.next]; self.next += 1; id }
    /// returns the id of the node; `stacklen` mirrors nothing of the implementation — the oracle is the tree itself
    fn build(&mut self, r: &mut Rng, t: &T, parent: Option<ObjectId>) -> ObjectId {
        let id = self.fresh();
        let mut d = Dictionary::new();
        match t {
            T::Page => {
                d.set("Type", Object::Name(b"Page".to_vec()));
                if let Some(p) = parent { d.set("Parent", Object::Reference(p)); }
                // the entries a real page carries (so that a page-like dictionary WITHOUT /Type can arise by mutation)
                if r.chance(1, 2) { d.set("MediaBox", Object::Array(vec![0.into(), 0.into(), 612.into(), 792.into()])); }
                if r.chance(1, 3) { d.set("Contents", Object::Array(vec![])); }
                self.leaves.push(id);
            }
            T::Pages(kids) => {
                d.set("Type", Object::Name(b"Pages".to_vec()));
                if let Some(p) = parent { d.set("Parent", Object::Reference(p)); }
                let kid_ids: Vec<Object> = kids.iter().map(|k| Object::Reference(self.build(r, k, Some(id)))).collect();
                d.set("Count", Object::Integer(count_leaves(t) as i64));
                if r.chance(1, 4) {
                    // Kids behind a reference to an array object, directly or through a chain of references
                    let aid = self.fresh();
                    self.doc.objects.insert(aid, Object::Array(kid_ids));
                    let mut head = aid;
                    for _ in 0..r.usize(3) { let rid = self.fresh(); self.doc.objects.insert(rid, Object::Reference(head)); head = rid; }
                    d.set("Kids", Object::Reference(head));
                    self.kids_by_ref += 1;
                } else {
                    d.set("Kids", Object::Array(kid_ids));
                }
            }
        }
        self.doc.objects.insert(id, Object::Dictionary(d));
        id
    }
}
fn count_leaves(t: &T) -> usize { match t { T::Page => 1, T::Pages(k) => k.iter().map(count_leaves).sum() } }
fn count_nodes(t: &T) -> usize { match t { T::Page => 1, T::Pages(k) => 1 + k.iter().map(count_nodes).sum::<usize>() } }

fn make_ids(r: &mut Rng, n: usize) -> Vec<ObjectId> {
    // sparse, shuffled object numbers, some non-zero generations
    let mut nums: Vec<u32> = Vec::new();
    let mut cur = 0u32;
    for _ in 0..n { cur += 1 + r.below(3) as u32; nums.push(cur); }
    r.shuffle(&mut nums);
    nums.into_iter().map(|n| (n, if r.chance(1, 8) { r.below(3) as u16 } else { 0 })).collect()
}

fn build_doc(r: &mut Rng, t: &T) -> (Document, Vec<ObjectId>, u64) {
    let n = count_nodes(t) * 4 + 4;
    let ids = make_ids(r, n);
    let mut b = Builder { doc: Document::with_version("1.5"), ids, next: 0, leaves: vec![], kids_by_ref: 0 };
    let cat = b.fresh();
    let root = b.build(r, t, None);
    let mut c = Dictionary::new();
    c.set("Type", Object::Name(b"Catalog".to_vec()));
    c.set("Pages", Object::Reference(root));
    b.doc.objects.insert(cat, Object::Dictionary(c));
    b.doc.trailer.set("Root", Object::Reference(cat));
    // a few unrelated objects
    for _ in 0..r.usize(3) { let id = b.fresh(); b.doc.objects.insert(id, Object::Integer(r.range(-5, 5))); }
    (b.doc, b.leaves, b.kids_by_ref)
}

fn request(doc: &Document) -> String {
    format!("pages {} {}", show_obj(&Object::Dictionary(doc.trailer.clone())), show_objects(doc.objects.iter()))
}
fn reply(ids: &[ObjectId]) -> String {
    let mut s = format!("ok {}", ids.len());
    for (n, g) in ids { s.push_str(&format!(" {}_{}", n, g)); }
    s
}

/// independent resolution: is `id` (after following references by hand) a dictionary with /Type /Page ?
fn is_page_dict(doc: &Document, id: ObjectId) -> bool {
    let mut cur = doc.objects.get(&id);
    for _ in 0..1000 {
        match cur {
            Some(Object::Reference(r)) => cur = doc.objects.get(r),
            Some(Object::Dictionary(d)) => return matches!(d.get(b"Type"), Ok(Object::Name(n)) if n == b"Page"),
            _ => return false,
        }
    }
    false
}

/// mutate a well-formed document into a malformed one (cycles, ill-typed / dangling kids, missing Type …)
fn mutate(r: &mut Rng, doc: &mut Document, c: &mut Ctx) {
    let ids: Vec<ObjectId> = doc.objects.keys().cloned().collect();
    let n_mut = 1 + r.usize(4);
    for _ in 0..n_mut {
        let target = *r.pick(&ids);
        let other = *r.pick(&ids);
        let kind = r.below(14);
        let Some(obj) = doc.objects.get_mut(&target) else { continue };
        match kind {
            0 => { // kid cycle: append a reference to some other node (possibly an ancestor) to Kids
                if let Object::Dictionary(d) = obj { if let Ok(Object::Array(a)) = d.get_mut(b"Kids") { a.push(Object::Reference(other)); c.count("mut.kid_cycle_or_dup"); } }
            }
            1 => { if let Object::Dictionary(d) = obj { d.remove(b"Type"); c.count("mut.missing_type"); } }
            2 => { if let Object::Dictionary(d) = obj { d.set("Type", Object::Name(b"Font".to_vec())); c.count("mut.other_type"); } }
            3 => { *obj = Object::Integer(7); c.count("mut.not_a_dict"); }
            4 => { doc.objects.remove(&target); c.count("mut.dangling"); }
            5 => { if let Object::Dictionary(d) = obj { if let Ok(Object::Array(a)) = d.get_mut(b"Kids") {
                     let pos = r.usize(a.len() + 1); a.insert(pos, r.pick(&[Object::Null, Object::Integer(3), Object::Name(b"X".to_vec()), Object::Array(vec![])]).clone()); c.count("mut.nonref_kid"); } } }
            6 => { if let Object::Dictionary(d) = obj { d.set("Kids", Object::Integer(1)); c.count("mut.kids_not_array"); } }
            7 => { if let Object::Dictionary(d) = obj { d.set("Count", Object::Integer(r.range(-50, 50))); c.count("mut.wrong_count"); } }
            8 => { // reference chain in front of the node: target becomes `ref other`
                   *obj = Object::Reference(other); c.count("mut.ref_chain"); }
            9 => { if let Object::Dictionary(d) = obj { d.set("Type", Object::Integer(1)); d.set("Linearized", Object::Integer(1)); c.count("mut.linearized_fallback"); } }
            10 => { if let Object::Dictionary(d) = obj { d.set("Kids", Object::Reference(other)); c.count("mut.kids_ref_other"); } }
            12 => { // a kid reference with the NUMBER of an existing node but another generation: dangling, never a page
                    if let Object::Dictionary(d) = obj { if let Ok(Object::Array(a)) = d.get_mut(b"Kids") { let pos = r.usize(a.len() + 1); a.insert(pos, Object::Reference((other.0, other.1 + 1 + r.below(3) as u16))); c.count("mut.kid_other_generation"); } } }
            11 => { // a STREAM whose dictionary looks like a page-tree node or a page: not a dictionary object, never a page
                    if let Object::Dictionary(d) = obj { let d = d.clone(); *obj = Object::Stream(lopdf::Stream::new(d, b"q Q".to_vec())); c.count("mut.stream_node"); } }
            _ => { if let Object::Dictionary(d) = obj { if d.has(b"Kids") { d.set("Type", Object::Name(b"Page".to_vec())); } else { d.set("Type", Object::Name(b"Pages".to_vec())); } c.count("mut.swap_type"); } }
        }
    }
}

/// isolated-worker side: `pages <trailer> <k> (<num> <gen> <obj>)*` -> `ok <n> <ids…> <num|NUM>`
/// (`NUM` = get_pages is not page_iter numbered 1..n). Runs in the worker process so that a
/// non-terminating enumeration is a `timeout` outcome instead of a hung check.
pub fn worker_case(case: &str) -> String {
    let toks: Vec<&str> = case.split(' ').filter(|t| !t.is_empty()).collect();
    if toks.first() != Some(&"pages") { return "bad-case".into(); }
    let mut it = toks[1..].iter();
    let Some(Object::Dictionary(tr)) = parse_obj(&mut it) else { return "bad-case".into() };
    let Some(k) = it.next().and_then(|t| t.parse::<usize>().ok()) else { return "bad-case".into() };
    let mut doc = Document::with_version("1.5");
    doc.trailer = tr;
    for _ in 0..k {
        let (Some(n), Some(g)) = (it.next().and_then(|t| t.parse::<u32>().ok()), it.next().and_then(|t| t.parse::<u16>().ok())) else { return "bad-case".into() };
        let Some(o) = parse_obj(&mut it) else { return "bad-case".into() };
        doc.objects.insert((n, g), o);
    }
    // the iterator is polled by hand and then AGAIN after it has answered None (it claims FusedIterator): an exhausted
    // enumeration stays exhausted — no further ids, no panic, no loop
    let mut it = doc.page_iter();
    let mut ids: Vec<ObjectId> = vec![];
    while let Some(p) = it.next() { ids.push(p); }
    let again = (0..4).filter(|_| it.next().is_some()).count();
    drop(it);
    let collected: Vec<ObjectId> = doc.page_iter().collect();
    let fused = again == 0 && collected == ids;
    let pages: Vec<(u32, ObjectId)> = doc.get_pages().into_iter().collect();
    let numbered: Vec<(u32, ObjectId)> = ids.iter().enumerate().map(|(i, id)| ((i + 1) as u32, *id)).collect();
    format!("{} {} {} M{}", reply(&ids), if pages == numbered { "num" } else { "NUM" }, if fused { "fused" } else { "REPOLL" }, pages.iter().map(|(k, (n, g))| format!(" {}={}_{}", k, n, g)).collect::<String>())
}

/// number of cases that did not return (timeout / abort); after a few the campaign stops early —
/// the verdict is already a violation and every further hang costs a full timeout
static NO_RESULT: std::sync::atomic::AtomicUsize = std::sync::atomic::AtomicUsize::new(0);
fn give_up() -> bool { NO_RESULT.load(std::sync::atomic::Ordering::Relaxed) >= 4 }

/// run one request in the isolated worker; Err = panic / timeout / abort description
fn run_real(doc: &Document) -> Result<(Vec<ObjectId>, bool), (String, String)> { run_real_map(doc).map(|(a, b, _)| (a, b)) }
/// as `run_real`, plus the text of the `get_pages` map (`ok <n> <k>=<num>_<gen>*`, the reply of model op `pagesmap`)
fn run_real_map(doc: &Document) -> Result<(Vec<ObjectId>, bool, String), (String, String)> {
    let req = request(doc);
    let out = crate::iso::run_isolated("C12", &[req], 3000, 2048).pop().unwrap_or_default();
    if out.starts_with("timeout") || out.starts_with("abort") { NO_RESULT.fetch_add(1, std::sync::atomic::Ordering::Relaxed); }
    if let Some(rest) = out.strip_prefix("ok ") {
        let t: Vec<&str> = rest.split(' ').collect();
        let n: usize = t[0].parse().unwrap_or(0);
        let ids: Vec<ObjectId> = t[1..1 + n].iter().filter_map(|x| { let (a, b) = x.split_once('_')?; Some((a.parse().ok()?, b.parse().ok()?)) }).collect();
        let map: Vec<&str> = t.iter().skip(1 + n + 3).cloned().collect();
        Ok((ids, t.get(1 + n) == Some(&"num") && t.get(1 + n + 1) == Some(&"fused"), format!("ok {}{}", map.len(), map.iter().map(|m| format!(" {}", m)).collect::<String>())))
    } else if out.starts_with("panic") { let site = out.split(' ').nth(1).unwrap_or("?").to_string(); Err((site, out)) }
    else { Err((out.split(' ').next().unwrap_or("?").to_string(), out)) }
}

pub fn run(c: &mut Ctx) {
    c.rule = "random abstract page trees (depth<=8 mostly, fan-out<=8, empty intermediates, Kids direct or by reference, \
shuffled sparse ids) built into real Documents; deep path-like trees around the 256 limit; malformed variants by 1-4 mutations \
(kid cycles, ill-typed/dangling/non-reference kids, stream objects posing as nodes or pages, missing Type, wrong Count, reference chains, Linearized fallback); shallow trees with 200-400 single-kid intermediate chains. \
Non-trivial = at least 2 leaves or a malformed mutation applied; distinct by request text.".into();
    // ---- well-formed trees
    let n_valid = c.n(400, 6000);
    for i in 0..n_valid {
        let Some(mut r) = c.case("valid", i) else { continue };
        let mut budget = 60usize;
        let md = 2 + r.usize(7);
        let t = match gen_tree(&mut r, 0, md, &mut budget) { T::Page => T::Pages(vec![T::Page]), t => t };
        check_valid(c, &mut r, &t, "valid");
    }
    // ---- deep trees at and around the documented limit
    // root's forest height = d + 1; the documented limit allows forest height <= 256
    let depths: Vec<usize> = if c.quick() { vec![1, 2, 50, 200, 254, 255] } else { (1..=255).collect() };
    for (i, d) in depths.iter().enumerate() {
        let Some(mut r) = c.case("deep", i as u64) else { continue };
        let t = gen_deep(&mut r, *d);
        check_valid(c, &mut r, &t, "deep");
        let Some(mut r) = c.case("comb", i as u64) else { continue };
        let t = gen_comb(&mut r, *d);
        check_valid(c, &mut r, &t, "comb");
    }
    // ---- shallow but wide: many last-or-only intermediate nodes (more than the depth limit in total) at small depth
    for i in 0..c.n(6, 40) {
        let Some(mut r) = c.case("wide", i) else { continue };
        let width = 200 + r.usize(200); let chain = 1 + r.usize(3);
        let kids: Vec<T> = (0..width).map(|_| { let mut t = if r.chance(1, 5) { T::Pages(vec![T::Page, T::Page]) } else { T::Page }; for _ in 0..chain { t = T::Pages(vec![t]); } t }).collect();
        check_valid(c, &mut r, &T::Pages(kids), "wide");
    }
    // beyond the limit: only termination / only-pages / correspondence
    for (i, d) in [256usize, 257, 258, 300, 400].iter().enumerate() {
        let Some(mut r) = c.case("too_deep", i as u64) else { continue };
        let t = gen_deep(&mut r, *d);
        let (doc, _leaves, _) = build_doc(&mut r, &t);
        check_any(c, &doc, "too_deep");
        let Some(mut r) = c.case("too_deep_comb", i as u64) else { continue };
        let t = gen_comb(&mut r, *d);
        let (doc, _leaves, _) = build_doc(&mut r, &t);
        check_any(c, &doc, "too_deep_comb");
    }
    // ---- malformed
    let n_mal = c.n(600, 10000);
    for i in 0..n_mal {
        let Some(mut r) = c.case("malformed", i) else { continue };
        let mut budget = 30usize;
        let md = 2 + r.usize(5);
        let t = match gen_tree(&mut r, 0, md, &mut budget) { T::Page => T::Pages(vec![T::Page]), t => t };
        let (mut doc, _leaves, _) = build_doc(&mut r, &t);
        mutate(&mut r, &mut doc, c);
        check_any(c, &doc, "malformed");
    }
}

fn check_valid(c: &mut Ctx, r: &mut Rng, t: &T, stream: &str) {
    if give_up() { return; }
    let (doc, leaves, kids_by_ref) = build_doc(r, t);
    let req = request(&doc);
    if leaves.len() >= 2 { c.nontrivial(&req); }
    c.count(&format!("{}.cases", stream));
    c.count_n("valid.kids_by_reference", kids_by_ref);
    c.count_n("valid.leaves", leaves.len() as u64);
    if height(t) > 100 { c.count("valid.height_gt_100"); }
    match run_real_map(&doc) {
        Ok((it, num_ok, map)) => {
            c.corr(req.clone(), reply(&it));
            c.corr(req.replacen("pages ", "pagesmap ", 1), map);
            if it != leaves {
                c.oracle_fail("dfs-order", "page_iter differs from the depth-first leaves of the page tree",
                    json!({"request": req, "expected": reply(&leaves), "actual": reply(&it), "height": height(t)}));
            }
            if !num_ok {
                c.oracle_fail("numbering", "get_pages is not the enumeration numbered 1..n, or the exhausted iterator yields again / differs from collect()", json!({"request": req}));
            }
            // FILE leg (every fourth tree of moderate size): the same page tree written by the independent reference writer with every
            // lexical freedom of ISO 32000-1 7.2 (NUL / FF / CR / comments as white space directly after names, #-escapes in names,
            // object streams, either cross-reference kind), loaded by lopdf and enumerated — a page tree is what a FILE says it is
            if c.cur % 4 == 0 && doc.objects.len() <= 400 && doc.objects.values().all(|o| !matches!(o, Object::Stream(_))) {
                use crate::refwriter::{write_file, AObj, AObjects, Counters, Revision};
                let objs: AObjects = doc.objects.iter().map(|(id, o)| (*id, AObj { obj: o.clone(), stream: None })).collect();
                let mut style = super::c02::gen_style(r); style.lexical_freedom = true; style.junk_before_header = false;
                let mut counters = Counters::new();
                let w = write_file(r, &mut counters, &style, "1.5", &[Revision { objects: objs, trailer_extra: doc.trailer.clone() }]);
                c.count("valid.file_leg");
                if counters.get("ws.nul_ff").copied().unwrap_or(0) > 0 { c.count("valid.file_leg.nul_ff_whitespace"); }
                match crate::ctx::guard(|| Document::load_mem(&w.bytes)) {
                    Ok(Ok(d)) => match run_real(&d) {
                        Ok((it2, _)) => if it2 != leaves { c.oracle_fail("dfs-order-file", "the page tree written to a file (reference writer, free lexical choices) and loaded enumerates differently from its depth-first leaves",
                            json!({"file": hex(&w.bytes), "expected": reply(&leaves), "actual": reply(&it2)})); },
                        Err((site, msg)) => c.oracle_fail(&format!("no-result-file:{}", site), &format!("page enumeration of the loaded file did not return: {}", msg.chars().take(120).collect::<String>()), json!({"file": hex(&w.bytes)})),
                    },
                    Ok(Err(e)) => c.oracle_fail("file-load", &format!("the reference writer's file does not load: {:?}", e), json!({"file": hex(&w.bytes)})),
                    Err((site, msg)) => c.oracle_fail(&format!("panic@{}", site), &format!("loading the reference writer's file: {}", msg.chars().take(120).collect::<String>()), json!({"file": hex(&w.bytes)})),
                }
            }
            c.sample(json!({"stream": stream, "height": height(t), "leaves": leaves.len(), "request": if req.len() < 400 { req } else { format!("{}…", &req[..400]) }}));
        }
        Err((site, msg)) => c.oracle_fail(&format!("{}{}", if msg.starts_with("panic") { "panic@" } else { "no-result:" }, site), &format!("page enumeration did not return: {}", msg.chars().take(120).collect::<String>()), json!({"request": req})),
    }
}

fn check_any(c: &mut Ctx, doc: &Document, stream: &str) {
    if give_up() { return; }
    let req = request(doc);
    c.nontrivial(&req);
    c.count(&format!("{}.cases", stream));
    match run_real_map(doc) {
        Ok((it, num_ok, map)) => {
            c.corr(req.clone(), reply(&it));
            c.corr(req.replacen("pages ", "pagesmap ", 1), map);
            if it.len() > doc.objects.len() {
                c.oracle_fail("too-many", "more ids yielded than objects exist", json!({"request": req}));
            }
            for id in &it {
                if !is_page_dict(doc, *id) {
                    c.oracle_fail("non-page-yielded", "page_iter yielded an id that is not a /Type /Page dictionary",
                        json!({"request": req, "id": format!("{:?}", id), "actual": reply(&it)}));
                    break;
                }
            }
            if !num_ok {
                c.oracle_fail("numbering", "get_pages is not page_iter numbered 1..n, or the exhausted iterator yields again / differs from collect()", json!({"request": req}));
            }
            if !it.is_empty() { c.count(&format!("{}.yielded_some", stream)); }
        }
        Err((site, msg)) => c.oracle_fail(&format!("{}{}", if msg.starts_with("panic") { "panic@" } else { "no-result:" }, site), &format!("page enumeration did not return: {}", msg.chars().take(120).collect::<String>()), json!({"request": req})),
    }
}
