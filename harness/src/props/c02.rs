//! C02 — not yet built
use crate::ctx::Ctx;
pub fn run(c: &mut Ctx) { c.notes.push("C02: not implemented".into()); }
