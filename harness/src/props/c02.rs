//! C02 — well-formed PDFs from any producer load to their content.
//! Files come from the independent reference writer (refwriter.rs); oracle = the abstract document.
use crate::codec::*;
use crate::ctx::{guard, Ctx};
use crate::gen::*;
use crate::props::c01::{load_reply, same};
use crate::refwriter::*;
use crate::rng::Rng;
use lopdf::{Dictionary, Document, Object, StringFormat};
use serde_json::json;

pub fn gen_aobjects(r: &mut Rng, max_objs: usize, first_num: u32) -> AObjects {
    let mut m = AObjects::new();
    let n = 1 + r.usize(max_objs);
    let mut num = first_num;
    for _ in 0..n {
        num += if r.chance(1, 4) { 1 + r.below(4) as u32 } else { 1 };
        let gen = if r.chance(1, 8) { 1 + r.below(3) as u16 } else { 0 };
        if r.chance(1, 4) {
            let len = match r.below(4) { 0 => 0, 1 => r.usize(4), _ => r.usize(120) };
            let data: Vec<u8> = (0..len).map(|_| if r.chance(1, 3) { special_byte(r) } else { r.byte() }).collect();
            m.insert((num, gen), AObj { obj: Object::Dictionary(gen_dict(r, 2)), stream: Some(data) });
        } else {
            m.insert((num, gen), AObj { obj: gen_plain_obj(r), stream: None });
        }
    }
    m
}
/// objects without features whose reading is a separately registered finding
fn gen_plain_obj(r: &mut Rng) -> Object {
    fn fix(o: &mut Object) {
        match o {
            // raw CR handling is exercised by the dedicated witness stream (F-C02-a)
            Object::Array(a) => a.iter_mut().for_each(fix),
            Object::Dictionary(d) => d.iter_mut().for_each(|(_, v)| fix(v)),
            _ => {}
        }
    }
    let depth = r.usize(4);
    let mut o = gen_obj(r, depth);
    fix(&mut o);
    o
}
pub fn gen_trailer_extra(r: &mut Rng, objs: &AObjects) -> Dictionary {
    let mut d = Dictionary::new();
    let ids: Vec<_> = objs.keys().cloned().collect();
    d.set("Root", Object::Reference(*r.pick(&ids)));
    if r.chance(1, 2) { d.set("Info", Object::Reference(*r.pick(&ids))); }
    if r.chance(1, 3) { d.set("ID", Object::Array(vec![Object::String(r.bytes(8), StringFormat::Hexadecimal), Object::String(r.bytes(8), StringFormat::Hexadecimal)])); }
    d
}
pub fn gen_style(r: &mut Rng) -> Style {
    let xref = if r.chance(1, 2) { XrefStyle::Stream } else { XrefStyle::Table };
    Style { xref, objstm: xref == XrefStyle::Stream && r.chance(1, 2), compress: r.chance(1, 3), indirect_length: r.chance(1, 3),
            raw_cr_in_strings: false, junk_before_header: r.chance(1, 6), lexical_freedom: r.chance(4, 5) }
}

const BOOKKEEPING: &[&[u8]] = &[b"Size", b"Prev", b"Type", b"W", b"Index", b"Length", b"Filter", b"DecodeParms", b"XRefStm"];

/// compare a loaded document with the abstract one (latest revision wins). `helper_from` = first helper object number.
pub fn compare_abstract(doc: &Document, want: &AObjects, trailer_extra: &Dictionary, version: &str, helper_from: u32) -> Option<(String, String)> {
    if doc.version != version { return Some(("version".into(), format!("version {:?} != {:?}", doc.version, version))); }
    for (id, a) in want {
        let Some(got) = doc.objects.get(id) else { return Some(("missing-object".into(), format!("object {:?} missing", id))); };
        match (&a.stream, got) {
            (None, g) => if !same(g, &a.obj) { return Some((format!("object-differs:{}", kind_of(&a.obj)), format!("object {:?}: want {} got {}", id, show_obj(&a.obj), show_obj(g)))); },
            (Some(data), Object::Stream(s)) => {
                if &s.content != data { return Some(("stream-content".into(), format!("stream {:?}: content differs ({} vs {} bytes)", id, s.content.len(), data.len()))); }
                let mut gd = s.dict.clone(); gd.remove(b"Length");
                let wd = a.obj.as_dict().unwrap();
                if gd.len() != wd.len() || wd.iter().any(|(k, v)| !matches!(gd.get(k), Ok(x) if same(x, v))) { return Some(("stream-dict".into(), format!("stream {:?}: dictionary differs", id))); }
                match s.dict.get(b"Length") { Ok(Object::Integer(n)) if *n == data.len() as i64 => {}, Ok(Object::Reference(_)) => {}, _ => return Some(("stream-length".into(), format!("stream {:?}: Length entry wrong", id))) }
            }
            (Some(_), g) => return Some(("stream-kind".into(), format!("stream {:?} loaded as {}", id, show_obj(g).chars().take(80).collect::<String>()))),
        }
    }
    for (id, o) in &doc.objects {
        if !want.contains_key(id) {
            let helper = (id.0 >= helper_from || crate::refwriter::LOW_HELPER_IDS.with(|l| l.borrow().contains(&id.0))) && (matches!(o, Object::Integer(_)) || matches!(o, Object::Stream(s) if s.dict.has_type(b"ObjStm") || s.dict.has_type(b"XRef")));
            if !helper { return Some(("extra-object".into(), format!("unexpected object {:?} = {}", id, show_obj(o).chars().take(80).collect::<String>()))); }
        }
    }
    let mut t = doc.trailer.clone(); for k in BOOKKEEPING { t.remove(k); }
    if t.len() != trailer_extra.len() || trailer_extra.iter().any(|(k, v)| !matches!(t.get(k), Ok(x) if same(x, v))) {
        return Some(("trailer".into(), format!("trailer {} != {}", show_obj(&Object::Dictionary(t)), show_obj(&Object::Dictionary(trailer_extra.clone())))));
    }
    None
}
fn kind_of(o: &Object) -> &'static str {
    match o { Object::Real(_) => "real", Object::String(_, StringFormat::Literal) => "literal", Object::String(..) => "hex", Object::Name(_) => "name", Object::Array(_) => "array", Object::Dictionary(_) => "dict", Object::Integer(_) => "int", _ => "other" }
}
fn has_raw_cr_literal(objs: &AObjects) -> bool {
    fn w(o: &Object) -> bool { match o { Object::String(s, StringFormat::Literal) => s.contains(&b'\r'), Object::Array(a) => a.iter().any(w), Object::Dictionary(d) => d.iter().any(|(_, v)| w(v)), _ => false } }
    objs.values().any(|a| w(&a.obj))
}

/// prelude: a process that loads well-formed files has usually loaded damaged ones before. 160 files whose objects and whose
/// trailer nest deeper than the parser accepts are loaded first (and rejected object by object) on this thread and on the pool's
/// worker threads; nothing of that may be left behind in per-thread parser state when well-formed files are loaded afterwards.
pub fn over_deep_prelude(c: &mut Ctx) {
    if c.only.is_none() {
        let deep = format!("{}1{}", "[".repeat(200), "]".repeat(200));
        for k in 0..160u32 {
            let mut f = b"%PDF-1.4\n".to_vec(); let mut offs = vec![];
            // (the trailer is parsed on the calling thread, once per file: 160 files; the first 40 carry 64 objects for the workers)
            for n in 1..=(if k < 40 { 64u32 } else { 1 }) { offs.push(f.len()); f.extend_from_slice(format!("{} 0 obj\n{}\nendobj\n", n, deep).as_bytes()); }
            let x = f.len();
            f.extend_from_slice(format!("xref\n0 {}\n0000000000 65535 f \n", offs.len() + 1).as_bytes());
            for o in &offs { f.extend_from_slice(format!("{:010} 00000 n \n", o).as_bytes()); }
            f.extend_from_slice(format!("trailer\n<</Size 65/Root 1 0 R/K{} {}>>\nstartxref\n{}\n%%EOF", k, deep, x).as_bytes());
            let _ = guard(|| Document::load_mem(&f));
            c.count("prelude.over_deep_files");
        }
    }
}

pub fn run(c: &mut Ctx) {
    c.rule = "abstract documents (all object kinds incl. streams, sparse ids, generations) written by an independent reference writer that randomises \
white space / comments / EOLs / name and string escapes / number spellings / object order / subsection splits / xref stream W and Index / object streams / \
indirect Lengths / Flate + PNG predictor on structural streams / junk before the header; one counter per choice. Oracle = the abstract document. \
Non-trivial = every case (distinct by file bytes).".into();
    over_deep_prelude(c);
    let n = c.n(1500, 25000);
    let mut counters = Counters::new();
    for i in 0..n {
        let Some(mut r) = c.case("file", i) else { continue };
        let objs = gen_aobjects(&mut r, 10, 0);
        let extra = gen_trailer_extra(&mut r, &objs);
        let style = gen_style(&mut r);
        let version = *r.pick(&["1.4", "1.5", "1.7", "2.0", "1.3"]);
        let helper_from = objs.keys().map(|k| k.0).max().unwrap() + 1;
        let w = write_file(&mut r, &mut counters, &style, version, &[Revision { objects: objs.clone(), trailer_extra: extra.clone() }]);
        check_file(c, &w.bytes, &objs, &extra, version, helper_from, i < 3, &style);
    }
    // objects redefined by a later revision (plain over compressed and compressed over plain): what the file defines
    // is the newest definition. (Numbers in object streams of TWO revisions are C07/C08's registered finding.)
    for i in 0..c.n(300, 4000) {
        let Some(mut r) = c.case("two_revisions", i) else { continue };
        let (revs, latest) = crate::props::c07::gen_history(&mut r, 1);
        let mut style = gen_style(&mut r); style.xref = XrefStyle::Stream; style.objstm = true; style.junk_before_header = false;
        let which = r.usize(2);
        let version = "1.6";
        let helper_from = latest.keys().map(|k| k.0).max().unwrap() + 1;
        let w = write_file_with(&mut r, &mut counters, &style, version, &revs, &|ri| ri == which);
        check_file(c, &w.bytes, &latest, &revs[0].trailer_extra, version, helper_from, false, &style);
    }
    // witness stream for F-C02-a: raw CR / CRLF inside literal strings must read as LF (ISO 32000-1 7.3.4.2)
    for i in 0..c.n(40, 400) {
        let Some(mut r) = c.case("rawcr", i) else { continue };
        let mut objs = AObjects::new();
        let mut s = gen_bytes(&mut r, 10); s.push(b'\r'); if r.chance(1, 2) { s.push(b'\n'); } s.extend(gen_bytes(&mut r, 4));
        objs.insert((1, 0), AObj { obj: Object::String(s.clone(), StringFormat::Literal), stream: None });
        let extra = gen_trailer_extra(&mut r, &objs);
        let mut style = gen_style(&mut r); style.raw_cr_in_strings = true; style.objstm = false;
        let w = write_file(&mut r, &mut counters, &style, "1.4", &[Revision { objects: objs.clone(), trailer_extra: extra.clone() }]);
        // what ISO says the file defines: CR and CRLF become LF
        let mut iso = vec![]; let mut k = 0; while k < s.len() { if s[k] == b'\r' { iso.push(b'\n'); if s.get(k + 1) == Some(&b'\n') { k += 1; } } else { iso.push(s[k]); } k += 1; }
        let mut want = AObjects::new(); want.insert((1, 0), AObj { obj: Object::String(iso, StringFormat::Literal), stream: None });
        c.corr(format!("load {}", hex_tok(&w.bytes)), load_reply(&w.bytes));
        let ok = matches!(Document::load_mem(&w.bytes), Ok(d) if compare_abstract(&d, &want, &extra, "1.4", 2).is_none());
        if i == 0 { c.witness("F-C02-a", !ok, "raw CR / CRLF inside a literal string is kept instead of being read as LF"); }
        else if !ok { c.oracle_fail("raw-cr-in-literal", "raw CR / CRLF inside a literal string is kept instead of being read as LF", json!({"file": hex(&w.bytes)})); }
    }
    // witness for F-C02-b: a cross-reference stream row of an UNDEFINED type (ISO 32000-1 Table 18: "any other value shall be
    // interpreted as a reference to the null object") has the same three fields as every other row and must be skipped as
    // a whole; lopdf read only its type field, so every later row was misread (fixed by e3a88e7; Lean: Grammar.unknownType_skipped).
    if let Some(_r) = c.case("xrefstm_unknown_type", 0) {
        let mut f: Vec<u8> = b"%PDF-1.5\n".to_vec();
        let o2 = f.len(); f.extend_from_slice(b"2 0 obj\n<< /Type /Catalog >>\nendobj\n");
        let o3 = f.len(); f.extend_from_slice(b"3 0 obj\n(hello)\nendobj\n");
        let o4 = f.len();
        let row = |t: u8, a: usize, b: u8| vec![t, (a >> 8) as u8, a as u8, b];
        let mut rows = vec![];
        rows.extend(row(0, 0, 255)); rows.extend(row(3, 0, 0)); rows.extend(row(1, o2, 0)); rows.extend(row(1, o3, 0)); rows.extend(row(1, o4, 0));
        f.extend_from_slice(format!("4 0 obj\n<< /Type /XRef /Size 5 /W [1 2 1] /Index [0 5] /Root 2 0 R /Length {} >>\nstream\n", rows.len()).as_bytes());
        f.extend_from_slice(&rows);
        f.extend_from_slice(b"\nendstream\nendobj\n");
        f.extend_from_slice(format!("startxref\n{}\n%%EOF\n", o4).as_bytes());
        c.corr(format!("load {}", hex_tok(&f)), load_reply(&f));
        let ok = matches!(guard(|| Document::load_mem(&f)), Ok(Ok(d))
            if matches!(d.get_object((3, 0)), Ok(Object::String(s, _)) if s == b"hello") && d.get_object((2, 0)).is_ok());
        c.corr(format!("load {}", hex_tok(&f)), load_reply(&f));
        c.witness("F-C02-b", !ok, "objects listed after a cross-reference stream row of an undefined type are lost (the row's fields 2 and 3 are not skipped)");
        // control: the same file with the undefined-type row replaced by a free row loads completely
        let mut g = f.clone();
        let pos = g.windows(rows.len()).position(|w| w == &rows[..]).unwrap();
        g[pos + 4] = 0;
        let ok2 = matches!(guard(|| Document::load_mem(&g)), Ok(Ok(d))
            if matches!(d.get_object((3, 0)), Ok(Object::String(s, _)) if s == b"hello") && d.get_object((2, 0)).is_ok());
        c.corr(format!("load {}", hex_tok(&g)), load_reply(&g));
        if !ok2 { c.oracle_fail("xrefstm-witness-control", "control file of the F-C02-b witness does not load", json!({"file": hex(&g)})); }
        c.count("witness.xrefstm_unknown_type");
    }
    // observation (outside the claimed domain, formerly registered as F-C02-c): an object DELETED by an incremental update (its number is marked free in the appended
    // cross-reference section, ISO 32000-1 7.5.6 / 7.5.4) is still loaded from the older revision: the reader ignores
    // free entries, so the merge falls back to the older in-use entry (Lean: the `newestEntry` of
    // Grammar.loadDoc_complete_two_revisions is built from in-use entries only).
    if let Some(_r) = c.case("deleted_by_update", 0) {
        let mut f: Vec<u8> = b"%PDF-1.4\n".to_vec();
        let o1 = f.len(); f.extend_from_slice(b"1 0 obj\n/A\nendobj\n");
        let o2 = f.len(); f.extend_from_slice(b"2 0 obj\n<< /Type /Catalog >>\nendobj\n");
        let x1 = f.len();
        f.extend_from_slice(format!("xref\n0 3\n0000000000 65535 f \n{:010} 00000 n \n{:010} 00000 n \n", o1, o2).as_bytes());
        f.extend_from_slice(format!("trailer\n<< /Size 3 /Root 2 0 R >>\nstartxref\n{}\n%%EOF\n", x1).as_bytes());
        let base = f.clone();
        let x2 = f.len();
        f.extend_from_slice(b"xref\n0 2\n0000000001 65535 f \n0000000000 00001 f \n");
        f.extend_from_slice(format!("trailer\n<< /Size 3 /Root 2 0 R /Prev {} >>\nstartxref\n{}\n%%EOF\n", x1, x2).as_bytes());
        c.corr(format!("load {}", hex_tok(&f)), load_reply(&f));
        // what the file defines: object 2 only
        let ok = matches!(guard(|| Document::load_mem(&f)), Ok(Ok(d)) if d.get_object((1, 0)).is_err() && d.get_object((2, 0)).is_ok());
        // OBSERVATION, not a finding: "cross-reference entries that free an object in a later revision" are outside the
        // claimed domain of C02 (see the property text) and C07 quantifies over replacing and adding revisions only
        c.count(if ok { "observation.object_freed_by_update_is_absent" } else { "observation.object_freed_by_update_still_loaded" });
        // control: the base revision alone defines (and loads) object 1
        c.corr(format!("load {}", hex_tok(&base)), load_reply(&base));
        let ok2 = matches!(guard(|| Document::load_mem(&base)), Ok(Ok(d)) if matches!(d.get_object((1, 0)), Ok(Object::Name(n)) if n == b"A"));
        if !ok2 { c.oracle_fail("deleted-witness-control", "control file of the freed-object observation does not load", json!({"file": hex(&base)})); }
        c.count("witness.deleted_by_update");
    }
    for (k, v) in counters { c.count_n(&format!("choice.{}", k), v); }
}

pub fn check_file(c: &mut Ctx, bytes: &[u8], objs: &AObjects, extra: &Dictionary, version: &str, helper_from: u32, sample: bool, style: &Style) {
    c.nontrivial(&hex(&bytes[bytes.len().saturating_sub(64)..]));
    c.corr(format!("load {}", hex_tok(bytes)), load_reply(bytes));
    match guard(|| Document::load_mem(bytes)) {
        Ok(Ok(doc)) => {
            if let Some((sig, diff)) = compare_abstract(&doc, objs, extra, version, helper_from) {
                let sig = if has_raw_cr_literal(objs) && sig.starts_with("object-differs") { "raw-cr-in-literal".to_string() } else { sig };
                c.oracle_fail(&sig, &diff, json!({"file": hex(bytes), "style": format!("{:?}", style)}));
            }
            if sample { c.sample(json!({"style": format!("{:?}", style), "objects": objs.len(), "file": String::from_utf8_lossy(bytes).chars().take(400).collect::<String>()})); }
        }
        Ok(Err(e)) => c.oracle_fail("load-error", &format!("well-formed file rejected: {:?}", e), json!({"file": hex(bytes), "style": format!("{:?}", style)})),
        Err((site, msg)) => c.oracle_fail(&format!("panic@{}", site), &msg, json!({"file": hex(bytes)})),
    }
}
