//! C17 — not yet built
use crate::ctx::Ctx;
pub fn run(c: &mut Ctx) { c.notes.push("C17: not implemented".into()); }
