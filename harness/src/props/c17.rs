//! C17 — bookmarks become a well-formed outline that reads back.
//! Generator: random `add_bookmark` sequences (children attached in any order through parent ids)
//! over documents with 1..n pages; real `adjust_zero_pages` / `build_outline` / `get_toc`.
//! Correspondence: `c17_build` (all objects build_outline creates + max_id + bookmark pages after
//! adjust_zero_pages), `c17_toc` (get_toc on the installed document, on the reloaded document and on
//! mutated outlines), `c17_title` (title bytes + decoding).
//! Oracle (independent of the model): the abstract forest kept by the harness; a separate walk over
//! the REAL objects checks First/Last/Next/Prev/Parent/Count/Title/A and id freshness; get_toc must be
//! the preorder of the forest (titles, levels, page numbers) before and after save_to + load_mem.
use crate::codec::*;
use crate::ctx::{guard, Ctx};
use crate::rng::Rng;
use lopdf::{Bookmark, Dictionary, Document, Object, ObjectId, StringFormat};
use serde_json::json;
use std::collections::{BTreeMap, BTreeSet};

// ---------------------------------------------------------------- abstract forest (oracle side)
#[derive(Clone, Debug)]
struct Op { title: String, color: [f32; 3], format: u32, page: ObjectId, parent: Option<u32> }

#[derive(Clone, Debug)]
struct Node { title: String, color: [f32; 3], format: u32, page: ObjectId, kids: Vec<u32> }

struct Forest { nodes: BTreeMap<u32, Node>, roots: Vec<u32> }

/// what the sequence of add_bookmark calls denotes: children in insertion order under their parent;
/// a bookmark whose parent id does not exist is stored nowhere reachable.
fn forest_of(ops: &[Op]) -> Forest {
    let mut f = Forest { nodes: BTreeMap::new(), roots: vec![] };
    for (i, op) in ops.iter().enumerate() {
        let id = (i + 1) as u32;
        match op.parent {
            None => f.roots.push(id),
            Some(p) => { if let Some(n) = f.nodes.get_mut(&p) { n.kids.push(id); } }
        }
        f.nodes.insert(id, Node { title: op.title.clone(), color: op.color, format: op.format, page: op.page, kids: vec![] });
    }
    f
}
impl Forest {
    fn preorder(&self) -> Vec<(usize, u32)> {
        fn go(f: &Forest, ids: &[u32], lvl: usize, out: &mut Vec<(usize, u32)>) {
            for id in ids { out.push((lvl, *id)); go(f, &f.nodes[id].kids, lvl + 1, out); }
        }
        let mut out = vec![]; go(self, &self.roots, 1, &mut out); out
    }
    fn height(&self) -> usize {
        fn go(f: &Forest, ids: &[u32]) -> usize { ids.iter().map(|i| 1 + go(f, &f.nodes[i].kids)).max().unwrap_or(0) }
        go(self, &self.roots)
    }
    /// independent statement of adjust_zero_pages: a bookmark with page number 0 and children takes the
    /// first non-zero (adjusted) page among its children in order, (0,0) when there is none.
    fn adjust(&mut self) {
        fn go(f: &mut Forest, id: u32) -> ObjectId {
            let kids = f.nodes[&id].kids.clone();
            let mut first_nz = (0u32, 0u16);
            for k in &kids { let p = go(f, *k); if first_nz.0 == 0 && p.0 != 0 { first_nz = p; } }
            let n = f.nodes.get_mut(&id).unwrap();
            if n.page.0 == 0 && !kids.is_empty() { n.page = first_nz; }
            n.page
        }
        for r in self.roots.clone() { go(self, r); }
    }
}

// ---------------------------------------------------------------- generators
fn gen_char(r: &mut Rng, class: u64) -> char {
    loop {
        let cp: u32 = match class {
            0 => 0x20 + r.below(0x5F) as u32,                         // printable ASCII
            1 => 0xA0 + r.below(0x60) as u32,                         // Latin-1
            2 => 0x100 + r.below(0xD700) as u32,                      // BMP below the surrogates
            3 => 0xE000 + r.below(0x2000) as u32,                     // BMP above the surrogates (incl. U+FEFF, U+FFFD..)
            4 => 0x10000 + r.below(0x100000) as u32,                  // astral planes 1..16
            _ => *r.pick(&[0x7Fu32, 0x80, 0xFF, 0x100, 0xD7FF, 0xE000, 0xFEFF, 0xFFFE, 0xFFFF, 0x10000, 0x10FFFF, 0x1F600, 0xFE, 0xFF]),
        };
        if let Some(c) = char::from_u32(cp) { return c; }
    }
}
fn gen_title(r: &mut Rng, used: &mut BTreeSet<String>) -> String {
    loop {
        let len = match r.below(10) { 0 => 0, 1 => 1, 2..=7 => 2 + r.usize(8), _ => 10 + r.usize(30) };
        let style = r.below(8);
        let s: String = (0..len).map(|_| {
            let class = match style { 0 | 1 => 0, 2 => r.below(2), 3 => r.below(4), 4 => 4, 5 => 5, _ => r.below(6) };
            gen_char(r, class)
        }).collect();
        if used.insert(s.clone()) { return s; }
    }
}
const COLORS: [f32; 8] = [0.0, 1.0, 0.5, 0.25, 0.75, 0.125, 0.2, 0.3333];

/// a document with `n` pages in a page tree of random shape; returns (doc, catalog id, pages in order, a non-page id)
fn build_doc(r: &mut Rng, n_pages: usize) -> (Document, ObjectId, Vec<ObjectId>, ObjectId) {
    let mut doc = Document::with_version("1.5");
    let mut next = 0u32;
    let sparse = r.chance(1, 3);
    let mut fresh = |r: &mut Rng| { next += 1 + if sparse { r.below(3) as u32 } else { 0 }; (next, 0u16) };
    let cat = fresh(r);
    let root = fresh(r);
    let mut pages = vec![];
    // group pages under intermediate nodes
    let mut root_kids: Vec<Object> = vec![];
    let mut remaining = n_pages;
    while remaining > 0 {
        if r.chance(1, 3) && remaining >= 2 {
            let k = 1 + r.usize(remaining.min(5));
            let mid = fresh(r);
            // every third group hangs below a CHAIN of 1-4 intermediate nodes with a single kid each (legal; more inner nodes than pages)
            let chain_ids: Vec<ObjectId> = if r.chance(1, 3) { (0..1 + r.usize(4)).map(|_| fresh(r)).collect() } else { vec![] };
            let mid_parent = *chain_ids.last().unwrap_or(&root);
            let mut kids = vec![];
            for _ in 0..k {
                let p = fresh(r);
                let mut d = Dictionary::new();
                d.set("Type", Object::Name(b"Page".to_vec())); d.set("Parent", Object::Reference(mid));
                doc.objects.insert(p, Object::Dictionary(d)); pages.push(p); kids.push(Object::Reference(p));
            }
            let mut d = Dictionary::new();
            d.set("Type", Object::Name(b"Pages".to_vec())); d.set("Parent", Object::Reference(mid_parent));
            d.set("Count", Object::Integer(k as i64)); d.set("Kids", Object::Array(kids));
            doc.objects.insert(mid, Object::Dictionary(d));
            for (ci, cid) in chain_ids.iter().enumerate() {
                let mut cd = Dictionary::new();
                cd.set("Type", Object::Name(b"Pages".to_vec())); cd.set("Parent", Object::Reference(if ci == 0 { root } else { chain_ids[ci - 1] }));
                cd.set("Count", Object::Integer(k as i64)); cd.set("Kids", Object::Array(vec![Object::Reference(if ci + 1 < chain_ids.len() { chain_ids[ci + 1] } else { mid })]));
                doc.objects.insert(*cid, Object::Dictionary(cd));
            }
            root_kids.push(Object::Reference(*chain_ids.first().unwrap_or(&mid)));
            remaining -= k;
        } else {
            let p = fresh(r);
            let mut d = Dictionary::new();
            d.set("Type", Object::Name(b"Page".to_vec())); d.set("Parent", Object::Reference(root));
            doc.objects.insert(p, Object::Dictionary(d)); pages.push(p); root_kids.push(Object::Reference(p));
            remaining -= 1;
        }
    }
    let mut d = Dictionary::new();
    d.set("Type", Object::Name(b"Pages".to_vec())); d.set("Count", Object::Integer(n_pages as i64)); d.set("Kids", Object::Array(root_kids));
    doc.objects.insert(root, Object::Dictionary(d));
    let mut c = Dictionary::new();
    c.set("Type", Object::Name(b"Catalog".to_vec())); c.set("Pages", Object::Reference(root));
    doc.objects.insert(cat, Object::Dictionary(c));
    doc.trailer.set("Root", Object::Reference(cat));
    let other = fresh(r);
    doc.objects.insert(other, Object::Integer(42));
    doc.max_id = next + if r.chance(1, 4) { r.below(5) as u32 } else { 0 };
    (doc, cat, pages, other)
}

#[derive(Clone, Copy, PartialEq)]
enum PageMode { Valid, ZeroParents, Foreign }

fn gen_ops(r: &mut Rng, pages: &[ObjectId], other: ObjectId, mode: PageMode, max_nodes: usize, orphans: bool) -> Vec<Op> {
    let n = 1 + r.usize(max_nodes);
    let max_depth = 1 + r.usize(6);
    let max_fan = 1 + r.usize(6);
    let mut used = BTreeSet::new();
    let mut depth: BTreeMap<u32, usize> = BTreeMap::new();
    let mut fan: BTreeMap<u32, usize> = BTreeMap::new();
    let mut ops = vec![];
    let attach_bias = 1 + r.below(4);
    for i in 0..n {
        let id = (i + 1) as u32;
        let mut parent = None;
        if i > 0 && r.chance(attach_bias, 5) {
            // any earlier bookmark that still has room: children arrive in any interleaving
            let cands: Vec<u32> = depth.iter().filter(|(p, d)| **d < max_depth && fan.get(p).copied().unwrap_or(0) < max_fan).map(|(p, _)| *p).collect();
            if !cands.is_empty() { parent = Some(*r.pick(&cands)); }
        }
        if orphans && r.chance(1, 12) { parent = Some(id + r.below(3) as u32); } // not (yet) existing id
        match parent {
            Some(p) if depth.contains_key(&p) => { depth.insert(id, depth[&p] + 1); *fan.entry(p).or_insert(0) += 1; }
            Some(_) => {}
            None => { depth.insert(id, 1); }
        }
        let page = match mode {
            PageMode::Valid => *r.pick(pages),
            PageMode::ZeroParents => if r.chance(2, 5) { (0, if r.chance(1, 4) { 3 } else { 0 }) } else { *r.pick(pages) },
            PageMode::Foreign => match r.below(6) { 0 => other, 1 => (9999, 0), 2 => (0, 0), _ => *r.pick(pages) },
        };
        ops.push(Op { title: gen_title(r, &mut used), color: [*r.pick(&COLORS), *r.pick(&COLORS), *r.pick(&COLORS)],
                      format: r.below(4) as u32, page, parent });
    }
    ops
}

fn cps(s: &str) -> String {
    let v: Vec<String> = s.chars().map(|c| (c as u32).to_string()).collect();
    if v.is_empty() { "0".into() } else { format!("{} {}", v.len(), v.join(" ")) }
}
fn build_request(max_id: u32, adjust: bool, ops: &[Op]) -> String {
    let mut s = format!("c17_build {} {} {}", max_id, adjust as u8, ops.len());
    for op in ops {
        s.push_str(&format!(" {} {} {} {} {} {} {} {}", op.parent.map(|p| p.to_string()).unwrap_or("-".into()), op.page.0, op.page.1,
            op.format, real_text(op.color[0]), real_text(op.color[1]), real_text(op.color[2]), cps(&op.title)));
    }
    s
}
fn apply_ops(doc: &mut Document, ops: &[Op]) -> Vec<u32> {
    ops.iter().map(|op| doc.add_bookmark(Bookmark::new(op.title.clone(), op.color, op.format, op.page), op.parent)).collect()
}
fn bm_pages(doc: &Document) -> String {
    let mut s = String::from("bm");
    for id in 1..=doc.max_bookmark_id {
        match doc.bookmark_table.get(&id) { Some(b) => s.push_str(&format!(" {}={}_{}", id, b.page.0, b.page.1)), None => s.push_str(&format!(" {}=?", id)) }
    }
    s
}
fn toc_request(doc: &Document) -> String {
    format!("c17_toc {} {}", show_obj(&Object::Dictionary(doc.trailer.clone())), show_objects(doc.objects.iter()))
}
fn toc_reply(doc: &Document) -> Result<String, (String, String)> {
    guard(|| match doc.get_toc() {
        Ok(t) => {
            let mut s = format!("ok {}", t.toc.len());
            for e in &t.toc { s.push_str(&format!(" | {} {} {}", e.level, e.page, cps(&e.title))); }
            s.push_str(&format!(" errs={}", t.errors.len()));
            s
        }
        Err(_) => "err".into(),
    })
}

// ---------------------------------------------------------------- independent link walk over the real objects
fn dict_of<'a>(doc: &'a Document, id: ObjectId) -> Result<&'a Dictionary, String> {
    match doc.objects.get(&id) { Some(Object::Dictionary(d)) => Ok(d), o => Err(format!("{:?} is not a dictionary: {:?}", id, o.map(|o| o.enum_variant()))) }
}
fn ref_of(d: &Dictionary, key: &str) -> Option<ObjectId> { match d.get(key.as_bytes()) { Ok(Object::Reference(r)) => Some(*r), _ => None } }
fn decode_title_ref(b: &[u8]) -> Option<String> {
    if b.len() >= 2 && b[0] == 0xFE && b[1] == 0xFF {
        if b.len() % 2 != 0 { return None; }
        let u: Vec<u16> = b[2..].chunks(2).map(|x| u16::from_be_bytes([x[0], x[1]])).collect();
        String::from_utf16(&u).ok()
    } else { String::from_utf8(b.to_vec()).ok() }
}
struct Walk<'a> { doc: &'a Document, f: &'a Forest, old_max: u32, seen: BTreeSet<ObjectId> }
impl<'a> Walk<'a> {
    fn fresh(&mut self, id: ObjectId, what: &str) -> Result<(), String> {
        if id.0 <= self.old_max || id.1 != 0 { return Err(format!("{} id {:?} is not fresh (old max_id {})", what, id, self.old_max)); }
        if !self.seen.insert(id) { return Err(format!("{} id {:?} used twice", what, id)); }
        Ok(())
    }
    /// check the children of object `pid` (dictionary `pd`) against the expected bookmark ids `kids`
    fn children(&mut self, pid: ObjectId, pd: &Dictionary, kids: &[u32], is_root: bool) -> Result<(), String> {
        if kids.is_empty() {
            for k in ["First", "Last"] { if pd.has(k.as_bytes()) { return Err(format!("{:?} has {} but no children", pid, k)); } }
            if !is_root && pd.has(b"Count") { return Err(format!("{:?} has Count but no children", pid)); }
            return Ok(());
        }
        match pd.get(b"Count") { Ok(Object::Integer(c)) if *c == kids.len() as i64 => {}, o => return Err(format!("{:?} Count {:?}, expected {}", pid, o, kids.len())) }
        // forward chain
        let mut fwd = vec![];
        let mut cur = ref_of(pd, "First");
        while let Some(id) = cur {
            if fwd.len() > kids.len() { return Err(format!("Next chain under {:?} longer than {}", pid, kids.len())); }
            fwd.push(id);
            cur = ref_of(dict_of(self.doc, id)?, "Next");
        }
        // backward chain
        let mut bwd = vec![];
        let mut cur = ref_of(pd, "Last");
        while let Some(id) = cur {
            if bwd.len() > kids.len() { return Err(format!("Prev chain under {:?} longer than {}", pid, kids.len())); }
            bwd.push(id);
            cur = ref_of(dict_of(self.doc, id)?, "Prev");
        }
        bwd.reverse();
        if fwd.len() != kids.len() { return Err(format!("{:?}: {} children by First/Next, expected {}", pid, fwd.len(), kids.len())); }
        if fwd != bwd { return Err(format!("{:?}: First/Next chain {:?} differs from reversed Last/Prev chain {:?}", pid, fwd, bwd)); }
        for (i, (oid, bid)) in fwd.iter().zip(kids.iter()).enumerate() {
            let n = &self.f.nodes[bid];
            self.fresh(*oid, "item")?;
            let d = dict_of(self.doc, *oid)?;
            if ref_of(d, "Parent") != Some(pid) { return Err(format!("{:?}: Parent {:?}, expected {:?}", oid, d.get(b"Parent").ok(), pid)); }
            if i == 0 && d.has(b"Prev") { return Err(format!("{:?}: first sibling has Prev", oid)); }
            if i > 0 && ref_of(d, "Prev") != Some(fwd[i - 1]) { return Err(format!("{:?}: Prev is not the previous sibling", oid)); }
            if i + 1 == fwd.len() && d.has(b"Next") { return Err(format!("{:?}: last sibling has Next", oid)); }
            match d.get(b"Title") {
                Ok(Object::String(b, StringFormat::Literal)) => {
                    if decode_title_ref(b).as_deref() != Some(n.title.as_str()) { return Err(format!("{:?}: Title bytes {} do not decode to {:?}", oid, hex(b), n.title)); }
                }
                o => return Err(format!("{:?}: Title {:?}", oid, o)),
            }
            match d.get(b"F") { Ok(Object::Integer(x)) if *x == n.format as i64 => {}, o => return Err(format!("{:?}: F {:?}", oid, o)) }
            match d.get(b"C") { Ok(Object::Array(a)) if a.len() == 3 && a.iter().zip(n.color.iter()).all(|(x, y)| matches!(x, Object::Real(v) if v == y)) => {}, o => return Err(format!("{:?}: C {:?}", oid, o)) }
            let aid = ref_of(d, "A").ok_or(format!("{:?}: no A reference", oid))?;
            self.fresh(aid, "action")?;
            let a = dict_of(self.doc, aid)?;
            if !matches!(a.get(b"S"), Ok(Object::Name(s)) if s == b"GoTo") { return Err(format!("{:?}: action S {:?}", aid, a.get(b"S").ok())); }
            match a.get(b"D") {
                Ok(Object::Array(v)) if v.len() == 2 && v[0] == Object::Reference(n.page) && matches!(&v[1], Object::Name(s) if s == b"Fit") => {}
                o => return Err(format!("{:?}: action D {:?}, expected [{:?} /Fit]", aid, o, n.page)),
            }
            self.children(*oid, d, &n.kids, false)?;
        }
        Ok(())
    }
}
fn check_links(doc: &Document, before: &BTreeMap<ObjectId, Object>, old_max: u32, root: ObjectId, f: &Forest) -> Result<(), String> {
    let mut w = Walk { doc, f, old_max, seen: BTreeSet::new() };
    w.fresh(root, "outline root")?;
    let rd = dict_of(doc, root)?;
    w.children(root, rd, &f.roots, true)?;
    let n = f.preorder().len();
    if w.seen.len() != 1 + 2 * n { return Err(format!("{} objects reachable, expected {}", w.seen.len(), 1 + 2 * n)); }
    let new_ids: BTreeSet<ObjectId> = doc.objects.keys().filter(|k| !before.contains_key(k)).cloned().collect();
    if new_ids != w.seen { return Err(format!("created objects {:?} differ from the reachable outline objects {:?}", new_ids, w.seen)); }
    for (k, v) in before { if doc.objects.get(k) != Some(v) { return Err(format!("existing object {:?} was changed", k)); } }
    let mx = w.seen.iter().map(|i| i.0).max().unwrap();
    if doc.max_id != mx { return Err(format!("max_id {} after build, largest created id {}", doc.max_id, mx)); }
    Ok(())
}

fn expected_toc(f: &Forest, pages: &[ObjectId]) -> Vec<(usize, String, usize)> {
    let mut out = vec![];
    for (lvl, id) in f.preorder() {
        let n = &f.nodes[&id];
        // page number = position in the page tree (last position if listed twice)
        if let Some(pos) = pages.iter().rposition(|p| *p == n.page) { out.push((lvl, n.title.clone(), pos + 1)); }
    }
    out
}
fn toc_of(doc: &Document) -> Result<Result<(Vec<(usize, String, usize)>, usize), String>, (String, String)> {
    guard(|| doc.get_toc().map(|t| (t.toc.iter().map(|e| (e.level, e.title.clone(), e.page)).collect(), t.errors.len())).map_err(|e| e.to_string()))
}

fn case_json(max_id: u32, adjust: bool, ops: &[Op], n_pages: usize) -> serde_json::Value {
    json!({"old_max_id": max_id, "adjust_zero_pages": adjust, "pages": n_pages,
           "ops": ops.iter().map(|o| json!({"title": o.title, "parent": o.parent, "page": format!("{:?}", o.page)})).collect::<Vec<_>>()})
}

/// one full scenario on the real code; `stream` names the generator
fn scenario(c: &mut Ctx, r: &mut Rng, mode: PageMode, max_nodes: usize, orphans: bool, stream: &str) {
    let big = r.chance(1, 5);
    let n_pages = 1 + r.usize(if big { 40 } else { 8 });
    let (mut doc, cat, pages, other) = build_doc(r, n_pages);
    let ops = gen_ops(r, &pages, other, mode, max_nodes, orphans);
    let adjust = mode == PageMode::ZeroParents || r.chance(1, 3);
    let old_max = doc.max_id;
    let before = doc.objects.clone();
    let mut f = forest_of(&ops);
    let cj = case_json(old_max, adjust, &ops, n_pages);
    let req = build_request(old_max, adjust, &ops);
    c.count(&format!("{}.cases", stream));
    c.count_n(&format!("{}.bookmarks", stream), ops.len() as u64);
    if f.preorder().len() >= 2 { c.nontrivial(&req); }
    if f.height() >= 4 { c.count("forest.height_ge_4"); }
    if ops.iter().any(|o| !o.title.is_ascii()) { c.count("titles.some_non_ascii"); }
    if ops.iter().any(|o| o.title.chars().any(|ch| ch as u32 >= 0x10000)) { c.count("titles.some_astral"); }
    if f.preorder().len() < ops.len() { c.count("forest.has_orphans"); }
    // children arriving after a younger sibling subtree was started = "any order"
    if ops.iter().enumerate().any(|(i, o)| o.parent.map(|p| (p as usize) < i).unwrap_or(false)) { c.count("forest.interleaved_attach"); }

    let res = guard(|| {
        let ids = apply_ops(&mut doc, &ops);
        if adjust { doc.adjust_zero_pages(); }
        let bm = bm_pages(&doc);
        let root = doc.build_outline();
        (ids, bm, root)
    });
    let (ids, bm, root) = match res {
        Ok(x) => x,
        Err((site, msg)) => { c.oracle_fail(&format!("panic@{}", site), &msg, cj); return; }
    };
    if ids != (1..=ops.len() as u32).collect::<Vec<_>>() {
        c.oracle_fail("bookmark-ids", "add_bookmark did not return 1..n", cj.clone());
    }
    // ---- correspondence: everything build_outline created
    let created: Vec<(&ObjectId, &Object)> = doc.objects.iter().filter(|(k, _)| !before.contains_key(k)).collect();
    let reply = match root {
        Some(rt) => format!("ok R{}_{} {} rep=1 {} objs {}", rt.0, rt.1, doc.max_id, bm, show_objects(created.into_iter())),
        None => format!("ok none {} rep=1 {} objs 0", doc.max_id, bm),
    };
    c.corr(req.clone(), reply);
    // ---- oracle: adjust_zero_pages
    if adjust {
        f.adjust();
        for (id, n) in &f.nodes {
            // unreachable bookmarks are never visited by adjust_zero_pages
            let got = doc.bookmark_table.get(id).map(|b| b.page);
            if got != Some(n.page) && f.preorder().iter().any(|(_, i)| i == id) {
                c.oracle_fail("adjust-zero-pages", &format!("bookmark {} has page {:?} after adjust_zero_pages, expected {:?}", id, got, n.page), cj.clone());
                break;
            }
        }
    }
    let Some(root) = root else {
        if !f.roots.is_empty() { c.oracle_fail("no-outline", "build_outline returned None for a non-empty forest", cj); }
        else { c.count("build.none_for_empty_forest"); }
        return;
    };
    // ---- oracle: link consistency by an independent walk
    if let Err(e) = check_links(&doc, &before, old_max, root, &f) {
        c.oracle_fail("links", &e, cj.clone());
        return;
    }
    c.count("links.checked");
    // ---- install and read back
    if let Ok(Object::Dictionary(d)) = doc.get_object_mut(cat) { d.set("Outlines", Object::Reference(root)); }
    let expected = expected_toc(&f, &pages);
    let all_listed = expected.len() == f.preorder().len();
    if all_listed { c.count("toc.all_targets_are_pages"); } else { c.count("toc.some_targets_not_pages"); }
    match toc_reply(&doc) {
        Ok(rep) => c.corr(toc_request(&doc), rep),
        Err((site, msg)) => { c.oracle_fail(&format!("panic@{}", site), &msg, cj.clone()); return; }
    }
    match toc_of(&doc) {
        Ok(Ok((toc, nerr))) => {
            if toc != expected || nerr != 0 {
                c.oracle_fail("toc-readback", "get_toc differs from the preorder of the bookmark forest",
                    json!({"case": cj, "expected": format!("{:?}", expected), "actual": format!("{:?}", toc), "errors": nerr}));
                return;
            }
        }
        Ok(Err(e)) => { c.oracle_fail("toc-error", &e, cj.clone()); return; }
        Err((site, msg)) => { c.oracle_fail(&format!("panic@{}", site), &msg, cj.clone()); return; }
    }
    c.count("toc.readback_ok");
    // ---- after save_to + load_mem
    let mut buf = Vec::new();
    let reloaded = guard(|| { doc.save_to(&mut buf).map_err(|e| e.to_string())?; Document::load_mem(&buf).map_err(|e| e.to_string()) });
    match reloaded {
        Ok(Ok(d2)) => {
            match toc_of(&d2) {
                Ok(Ok((toc, nerr))) => {
                    if toc != expected || nerr != 0 {
                        c.oracle_fail("toc-readback-reload", "get_toc after save_to + load_mem differs from the preorder of the bookmark forest",
                            json!({"case": cj, "expected": format!("{:?}", expected), "actual": format!("{:?}", toc), "errors": nerr}));
                        return;
                    }
                    c.count("toc.readback_after_reload_ok");
                    if r.chance(1, 4) { if let Ok(rep) = toc_reply(&d2) { c.corr(toc_request(&d2), rep); c.count("toc.corr_on_reloaded"); } }
                }
                Ok(Err(e)) => c.oracle_fail("toc-error-reload", &e, cj.clone()),
                Err((site, msg)) => c.oracle_fail(&format!("panic@{}", site), &msg, cj.clone()),
            }
        }
        Ok(Err(e)) => c.oracle_fail("save-load", &e, cj.clone()),
        Err((site, msg)) => c.oracle_fail(&format!("panic@{}", site), &msg, cj.clone()),
    }
    c.sample(json!({"stream": stream, "bookmarks": ops.len(), "height": f.height(), "pages": n_pages,
                    "titles": ops.iter().take(4).map(|o| o.title.clone()).collect::<Vec<_>>() }));
}

// ---------------------------------------------------------------- reader stream: mutated outlines (no cycles)
fn mutate_outline(r: &mut Rng, doc: &mut Document, created: &[ObjectId], cat: ObjectId, other: ObjectId, c: &mut Ctx) {
    let items: Vec<ObjectId> = created.iter().filter(|id| matches!(doc.objects.get(id), Some(Object::Dictionary(d)) if d.has(b"Title"))).cloned().collect();
    let actions: Vec<ObjectId> = created.iter().filter(|id| matches!(doc.objects.get(id), Some(Object::Dictionary(d)) if d.has(b"S"))).cloned().collect();
    if items.is_empty() { return; }
    let fresh_id = (doc.objects.keys().map(|k| k.0).max().unwrap() + 1, 0u16);
    let n_mut = 1 + r.usize(3);
    for m in 0..n_mut {
        let it = *r.pick(&items);
        let ac = *r.pick(&actions);
        let extra = (fresh_id.0 + m as u32, 0u16);
        let kind = r.below(25);
        let key = format!("mut.{:02}", kind);
        c.count(&key);
        match kind {
            0 => { if let Some(Object::Dictionary(d)) = doc.objects.get_mut(&it) { d.remove(b"Title"); } }
            1 => { // Title behind a reference to a string
                let t = if let Some(Object::Dictionary(d)) = doc.objects.get(&it) { d.get(b"Title").ok().cloned() } else { None };
                if let Some(t) = t { doc.objects.insert(extra, t); if let Some(Object::Dictionary(d)) = doc.objects.get_mut(&it) { d.set("Title", Object::Reference(extra)); } }
            }
            2 => { if let Some(Object::Dictionary(d)) = doc.objects.get_mut(&it) { d.set("Title", Object::Reference(other)); } }  // reference to an integer -> get_toc Err
            3 => { if let Some(Object::Dictionary(d)) = doc.objects.get_mut(&it) { d.set("Title", Object::Integer(3)); } }
            4 => { // Dest instead of A
                let dst = if let Some(Object::Dictionary(a)) = doc.objects.get(&ac) { a.get(b"D").ok().cloned() } else { None };
                if let (Some(dst), Some(Object::Dictionary(d))) = (dst, doc.objects.get_mut(&it)) { d.remove(b"A"); d.set("Dest", dst); }
            }
            5 => { if let Some(Object::Dictionary(a)) = doc.objects.get_mut(&ac) { a.set("D", Object::string_literal("named")); } }
            6 => { if let Some(Object::Dictionary(a)) = doc.objects.get_mut(&ac) { a.set("S", Object::Name(b"URI".to_vec())); } }
            7 => { if let Some(Object::Dictionary(a)) = doc.objects.get_mut(&ac) { a.set("S", Object::Name(b"GoToR".to_vec())); } }
            8 => { if let Some(Object::Dictionary(d)) = doc.objects.get_mut(&it) { d.set("Next", Object::Reference((77777, 0))); } }   // dangling: loop ends
            9 => { if let Some(Object::Dictionary(d)) = doc.objects.get_mut(&it) { d.set("First", Object::Reference((77777, 0))); } }  // dangling First: Err
            10 => { if let Some(Object::Dictionary(d)) = doc.objects.get_mut(&it) { d.set("First", Object::Integer(1)); } }
            11 => { // LE byte-order mark
                if let Some(Object::Dictionary(d)) = doc.objects.get_mut(&it) {
                    let s: String = (0..1 + r.usize(5)).map(|_| { let cl = r.below(6); gen_char(r, cl) }).collect();
                    let mut b = vec![0xFF, 0xFE]; for u in s.encode_utf16() { b.extend(u.to_le_bytes()); }
                    d.set("Title", Object::string_literal(b));
                }
            }
            12 => { // odd length behind a byte-order mark
                if let Some(Object::Dictionary(d)) = doc.objects.get_mut(&it) {
                    let mut b = if r.chance(1, 2) { vec![0xFE, 0xFF] } else { vec![0xFF, 0xFE] };
                    for _ in 0..(1 + 2 * r.usize(4)) { b.push(0x20 + r.below(0x50) as u8); }
                    d.set("Title", Object::string_literal(b));
                }
            }
            13 => { // unpaired / swapped surrogates
                if let Some(Object::Dictionary(d)) = doc.objects.get_mut(&it) {
                    let mut b = vec![0xFE, 0xFF];
                    for _ in 0..(1 + r.usize(6)) {
                        let u: u16 = match r.below(4) { 0 => 0xD800 + r.below(0x400) as u16, 1 => 0xDC00 + r.below(0x400) as u16, 2 => 0x41 + r.below(20) as u16, _ => r.next() as u16 };
                        b.extend(u.to_be_bytes());
                    }
                    d.set("Title", Object::string_literal(b));
                }
            }
            14 => { if let Some(Object::Dictionary(a)) = doc.objects.get_mut(&ac) { a.set("D", Object::Array(vec![Object::Integer(2), Object::Name(b"Fit".to_vec())])); } } // page not a reference -> Err
            15 => { // duplicate an existing title
                let t = if let Some(Object::Dictionary(d)) = doc.objects.get(r.pick(&items)) { d.get(b"Title").ok().cloned() } else { None };
                if let (Some(t), Some(Object::Dictionary(d))) = (t, doc.objects.get_mut(&it)) { d.set("Title", t); }
            }
            16 => { // destination behind a reference
                let dst = if let Some(Object::Dictionary(a)) = doc.objects.get(&ac) { a.get(b"D").ok().cloned() } else { None };
                if let Some(dst) = dst { doc.objects.insert(extra, dst); if let Some(Object::Dictionary(a)) = doc.objects.get_mut(&ac) { a.set("D", Object::Reference(extra)); } }
            }
            17 => { if let Some(Object::Dictionary(d)) = doc.objects.get_mut(&cat) { if r.chance(1, 2) { d.remove(b"Outlines"); } else { d.set("Outlines", Object::Integer(0)); } } }
            18 => { // action dictionary held directly
                let a = doc.objects.get(&ac).cloned();
                if let (Some(a), Some(Object::Dictionary(d))) = (a, doc.objects.get_mut(&it)) { if ref_of(d, "A") == Some(ac) { d.set("A", a); } }
            }
            19 => { if let Some(Object::Dictionary(d)) = doc.objects.get_mut(&it) { d.remove(b"Next"); } }  // chain cut
            20 => { // the SAME dangling Next on two different items: the one `seen` set of get_outlines (bca5e67) rejects the second
                let other_it = *r.pick(&items);
                for x in [it, other_it] { if let Some(Object::Dictionary(d)) = doc.objects.get_mut(&x) { d.set("Next", Object::Reference((77777, 0))); } }
                if other_it != it { c.count("mut.20.two_items"); }
            }
            21 | 22 => { // an item reached twice (shared, not cyclic): target = an item without First and Next
                let leaves: Vec<ObjectId> = items.iter().filter(|id| **id != it && matches!(doc.objects.get(id), Some(Object::Dictionary(d)) if !d.has(b"First") && !d.has(b"Next"))).cloned().collect();
                if !leaves.is_empty() {
                    let tgt = *r.pick(&leaves);
                    // `it` must not lie below ... a leaf has nothing below it, and nothing after it: no cycle possible
                    if let Some(Object::Dictionary(d)) = doc.objects.get_mut(&it) {
                        if kind == 21 { if !d.has(b"First") { d.set("First", Object::Reference(tgt)); c.count("mut.21.shared_first"); } }
                        else if !d.has(b"Next") { d.set("Next", Object::Reference(tgt)); c.count("mut.22.shared_next"); }
                    }
                }
            }
            23 => { if let Some(Object::Dictionary(a)) = doc.objects.get_mut(&ac) { // destination array shorter than two elements (cc9b602: Err, not panic)
                        let short = if r.chance(1, 2) { vec![] } else { vec![Object::Integer(1)] }; a.set("D", Object::Array(short)); } }
            _ => { // named destination that resolves through the catalog's Dests name tree
                let dst = if let Some(Object::Dictionary(a)) = doc.objects.get(&ac) { a.get(b"D").ok().cloned() } else { None };
                if let Some(dst) = dst {
                    let mut dd = Dictionary::new(); dd.set("D", dst);
                    let mut tree = Dictionary::new();
                    tree.set("Names", Object::Array(vec![Object::string_literal("named"), Object::Dictionary(dd), Object::string_literal("unused"), Object::Integer(1)]));
                    if let Some(Object::Dictionary(d)) = doc.objects.get_mut(&cat) {
                        if r.chance(1, 2) { d.set("Dests", Object::Dictionary(tree)); }
                        else { let mut names = Dictionary::new(); names.set("Dests", Object::Dictionary(tree)); d.set("Names", Object::Dictionary(names)); }
                    }
                    if let Some(Object::Dictionary(a)) = doc.objects.get_mut(&ac) { a.set("D", Object::string_literal("named")); }
                }
            }
        }
    }
}

fn reader_case(c: &mut Ctx, r: &mut Rng) {
    let n_pages = 1 + r.usize(6);
    let (mut doc, cat, pages, other) = build_doc(r, n_pages);
    let ops = gen_ops(r, &pages, other, PageMode::Foreign, 14, false);
    let before: BTreeSet<ObjectId> = doc.objects.keys().cloned().collect();
    apply_ops(&mut doc, &ops);
    let Some(root) = doc.build_outline() else { return };
    if let Ok(Object::Dictionary(d)) = doc.get_object_mut(cat) { d.set("Outlines", Object::Reference(root)); }
    let created: Vec<ObjectId> = doc.objects.keys().filter(|k| !before.contains(k)).cloned().collect();
    mutate_outline(r, &mut doc, &created, cat, other, c);
    let req = toc_request(&doc);
    c.nontrivial(&req);
    c.count("reader.cases");
    match toc_reply(&doc) {
        Ok(rep) => { if rep == "err" { c.count("reader.err"); } else { c.count("reader.ok"); } c.corr(req, rep); }
        Err((site, msg)) => c.oracle_fail(&format!("panic@{}", site), &msg, json!({"request": req})),
    }
}

pub fn run(c: &mut Ctx) {
    c.rule = "random add_bookmark sequences (1..40 bookmarks, depth<=6, fan-out<=6, children attached to any earlier bookmark in any \
interleaving, occasionally to a not-existing id; pairwise distinct titles from ASCII / Latin-1 / BMP / astral planes and boundary code points; \
pages = any page of a 1..40-page document with a nested page tree; zero-page parents + adjust_zero_pages; targets that are no pages in a \
separate stream) run through the real add_bookmark/adjust_zero_pages/build_outline/get_toc/save_to/load_mem; mutated outlines (no cycles) \
for the readers; large forests (260-600 bookmarks: wide with children under items past the 256th, a chain of 300 levels, a 20x20 grid). Non-trivial = forest with >= 2 reachable bookmarks (distinct by request text) or a mutated outline.".into();

    let n = c.n(300, 12000);
    for i in 0..n {
        let Some(mut r) = c.case("valid", i) else { continue };
        scenario(c, &mut r, PageMode::Valid, if i % 7 == 0 { 40 } else { 16 }, true, "valid");
    }
    let n = c.n(150, 6000);
    for i in 0..n {
        let Some(mut r) = c.case("zero", i) else { continue };
        scenario(c, &mut r, PageMode::ZeroParents, 20, false, "zero");
    }
    let n = c.n(100, 4000);
    for i in 0..n {
        let Some(mut r) = c.case("foreign", i) else { continue };
        scenario(c, &mut r, PageMode::Foreign, 16, true, "foreign");
    }
    // deep chains and wide fans beyond the generator's usual bounds (the theorems have no bound)
    for (i, (depth, fan)) in [(30usize, 1usize), (1, 60), (12, 3), (60, 2)].iter().enumerate() {
        let Some(mut r) = c.case("shape", i as u64) else { continue };
        shape_case(c, &mut r, *depth, *fan);
    }
    // large forests: more than 256 outline items before an item with children, a chain of 300 levels, a 20x20 grid
    // (a reader bound on the NUMBER of items visited instead of the nesting depth shows only here)
    let n_big = c.n(5, 40);
    for i in 0..n_big {
        let Some(mut r) = c.case("big", i) else { continue };
        let ops = big_ops(&mut r, i);
        big_case(c, &mut r, &ops, i);
    }
    let n = c.n(300, 12000);
    for i in 0..n {
        let Some(mut r) = c.case("reader", i) else { continue };
        reader_case(c, &mut r);
    }
    // title encoding on its own: every class of code point, incl. C0 controls
    let n = c.n(300, 5000);
    for i in 0..n {
        let Some(mut r) = c.case("title", i) else { continue };
        title_case(c, &mut r, i);
    }
    witnesses(c);
}

/// a chain of `depth` levels, each level with `fan` bookmarks, the last of which carries the next level
fn shape_case(c: &mut Ctx, r: &mut Rng, depth: usize, fan: usize) {
    let (mut doc, cat, pages, _other) = build_doc(r, 3);
    let mut ops = vec![];
    let mut parent = None;
    let mut k = 0;
    for _ in 0..depth {
        for _ in 0..fan {
            k += 1;
            ops.push(Op { title: format!("t{}", k), color: [0.0, 0.5, 1.0], format: 0, page: *r.pick(&pages), parent });
        }
        parent = Some(k as u32);
    }
    let old_max = doc.max_id;
    let before = doc.objects.clone();
    let f = forest_of(&ops);
    let req = build_request(old_max, false, &ops);
    c.nontrivial(&req);
    c.count("shape.cases");
    let cj = json!({"depth": depth, "fan": fan});
    let root = match guard(|| { apply_ops(&mut doc, &ops); doc.build_outline() }) {
        Ok(Some(r)) => r,
        Ok(None) => { c.oracle_fail("no-outline", "None", cj); return; }
        Err((site, msg)) => { c.oracle_fail(&format!("panic@{}", site), &msg, cj); return; }
    };
    let created: Vec<(&ObjectId, &Object)> = doc.objects.iter().filter(|(k, _)| !before.contains_key(k)).collect();
    c.corr(req, format!("ok R{}_{} {} rep=1 {} objs {}", root.0, root.1, doc.max_id, bm_pages(&doc), show_objects(created.into_iter())));
    if let Err(e) = check_links(&doc, &before, old_max, root, &f) { c.oracle_fail("links", &e, cj.clone()); return; }
    if let Ok(Object::Dictionary(d)) = doc.get_object_mut(cat) { d.set("Outlines", Object::Reference(root)); }
    let expected = expected_toc(&f, &pages);
    match toc_of(&doc) {
        Ok(Ok((toc, 0))) if toc == expected => c.count("shape.readback_ok"),
        other => c.oracle_fail("toc-readback", "deep/wide forest does not read back", json!({"case": cj, "actual": format!("{:?}", other.map(|x| x.map(|y| y.0.len())))})),
    }
    if let Ok(rep) = toc_reply(&doc) { c.corr(toc_request(&doc), rep); }
}

fn big_title(r: &mut Rng, k: usize) -> String {
    match r.below(4) { 0 => format!("t{}", k), 1 => format!("\u{a7}{} \u{e9}", k), 2 => format!("{} \u{1F4D6}", k), _ => format!("Chapter {}", k) }
}
/// operation sequences for forests with several hundred bookmarks
fn big_ops(r: &mut Rng, i: u64) -> Vec<(String, Option<u32>)> {
    let mut ops: Vec<(String, Option<u32>)> = vec![];
    let mut push = |r: &mut Rng, parent: Option<u32>, ops: &mut Vec<(String, Option<u32>)>| -> u32 { let k = ops.len() + 1; ops.push((big_title(r, k), parent)); k as u32 };
    match i % 5 {
        0 => { // 260..400 top-level items, children under late items (and one early), grandchildren under a late child
            let n = 260 + r.usize(141);
            for _ in 0..n { push(r, None, &mut ops); }
            let mut late_child = 0;
            for _ in 0..8 { let p = 257 + r.usize(n - 257) as u32 + 1; for _ in 0..1 + r.usize(3) { late_child = push(r, Some(p), &mut ops); } }
            let p = 1 + r.usize(100) as u32; push(r, Some(p), &mut ops);
            for _ in 0..2 { push(r, Some(late_child), &mut ops); }
        }
        1 => { // a chain of 300 levels, a few siblings at the bottom and half way
            let mut parent = None;
            for _ in 0..300 { parent = Some(push(r, parent, &mut ops)); }
            for _ in 0..3 { push(r, parent, &mut ops); }
            for _ in 0..2 { push(r, Some(150), &mut ops); }
        }
        2 => { // 20 x 20 grid, children attached column by column (interleaved)
            for _ in 0..20 { push(r, None, &mut ops); }
            for _ in 0..20 { for p in 1..=20u32 { push(r, Some(p), &mut ops); } }
        }
        3 => { // children exactly around the 256th item
            for _ in 0..300 { push(r, None, &mut ops); }
            for p in [254u32, 255, 256, 257, 258, 300] { push(r, Some(p), &mut ops); push(r, Some(p), &mut ops); }
        }
        _ => { // random large forest
            let n = 300 + r.usize(300);
            let mut depth: Vec<usize> = vec![];
            for k in 0..n {
                if k > 0 && r.chance(2, 5) {
                    let p = r.usize(k);
                    if depth[p] < 8 { depth.push(depth[p] + 1); push(r, Some(p as u32 + 1), &mut ops); continue; }
                }
                depth.push(1); push(r, None, &mut ops);
            }
        }
    }
    ops
}
fn big_case(c: &mut Ctx, r: &mut Rng, tops: &[(String, Option<u32>)], i: u64) {
    let (mut doc, cat, pages, _other) = build_doc(r, 5);
    let ops: Vec<Op> = tops.iter().map(|(t, p)| Op { title: t.clone(), color: [0.0, 0.5, 1.0], format: (i % 4) as u32, page: *r.pick(&pages), parent: *p }).collect();
    let old_max = doc.max_id;
    let before = doc.objects.clone();
    let f = forest_of(&ops);
    let req = build_request(old_max, false, &ops);
    c.nontrivial(&req);
    c.count("big.cases");
    c.count_n("big.bookmarks", ops.len() as u64);
    let pre = f.preorder();
    // how many items precede (in preorder) the last item that has children: > 256 is what a visited-items bound would cut
    if let Some(pos) = pre.iter().rposition(|(_, id)| !f.nodes[id].kids.is_empty()) { if pos > 256 { c.count("big.children_after_256_items"); } }
    if f.height() > 256 { c.count("big.height_gt_256"); }
    let cj = json!({"shape": i % 5, "bookmarks": ops.len(), "height": f.height()});
    let root = match guard(|| { apply_ops(&mut doc, &ops); doc.build_outline() }) {
        Ok(Some(r)) => r,
        Ok(None) => { c.oracle_fail("no-outline", "None", cj); return; }
        Err((site, msg)) => { c.oracle_fail(&format!("panic@{}", site), &msg, cj); return; }
    };
    let created: Vec<(&ObjectId, &Object)> = doc.objects.iter().filter(|(k, _)| !before.contains_key(k)).collect();
    c.corr(req, format!("ok R{}_{} {} rep=1 {} objs {}", root.0, root.1, doc.max_id, bm_pages(&doc), show_objects(created.into_iter())));
    if let Err(e) = check_links(&doc, &before, old_max, root, &f) { c.oracle_fail("links", &e, cj.clone()); return; }
    if let Ok(Object::Dictionary(d)) = doc.get_object_mut(cat) { d.set("Outlines", Object::Reference(root)); }
    let expected = expected_toc(&f, &pages);
    let diff = |toc: &Vec<(usize, String, usize)>| -> String {
        let first_bad = toc.iter().zip(expected.iter()).position(|(a, b)| a != b).unwrap_or(toc.len().min(expected.len()));
        format!("{} entries, expected {}; first difference at entry {}: got {:?}, expected {:?}", toc.len(), expected.len(), first_bad, toc.get(first_bad), expected.get(first_bad))
    };
    if let Ok(rep) = toc_reply(&doc) { c.corr(toc_request(&doc), rep); }
    match toc_of(&doc) {
        Ok(Ok((toc, 0))) if toc == expected => c.count("big.readback_ok"),
        Ok(Ok((toc, ne))) => { c.oracle_fail("toc-readback", "large forest: get_toc differs from the preorder of the bookmark forest", json!({"case": cj, "diff": diff(&toc), "errors": ne})); return; }
        other => { c.oracle_fail("toc-error", "large forest: get_toc failed", json!({"case": cj, "got": format!("{:?}", other.map(|x| x.map(|y| y.0.len())))})); return; }
    }
    let mut buf = Vec::new();
    match guard(|| { doc.save_to(&mut buf).map_err(|e| e.to_string())?; Document::load_mem(&buf).map_err(|e| e.to_string()) }) {
        Ok(Ok(d2)) => match toc_of(&d2) {
            Ok(Ok((toc, 0))) if toc == expected => c.count("big.readback_after_reload_ok"),
            Ok(Ok((toc, ne))) => c.oracle_fail("toc-readback-reload", "large forest: get_toc after save_to + load_mem differs from the preorder", json!({"case": cj, "diff": diff(&toc), "errors": ne})),
            other => c.oracle_fail("toc-error-reload", "large forest: get_toc failed after reload", json!({"case": cj, "got": format!("{:?}", other.map(|x| x.map(|y| y.0.len())))})),
        },
        Ok(Err(e)) => c.oracle_fail("save-load", &e, cj.clone()),
        Err((site, msg)) => c.oracle_fail(&format!("panic@{}", site), &msg, cj.clone()),
    }
}

fn title_case(c: &mut Ctx, r: &mut Rng, i: u64) {
    let len = if i < 40 { (i % 4) as usize } else { r.usize(24) };
    let with_c0 = r.chance(1, 4);
    let ascii_only = r.chance(1, 3);
    let s: String = (0..len).map(|_| if ascii_only && !with_c0 { gen_char(r, 0) } else if with_c0 && r.chance(1, 3) { char::from_u32(r.below(0x20) as u32).unwrap() } else { { let cl = r.below(6); gen_char(r, cl) } }).collect();
    if with_c0 { c.count("title.with_c0_controls"); }
    if s.is_ascii() { c.count("title.ascii"); } else { c.count("title.utf16"); }
    let mut doc = Document::with_version("1.5");
    let mut p = Dictionary::new(); p.set("Type", Object::Name(b"Page".to_vec())); p.set("Parent", Object::Reference((2, 0)));
    doc.objects.insert((3, 0), Object::Dictionary(p));
    let mut ps = Dictionary::new(); ps.set("Type", Object::Name(b"Pages".to_vec())); ps.set("Count", Object::Integer(1)); ps.set("Kids", Object::Array(vec![Object::Reference((3, 0))]));
    doc.objects.insert((2, 0), Object::Dictionary(ps));
    let mut cat = Dictionary::new(); cat.set("Type", Object::Name(b"Catalog".to_vec())); cat.set("Pages", Object::Reference((2, 0)));
    doc.objects.insert((1, 0), Object::Dictionary(cat));
    doc.trailer.set("Root", Object::Reference((1, 0)));
    doc.max_id = 3;
    doc.add_bookmark(Bookmark::new(s.clone(), [0.0, 0.0, 0.0], 0, (3, 0)), None);
    let root = doc.build_outline().unwrap();
    if let Ok(Object::Dictionary(d)) = doc.get_object_mut((1, 0)) { d.set("Outlines", Object::Reference(root)); }
    let bytes = match doc.objects.get(&(5, 0)) { Some(Object::Dictionary(d)) => d.get(b"Title").ok().and_then(|t| t.as_str().ok()).map(|b| b.to_vec()), _ => None };
    let Some(bytes) = bytes else { c.oracle_fail("title-missing", "no Title on the built item", json!({"title": s})); return };
    let back = toc_of(&doc);
    let decoded = match &back { Ok(Ok((t, _))) if t.len() == 1 => Some(t[0].1.clone()), _ => None };
    c.corr(format!("c17_title {}", cps(&s)), format!("ok {} {}", hex_tok(&bytes), decoded.as_deref().map(cps).unwrap_or("?".into())));
    if decoded.as_deref() != Some(s.as_str()) {
        c.oracle_fail("title-roundtrip", "title does not read back", json!({"title": s, "bytes": hex(&bytes), "decoded": decoded}));
    }
    // and through a file
    let mut buf = Vec::new();
    if let Ok(Ok(d2)) = guard(|| { doc.save_to(&mut buf).map_err(|e| e.to_string())?; Document::load_mem(&buf).map_err(|e| e.to_string()) }) {
        match toc_of(&d2) {
            Ok(Ok((t, _))) if t.len() == 1 && t[0].1 == s => c.count("title.reload_ok"),
            other => c.oracle_fail(if with_c0 { "title-roundtrip-reload-c0" } else { "title-roundtrip-reload" }, "title does not read back after save_to + load_mem",
                json!({"title": s, "bytes": hex(&bytes), "got": format!("{:?}", other)})),
        }
    } else { c.oracle_fail("save-load", "save_to/load_mem failed", json!({"title": s})); }
}

fn witnesses(c: &mut Ctx) {
    // F-C17-a: two bookmarks with the same title: get_toc keys its intermediate table by title
    let Some(_r) = c.case("witness", 0) else { return };
    let mut doc = Document::with_version("1.5");
    let mut ps = Dictionary::new(); ps.set("Type", Object::Name(b"Pages".to_vec())); ps.set("Count", Object::Integer(2));
    ps.set("Kids", Object::Array(vec![Object::Reference((3, 0)), Object::Reference((4, 0))]));
    doc.objects.insert((2, 0), Object::Dictionary(ps));
    for id in [3u32, 4] { let mut p = Dictionary::new(); p.set("Type", Object::Name(b"Page".to_vec())); p.set("Parent", Object::Reference((2, 0))); doc.objects.insert((id, 0), Object::Dictionary(p)); }
    let mut cat = Dictionary::new(); cat.set("Type", Object::Name(b"Catalog".to_vec())); cat.set("Pages", Object::Reference((2, 0)));
    doc.objects.insert((1, 0), Object::Dictionary(cat));
    doc.trailer.set("Root", Object::Reference((1, 0)));
    doc.max_id = 4;
    let a = doc.add_bookmark(Bookmark::new("Part I".into(), [0.0; 3], 0, (3, 0)), None);
    doc.add_bookmark(Bookmark::new("Introduction".into(), [0.0; 3], 0, (3, 0)), Some(a));
    let b = doc.add_bookmark(Bookmark::new("Part II".into(), [0.0; 3], 0, (4, 0)), None);
    doc.add_bookmark(Bookmark::new("Introduction".into(), [0.0; 3], 0, (4, 0)), Some(b));
    let root = doc.build_outline().unwrap();
    if let Ok(Object::Dictionary(d)) = doc.get_object_mut((1, 0)) { d.set("Outlines", Object::Reference(root)); }
    let got = toc_of(&doc);
    let expected: Vec<(usize, String, usize)> = vec![(1, "Part I".into(), 1), (2, "Introduction".into(), 1), (1, "Part II".into(), 2), (2, "Introduction".into(), 2)];
    let reproduced = !matches!(&got, Ok(Ok((t, _))) if *t == expected);
    // Outside C17's quantifier (pairwise distinct titles): recorded as an observation, not a finding.
    if reproduced { c.count("observation.duplicate_titles_collapse_in_get_toc"); }
    if let Ok(rep) = toc_reply(&doc) { c.corr(toc_request(&doc), rep); }
}
