//! C08 — loading is deterministic under every thread schedule.
//! Hook H1 (lopdf::verif_api::verif_hooks::MERGE_ORDER) enumerates every completion order of the
//! per-container blocks; rayon pools of 1..16 threads sample real schedules; the sequential
//! build (no rayon) runs the same cases.
use crate::codec::*;
use crate::ctx::{guard, Ctx};
use crate::props::c01::load_reply;
use crate::props::c02::*;
use crate::props::c07::gen_history;
use crate::refwriter::*;
use crate::rng::Rng;
use lopdf::verif_api::verif_hooks::{LAST_CONTAINERS, MERGE_ORDER};
use lopdf::{Dictionary, Document, Object};
use serde_json::json;

fn digest(d: &Document) -> String {
    format!("{} {} {} {}", d.max_id, d.version, show_obj(&Object::Dictionary(d.trailer.clone())), show_objects(d.objects.iter()))
}
fn load_with_order(bytes: &[u8], order: Option<Vec<usize>>) -> Result<String, String> {
    *MERGE_ORDER.lock().unwrap() = order;
    let r = guard(|| Document::load_mem(bytes));
    *MERGE_ORDER.lock().unwrap() = None;
    match r { Ok(Ok(d)) => Ok(digest(&d)), Ok(Err(e)) => Err(format!("{:?}", e)), Err((site, msg)) => Err(format!("panic@{} {}", site, msg)) }
}
fn permutations(n: usize) -> Vec<Vec<usize>> {
    fn rec(cur: &mut Vec<usize>, used: &mut Vec<bool>, n: usize, out: &mut Vec<Vec<usize>>) {
        if cur.len() == n { out.push(cur.clone()); return; }
        for i in 0..n { if !used[i] { used[i] = true; cur.push(i); rec(cur, used, n, out); cur.pop(); used[i] = false; } }
    }
    let mut out = vec![]; rec(&mut vec![], &mut vec![false; n], n, &mut out); out
}

#[cfg(feature = "par")]
fn load_in_pool(bytes: &[u8], threads: usize) -> Result<String, String> {
    let pool = rayon::ThreadPoolBuilder::new().num_threads(threads).build().map_err(|e| e.to_string())?;
    pool.install(|| load_with_order(bytes, None))
}
#[cfg(not(feature = "par"))]
fn load_in_pool(bytes: &[u8], _threads: usize) -> Result<String, String> { load_with_order(bytes, None) }

/// one object stream whose index may repeat object numbers; cross-reference stream with type-2 entries
fn craft_objstm_file(pairs: &[(u32, Object)]) -> Vec<u8> {
    let mut body = vec![]; let mut index = String::new();
    for (n, o) in pairs { index.push_str(&format!("{} {} ", n, body.len())); lopdf::verif_api::Writer::write_object(&mut body, o).unwrap(); body.push(b' '); }
    let first = index.len();
    let mut content = index.into_bytes(); content.extend_from_slice(&body);
    let mut f = b"%PDF-1.5\n".to_vec();
    let off1 = f.len(); f.extend_from_slice(b"1 0 obj\n<</Type/Catalog>>\nendobj\n");
    let off2 = f.len(); f.extend_from_slice(format!("2 0 obj\n<</Type/ObjStm/N {}/First {}/Length {}>>\nstream\n", pairs.len(), first, content.len()).as_bytes());
    f.extend_from_slice(&content); f.extend_from_slice(b"\nendstream\nendobj\n");
    let off3 = f.len();
    let mut nums: Vec<u32> = pairs.iter().map(|p| p.0).collect(); nums.sort(); nums.dedup();
    let size = nums.last().copied().unwrap_or(3) + 1;
    let mut rows: Vec<u8> = vec![];
    for (t, a, b) in [(0u8, 0u16, 0u16), (1, off1 as u16, 0), (1, off2 as u16, 0), (1, off3 as u16, 0)] { rows.push(t); rows.extend_from_slice(&a.to_be_bytes()); rows.extend_from_slice(&b.to_be_bytes()); }
    let mut index_arr = String::from("0 4");
    for n in &nums { let idx = pairs.iter().rposition(|p| p.0 == *n).unwrap() as u16; rows.push(2); rows.extend_from_slice(&2u16.to_be_bytes()); rows.extend_from_slice(&idx.to_be_bytes()); index_arr.push_str(&format!(" {} 1", n)); }
    f.extend_from_slice(format!("3 0 obj\n<</Type/XRef/Size {}/W[1 2 2]/Index[{}]/Root 1 0 R/Length {}>>\nstream\n", size, index_arr, rows.len()).as_bytes());
    f.extend_from_slice(&rows); f.extend_from_slice(format!("\nendstream\nendobj\nstartxref\n{}\n%%EOF", off3).as_bytes());
    f
}
/// many pairs of in-use entries whose objects carry the SAME `n 0 obj` header with different content
fn craft_alias_file(r: &mut Rng) -> Vec<u8> {
    let pairs = 5 + r.usize(60);
    let mut f = b"%PDF-1.4\n".to_vec(); let mut offs: Vec<usize> = vec![];
    offs.push(f.len()); f.extend_from_slice(b"1 0 obj\n<</Type/Catalog>>\nendobj\n");
    for k in 0..pairs {
        let id = 2 + 2 * k;                       // header id of both copies
        offs.push(f.len()); f.extend_from_slice(format!("{} 0 obj\n(first {})\nendobj\n", id, k).as_bytes());
        offs.push(f.len()); f.extend_from_slice(format!("{} 0 obj\n(second {})\nendobj\n", id, k).as_bytes());
    }
    let x = f.len();
    f.extend_from_slice(format!("xref\n0 {}\n0000000000 65535 f \n", offs.len() + 1).as_bytes());
    for o in &offs { f.extend_from_slice(format!("{:010} 00000 n \n", o).as_bytes()); }
    f.extend_from_slice(format!("trailer\n<</Size {}/Root 1 0 R>>\nstartxref\n{}\n%%EOF", offs.len() + 1, x).as_bytes());
    f
}
/// the document must be the same on every pool size, repeatedly, and equal to the model's sequential semantics
fn order_independent(c: &mut Ctx, file: &[u8], stream: &str, pool_loads: &mut u64) {
    let base = match load_with_order(file, None) { Ok(d) => d, Err(e) => { c.oracle_fail("load-error", &format!("{}: {}", stream, e), json!({"file": hex(file)})); return; } };
    c.nontrivial(&hex(&file[file.len().saturating_sub(48)..]));
    c.count(&format!("{}.cases", stream));
    c.corr(format!("load {}", hex_tok(file)), load_reply(file));
    for t in [1usize, 2, 3, 4, 8, 16] {
        for _rep in 0..3 {
            *pool_loads += 1;
            match load_in_pool(file, t) { Ok(d) => if d != base { c.oracle_fail("schedule-dependent", &format!("{}: load on a pool of {} threads differs from the first load", stream, t), json!({"file": hex(file)})); return; }, Err(e) => { c.oracle_fail("schedule-dependent", &e, json!({})); return; } }
        }
    }
}

pub fn run(c: &mut Ctx) {
    c.rule = "files with 1..6 object-stream containers (reference writer; plain and multi-revision, zero-length streams, indirect Lengths), \
no object number in two containers in the main stream: EVERY permutation of the container blocks through hook H1 (<=4 containers quick, <=6 thorough) \
must load the same document = the abstract document = the model's `load_perm`; repeated loads on rayon pools of 1,2,3,4,8,16 threads; the same cases \
run in the no-default-features (sequential) build. Non-trivial = file with >= 2 containers.".into();
    let max_perm_containers = if c.quick() { 4 } else { 6 };
    let mut counters = Counters::new();
    let mut perms_run = 0u64; let mut pool_loads = 0u64;
    for i in 0..c.n(150, 1500) {
        let Some(mut r) = c.case("objstm", i) else { continue };
        // many small objects so that several containers appear
        let (revs, latest) = if r.chance(1, 3) { let (mut revs, latest) = gen_history(&mut r, 1); revs.truncate(2); (revs, latest) } else { let o = gen_aobjects(&mut r, 14, 0); let e = gen_trailer_extra(&mut r, &o); (vec![Revision { objects: o.clone(), trailer_extra: e }], o) };
        let mut style = gen_style(&mut r); style.xref = XrefStyle::Stream; style.objstm = true; style.compress = r.chance(1, 4); style.junk_before_header = false;
        // containers in one revision, or in all of them (a number is then a member of several containers)
        let which = r.usize(revs.len() + 1);
        if which == revs.len() && revs.len() > 1 { c.count("objstm.containers_in_all_revisions"); }
        let w = write_file_with(&mut r, &mut counters, &style, "1.7", &revs, &|ri| which == revs.len() || ri == which);
        let helper_from = latest.keys().map(|k| k.0).max().unwrap() + 1;
        let base = match load_with_order(&w.bytes, None) { Ok(d) => d, Err(e) => { c.oracle_fail("load-error", &e, json!({"file": hex(&w.bytes)})); continue; } };
        let n = LAST_CONTAINERS.lock().unwrap().len();
        c.count(&format!("objstm.containers_{}", n.min(7)));
        if n >= 2 { c.nontrivial(&format!("{}", i)); }
        // oracle against the abstract document
        if let Ok(d) = Document::load_mem(&w.bytes) { if let Some((sig, diff)) = compare_abstract(&d, &latest, &revs[0].trailer_extra, "1.7", helper_from) { c.oracle_fail(&sig, &diff, json!({"file": hex(&w.bytes)})); } }
        c.corr(format!("load {}", hex_tok(&w.bytes)), load_reply(&w.bytes));
        // every completion order
        if n >= 2 && n <= max_perm_containers {
            let perms = permutations(n);
            for (pi, p) in perms.iter().enumerate() {
                perms_run += 1;
                match load_with_order(&w.bytes, Some(p.clone())) {
                    Ok(d) => {
                        if d != base { c.oracle_fail("order-dependent", &format!("merge order {:?} loads a different document than the default order", p), json!({"file": hex(&w.bytes), "order": p})); break; }
                        // model under the same order (sampled to bound the request volume)
                        if pi < 6 || pi + 1 == perms.len() {
                            let reply = { *MERGE_ORDER.lock().unwrap() = Some(p.clone()); let s = load_reply(&w.bytes); *MERGE_ORDER.lock().unwrap() = None; s };
                            c.corr(format!("load_perm {} {}", p.iter().map(|x| x.to_string()).collect::<Vec<_>>().join(","), hex_tok(&w.bytes)), reply);
                        }
                    }
                    Err(e) => { c.oracle_fail("order-dependent", &format!("merge order {:?}: {}", p, e), json!({"file": hex(&w.bytes)})); break; }
                }
            }
        }
        // real schedules
        if i % 3 == 0 {
            for t in [1usize, 2, 3, 4, 8, 16] {
                for _rep in 0..2 {
                    pool_loads += 1;
                    match load_in_pool(&w.bytes, t) { Ok(d) => if d != base { c.oracle_fail("schedule-dependent", &format!("load on a pool of {} threads differs", t), json!({"file": hex(&w.bytes)})); }, Err(e) => c.oracle_fail("schedule-dependent", &e, json!({})) }
                }
            }
        }
        if i < 2 { c.sample(json!({"containers": n, "file_len": w.bytes.len(), "revisions": revs.len()})); }
    }
    // ---- one object stream that lists the same number more than once (the last listed member wins), and
    // ---- cross-reference entries that alias one object id (the later entry wins): both are decided by the
    // ---- ORDER of rayon's collects, so every pool size must give the sequential result = the model's
    for i in 0..c.n(60, 600) {
        let Some(mut r) = c.case("dup_in_stream", i) else { continue };
        let n = 4 + r.usize(60);
        let pairs: Vec<(u32, Object)> = (0..n).map(|k| (10 + r.below(1 + n as u64 / 3) as u32, Object::Integer(k as i64))).collect();
        let file = craft_objstm_file(&pairs);
        order_independent(c, &file, "dup_in_stream", &mut pool_loads);
    }
    for i in 0..c.n(60, 600) {
        let Some(mut r) = c.case("alias_entries", i) else { continue };
        let file = craft_alias_file(&mut r);
        order_independent(c, &file, "alias_entries", &mut pool_loads);
    }
    // ---- witness F-C08-a: the same number in two containers -> two orders, two documents
    if let Some(mut r) = c.case("witness", 0) {
        let mut base = AObjects::new();
        base.insert((1, 0), AObj { obj: Object::Dictionary(Dictionary::new()), stream: None });
        base.insert((2, 0), AObj { obj: Object::string_literal("old"), stream: None });
        let mut upd = AObjects::new();
        upd.insert((2, 0), AObj { obj: Object::string_literal("new"), stream: None });
        let mut extra = Dictionary::new(); extra.set("Root", Object::Reference((1, 0)));
        let revs = vec![Revision { objects: base, trailer_extra: extra.clone() }, Revision { objects: upd, trailer_extra: extra }];
        let style = Style { xref: XrefStyle::Stream, objstm: true, compress: false, indirect_length: false, raw_cr_in_strings: false, junk_before_header: false, lexical_freedom: false };
        let mut reproduced = false;
        for _ in 0..40 {
            let w = write_file(&mut r, &mut counters, &style, "1.6", &revs);
            if w.containers.len() < 2 { continue; }
            let a = load_with_order(&w.bytes, Some(vec![0, 1])); let b = load_with_order(&w.bytes, Some(vec![1, 0]));
            if let (Ok(a), Ok(b)) = (a, b) { if a != b { reproduced = true;
                c.corr(format!("load_perm 0,1 {}", hex_tok(&w.bytes)), { *MERGE_ORDER.lock().unwrap() = Some(vec![0, 1]); let s = load_reply(&w.bytes); *MERGE_ORDER.lock().unwrap() = None; s });
                c.corr(format!("load_perm 1,0 {}", hex_tok(&w.bytes)), { *MERGE_ORDER.lock().unwrap() = Some(vec![1, 0]); let s = load_reply(&w.bytes); *MERGE_ORDER.lock().unwrap() = None; s });
                break; } }
        }
        c.witness("F-C08-a", reproduced, "object 2 is a member of two containers: merge orders [0,1] and [1,0] load different documents");
    }
    c.extra.insert("permutations_run".into(), json!(perms_run));
    c.extra.insert("pool_loads".into(), json!(pool_loads));
    c.extra.insert("build".into(), json!(if cfg!(feature = "par") { "rayon" } else { "sequential" }));
    for (k, v) in counters { c.count_n(&format!("choice.{}", k), v); }
    let _ = Rng::new(0);
}
