//! C08 — loading is deterministic under every thread schedule.
//! Hook H1 (lopdf::verif_api::verif_hooks::MERGE_ORDER) enumerates every completion order of the
//! per-container blocks; rayon pools of 1..16 threads sample real schedules; the sequential
//! build (no rayon) runs the same cases.
use crate::codec::*;
use crate::ctx::{guard, Ctx};
use crate::props::c01::load_reply;
use crate::props::c02::*;
use crate::props::c07::gen_history;
use crate::refwriter::*;
use crate::rng::Rng;
use lopdf::verif_api::verif_hooks::{LAST_CONTAINERS, MERGE_ORDER};
use lopdf::{Dictionary, Document, Object};
use serde_json::json;

fn digest(d: &Document) -> String {
    format!("{} {} {} {}", d.max_id, d.version, show_obj(&Object::Dictionary(d.trailer.clone())), show_objects(d.objects.iter()))
}
fn load_with_order(bytes: &[u8], order: Option<Vec<usize>>) -> Result<String, String> {
    *MERGE_ORDER.lock().unwrap() = order;
    let r = guard(|| Document::load_mem(bytes));
    *MERGE_ORDER.lock().unwrap() = None;
    match r { Ok(Ok(d)) => Ok(digest(&d)), Ok(Err(e)) => Err(format!("{:?}", e)), Err((site, msg)) => Err(format!("panic@{} {}", site, msg)) }
}
fn permutations(n: usize) -> Vec<Vec<usize>> {
    fn rec(cur: &mut Vec<usize>, used: &mut Vec<bool>, n: usize, out: &mut Vec<Vec<usize>>) {
        if cur.len() == n { out.push(cur.clone()); return; }
        for i in 0..n { if !used[i] { used[i] = true; cur.push(i); rec(cur, used, n, out); cur.pop(); used[i] = false; } }
    }
    let mut out = vec![]; rec(&mut vec![], &mut vec![false; n], n, &mut out); out
}

#[cfg(feature = "par")]
fn load_in_pool(bytes: &[u8], threads: usize) -> Result<String, String> {
    let pool = rayon::ThreadPoolBuilder::new().num_threads(threads).build().map_err(|e| e.to_string())?;
    pool.install(|| load_with_order(bytes, None))
}
#[cfg(not(feature = "par"))]
fn load_in_pool(bytes: &[u8], _threads: usize) -> Result<String, String> { load_with_order(bytes, None) }

pub fn run(c: &mut Ctx) {
    c.rule = "files with 1..6 object-stream containers (reference writer; plain and multi-revision, zero-length streams, indirect Lengths), \
no object number in two containers in the main stream: EVERY permutation of the container blocks through hook H1 (<=4 containers quick, <=6 thorough) \
must load the same document = the abstract document = the model's `load_perm`; repeated loads on rayon pools of 1,2,3,4,8,16 threads; the same cases \
run in the no-default-features (sequential) build. Non-trivial = file with >= 2 containers.".into();
    let max_perm_containers = if c.quick() { 4 } else { 6 };
    let mut counters = Counters::new();
    let mut perms_run = 0u64; let mut pool_loads = 0u64;
    for i in 0..c.n(150, 1500) {
        let Some(mut r) = c.case("objstm", i) else { continue };
        // many small objects so that several containers appear
        let (revs, latest) = if r.chance(1, 3) { let (mut revs, latest) = gen_history(&mut r, 1); revs.truncate(2); (revs, latest) } else { let o = gen_aobjects(&mut r, 14, 0); let e = gen_trailer_extra(&mut r, &o); (vec![Revision { objects: o.clone(), trailer_extra: e }], o) };
        let mut style = gen_style(&mut r); style.xref = XrefStyle::Stream; style.objstm = true; style.compress = r.chance(1, 4); style.junk_before_header = false;
        let which = r.usize(revs.len());
        let w = write_file_with(&mut r, &mut counters, &style, "1.7", &revs, &|ri| ri == which);
        let helper_from = latest.keys().map(|k| k.0).max().unwrap() + 1;
        let base = match load_with_order(&w.bytes, None) { Ok(d) => d, Err(e) => { c.oracle_fail("load-error", &e, json!({"file": hex(&w.bytes)})); continue; } };
        let n = LAST_CONTAINERS.lock().unwrap().len();
        c.count(&format!("objstm.containers_{}", n.min(7)));
        if n >= 2 { c.nontrivial(&format!("{}", i)); }
        // oracle against the abstract document
        if let Ok(d) = Document::load_mem(&w.bytes) { if let Some((sig, diff)) = compare_abstract(&d, &latest, &revs[0].trailer_extra, "1.7", helper_from) { c.oracle_fail(&sig, &diff, json!({"file": hex(&w.bytes)})); } }
        c.corr(format!("load {}", hex_tok(&w.bytes)), load_reply(&w.bytes));
        // every completion order
        if n >= 2 && n <= max_perm_containers {
            let perms = permutations(n);
            for (pi, p) in perms.iter().enumerate() {
                perms_run += 1;
                match load_with_order(&w.bytes, Some(p.clone())) {
                    Ok(d) => {
                        if d != base { c.oracle_fail("order-dependent", &format!("merge order {:?} loads a different document than the default order", p), json!({"file": hex(&w.bytes), "order": p})); break; }
                        // model under the same order (sampled to bound the request volume)
                        if pi < 6 || pi + 1 == perms.len() {
                            let reply = { *MERGE_ORDER.lock().unwrap() = Some(p.clone()); let s = load_reply(&w.bytes); *MERGE_ORDER.lock().unwrap() = None; s };
                            c.corr(format!("load_perm {} {}", p.iter().map(|x| x.to_string()).collect::<Vec<_>>().join(","), hex_tok(&w.bytes)), reply);
                        }
                    }
                    Err(e) => { c.oracle_fail("order-dependent", &format!("merge order {:?}: {}", p, e), json!({"file": hex(&w.bytes)})); break; }
                }
            }
        }
        // real schedules
        if i % 3 == 0 {
            for t in [1usize, 2, 3, 4, 8, 16] {
                for _rep in 0..2 {
                    pool_loads += 1;
                    match load_in_pool(&w.bytes, t) { Ok(d) => if d != base { c.oracle_fail("schedule-dependent", &format!("load on a pool of {} threads differs", t), json!({"file": hex(&w.bytes)})); }, Err(e) => c.oracle_fail("schedule-dependent", &e, json!({})) }
                }
            }
        }
        if i < 2 { c.sample(json!({"containers": n, "file_len": w.bytes.len(), "revisions": revs.len()})); }
    }
    // ---- witness F-C08-a: the same number in two containers -> two orders, two documents
    if let Some(mut r) = c.case("witness", 0) {
        let mut base = AObjects::new();
        base.insert((1, 0), AObj { obj: Object::Dictionary(Dictionary::new()), stream: None });
        base.insert((2, 0), AObj { obj: Object::string_literal("old"), stream: None });
        let mut upd = AObjects::new();
        upd.insert((2, 0), AObj { obj: Object::string_literal("new"), stream: None });
        let mut extra = Dictionary::new(); extra.set("Root", Object::Reference((1, 0)));
        let revs = vec![Revision { objects: base, trailer_extra: extra.clone() }, Revision { objects: upd, trailer_extra: extra }];
        let style = Style { xref: XrefStyle::Stream, objstm: true, compress: false, indirect_length: false, raw_cr_in_strings: false, junk_before_header: false, lexical_freedom: false };
        let mut reproduced = false;
        for _ in 0..40 {
            let w = write_file(&mut r, &mut counters, &style, "1.6", &revs);
            if w.containers.len() < 2 { continue; }
            let a = load_with_order(&w.bytes, Some(vec![0, 1])); let b = load_with_order(&w.bytes, Some(vec![1, 0]));
            if let (Ok(a), Ok(b)) = (a, b) { if a != b { reproduced = true;
                c.corr(format!("load_perm 0,1 {}", hex_tok(&w.bytes)), { *MERGE_ORDER.lock().unwrap() = Some(vec![0, 1]); let s = load_reply(&w.bytes); *MERGE_ORDER.lock().unwrap() = None; s });
                c.corr(format!("load_perm 1,0 {}", hex_tok(&w.bytes)), { *MERGE_ORDER.lock().unwrap() = Some(vec![1, 0]); let s = load_reply(&w.bytes); *MERGE_ORDER.lock().unwrap() = None; s });
                break; } }
        }
        c.witness("F-C08-a", reproduced, "object 2 is a member of two containers: merge orders [0,1] and [1,0] load different documents");
    }
    c.extra.insert("permutations_run".into(), json!(perms_run));
    c.extra.insert("pool_loads".into(), json!(pool_loads));
    c.extra.insert("build".into(), json!(if cfg!(feature = "par") { "rayon" } else { "sequential" }));
    for (k, v) in counters { c.count_n(&format!("choice.{}", k), v); }
    let _ = Rng::new(0);
}
