//! C08 — loading is deterministic under every thread schedule.
//! Hook H1 (lopdf::verif_api::verif_hooks::MERGE_ORDER) enumerates every completion order of the
//! per-container blocks; rayon pools of 1..16 threads sample real schedules; the sequential
//! build (no rayon) runs the same cases.
use crate::codec::*;
use crate::ctx::{guard, Ctx};
use crate::props::c01::load_reply;
use crate::props::c02::*;
use crate::props::c07::gen_history;
use crate::refwriter::*;
use crate::rng::Rng;
use lopdf::verif_api::verif_hooks::{LAST_CONTAINERS, LAST_ZERO_LENGTH, MERGE_ORDER, ZERO_ORDER};
use lopdf::{Dictionary, Document, Object};
use serde_json::json;

fn digest(d: &Document) -> String {
    format!("{} {} {} {}", d.max_id, d.version, show_obj(&Object::Dictionary(d.trailer.clone())), show_objects(d.objects.iter()))
}
fn load_with_order(bytes: &[u8], order: Option<Vec<usize>>) -> Result<String, String> {
    *MERGE_ORDER.lock().unwrap() = order;
    let r = guard(|| Document::load_mem(bytes));
    *MERGE_ORDER.lock().unwrap() = None;
    match r { Ok(Ok(d)) => Ok(digest(&d)), Ok(Err(e)) => Err(format!("{:?}", e)), Err((site, msg)) => Err(format!("panic@{} {}", site, msg)) }
}
fn permutations(n: usize) -> Vec<Vec<usize>> {
    fn rec(cur: &mut Vec<usize>, used: &mut Vec<bool>, n: usize, out: &mut Vec<Vec<usize>>) {
        if cur.len() == n { out.push(cur.clone()); return; }
        for i in 0..n { if !used[i] { used[i] = true; cur.push(i); rec(cur, used, n, out); cur.pop(); used[i] = false; } }
    }
    let mut out = vec![]; rec(&mut vec![], &mut vec![false; n], n, &mut out); out
}

#[cfg(feature = "par")]
fn load_in_pool(bytes: &[u8], threads: usize) -> Result<String, String> {
    let pool = rayon::ThreadPoolBuilder::new().num_threads(threads).build().map_err(|e| e.to_string())?;
    pool.install(|| load_with_order(bytes, None))
}
#[cfg(not(feature = "par"))]
fn load_in_pool(bytes: &[u8], _threads: usize) -> Result<String, String> { load_with_order(bytes, None) }

/// one object stream whose index may repeat object numbers; cross-reference stream with type-2 entries
fn craft_objstm_file(pairs: &[(u32, Object)]) -> Vec<u8> { craft_objstm_file_n(pairs, pairs.len()) }
/// `n_entry`: the value of `/N` (may be smaller or larger than the number of pairs the index block lists)
fn craft_objstm_file_n(pairs: &[(u32, Object)], n_entry: usize) -> Vec<u8> {
    let mut body = vec![]; let mut index = String::new();
    for (n, o) in pairs { index.push_str(&format!("{} {} ", n, body.len())); lopdf::verif_api::Writer::write_object(&mut body, o).unwrap(); body.push(b' '); }
    let first = index.len();
    let mut content = index.into_bytes(); content.extend_from_slice(&body);
    let mut f = b"%PDF-1.5\n".to_vec();
    let off1 = f.len(); f.extend_from_slice(b"1 0 obj\n<</Type/Catalog>>\nendobj\n");
    let off2 = f.len(); f.extend_from_slice(format!("2 0 obj\n<</Type/ObjStm/N {}/First {}/Length {}>>\nstream\n", n_entry, first, content.len()).as_bytes());
    f.extend_from_slice(&content); f.extend_from_slice(b"\nendstream\nendobj\n");
    let off3 = f.len();
    let mut nums: Vec<u32> = pairs.iter().map(|p| p.0).collect(); nums.sort(); nums.dedup();
    let size = nums.last().copied().unwrap_or(3) + 1;
    let mut rows: Vec<u8> = vec![];
    for (t, a, b) in [(0u8, 0u16, 0u16), (1, off1 as u16, 0), (1, off2 as u16, 0), (1, off3 as u16, 0)] { rows.push(t); rows.extend_from_slice(&a.to_be_bytes()); rows.extend_from_slice(&b.to_be_bytes()); }
    let mut index_arr = String::from("0 4");
    for n in &nums { let idx = pairs.iter().rposition(|p| p.0 == *n).unwrap() as u16; rows.push(2); rows.extend_from_slice(&2u16.to_be_bytes()); rows.extend_from_slice(&idx.to_be_bytes()); index_arr.push_str(&format!(" {} 1", n)); }
    f.extend_from_slice(format!("3 0 obj\n<</Type/XRef/Size {}/W[1 2 2]/Index[{}]/Root 1 0 R/Length {}>>\nstream\n", size, index_arr, rows.len()).as_bytes());
    f.extend_from_slice(&rows); f.extend_from_slice(format!("\nendstream\nendobj\nstartxref\n{}\n%%EOF", off3).as_bytes());
    f
}
/// ONE object stream whose index block lists some OFFSETS twice, under different object numbers (only the first pair of an
/// offset is used — lopdf fix of F-C04-h); members are large, so that the pairs are spread over several workers
fn craft_dup_offset_file(r: &mut Rng) -> Vec<u8> {
    let n_pairs = 48 + r.usize(32);
    let mut body: Vec<u8> = vec![]; let mut offs: Vec<usize> = vec![]; let mut index = String::new();
    let mut dup_at: Vec<usize> = vec![15, 16, 31, 32, 47]; for _ in 0..r.usize(6) { dup_at.push(1 + r.usize(n_pairs - 1)); }
    for j in 0..n_pairs {
        let off = if j > 0 && dup_at.contains(&j) { offs[j - 1 - r.usize(j.min(3))] } else {
            let o = body.len(); body.push(b'['); for _ in 0..(1500 + r.usize(2500)) { body.extend_from_slice(format!("{} ", j).as_bytes()); } body.extend_from_slice(b"] "); o };
        offs.push(off); index.push_str(&format!("{} {} ", 100 + j, off));
    }
    let first = index.len();
    let mut content = index.into_bytes(); content.extend_from_slice(&body);
    let mut f = b"%PDF-1.5\n".to_vec();
    let o1 = f.len(); f.extend_from_slice(b"1 0 obj\n<</Type/Catalog>>\nendobj\n");
    let o2 = f.len(); f.extend_from_slice(format!("2 0 obj\n<</Type/ObjStm/N {}/First {}/Length {}>>\nstream\n", n_pairs, first, content.len()).as_bytes());
    f.extend_from_slice(&content); f.extend_from_slice(b"\nendstream\nendobj\n");
    let x = f.len();
    f.extend_from_slice(format!("xref\n0 3\n0000000000 65535 f \n{:010} 00000 n \n{:010} 00000 n \ntrailer\n<</Size 200/Root 1 0 R>>\nstartxref\n{}\n%%EOF", o1, o2, x).as_bytes());
    f
}
/// many pairs of in-use entries whose objects carry the SAME `n 0 obj` header with different content
fn craft_alias_file(r: &mut Rng) -> Vec<u8> {
    let pairs = 5 + r.usize(60);
    let mut f = b"%PDF-1.4\n".to_vec(); let mut offs: Vec<usize> = vec![];
    offs.push(f.len()); f.extend_from_slice(b"1 0 obj\n<</Type/Catalog>>\nendobj\n");
    for k in 0..pairs {
        let id = 2 + 2 * k;                       // header id of both copies
        offs.push(f.len()); f.extend_from_slice(format!("{} 0 obj\n(first {})\nendobj\n", id, k).as_bytes());
        offs.push(f.len()); f.extend_from_slice(format!("{} 0 obj\n(second {})\nendobj\n", id, k).as_bytes());
    }
    let x = f.len();
    f.extend_from_slice(format!("xref\n0 {}\n0000000000 65535 f \n", offs.len() + 1).as_bytes());
    for o in &offs { f.extend_from_slice(format!("{:010} 00000 n \n", o).as_bytes()); }
    f.extend_from_slice(format!("trailer\n<</Size {}/Root 1 0 R>>\nstartxref\n{}\n%%EOF", offs.len() + 1, x).as_bytes());
    f
}
/// several object streams whose member lists overlap; the cross-reference stream gives each member number a
/// compressed entry naming ANY of its holders, a free entry, or no entry at all
fn craft_multi_container_file(r: &mut Rng) -> Vec<u8> {
    let k = 2 + r.usize(4);                                   // containers 2..5, numbered 2..2+k
    let pool: Vec<u32> = (0..3 + r.usize(6)).map(|i| 20 + i as u32).collect();
    let mut f = b"%PDF-1.5\n".to_vec(); let mut offs: Vec<usize> = vec![];
    offs.push(f.len()); f.extend_from_slice(b"1 0 obj\n<</Type/Catalog>>\nendobj\n");
    let mut holders: std::collections::BTreeMap<u32, Vec<(u32, u16)>> = Default::default();   // number -> (container, index)
    for ci in 0..k {
        let cnum = 2 + ci as u32;
        let n = 1 + r.usize(5);
        let mut body = vec![]; let mut index = String::new();
        for j in 0..n { let m = *r.pick(&pool); index.push_str(&format!("{} {} ", m, body.len())); body.extend_from_slice(format!("(c{} i{} n{}) ", cnum, j, m).as_bytes()); holders.entry(m).or_default().push((cnum, j as u16)); }
        let first = index.len(); let mut content = index.into_bytes(); content.extend_from_slice(&body);
        offs.push(f.len());
        // every fourth container carries the `n 0 obj` header of an EARLIER container (or an unrelated number): the cross-reference
        // key under which a container is listed, not the number in its header, is what orders the merge
        let hnum = if ci > 0 && r.chance(1, 4) { if r.chance(3, 4) { 2 + r.usize(ci) as u32 } else { 30 + r.below(5) as u32 } } else { cnum };
        f.extend_from_slice(format!("{} 0 obj\n<</Type/ObjStm/N {}/First {}/Length {}>>\nstream\n", hnum, n, first, content.len()).as_bytes());
        f.extend_from_slice(&content); f.extend_from_slice(b"\nendstream\nendobj\n");
    }
    let xnum = 2 + k as u32; let xoff = f.len();
    let mut rows: Vec<u8> = vec![]; let mut index_arr = format!("0 {}", xnum + 1);
    let row = |rows: &mut Vec<u8>, t: u8, a: u16, b: u16| { rows.push(t); rows.extend_from_slice(&a.to_be_bytes()); rows.extend_from_slice(&b.to_be_bytes()); };
    row(&mut rows, 0, 0, 0);
    for o in &offs { row(&mut rows, 1, *o as u16, 0); }
    row(&mut rows, 1, xoff as u16, 0);
    for (m, hs) in &holders {
        match r.below(4) {
            0 => {}                                            // no entry at all
            1 => { row(&mut rows, 0, 0, 0); index_arr.push_str(&format!(" {} 1", m)); }          // free
            _ => { let (cn, ix) = *r.pick(hs); row(&mut rows, 2, cn as u16, ix); index_arr.push_str(&format!(" {} 1", m)); }
        }
    }
    f.extend_from_slice(format!("{} 0 obj\n<</Type/XRef/Size 40/W[1 2 2]/Index[{}]/Root 1 0 R/Length {}>>\nstream\n", xnum, index_arr, rows.len()).as_bytes());
    f.extend_from_slice(&rows); f.extend_from_slice(format!("\nendstream\nendobj\nstartxref\n{}\n%%EOF", xoff).as_bytes());
    f
}
/// every permutation of the container blocks (hook H1) must load the same document as the default order, = the model
fn perm_independent(c: &mut Ctx, file: &[u8], stream: &str, max_perm: usize, perms_run: &mut u64) {
    let base = match load_with_order(file, None) { Ok(d) => d, Err(e) => { c.oracle_fail("load-error", &format!("{}: {}", stream, e), json!({"file": hex(file)})); return; } };
    let n = LAST_CONTAINERS.lock().unwrap().len();
    c.count(&format!("{}.containers_{}", stream, n.min(7)));
    if n < 2 || n > max_perm { return; }
    let perms = permutations(n);
    for (pi, p) in perms.iter().enumerate() {
        *perms_run += 1;
        match load_with_order(file, Some(p.clone())) {
            Ok(d) => {
                if d != base { c.oracle_fail("order-dependent", &format!("{}: merge order {:?} loads a different document than the default order", stream, p), json!({"file": hex(file), "order": p})); return; }
                if pi < 4 || pi + 1 == perms.len() {
                    let reply = { *MERGE_ORDER.lock().unwrap() = Some(p.clone()); let s = load_reply(file); *MERGE_ORDER.lock().unwrap() = None; s };
                    c.corr(format!("load_perm {} {}", p.iter().map(|x| x.to_string()).collect::<Vec<_>>().join(","), hex_tok(file)), reply);
                }
            }
            Err(e) => { c.oracle_fail("order-dependent", &format!("{}: merge order {:?}: {}", stream, p, e), json!({"file": hex(file)})); return; }
        }
    }
}
/// streams whose Length is a reference to an integer stored in an object stream (their content is read after the
/// parallel phase), mixed with genuinely empty streams (which that pass cannot complete) and streams whose Length
/// reference leads to a non-integer
fn craft_deferred_file(r: &mut Rng) -> Vec<u8> {
    let m = 2 + r.usize(7);
    let mut f = b"%PDF-1.5\n".to_vec(); let mut offs: Vec<(u32, usize)> = vec![];
    offs.push((1, f.len())); f.extend_from_slice(b"1 0 obj\n<</Type/Catalog>>\nendobj\n");
    // streams 10..10+m, their lengths are objects 40..40+m inside container 2
    let mut lens: Vec<(u32, usize)> = vec![];
    for i in 0..m {
        let num = 10 + i as u32; let mut kind = r.below(7);
        // kinds 5, 6: share the Length object of an earlier stream (same data length) — legal, and the second
        // resolution of the same reference must not look like a cycle
        let share = if kind >= 5 && !lens.is_empty() { Some(*r.pick(&lens)) } else { None };
        if kind >= 5 && share.is_none() { kind = 0; }
        let data = if kind == 1 { vec![] } else { let n = match share { Some((_, l)) => l, None => 1 + r.usize(12) }; (0..n).map(|_| b'a' + r.below(26) as u8).collect::<Vec<u8>>() };
        offs.push((num, f.len()));
        let lenref = match (kind, share) { (_, Some((lid, _))) => format!("{} 0 R", lid), (1, _) => "0".to_string(), (2, _) => format!("{} 0 R", 10 + r.usize(m)), (3, _) => "99 0 R".to_string(), _ => { lens.push((40 + i as u32, data.len())); format!("{} 0 R", 40 + i) } };
        f.extend_from_slice(format!("{} 0 obj\n<</Length {}>>\nstream\n", num, lenref).as_bytes());
        f.extend_from_slice(&data); f.extend_from_slice(b"\nendstream\nendobj\n");
    }
    let mut body = vec![]; let mut index = String::new();
    for (n, l) in &lens { index.push_str(&format!("{} {} ", n, body.len())); body.extend_from_slice(format!("{} ", l).as_bytes()); }
    let first = index.len(); let mut content = index.into_bytes(); content.extend_from_slice(&body);
    offs.push((2, f.len()));
    f.extend_from_slice(format!("2 0 obj\n<</Type/ObjStm/N {}/First {}/Length {}>>\nstream\n", lens.len(), first, content.len()).as_bytes());
    f.extend_from_slice(&content); f.extend_from_slice(b"\nendstream\nendobj\n");
    let xoff = f.len(); offs.push((3, xoff));
    let mut rows: Vec<u8> = vec![]; let mut index_arr = String::new();
    offs.sort();
    for (n, o) in &offs { rows.push(1); rows.extend_from_slice(&(*o as u16).to_be_bytes()); rows.extend_from_slice(&0u16.to_be_bytes()); index_arr.push_str(&format!("{} 1 ", n)); }
    for (k, (n, _)) in lens.iter().enumerate() { rows.push(2); rows.extend_from_slice(&2u16.to_be_bytes()); rows.extend_from_slice(&(k as u16).to_be_bytes()); index_arr.push_str(&format!("{} 1 ", n)); }
    f.extend_from_slice(format!("3 0 obj\n<</Type/XRef/Size 60/W[1 2 2]/Index[{}]/Root 1 0 R/Length {}>>\nstream\n", index_arr.trim_end(), rows.len()).as_bytes());
    f.extend_from_slice(&rows); f.extend_from_slice(format!("\nendstream\nendobj\nstartxref\n{}\n%%EOF", xoff).as_bytes());
    f
}
/// several streams that share ONE plain (uncompressed) `Length` object — legal; resolving the same reference for
/// the second stream must not be mistaken for a reference cycle, on any worker and in any split of the work
fn craft_shared_length_file(r: &mut Rng) -> (Vec<u8>, Vec<(u32, Vec<u8>)>) {
    let m = 2 + r.usize(40); let len = 1 + r.usize(9);
    let mut f = b"%PDF-1.4\n".to_vec(); let mut offs: Vec<(u32, usize)> = vec![]; let mut want = vec![];
    offs.push((1, f.len())); f.extend_from_slice(b"1 0 obj\n<</Type/Catalog>>\nendobj\n");
    let len_first = r.chance(1, 2);
    if len_first { offs.push((2, f.len())); f.extend_from_slice(format!("2 0 obj\n{}\nendobj\n", len).as_bytes()); }
    for i in 0..m {
        let num = 3 + i as u32; let data: Vec<u8> = (0..len).map(|_| b'a' + r.below(26) as u8).collect();
        offs.push((num, f.len()));
        f.extend_from_slice(format!("{} 0 obj\n<</Length 2 0 R>>\nstream\n", num).as_bytes()); f.extend_from_slice(&data); f.extend_from_slice(b"\nendstream\nendobj\n");
        want.push((num, data));
    }
    if !len_first { offs.push((2, f.len())); f.extend_from_slice(format!("2 0 obj\n{}\nendobj\n", len).as_bytes()); }
    offs.sort();
    let x = f.len();
    f.extend_from_slice(format!("xref\n0 {}\n0000000000 65535 f \n", offs.len() + 1).as_bytes());
    for (_, o) in &offs { f.extend_from_slice(format!("{:010} 00000 n \n", o).as_bytes()); }
    f.extend_from_slice(format!("trailer\n<</Size {}/Root 1 0 R>>\nstartxref\n{}\n%%EOF", offs.len() + 1, x).as_bytes());
    (f, want)
}
/// the same with object streams among the sharers: an object stream whose shared Length is not resolved while it
/// is parsed has no content at that moment and loses its members
fn craft_shared_length_objstm_file(r: &mut Rng) -> Vec<u8> {
    let k = 1 + r.usize(30);
    let content = b"50 0 77".to_vec(); let len = content.len();
    let mut f = b"%PDF-1.5\n".to_vec(); let mut offs: Vec<(u32, usize)> = vec![];
    offs.push((1, f.len())); f.extend_from_slice(b"1 0 obj\n<</Type/Catalog>>\nendobj\n");
    offs.push((2, f.len())); f.extend_from_slice(format!("2 0 obj\n{}\nendobj\n", len).as_bytes());
    let container = 3 + k as u32;
    let place = r.usize(k + 1);     // the object stream sits at a random position among the plain sharers (numbers follow file order)
    let mut num = 3u32;
    for i in 0..=k {
        offs.push((num, f.len()));
        if i == place {
            f.extend_from_slice(format!("{} 0 obj\n<</Type/ObjStm/N 1/First 5/Length 2 0 R>>\nstream\n", num).as_bytes()); f.extend_from_slice(&content);
        } else {
            f.extend_from_slice(format!("{} 0 obj\n<</Length 2 0 R>>\nstream\n", num).as_bytes()); f.extend((0..len).map(|_| b'a' + r.below(26) as u8));
        }
        f.extend_from_slice(b"\nendstream\nendobj\n");
        num += 1;
    }
    let _ = container;
    let cnum = 3 + place as u32;
    let xnum = num; let xoff = f.len(); offs.push((xnum, xoff));
    let mut rows: Vec<u8> = vec![]; let mut index_arr = String::new();
    for (n, o) in &offs { rows.push(1); rows.extend_from_slice(&(*o as u16).to_be_bytes()); rows.extend_from_slice(&0u16.to_be_bytes()); index_arr.push_str(&format!("{} 1 ", n)); }
    rows.push(2); rows.extend_from_slice(&(cnum as u16).to_be_bytes()); rows.extend_from_slice(&0u16.to_be_bytes()); index_arr.push_str("50 1");
    f.extend_from_slice(format!("{} 0 obj\n<</Type/XRef/Size 60/W[1 2 2]/Index[{}]/Root 1 0 R/Length {}>>\nstream\n", xnum, index_arr, rows.len()).as_bytes());
    f.extend_from_slice(&rows); f.extend_from_slice(format!("\nendstream\nendobj\nstartxref\n{}\n%%EOF", xoff).as_bytes());
    f
}
/// an ENCRYPTED file (RC4, empty user password, so that loading decrypts it at once) with two object-stream
/// containers that both list member `900`: the containers are expanded by `decrypt_raw`, not by `Reader::read`
/// (hook H1 does not reach that loop). The lower-numbered container is large, the higher one tiny, so that a
/// completion-order dependent merge shows on pools of two or more threads.
fn craft_encrypted_objstm_file(r: &mut Rng) -> Option<Vec<u8>> {
    use lopdf::{EncryptionState, EncryptionVersion, Permissions};
    let mut doc = Document::with_version("1.5");
    let cat = doc.add_object(Object::Dictionary({ let mut d = Dictionary::new(); d.set("Type", Object::Name(b"Catalog".to_vec())); d }));
    doc.trailer.set("Root", Object::Reference(cat));
    doc.trailer.set("ID", Object::Array(vec![Object::string_literal("0123456789abcdef"), Object::string_literal("0123456789abcdef")]));
    let container = |members: &[(u32, String)]| -> Object {
        let mut body = String::new(); let mut index = String::new();
        for (n, text) in members { index.push_str(&format!("{} {} ", n, body.len())); body.push_str(text); body.push(' '); }
        let first = index.len(); let content = format!("{}{}", index, body).into_bytes();
        let mut d = Dictionary::new(); d.set("Type", Object::Name(b"ObjStm".to_vec())); d.set("N", Object::Integer(members.len() as i64)); d.set("First", Object::Integer(first as i64));
        Object::Stream(lopdf::Stream::new(d, content))
    };
    let big = 2000 + r.usize(20000);
    let mut a: Vec<(u32, String)> = (0..big).map(|k| (1000 + k as u32, format!("{}", k))).collect();
    a.insert(r.usize(big), (900, "/FromLowerContainer".into()));
    let b: Vec<(u32, String)> = vec![(900, "/FromHigherContainer".into()), (901, "7".into())];
    let _ida = doc.add_object(container(&a)); let _idb = doc.add_object(container(&b));
    let state = EncryptionState::try_from(EncryptionVersion::V2 { document: &doc, owner_password: "owner", user_password: "", key_length: 128, permissions: Permissions::all() }).ok()?;
    doc.encrypt(&state).ok()?;
    // written by hand: `Document::save` omits object streams
    let mut f = b"%PDF-1.5\n".to_vec(); let mut offs: Vec<(u32, usize)> = vec![];
    for (id, obj) in doc.objects.iter() {
        offs.push((id.0, f.len()));
        f.extend_from_slice(format!("{} {} obj\n", id.0, id.1).as_bytes());
        lopdf::verif_api::Writer::write_object(&mut f, obj).ok()?;
        f.extend_from_slice(b"\nendobj\n");
    }
    let x = f.len(); let size = offs.iter().map(|o| o.0).max().unwrap_or(0) + 1;
    f.extend_from_slice(format!("xref\n0 {}\n0000000000 65535 f \n", size).as_bytes());
    for n in 1..size { match offs.iter().find(|o| o.0 == n) { Some((_, o)) => f.extend_from_slice(format!("{:010} 00000 n \n", o).as_bytes()), None => f.extend_from_slice(b"0000000000 65535 f \n") } }
    let mut tr = doc.trailer.clone(); tr.set("Size", Object::Integer(size as i64));
    f.extend_from_slice(b"trailer\n"); lopdf::verif_api::Writer::write_object(&mut f, &Object::Dictionary(tr)).ok()?;
    f.extend_from_slice(format!("\nstartxref\n{}\n%%EOF", x).as_bytes());
    Some(f)
}
fn load_with_zero(bytes: &[u8], k: Option<usize>) -> Result<String, String> {
    *ZERO_ORDER.lock().unwrap() = k;
    let r = guard(|| Document::load_mem(bytes));
    *ZERO_ORDER.lock().unwrap() = None;
    match r { Ok(Ok(d)) => Ok(digest(&d)), Ok(Err(e)) => Err(format!("{:?}", e)), Err((site, msg)) => Err(format!("panic@{} {}", site, msg)) }
}
/// every completion order of the deferred streams that hook H2 can force must load the same document, = the model
fn zero_independent(c: &mut Ctx, file: &[u8], stream: &str, zero_run: &mut u64) {
    let base = match load_with_zero(file, None) { Ok(d) => d, Err(e) => { c.oracle_fail("load-error", &format!("{}: {}", stream, e), json!({"file": hex(file)})); return; } };
    let n = *LAST_ZERO_LENGTH.lock().unwrap();
    c.count(&format!("{}.deferred_{}", stream, n.min(9)));
    if n < 2 { return; }
    for k in 0..(2 * n).min(12) {
        *zero_run += 1;
        match load_with_zero(file, Some(k)) {
            Ok(d) => if d != base { c.oracle_fail("completion-order-dependent", &format!("{}: completing the deferred streams in order #{} loads a different document", stream, k), json!({"file": hex(file), "k": k})); return; },
            Err(e) => { c.oracle_fail("completion-order-dependent", &format!("{}: order #{}: {}", stream, k, e), json!({"file": hex(file)})); return; }
        }
        if k < 3 { let reply = { *ZERO_ORDER.lock().unwrap() = Some(k); let s = load_reply(file); *ZERO_ORDER.lock().unwrap() = None; s }; c.corr(format!("load_zero {} {}", k, hex_tok(file)), reply); }
    }
}
/// as `order_independent`, without the model correspondence (encrypted files are outside the reader model)
fn order_independent_nomodel(c: &mut Ctx, file: &[u8], stream: &str, pool_loads: &mut u64) {
    let base = match load_with_order(file, None) { Ok(d) => d, Err(e) => { c.oracle_fail("load-error", &format!("{}: {}", stream, e), json!({"file_len": file.len()})); return; } };
    c.count(&format!("{}.cases", stream));
    for t in [1usize, 2, 3, 4, 8, 16] {
        for _rep in 0..3 {
            *pool_loads += 1;
            match load_in_pool(file, t) { Ok(d) => if d != base { c.oracle_fail("schedule-dependent", &format!("{}: load on a pool of {} threads differs from the first load", stream, t), json!({"file": if file.len() < 200000 { hex(file) } else { String::new() }, "file_len": file.len()})); return; }, Err(e) => { c.oracle_fail("schedule-dependent", &e, json!({})); return; } }
        }
    }
}
/// the document must be the same on every pool size, repeatedly, and equal to the model's sequential semantics
fn order_independent(c: &mut Ctx, file: &[u8], stream: &str, pool_loads: &mut u64) {
    let base = match load_with_order(file, None) { Ok(d) => d, Err(e) => { c.oracle_fail("load-error", &format!("{}: {}", stream, e), json!({"file": hex(file)})); return; } };
    c.nontrivial(&hex(&file[file.len().saturating_sub(48)..]));
    c.count(&format!("{}.cases", stream));
    c.corr(format!("load {}", hex_tok(file)), load_reply(file));
    for t in [1usize, 2, 3, 4, 8, 16] {
        for _rep in 0..3 {
            *pool_loads += 1;
            match load_in_pool(file, t) { Ok(d) => if d != base { c.oracle_fail("schedule-dependent", &format!("{}: load on a pool of {} threads differs from the first load", stream, t), json!({"file": hex(file)})); return; }, Err(e) => { c.oracle_fail("schedule-dependent", &e, json!({})); return; } }
        }
    }
}

pub fn run(c: &mut Ctx) {
    c.rule = "files with 1..6 object-stream containers (reference writer; plain and multi-revision, zero-length streams, indirect Lengths), \
no object number in two containers in the main stream: EVERY permutation of the container blocks through hook H1 (<=4 containers quick, <=6 thorough) \
must load the same document = the abstract document = the model's `load_perm`; repeated loads on rayon pools of 1,2,3,4,8,16 threads; the same cases \
run in the no-default-features (sequential) build. Non-trivial = file with >= 2 containers.".into();
    let max_perm_containers = if c.quick() { 4 } else { 6 };
    let mut counters = Counters::new();
    let mut perms_run = 0u64; let mut pool_loads = 0u64;
    for i in 0..c.n(150, 1500) {
        let Some(mut r) = c.case("objstm", i) else { continue };
        // many small objects so that several containers appear
        let (revs, latest) = if r.chance(1, 3) { let (mut revs, latest) = gen_history(&mut r, 1); revs.truncate(2); (revs, latest) } else { let o = gen_aobjects(&mut r, 14, 0); let e = gen_trailer_extra(&mut r, &o); (vec![Revision { objects: o.clone(), trailer_extra: e }], o) };
        let mut style = gen_style(&mut r); style.xref = XrefStyle::Stream; style.objstm = true; style.compress = r.chance(1, 4); style.junk_before_header = false;
        // containers in one revision, or in all of them (a number is then a member of several containers)
        let which = r.usize(revs.len() + 1);
        if which == revs.len() && revs.len() > 1 { c.count("objstm.containers_in_all_revisions"); }
        let w = write_file_with(&mut r, &mut counters, &style, "1.7", &revs, &|ri| which == revs.len() || ri == which);
        let helper_from = latest.keys().map(|k| k.0).max().unwrap() + 1;
        let base = match load_with_order(&w.bytes, None) { Ok(d) => d, Err(e) => { c.oracle_fail("load-error", &e, json!({"file": hex(&w.bytes)})); continue; } };
        let n = LAST_CONTAINERS.lock().unwrap().len();
        c.count(&format!("objstm.containers_{}", n.min(7)));
        if n >= 2 { c.nontrivial(&format!("{}", i)); }
        // oracle against the abstract document
        if let Ok(d) = Document::load_mem(&w.bytes) { if let Some((sig, diff)) = compare_abstract(&d, &latest, &revs[0].trailer_extra, "1.7", helper_from) { c.oracle_fail(&sig, &diff, json!({"file": hex(&w.bytes)})); } }
        c.corr(format!("load {}", hex_tok(&w.bytes)), load_reply(&w.bytes));
        // every completion order
        if n >= 2 && n <= max_perm_containers {
            let perms = permutations(n);
            for (pi, p) in perms.iter().enumerate() {
                perms_run += 1;
                match load_with_order(&w.bytes, Some(p.clone())) {
                    Ok(d) => {
                        if d != base { c.oracle_fail("order-dependent", &format!("merge order {:?} loads a different document than the default order", p), json!({"file": hex(&w.bytes), "order": p})); break; }
                        // model under the same order (sampled to bound the request volume)
                        if pi < 6 || pi + 1 == perms.len() {
                            let reply = { *MERGE_ORDER.lock().unwrap() = Some(p.clone()); let s = load_reply(&w.bytes); *MERGE_ORDER.lock().unwrap() = None; s };
                            c.corr(format!("load_perm {} {}", p.iter().map(|x| x.to_string()).collect::<Vec<_>>().join(","), hex_tok(&w.bytes)), reply);
                        }
                    }
                    Err(e) => { c.oracle_fail("order-dependent", &format!("merge order {:?}: {}", p, e), json!({"file": hex(&w.bytes)})); break; }
                }
            }
        }
        // real schedules
        if i % 3 == 0 {
            for t in [1usize, 2, 3, 4, 8, 16] {
                for _rep in 0..2 {
                    pool_loads += 1;
                    match load_in_pool(&w.bytes, t) { Ok(d) => if d != base { c.oracle_fail("schedule-dependent", &format!("load on a pool of {} threads differs", t), json!({"file": hex(&w.bytes)})); }, Err(e) => c.oracle_fail("schedule-dependent", &e, json!({})) }
                }
            }
        }
        if i < 2 { c.sample(json!({"containers": n, "file_len": w.bytes.len(), "revisions": revs.len()})); }
    }
    // ---- one object stream that lists the same number more than once (the last listed member wins), and
    // ---- cross-reference entries that alias one object id (the later entry wins): both are decided by the
    // ---- ORDER of rayon's collects, so every pool size must give the sequential result = the model's
    for i in 0..c.n(60, 600) {
        let Some(mut r) = c.case("dup_in_stream", i) else { continue };
        let n = 4 + r.usize(60);
        let pairs: Vec<(u32, Object)> = (0..n).map(|k| (10 + r.below(1 + n as u64 / 3) as u32, Object::Integer(k as i64))).collect();
        // `/N` sometimes disagrees with the number of pairs the index block lists (fewer or more)
        let n_entry = match r.below(4) { 0 => n.saturating_sub(1 + r.usize(n / 2 + 1)), 1 => n + 1 + r.usize(5), _ => n };
        if n_entry != n { c.count("dup_in_stream.n_entry_differs"); }
        let file = craft_objstm_file_n(&pairs, n_entry);
        order_independent(c, &file, "dup_in_stream", &mut pool_loads);
    }
    // ---- offsets listed twice inside ONE container: which pair keeps the object is decided in index order, on every pool
    for i in 0..c.n(3, 40) {
        let Some(mut r) = c.case("dup_offsets", i) else { continue };
        let file = craft_dup_offset_file(&mut r);
        // (small duplicate-offset files are compared with the Lean reader in C04's `objstm-dup-offsets`; these are 100-300 kB)
        order_independent_nomodel(c, &file, "dup_offsets", &mut pool_loads);
        // and against the single-thread load explicitly (the first load above runs on the global pool)
        if let (Ok(a), Ok(b)) = (load_in_pool(&file, 1), load_with_order(&file, None)) { if a != b { c.oracle_fail("schedule-dependent", "dup_offsets: the load on the global pool differs from the one-thread load", json!({"file": hex(&file)})); } }
    }
    for i in 0..c.n(60, 600) {
        let Some(mut r) = c.case("alias_entries", i) else { continue };
        let file = craft_alias_file(&mut r);
        order_independent(c, &file, "alias_entries", &mut pool_loads);
    }
    // ---- overlapping member lists with compressed / free / missing cross-reference entries
    for i in 0..c.n(80, 800) {
        let Some(mut r) = c.case("multi_container", i) else { continue };
        let file = craft_multi_container_file(&mut r);
        perm_independent(c, &file, "multi_container", max_perm_containers, &mut perms_run);
        if i % 4 == 0 { order_independent(c, &file, "multi_container", &mut pool_loads); } else { c.corr(format!("load {}", hex_tok(&file)), load_reply(&file)); }
    }
    // ---- deferred-length streams: every completion order (hook H2), pools, model
    let mut zero_run = 0u64;
    for i in 0..c.n(80, 800) {
        let Some(mut r) = c.case("deferred", i) else { continue };
        let file = craft_deferred_file(&mut r);
        zero_independent(c, &file, "deferred", &mut zero_run);
        if i % 4 == 0 { order_independent(c, &file, "deferred", &mut pool_loads); } else { c.corr(format!("load {}", hex_tok(&file)), load_reply(&file)); }
    }
    // ---- parse history: loading files with too deeply nested objects (rejected) must not change what a later load
    // ---- of a file nested exactly at the limit yields — on this thread and on the pool's workers
    for i in 0..c.n(6, 40) {
        let Some(mut r) = c.case("nesting_history", i) else { continue };
        let nest_file = |depth: usize, tag: u32| -> Vec<u8> {
            let mut f = b"%PDF-1.4\n".to_vec(); let o1 = f.len(); f.extend_from_slice(b"1 0 obj\n<</Type/Catalog>>\nendobj\n");
            let o2 = f.len(); f.extend_from_slice(b"2 0 obj\n"); f.extend(std::iter::repeat(b'[').take(depth)); f.extend_from_slice(format!("{}", tag).as_bytes()); f.extend(std::iter::repeat(b']').take(depth)); f.extend_from_slice(b"\nendobj\n");
            let x = f.len();
            f.extend_from_slice(format!("xref\n0 3\n0000000000 65535 f \n{:010} 00000 n \n{:010} 00000 n \ntrailer\n<</Size 3/Root 1 0 R>>\nstartxref\n{}\n%%EOF", o1, o2, x).as_bytes());
            f
        };
        let limit = 128usize;
        let x = nest_file(limit - r.usize(3), 7);
        let first = match load_with_order(&x, None) { Ok(d) => d, Err(e) => { c.oracle_fail("load-error", &format!("nesting_history: {}", e), json!({"file": hex(&x)})); continue; } };
        c.corr(format!("load {}", hex_tok(&x)), load_reply(&x));
        for k in 0..48 { let y = nest_file(limit + 1 + (k % 5), 9); let _ = guard(|| Document::load_mem(&y)); }
        for rep in 0..3 {
            match load_with_order(&x, None) {
                Ok(d) => if d != first { c.oracle_fail("history-dependent", &format!("the same bytes load to a different document after other files (with too deeply nested objects) were loaded, repetition {}", rep), json!({"file": hex(&x)})); break; },
                Err(e) => { c.oracle_fail("history-dependent", &e, json!({"file": hex(&x)})); break; }
            }
        }
        c.count("nesting_history.cases");
    }
    // ---- streams sharing one Length object
    for i in 0..c.n(40, 400) {
        let Some(mut r) = c.case("shared_length", i) else { continue };
        let (file, want) = craft_shared_length_file(&mut r);
        match guard(|| Document::load_mem(&file)) {
            Ok(Ok(d)) => for (num, data) in &want {
                match d.objects.get(&(*num, 0)) { Some(Object::Stream(st)) if &st.content == data => {}, _ => { c.oracle_fail("shared-length", &format!("stream {} 0 sharing its Length object with other streams is not loaded with its content", num), json!({"file": hex(&file)})); break; } }
            },
            Ok(Err(e)) => c.oracle_fail("load-error", &format!("shared_length: {:?}", e), json!({"file": hex(&file)})),
            Err((site, msg)) => c.oracle_fail(&format!("panic@{}", site), &msg, json!({"file": hex(&file)})),
        }
        if i % 4 == 0 { order_independent(c, &file, "shared_length", &mut pool_loads); } else { c.corr(format!("load {}", hex_tok(&file)), load_reply(&file)); }
    }
    for i in 0..c.n(40, 400) {
        let Some(mut r) = c.case("shared_length_objstm", i) else { continue };
        let file = craft_shared_length_objstm_file(&mut r);
        match guard(|| Document::load_mem(&file)) {
            Ok(Ok(d)) => if !matches!(d.objects.get(&(50, 0)), Some(Object::Integer(77))) { c.oracle_fail("shared-length", "the member of an object stream that shares its Length object with other streams is not loaded", json!({"file": hex(&file)})); },
            Ok(Err(e)) => c.oracle_fail("load-error", &format!("shared_length_objstm: {:?}", e), json!({"file": hex(&file)})),
            Err((site, msg)) => c.oracle_fail(&format!("panic@{}", site), &msg, json!({"file": hex(&file)})),
        }
        if i % 4 == 0 { order_independent(c, &file, "shared_length_objstm", &mut pool_loads); } else { c.corr(format!("load {}", hex_tok(&file)), load_reply(&file)); }
    }
    // ---- encrypted files: object streams are expanded by decrypt_raw during the load
    for i in 0..c.n(4, 30) {
        let Some(mut r) = c.case("encrypted_objstm", i) else { continue };
        let Some(file) = craft_encrypted_objstm_file(&mut r) else { c.count("encrypted_objstm.not_built"); continue };
        match guard(|| Document::load_mem(&file)) {
            Ok(Ok(d)) => {
                match d.objects.get(&(900, 0)) {
                    Some(Object::Name(n)) if n == b"FromLowerContainer" => c.count("encrypted_objstm.lower_container_wins"),
                    other => c.oracle_fail("encrypted-objstm-member", &format!("member 900 of two containers of an encrypted file loads as {:?} (the sequential reader keeps the copy of the lower-numbered container)", other.map(|o| show_obj(o))), json!({"file_len": file.len()})),
                }
            }
            Ok(Err(e)) => c.oracle_fail("load-error", &format!("encrypted_objstm: {:?}", e), json!({})),
            Err((site, msg)) => c.oracle_fail(&format!("panic@{}", site), &msg, json!({})),
        }
        order_independent_nomodel(c, &file, "encrypted_objstm", &mut pool_loads);
    }
    c.extra.insert("completion_orders_run".into(), json!(zero_run));
    // ---- witness F-C08-a: the same number in two containers -> two orders, two documents
    if let Some(mut r) = c.case("witness", 0) {
        let mut base = AObjects::new();
        base.insert((1, 0), AObj { obj: Object::Dictionary(Dictionary::new()), stream: None });
        base.insert((2, 0), AObj { obj: Object::string_literal("old"), stream: None });
        let mut upd = AObjects::new();
        upd.insert((2, 0), AObj { obj: Object::string_literal("new"), stream: None });
        let mut extra = Dictionary::new(); extra.set("Root", Object::Reference((1, 0)));
        let revs = vec![Revision { objects: base, trailer_extra: extra.clone() }, Revision { objects: upd, trailer_extra: extra }];
        let style = Style { xref: XrefStyle::Stream, objstm: true, compress: false, indirect_length: false, raw_cr_in_strings: false, junk_before_header: false, lexical_freedom: false };
        let mut reproduced = false;
        for _ in 0..40 {
            let w = write_file(&mut r, &mut counters, &style, "1.6", &revs);
            if w.containers.len() < 2 { continue; }
            let a = load_with_order(&w.bytes, Some(vec![0, 1])); let b = load_with_order(&w.bytes, Some(vec![1, 0]));
            if let (Ok(a), Ok(b)) = (a, b) { if a != b { reproduced = true;
                c.corr(format!("load_perm 0,1 {}", hex_tok(&w.bytes)), { *MERGE_ORDER.lock().unwrap() = Some(vec![0, 1]); let s = load_reply(&w.bytes); *MERGE_ORDER.lock().unwrap() = None; s });
                c.corr(format!("load_perm 1,0 {}", hex_tok(&w.bytes)), { *MERGE_ORDER.lock().unwrap() = Some(vec![1, 0]); let s = load_reply(&w.bytes); *MERGE_ORDER.lock().unwrap() = None; s });
                break; } }
        }
        c.witness("F-C08-a", reproduced, "object 2 is a member of two containers: merge orders [0,1] and [1,0] load different documents");
    }
    c.extra.insert("permutations_run".into(), json!(perms_run));
    c.extra.insert("pool_loads".into(), json!(pool_loads));
    c.extra.insert("build".into(), json!(if cfg!(feature = "par") { "rayon" } else { "sequential" }));
    for (k, v) in counters { c.count_n(&format!("choice.{}", k), v); }
    let _ = Rng::new(0);
}
