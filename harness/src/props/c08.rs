//! C08 — not yet built
use crate::ctx::Ctx;
pub fn run(c: &mut Ctx) { c.notes.push("C08: not implemented".into()); }
