use crate::ctx::Ctx;
pub mod c01; pub mod c02; pub mod c03; pub mod c04; pub mod c05; pub mod c06; pub mod c07;
pub mod c08; pub mod c09; pub mod c10; pub mod c11; pub mod c12; pub mod c13; pub mod c14;
pub mod c15; pub mod c16; pub mod c17; pub mod c18; pub mod c19;

pub fn run(prop: &str, c: &mut Ctx) -> bool {
    match prop {
        "C01" => c01::run(c), "C02" => c02::run(c), "C03" => c03::run(c), "C04" => c04::run(c),
        "C05" => c05::run(c), "C06" => c06::run(c), "C07" => c07::run(c), "C08" => c08::run(c),
        "C09" => c09::run(c), "C10" => c10::run(c), "C11" => c11::run(c), "C12" => c12::run(c),
        "C13" => c13::run(c), "C14" => c14::run(c), "C15" => c15::run(c), "C16" => c16::run(c),
        "C17" => c17::run(c), "C18" => c18::run(c), "C19" => c19::run(c),
        _ => return false,
    }
    true
}

/// isolated-worker entry: run one case of a property that needs process isolation
pub fn worker_case(prop: &str, case: &str) -> String {
    match prop {
        "C04" => c04::worker_case(case),
        "C12" => c12::worker_case(case),
        "C13" => c13::worker_case(case),
        "C11" => c11::worker_case(case),
        _ => "bad-prop".into(),
    }
}
