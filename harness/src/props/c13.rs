//! C13 — read-only queries are total on arbitrary object graphs.
//!
//! Every query runs on the REAL `Document` inside the isolated worker (`iso::run_isolated`):
//! a case line is the protocol request `c13 <mode> <fuel> <nt> <target ids…> <trailer> <k> <objects…>`;
//! the worker answers one `field=value` token per query (`ok…` / `err` / `panic@file:line`),
//! the parent adds `timeout` / `abort` for a dead worker and then isolates the offending field.
//! Correspondence: the same request line is answered by the Lean model (`Driver/C13.lean`) and the
//! replies are diffed field by field. Oracle: every field must be `ok…` or `err`.
use crate::codec::*;
use crate::ctx::{guard, Ctx};
use crate::rng::Rng;
use indexmap::IndexMap;
use lopdf::{Dictionary, Document, Object, ObjectId, Outline, Stream, StringFormat};
use serde_json::json;
use std::collections::{BTreeMap, HashSet};

// ------------------------------------------------------------------------------------------
// worker side: run the queries on the real document
// ------------------------------------------------------------------------------------------

fn ids_str(ids: &[ObjectId]) -> String {
    ids.iter().map(|(n, g)| format!("{}_{}", n, g)).collect::<Vec<_>>().join("+")
}
fn variant(o: &Object) -> String {
    match o {
        Object::Dictionary(d) => format!("Dictionary{}", d.len()),
        Object::Array(a) => format!("Array{}", a.len()),
        Object::Stream(s) => format!("Stream{}", s.dict.len()),
        o => o.enum_variant().to_string(),
    }
}
/// object as one token: protocol text with spaces replaced
fn obj_tok(o: &Object) -> String { show_obj(o).replace(' ', "~") }

fn site_class(site: &str, msg: &str) -> String {
    if msg.contains("capacity overflow") { return "alloc:capacity-overflow".into(); }
    if site.contains("iter/traits/accum.rs") && msg.contains("add with overflow") { return "core:sum-overflow".into(); }
    site.to_string()
}
fn run_field<F: FnOnce() -> Result<String, ()>>(f: F) -> String {
    match guard(f) {
        Ok(Ok(s)) => if s.is_empty() { "ok".into() } else { format!("ok,{}", s) },
        Ok(Err(())) => "err".into(),
        Err((site, msg)) => format!("panic@{}", site_class(&site, &msg)),
    }
}
fn e<T, E>(r: Result<T, E>) -> Result<T, ()> { r.map_err(|_| ()) }

fn outline_digest(o: &Outline, s: &mut String) {
    match o {
        Outline::Destination(d) => {
            s.push_str("d(");
            s.push_str(&d.title().map(obj_tok).unwrap_or("-".into())); s.push('|');
            s.push_str(&d.page().map(obj_tok).unwrap_or("-".into())); s.push(')');
        }
        Outline::SubOutlines(v) => { s.push('['); for x in v { outline_digest(x, s); } s.push(']'); }
    }
}
fn named_digest(n: &IndexMap<Vec<u8>, lopdf::Destination>) -> String {
    let mut s = format!("{}", n.len());
    for (k, d) in n.iter() {
        s.push_str(&format!(":{}({}|{})", hex_tok(k), d.title().map(obj_tok).unwrap_or("-".into()), d.page().map(obj_tok).unwrap_or("-".into())));
    }
    s
}
/// fields whose query walks `Next` / `First` / `Kids` links without any guard in the code
pub fn is_walker(f: &str) -> bool { f == "outl" || f == "toc" || f == "dests" || f.starts_with("nd:") }

/// all fields of a document, in the fixed order shared with the model
pub fn field_names(targets: &[ObjectId]) -> Vec<String> {
    let mut v: Vec<String> = vec!["cat".into(), "enc".into(), "cf".into(), "iter".into(), "pages".into()];
    for t in targets {
        let t = format!("{}_{}", t.0, t.1);
        for q in ["go", "gom", "gd", "pc", "pcc", "pr", "pf", "pa", "pi", "op", "fe", "nd", "ol"] { v.push(format!("{}:{}", q, t)); }
    }
    v.push("outl".into()); v.push("toc".into()); v.push("dests".into()); v.push("text".into()); v.push("xt".into());
    v
}

fn parse_id(s: &str) -> Option<ObjectId> { let (a, b) = s.split_once('_')?; Some((a.parse().ok()?, b.parse().ok()?)) }

fn one_byte_name(t: &[Option<u16>; 256]) -> &'static str {
    // distinguishing cells: 0x27 quotesingle/quoteright, 0x80, 0xA0, 0x18
    match (t[0x27], t[0x80], t[0x18], t[0x21]) {
        (Some(0x2019), None, None, _) => "Standard",
        (Some(0x27), Some(0xC4), None, _) => "MacRoman",
        (_, _, _, Some(0xF721)) => "MacExpert",
        (Some(0x27), Some(0x20AC), None, _) => "WinAnsi",
        (Some(0x27), Some(0x2022), Some(0x02D8), _) => "PDFDoc",
        _ => "?",
    }
}

fn font_encoding_field(doc: &Document, t: ObjectId) -> Result<String, ()> {
    let d = e(doc.get_dictionary(t))?;
    use lopdf::Encoding::*;
    match d.get_font_encoding(doc) {
        Ok(OneByteEncoding(t)) => Ok(format!("one:{}", one_byte_name(t))),
        Ok(SimpleEncoding(n)) => Ok(format!("simple:{}", hex_tok(n))),
        Ok(UnicodeMapEncoding(_)) => Ok("tounicode".into()),
        // failures inside get_encoding_from_to_unicode_cmap (filters / CMap parser: C09, C15)
        Err(lopdf::Error::ToUnicodeCMap(_)) | Err(lopdf::Error::Decompress(_)) | Err(lopdf::Error::Unimplemented(_)) | Err(lopdf::Error::IO(_)) => Ok("tounicode".into()),
        Err(_) => Err(()),
    }
}

pub fn eval_field(doc: &mut Document, field: &str) -> String {
    let (q, arg) = field.split_once(':').unwrap_or((field, ""));
    let t = parse_id(arg).unwrap_or((0, 0));
    match q {
        "cat" => run_field(|| Ok(format!("{}", e(doc.catalog())?.len()))),
        "enc" => run_field(|| Ok(format!("{}", e(doc.get_encrypted())?.len()))),
        "cf" => run_field(|| {
            let m = doc.get_crypt_filters();
            // the concrete filter type is not observable through `dyn CryptFilter`; names only
            Ok(format!("{}{}", m.len(), m.keys().map(|k| format!(":{}", hex_tok(k))).collect::<String>()))
        }),
        "iter" => run_field(|| {
            let v: Vec<ObjectId> = doc.page_iter().collect();
            // the same enumeration polled by hand and polled AGAIN after None (FusedIterator): nothing more may come, no panic, no loop
            let mut it = doc.page_iter(); let mut w: Vec<ObjectId> = vec![]; while let Some(p) = it.next() { w.push(p); }
            let again = (0..4).filter(|_| it.next().is_some()).count();
            Ok(format!("{}{},{},{}", if again == 0 && w == v { "" } else { "REPOLL" }, v.len(), v.capacity(), ids_str(&v))) }),
        "pages" => run_field(|| {
            let m = doc.get_pages();
            let ok = m.keys().enumerate().all(|(i, k)| *k as usize == i + 1);
            let v: Vec<ObjectId> = m.values().cloned().collect();
            Ok(format!("{}{},{}", if ok { "" } else { "BADNUM" }, v.len(), ids_str(&v)))
        }),
        "go" => run_field(|| Ok(variant(e(doc.get_object(t))?))),
        "gom" => run_field(|| Ok(variant(e(doc.get_object_mut(t))?))),
        "gd" => run_field(|| Ok(format!("{}", e(doc.get_dictionary(t))?.len()))),
        "pc" => run_field(|| Ok(ids_str(&doc.get_page_contents(t)))),
        "pcc" => run_field(|| { e(doc.get_page_content(t))?; Ok(String::new()) }),
        "pr" => run_field(|| { let (d, ids) = e(doc.get_page_resources(t))?; Ok(format!("{},{}", if let Some(d) = d { format!("d{}", d.len()) } else { "n".into() }, ids_str(&ids))) }),
        "pf" => run_field(|| { let f = e(doc.get_page_fonts(t))?; Ok(f.iter().map(|(k, d)| format!("{}.{}", hex_tok(k), d.len())).collect::<Vec<_>>().join("+")) }),
        "pa" => run_field(|| Ok(format!("{}", e(doc.get_page_annotations(t))?.len()))),
        "pi" => run_field(|| {
            let v = e(doc.get_page_images(t))?;
            Ok(v.iter().map(|i| format!("{}_{}.{}.{}.{}.{}.{}", i.id.0, i.id.1, i.width, i.height,
                if i.color_space.is_some() { "s" } else { "n" },
                i.bits_per_component.map(|b| b.to_string()).unwrap_or("n".into()),
                i.filters.as_ref().map(|f| f.len()).unwrap_or(0))).collect::<Vec<_>>().join("+"))
        }),
        "op" => run_field(|| { let p = e(doc.get_object_page(t))?; Ok(format!("{}_{}", p.0, p.1)) }),
        "fe" => run_field(|| font_encoding_field(doc, t)),
        "nd" => run_field(|| {
            let d = e(doc.get_dictionary(t))?;
            let mut named = IndexMap::new();
            e(doc.get_named_destinations(d, &mut named))?;
            Ok(named_digest(&named))
        }),
        // get_outline on the dictionary with this id (no named destinations loaded)
        "ol" => run_field(|| {
            let d = e(doc.get_dictionary(t))?;
            let mut named = IndexMap::new();
            let o = e(doc.get_outline(d, &mut named))?;
            let mut s = String::new();
            match o { Some(x) => outline_digest(&x, &mut s), None => s.push_str("none") }
            Ok(s)
        }),
        "dests" => run_field(|| {
            // the tree `get_outlines` would use
            let cat = e(doc.catalog())?;
            let tree = match doc.get_dict_in_dict(cat, b"Dests") {
                Ok(t) => t,
                Err(_) => e(doc.get_dict_in_dict(e(doc.get_dict_in_dict(cat, b"Names"))?, b"Dests"))?,
            };
            let mut named = IndexMap::new();
            e(doc.get_named_destinations(tree, &mut named))?;
            Ok(named_digest(&named))
        }),
        "outl" => run_field(|| {
            let mut named = IndexMap::new();
            let o = e(doc.get_outlines(None, None, &mut named))?;
            let mut s = String::new();
            match o { Some(v) => { s.push('['); for x in &v { outline_digest(x, &mut s); } s.push(']'); } None => s.push_str("none") }
            Ok(format!("{},{}", s, named_digest(&named)))
        }),
        "toc" => run_field(|| {
            let t = e(doc.get_toc())?;
            Ok(format!("{}{},{}", t.toc.len(), t.toc.iter().map(|x| format!(":{}.{}", x.level, x.page)).collect::<String>(), t.errors.len()))
        }),
        // extract_text compared with the composed model (C13 pages/fonts + C09 filters + C14 parser + C16 text loop);
        // + C15 ToUnicode CMaps); `?` = outside that model: UTF-16 Encoding name (encoding_rs), filtered content / ToUnicode stream (flate2 / weezl)
        "xt" => run_field(|| {
            let pages = doc.get_pages();
            let nums: Vec<u32> = (1..=(pages.len().min(3) as u32)).collect();
            for k in &nums {
                let pid = pages[k];
                if let Ok(fonts) = doc.get_page_fonts(pid) {
                    for (_, f) in fonts {
                        if matches!(f.get_deref(b"ToUnicode", doc), Ok(Object::Stream(st)) if st.dict.has(b"Filter"))
                            || matches!(f.get(b"Encoding").and_then(Object::as_name), Ok(b"UniGB-UCS2-H") | Ok(b"UniGB-UTF16-H")) { return Ok("?".into()); }
                    }
                }
                for id in doc.get_page_contents(pid) {
                    if let Ok(Object::Stream(st)) = doc.get_object(id) { if st.dict.has(b"Filter") { return Ok("?".into()); } }
                }
            }
            let t = e(doc.extract_text(&nums))?;
            Ok(t.chars().map(|c| (c as u32).to_string()).collect::<Vec<_>>().join("."))
        }),
        "text" => run_field(|| {
            let n = doc.get_pages().len() as u32;
            let mut nums: Vec<u32> = (1..=n.min(3)).collect(); nums.push(99); nums.push(0);
            let chunks = doc.extract_text_chunks(&nums);
            let all = doc.extract_text(&nums);
            // decode_text on every font of the first pages
            for (_, pid) in doc.get_pages().into_iter().take(3) {
                if let Ok(fonts) = doc.get_page_fonts(pid) {
                    for (_, f) in fonts { if let Ok(enc) = f.get_font_encoding(doc) {
                        let _ = Document::decode_text(&enc, &[0, 1, 0x41, 0x80, 0xff, 0xd8, 0x00, 0xdc, 0x7f]);
                    } }
                }
            }
            Ok(format!("{}.{}", chunks.len(), if all.is_ok() { "ok" } else { "err" }))
        }),
        _ => "bad-field".into(),
    }
}

pub struct Case { pub mode: String, pub fuel: u64, pub targets: Vec<ObjectId>, pub doc: Document }

pub fn parse_case(line: &str) -> Option<Case> {
    let toks: Vec<&str> = line.split(' ').filter(|t| !t.is_empty()).collect();
    let mut it = toks.iter();
    if *it.next()? != "c13" { return None; }
    let mode = it.next()?.to_string();
    let fuel: u64 = it.next()?.parse().ok()?;
    let nt: usize = it.next()?.parse().ok()?;
    let mut targets = vec![];
    for _ in 0..nt { targets.push(parse_id(it.next()?)?); }
    let trailer = match parse_obj(&mut it)? { Object::Dictionary(d) => d, _ => return None };
    let k: usize = it.next()?.parse().ok()?;
    let mut doc = Document::with_version("1.5");
    doc.trailer = trailer;
    for _ in 0..k {
        let n: u32 = it.next()?.parse().ok()?;
        let g: u16 = it.next()?.parse().ok()?;
        let o = parse_obj(&mut it)?;
        doc.objects.insert((n, g), o);
        if n > doc.max_id { doc.max_id = n; }
    }
    if it.next().is_some() { return None; }
    Some(Case { mode, fuel, targets, doc })
}

/// worker entry: `mode` = `all` | `nowalk` | `one=<field>`
pub fn worker_case(case: &str) -> String {
    let Some(mut c) = parse_case(case) else { return "bad-case".into() };
    let fields: Vec<String> = if let Some(f) = c.mode.strip_prefix("one=") { vec![f.to_string()] }
        else { field_names(&c.targets).into_iter().filter(|f| c.mode != "nowalk" || !is_walker(f)).collect() };
    fields.iter().map(|f| format!("{}={}", f, eval_field(&mut c.doc, f))).collect::<Vec<_>>().join(" ")
}


// ------------------------------------------------------------------------------------------
// parent side: generators
// ------------------------------------------------------------------------------------------

fn name(s: &str) -> Object { Object::Name(s.as_bytes().to_vec()) }
fn lit(s: &[u8]) -> Object { Object::String(s.to_vec(), StringFormat::Literal) }
fn rf(id: ObjectId) -> Object { Object::Reference(id) }
fn dict(kv: Vec<(&str, Object)>) -> Dictionary { let mut d = Dictionary::new(); for (k, v) in kv { d.set(k, v); } d }
/// a stream whose dictionary is exactly `d` (no Length fix-up)
fn stream(d: Dictionary, content: &[u8]) -> Object { Object::Stream(Stream { dict: d, content: content.to_vec(), allows_compression: true, start_position: None }) }

const KEYS: [&str; 36] = ["Type", "Kids", "Parent", "Count", "Contents", "Resources", "Font", "XObject", "ColorSpace", "Annots",
    "Outlines", "First", "Next", "Dest", "A", "D", "S", "Title", "Names", "Dests", "Encoding", "ToUnicode", "Filter", "Length",
    "Subtype", "Width", "Height", "BitsPerComponent", "Pages", "Root", "Encrypt", "CF", "CFM", "Linearized", "DecodeParms", "Last"];
const NAMES: [&str; 26] = ["Page", "Pages", "Catalog", "Font", "XObject", "Image", "Form", "GoTo", "GoToR", "URI", "Fit", "XYZ",
    "StandardEncoding", "MacRomanEncoding", "MacExpertEncoding", "WinAnsiEncoding", "PDFDocEncoding", "Identity-H", "Identity-V",
    "UniGB-UCS2-H", "CryptFilter", "V2", "AESV2", "AESV3", "Identity", "DeviceRGB"];
const CMAP: &[u8] = b"/CIDInit /ProcSet findresource begin\n12 dict begin\nbegincmap\n/CMapName /Adobe-Identity-UCS def\n/CMapType 2 def\n1 begincodespacerange\n<00> <FF>\nendcodespacerange\n2 beginbfchar\n<41> <0041>\n<42> <0062>\nendbfchar\nendcmap\nCMapName currentdict /CMap defineresource pop\nend\nend\n";
const CONTENT: &[u8] = b"BT /F1 12 Tf (Hello) Tj [(A) -200 (B)] TJ ET BT /F2 9 Tf <4142> Tj ET";
/// ToUnicode CMap texts (in the shape `cmap_stream` accepts): bfchar / bfrange (incrementing, array), 1-, 2- and 4-byte codes,
/// ligature and surrogate-pair targets, overlapping definitions, a BOM target, an unpaired surrogate and a target running past
/// FFFF; damaged ones: a range with end < start (4), a truncated text (5)
const CMAPS: [&[u8]; 7] = [CMAP,
    b"/CIDInit /ProcSet findresource begin\n12 dict begin\nbegincmap\n/CMapName /Adobe-Identity-UCS def\n/CMapType 2 def\n1 begincodespacerange\n<0000> <FFFF>\nendcodespacerange\n2 beginbfrange\n<0041> <0043> <0061>\n<0048> <0049> [<00660069> <D83DDE00>]\nendbfrange\n1 beginbfchar\n<0042> <FEFF0058>\nendbfchar\nendcmap\nCMapName currentdict /CMap defineresource pop\nend\nend\n",
    b"/CIDInit /ProcSet findresource begin\n12 dict begin\nbegincmap\n/CMapName /Adobe-Identity-UCS def\n/CMapType 2 def\n1 begincodespacerange\n<00> <FF>\nendcodespacerange\n2 beginbfrange\n<41> <48> <0030>\n<42> <44> [<0058> <0059>]\nendbfrange\nendcmap\nCMapName currentdict /CMap defineresource pop\nend\nend\n",
    b"/CIDInit /ProcSet findresource begin\n12 dict begin\nbegincmap\n/CMapName /Adobe-Identity-UCS def\n/CMapType 2 def\n1 beginbfrange\n<41> <42> <00660069>\nendbfrange\n1 beginbfchar\n<48656c6c> <0021>\nendbfchar\nendcmap\nCMapName currentdict /CMap defineresource pop\nend\nend\n",
    b"/CIDInit /ProcSet findresource begin\n12 dict begin\nbegincmap\n/CMapName /Adobe-Identity-UCS def\n/CMapType 2 def\n1 beginbfrange\n<44> <41> <0030>\nendbfrange\nendcmap\nCMapName currentdict /CMap defineresource pop\nend\nend\n",
    b"/CIDInit /ProcSet findresource begin\n12 dict begin\nbegincmap\n/CMapName /Adobe-Identity-UCS def\n/CMapType 2 def\n1 beginbfchar\n<41> <00",
    b"/CIDInit /ProcSet findresource begin\n12 dict begin\nbegincmap\n/CMapName /Adobe-Identity-UCS def\n/CMapType 2 def\n1 beginbfchar\n<41> <DC00>\nendbfchar\n1 beginbfrange\n<42> <48> <FFFE>\nendbfrange\nendcmap\nCMapName currentdict /CMap defineresource pop\nend\nend\n"];
const CONTENTS: [&[u8]; 4] = [CONTENT,
    b"BT /F1 12 Tf (Hello ABCH) Tj ET BT /F2 9 Tf <004100420043004800490041> Tj [(AB) -300 <4142>] TJ ET",
    b"BT /F2 10 Tf (ABCDEFGH) Tj <48656c6c6f> Tj ET /F1 8 Tf [(x) 5 (y)] TJ",
    b"BT /F1 1 Tf (A) Tj /F2 1 Tf (B\\(C\\)) Tj /F3 1 Tf (D) Tj ET"];

struct Gen<'a> { r: &'a mut Rng, doc: Document, next: u32 }
impl<'a> Gen<'a> {
    fn id(&mut self) -> ObjectId { self.next += 1 + self.r.below(2) as u32; (self.next, if self.r.chance(1, 12) { 1 } else { 0 }) }
    fn add(&mut self, o: Object) -> ObjectId { let id = self.id(); self.doc.objects.insert(id, o); id }
    /// `o` directly, or behind a fresh indirect object (sometimes a two-hop chain)
    fn maybe_ref(&mut self, o: Object, pct: u64) -> Object {
        if self.r.chance(pct, 100) { let id = self.add(o); if self.r.chance(1, 6) { let id2 = self.add(rf(id)); rf(id2) } else { rf(id) } } else { o }
    }
    fn font(&mut self) -> Object {
        let mut d = dict(vec![("Type", name("Font")), ("Subtype", name("Type1")), ("BaseFont", name("Helvetica"))]);
        match self.r.below(8) {
            0 => {}
            1 | 2 => { d.set("Encoding", name("WinAnsiEncoding")); }
            3 => { d.set("Encoding", name(*self.r.pick(&["StandardEncoding", "MacRomanEncoding", "MacExpertEncoding", "PDFDocEncoding"]))); }
            4 | 5 => { d.set("Encoding", name(*self.r.pick(&["Identity-H", "Identity-V"]))); let cm = CMAPS[if self.r.chance(1, 7) { 4 + self.r.usize(2) } else { *self.r.pick(&[0usize, 1, 2, 3, 6]) }]; let t = self.add(stream(Dictionary::new(), cm)); d.set("ToUnicode", rf(t)); }
            6 => { d.set("Encoding", name("UniGB-UCS2-H")); }
            _ => { let cm = CMAPS[if self.r.chance(1, 7) { 4 + self.r.usize(2) } else { *self.r.pick(&[0usize, 1, 2, 3, 6]) }]; let t = self.add(stream(Dictionary::new(), cm)); d.set("ToUnicode", rf(t)); }
        }
        Object::Dictionary(d)
    }
    fn image(&mut self) -> ObjectId {
        let mut d = dict(vec![("Type", name("XObject")), ("Subtype", name(if self.r.chance(5, 6) { "Image" } else { "Form" })),
            ("Width", Object::Integer(self.r.range(1, 64))), ("Height", Object::Integer(self.r.range(1, 64)))]);
        match self.r.below(4) { 0 => {} 1 => { d.set("ColorSpace", name("DeviceRGB")); }
            2 => { d.set("ColorSpace", Object::Array(vec![name("ICCBased"), Object::Integer(3)])); }
            _ => { d.set("ColorSpace", Object::Array(vec![name("Indexed"), name("DeviceRGB"), Object::Integer(255)])); } }
        if self.r.chance(2, 3) { d.set("BitsPerComponent", Object::Integer(8)); }
        match self.r.below(3) { 0 => {} 1 => { d.set("Filter", name("DCTDecode")); } _ => { d.set("Filter", Object::Array(vec![name("ASCII85Decode"), name("FlateDecode")])); } }
        self.add(stream(d, b"\x00\x01\x02"))
    }
    fn resources(&mut self) -> Dictionary {
        let mut res = Dictionary::new();
        let nf = self.r.usize(3);
        if nf > 0 || self.r.chance(1, 2) {
            let mut fd = Dictionary::new();
            for i in 0..nf { let f = self.font(); let f = self.maybe_ref(f, 80); fd.set(format!("F{}", i + 1), f); }
            let fdo = self.maybe_ref(Object::Dictionary(fd), 30); res.set("Font", fdo);
        }
        let ni = self.r.usize(3);
        if ni > 0 {
            let mut xd = Dictionary::new();
            for i in 0..ni { let im = self.image(); xd.set(format!("Im{}", i + 1), rf(im)); }
            let xdo = self.maybe_ref(Object::Dictionary(xd), 30); res.set("XObject", xdo);
        }
        res
    }
    fn page(&mut self, parent: ObjectId) -> ObjectId {
        let id = self.id();
        let mut d = dict(vec![("Type", name("Page")), ("Parent", rf(parent))]);
        match self.r.below(5) {
            0 => {}
            1 | 2 => { let ct = *self.r.pick(&CONTENTS); let s = self.add(stream(Dictionary::new(), ct)); let c = if self.r.chance(1, 5) { let s2 = self.add(rf(s)); rf(s2) } else { rf(s) }; d.set("Contents", c); }
            _ => { let n = 1 + self.r.usize(3); let v: Vec<Object> = (0..n).map(|_| { let ct = *self.r.pick(&CONTENTS); rf(self.add(stream(Dictionary::new(), ct))) }).collect();
                   let a = self.maybe_ref(Object::Array(v), 25); d.set("Contents", a); }
        }
        if self.r.chance(3, 4) { let res = self.resources(); let ro = self.maybe_ref(Object::Dictionary(res), 50); d.set("Resources", ro); }
        if self.r.chance(1, 2) {
            let n = self.r.usize(3);
            let v: Vec<Object> = (0..n).map(|_| { let a = dict(vec![("Type", name("Annot")), ("Subtype", name("Link"))]); rf(self.add(Object::Dictionary(a))) }).collect();
            let a = self.maybe_ref(Object::Array(v), 30); d.set("Annots", a);
        }
        self.doc.objects.insert(id, Object::Dictionary(d));
        id
    }
    fn pages(&mut self, parent: Option<ObjectId>, depth: usize, leaves: &mut Vec<ObjectId>) -> ObjectId {
        let id = self.id();
        let mut kids = vec![];
        let n = 1 + self.r.usize(3);
        let before = leaves.len();
        for _ in 0..n {
            if depth < 2 && self.r.chance(1, 4) { kids.push(rf(self.pages(Some(id), depth + 1, leaves))); }
            else { let p = self.page(id); leaves.push(p); kids.push(rf(p)); }
        }
        let mut d = dict(vec![("Type", name("Pages")), ("Count", Object::Integer((leaves.len() - before) as i64))]);
        let k = self.maybe_ref(Object::Array(kids), 20); d.set("Kids", k);
        if let Some(p) = parent { d.set("Parent", rf(p)); }
        if self.r.chance(1, 3) { let res = self.resources(); let ro = self.maybe_ref(Object::Dictionary(res), 70); d.set("Resources", ro); }
        self.doc.objects.insert(id, Object::Dictionary(d));
        id
    }
    fn dest_value(&mut self, leaves: &[ObjectId], names: &[Vec<u8>]) -> Object {
        let pg = if leaves.is_empty() { (1, 0) } else { *self.r.pick(leaves) };
        match self.r.below(4) {
            0 if !names.is_empty() => { let k = self.r.pick(names).clone(); lit(&k) }
            1 => { let a = Object::Array(vec![rf(pg), name("Fit")]); rf(self.add(a)) }
            _ => Object::Array(vec![rf(pg), name("XYZ"), Object::Integer(0), Object::Integer(700), Object::Null]),
        }
    }
    fn title(&mut self) -> Object {
        match self.r.below(8) {
            0 => lit(b"\xfe\xff\x00T\x00i"), 1 => lit(b"\xff\xfeT\x00i\x00"), 2 => lit(b"\xfe\xff\x00T\x00"), 3 => lit(b"x"),
            // byte-order-mark edge cases: a lone first mark byte, a bare mark, an empty title
            4 => lit(*self.r.pick(&[&b"\xfe"[..], b"\xff", b"\xfe\xff", b"\xff\xfe", b"", b"\xef", b"\xef\xbb", b"\xef\xbb\xbf", b"\xfe\x00", b"\xff\x00\x00"])),
            _ => lit(format!("Title {}", self.r.below(4)).as_bytes()),
        }
    }
    fn outline_items(&mut self, parent: ObjectId, n: usize, depth: usize, leaves: &[ObjectId], names: &[Vec<u8>]) -> Option<(ObjectId, ObjectId)> {
        if n == 0 { return None; }
        let ids: Vec<ObjectId> = (0..n).map(|_| self.id()).collect();
        for (i, id) in ids.iter().enumerate() {
            let t = self.title();
            let t = self.maybe_ref(t, 15);
            let mut d = dict(vec![("Title", t), ("Parent", rf(parent))]);
            if self.r.chance(1, 2) { let dv = self.dest_value(leaves, names); d.set("Dest", dv); }
            else { let dv = self.dest_value(leaves, names); let a = dict(vec![("S", name(if self.r.chance(5, 6) { "GoTo" } else { "URI" })), ("D", dv)]); let ao = self.maybe_ref(Object::Dictionary(a), 40); d.set("A", ao); }
            if i + 1 < n { d.set("Next", rf(ids[i + 1])); }
            if i > 0 { d.set("Prev", rf(ids[i - 1])); }
            if depth < 2 && self.r.chance(1, 3) {
                let k = 1 + self.r.usize(2);
                if let Some((f, l)) = self.outline_items(*id, k, depth + 1, leaves, names) { d.set("First", rf(f)); d.set("Last", rf(l)); d.set("Count", Object::Integer(k as i64)); }
            }
            self.doc.objects.insert(*id, Object::Dictionary(d));
        }
        Some((ids[0], ids[n - 1]))
    }
}

/// a well-formed document exercising every key the queries read
fn gen_valid(r: &mut Rng) -> (Document, Vec<ObjectId>) {
    let mut g = Gen { r, doc: Document::with_version("1.5"), next: 0 };
    let cat = g.id();
    let mut leaves = vec![];
    let root = g.pages(None, 0, &mut leaves);
    let mut c = dict(vec![("Type", name("Catalog")), ("Pages", rf(root))]);
    // named destinations
    let mut names: Vec<Vec<u8>> = vec![];
    if g.r.chance(2, 3) {
        let n = 1 + g.r.usize(3);
        let mut arr = vec![];
        for i in 0..n {
            let key = format!("dest{}", i).into_bytes(); names.push(key.clone());
            let pg = *g.r.pick(&leaves);
            let d = Object::Array(vec![rf(pg), name("Fit")]);
            let v = match g.r.below(3) { 0 => rf(g.add(Object::Dictionary(dict(vec![("D", d)])))), 1 => rf(g.add(d)), _ => Object::Dictionary(dict(vec![("D", d)])) };
            arr.push(lit(&key)); arr.push(v);
        }
        let leaf = dict(vec![("Names", Object::Array(arr))]);
        let tree = if g.r.chance(1, 2) { let l = g.add(Object::Dictionary(leaf)); dict(vec![("Kids", Object::Array(vec![rf(l)]))]) } else { leaf };
        let to = g.maybe_ref(Object::Dictionary(tree), 60);
        if g.r.chance(1, 3) { c.set("Dests", to); } else { let nm = dict(vec![("Dests", to)]); let nmo = g.maybe_ref(Object::Dictionary(nm), 50); c.set("Names", nmo); }
    }
    if g.r.chance(3, 4) {
        let oid = g.id();
        let n = 1 + g.r.usize(3);
        let mut od = dict(vec![("Type", name("Outlines"))]);
        if let Some((f, l)) = g.outline_items(oid, n, 0, &leaves, &names) { od.set("First", rf(f)); od.set("Last", rf(l)); od.set("Count", Object::Integer(n as i64)); }
        g.doc.objects.insert(oid, Object::Dictionary(od));
        c.set("Outlines", rf(oid));
    }
    g.doc.objects.insert(cat, Object::Dictionary(c));
    g.doc.trailer.set("Root", rf(cat));
    if g.r.chance(1, 4) {
        let cf = dict(vec![("StdCF", Object::Dictionary(dict(vec![("Type", name("CryptFilter")), ("CFM", name(*g.r.pick(&["V2", "AESV2", "AESV3", "Identity", "None"])))]))),
                           ("Other", Object::Dictionary(dict(vec![("Length", Object::Integer(16))])))]);
        let e = g.add(Object::Dictionary(dict(vec![("Filter", name("Standard")), ("V", Object::Integer(4)), ("CF", Object::Dictionary(cf))])));
        if g.r.chance(1, 4) { let d = g.doc.objects.get(&e).cloned().unwrap(); g.doc.trailer.set("Encrypt", d); } else { g.doc.trailer.set("Encrypt", rf(e)); }
    }
    (g.doc, leaves)
}

/// a value of a random kind; `refs` = ids references may point to
fn chaos_value(r: &mut Rng, refs: &[ObjectId], depth: usize, key: &str) -> Object {
    let link = matches!(key, "Kids" | "Parent" | "Contents" | "Resources" | "First" | "Next" | "Annots" | "Outlines" | "Dests" | "Names" | "Root" | "Pages" | "A" | "Font" | "XObject" | "ToUnicode" | "Encrypt" | "Dest" | "D" | "Title");
    let k = if link && r.chance(1, 2) { if r.chance(3, 4) { 9 } else { 6 } } else { r.below(11) };
    chaos_value_kind(r, refs, depth, key, k)
}
/// the value kinds of the typed chaos: 0 null, 1 bool, 2 int, 3 real, 4 name, 5 string, 6 array, 7 dictionary, 8 stream, 9.. reference
const N_KINDS: u64 = 11;
fn chaos_value_kind(r: &mut Rng, refs: &[ObjectId], depth: usize, key: &str, k: u64) -> Object {
    match k {
        0 => Object::Null,
        1 => Object::Boolean(r.chance(1, 2)),
        2 => Object::Integer(if key == "Count" { r.range(-3, 40) } else { *r.pick(&[0i64, 1, -1, 2, 7, 255, -101, 65536, i64::MAX, i64::MIN]) }),
        3 => Object::Real(*r.pick(&[0.5f32, -2.25, 100.0, 0.0])),
        4 => name(*r.pick(&NAMES)),
        5 => lit(*r.pick(&[&b""[..], b"x", b"dest0", b"dest1", b"\xfe\xff\x00A", b"\xfe\xff\x00", b"\xff\xfeA\x00\x01", b"Title 1", b"\xff"])),
        6 => { let n = if depth >= 2 { 0 } else { r.usize(4) }; Object::Array((0..n).map(|_| chaos_value(r, refs, depth + 1, key)).collect()) }
        7 => { let n = if depth >= 2 { 0 } else { r.usize(4) }; let mut d = Dictionary::new(); for _ in 0..n { let k = *r.pick(&KEYS); d.set(k, chaos_value(r, refs, depth + 1, k)); } Object::Dictionary(d) }
        8 => { let mut d = Dictionary::new(); for _ in 0..r.usize(3) { let k = *r.pick(&KEYS); if k != "Filter" && k != "DecodeParms" { d.set(k, chaos_value(r, refs, 2, k)); } } stream(d, *r.pick(&[&b""[..], CONTENT, CMAP, b"\x00\xff"])) }
        _ => if refs.is_empty() || r.chance(1, 10) { rf((900 + r.below(5) as u32, 0)) } else { rf(*r.pick(refs)) },
    }
}

/// pre-order list of the dictionaries of an object (its own, nested ones up to depth 3): does each have `key`?
fn dict_flags(o: &Object, depth: usize, key: &[u8], out: &mut Vec<bool>) {
    match o {
        Object::Dictionary(d) => { out.push(d.has(key)); if depth < 3 { for (_, v) in d.iter() { dict_flags(v, depth + 1, key, out); } } }
        Object::Stream(s) => { out.push(s.dict.has(key)); if depth < 3 { for (_, v) in s.dict.iter() { dict_flags(v, depth + 1, key, out); } } }
        Object::Array(a) => { if depth < 3 { for v in a.iter() { dict_flags(v, depth + 1, key, out); } } }
        _ => {}
    }
}
/// apply `f` to the `target`-th dictionary in the same pre-order
fn with_nth_dict(o: &mut Object, depth: usize, n: &mut usize, target: usize, f: &mut dyn FnMut(&mut Dictionary)) {
    match o {
        Object::Dictionary(d) => { if *n == target { f(d); } *n += 1; if *n > target { return; } if depth < 3 { for (_, v) in d.iter_mut() { with_nth_dict(v, depth + 1, n, target, f); } } }
        Object::Stream(s) => { if *n == target { f(&mut s.dict); } *n += 1; if *n > target { return; } if depth < 3 { for (_, v) in s.dict.iter_mut() { with_nth_dict(v, depth + 1, n, target, f); } } }
        Object::Array(a) => { if depth < 3 { for v in a.iter_mut() { with_nth_dict(v, depth + 1, n, target, f); } } }
        _ => {}
    }
}

/// typed chaos: bind keys the queries read to values of random kinds / references forming random cycles
fn chaos(r: &mut Rng, doc: &mut Document, n_mut: usize, c: &mut Ctx) {
    let ids: Vec<ObjectId> = doc.objects.keys().cloned().collect();
    for _ in 0..n_mut {
        let key = *r.pick(&KEYS);
        if key == "Filter" || key == "DecodeParms" { c.count("chaos.skipped_filter_keys"); continue; } // stream filters: C04/C09
        let v = chaos_value(r, &ids, 0, key);
        c.count(&format!("chaos.kind.{}", v.enum_variant()));
        if r.chance(1, 12) { doc.trailer.set(key, v); continue; }
        if r.chance(1, 15) { let t = *r.pick(&ids); doc.objects.insert(t, v); continue; }
        // choose a dictionary: prefer one that already has the key (retyping an existing binding)
        let mut targets: Vec<ObjectId> = ids.iter().cloned().filter(|id| match doc.objects.get(id) {
            Some(Object::Dictionary(d)) => d.has(key.as_bytes()), Some(Object::Stream(s)) => s.dict.has(key.as_bytes()), _ => false }).collect();
        if targets.is_empty() || r.chance(1, 3) { targets = ids.clone(); }
        let t = *r.pick(&targets);
        let Some(o) = doc.objects.get_mut(&t) else { continue };
        let mut flags = vec![];
        dict_flags(o, 0, key.as_bytes(), &mut flags);
        if flags.is_empty() { continue; }
        let with_key: Vec<usize> = (0..flags.len()).filter(|i| flags[*i]).collect();
        let target = if !with_key.is_empty() && r.chance(3, 4) { *r.pick(&with_key) } else { r.usize(flags.len()) };
        let mut v = Some(v);
        with_nth_dict(o, 0, &mut 0, target, &mut |d| { if let Some(v) = v.take() { d.set(key, v); } });
    }
}

// ------------------------------------------------------------------------------------------
// parent side: independent graph analysis (which unguarded link structures does the document have?)
// ------------------------------------------------------------------------------------------

fn resolve<'a>(doc: &'a Document, mut o: &'a Object) -> Option<&'a Object> {
    for _ in 0..200 { match o { Object::Reference(id) => o = doc.objects.get(id)?, _ => return Some(o) } }
    None
}
fn sub_dict<'a>(doc: &'a Document, node: &'a Dictionary, key: &[u8]) -> Option<&'a Dictionary> {
    match node.get(key).ok()? { Object::Dictionary(d) => Some(d), o @ Object::Reference(_) => match resolve(doc, o)? { Object::Dictionary(d) => Some(d), _ => None }, _ => None }
}
fn addr(d: &Dictionary) -> usize { d as *const Dictionary as usize }

/// outline root node as `get_outlines` chooses it, and the destination tree it loads
fn outline_start(doc: &Document) -> (Option<&Dictionary>, Option<&Dictionary>) {
    let cat = match doc.trailer.get(b"Root").ok().and_then(|o| resolve(doc, o)) { Some(Object::Dictionary(d)) if matches!(doc.trailer.get(b"Root"), Ok(Object::Reference(_))) => d, _ => return (None, None) };
    let tree = sub_dict(doc, cat, b"Dests").or_else(|| sub_dict(doc, cat, b"Names").and_then(|n| sub_dict(doc, n, b"Dests")));
    let start = sub_dict(doc, cat, b"Outlines").map(|o| sub_dict(doc, o, b"First").unwrap_or(o));
    (start, tree)
}
/// successors of an outline node: (via Next, via First)
fn outline_succ<'a>(doc: &'a Document, n: &'a Dictionary) -> (Option<&'a Dictionary>, Option<&'a Dictionary>) {
    let first = n.get(b"First").ok().and_then(|f| match f { Object::Dictionary(d) => Some(d), o => match resolve(doc, o)? { Object::Dictionary(d) if matches!(o, Object::Reference(_)) => Some(d), _ => None } });
    (sub_dict(doc, n, b"Next"), first)
}
fn dest_kids<'a>(doc: &'a Document, n: &'a Dictionary) -> Vec<&'a Dictionary> {
    match n.get(b"Kids") { Ok(Object::Array(a)) => a.iter().filter_map(|k| match k { Object::Reference(_) => match resolve(doc, k)? { Object::Dictionary(d) => Some(d), _ => None }, _ => None }).collect(), _ => vec![] }
}
/// does a cycle exist among the nodes reachable from `start` (iterative DFS with colours)?
fn has_cycle<'a>(start: &'a Dictionary, succ: &dyn Fn(&'a Dictionary) -> Vec<&'a Dictionary>) -> bool {
    let mut colour: BTreeMap<usize, u8> = BTreeMap::new();
    let mut stack: Vec<(&'a Dictionary, Vec<&'a Dictionary>, usize)> = vec![(start, succ(start), 0)];
    colour.insert(addr(start), 1);
    while let Some((n, ss, i)) = stack.last_mut() {
        if *i < ss.len() {
            let m = ss[*i]; *i += 1;
            match colour.get(&addr(m)) { Some(1) => return true, Some(_) => {}, None => { colour.insert(addr(m), 1); let s = succ(m); stack.push((m, s, 0)); } }
        } else { colour.insert(addr(n), 2); stack.pop(); }
        if colour.len() > 100_000 { return true; }
    }
    false
}
/// number of node visits the walkers make, up to `budget` (explosive DAGs are hazards too); the `Next` loop
/// stops at a repeated `Next` reference like the code's `seen_next`
fn outline_steps<'a>(doc: &'a Document, mut n: &'a Dictionary, budget: &mut i64, depth: usize) {
    let mut seen: HashSet<ObjectId> = HashSet::new();
    loop {
        *budget -= 1; if *budget < 0 || depth > 400 { *budget = -1; return; }
        let (next, first) = outline_succ(doc, n);
        if let Some(f) = first { outline_steps(doc, f, budget, depth + 1); if *budget < 0 { return; } }
        if let Ok(Object::Reference(id)) = n.get(b"Next") { if !seen.insert(*id) { return; } }
        match next { Some(m) => n = m, None => return }
    }
}
fn dest_steps<'a>(doc: &'a Document, n: &'a Dictionary, budget: &mut i64, depth: usize) {
    *budget -= 1; if *budget < 0 || depth > 400 { *budget = -1; return; }
    for k in dest_kids(doc, n) { dest_steps(doc, k, budget, depth + 1); if *budget < 0 { return; } }
}

#[derive(Default, Debug, Clone)]
struct Hazard { next_cycle: bool, first_cycle: bool, kids_cycle: bool, explosive: bool }
/// `next_cycle` is no hazard any more (the `Next` loop has a seen-set since 79a3229); it is kept for the counters
/// Since the walkers carry `seen` sets (bca5e67, ba860eb) no link structure is a hazard any more: every
/// document runs every walker. The analysis is kept for the branch counters and for naming a hang should one return.
impl Hazard { fn any(&self) -> bool { false } fn cyclic(&self) -> bool { self.next_cycle || self.first_cycle || self.kids_cycle || self.explosive } }

/// hazards of the outline / destination walk from the catalog, and of `get_named_destinations` on each target
fn analyse(doc: &Document, targets: &[ObjectId]) -> Hazard {
    let mut h = Hazard::default();
    let (start, tree) = outline_start(doc);
    let mut trees: Vec<&Dictionary> = tree.into_iter().collect();
    for t in targets { if let Some(Object::Dictionary(d)) = doc.objects.get(t).and_then(|o| resolve(doc, o)) { trees.push(d); } }
    for t in trees {
        if has_cycle(t, &|n| dest_kids(doc, n)) { h.kids_cycle = true; }
        else { let mut b = 3000i64; dest_steps(doc, t, &mut b, 0); if b < 0 { h.explosive = true; } }
    }
    if let Some(s) = start {
        // nodes reachable over Next / First links
        let mut nodes: Vec<&Dictionary> = vec![]; let mut seen = HashSet::new(); let mut todo = vec![s];
        while let Some(n) = todo.pop() { if !seen.insert(addr(n)) || nodes.len() > 5000 { continue; } nodes.push(n); let (a, b) = outline_succ(doc, n); todo.extend(a); todo.extend(b); }
        let reach = |from: &Dictionary, to: &Dictionary| -> bool {
            let mut seen = HashSet::new(); let mut todo = vec![from];
            while let Some(n) = todo.pop() { if addr(n) == addr(to) { return true; } if !seen.insert(addr(n)) { continue; } let (a, b) = outline_succ(doc, n); todo.extend(a); todo.extend(b); }
            false
        };
        // a cycle through a First link = unbounded recursion; a cycle of Next links only = stopped by seen_next
        for n in &nodes { if let (_, Some(f)) = outline_succ(doc, n) { if reach(f, n) { h.first_cycle = true; break; } } }
        if !h.first_cycle {
            if nodes.iter().any(|n| has_cycle(n, &|m| outline_succ(doc, m).0.into_iter().collect())) { h.next_cycle = true; }
            let mut b = 3000i64; outline_steps(doc, s, &mut b, 0); if b < 0 { h.explosive = true; }
        }
    }
    h
}

// ------------------------------------------------------------------------------------------
// parent side: running cases
// ------------------------------------------------------------------------------------------

const FUEL: u64 = 5000;
const TIMEOUT_MS: u64 = 1500;
/// documents per run whose hang / abort is localised field by field (each costs a few timeouts)
const MAX_LOCALISED: u64 = 6;
/// dead (hung / aborted) query results after which the remaining cases of a run are skipped
const MAX_DEAD: u64 = 40;
const MEM_MB: u64 = 1024;

fn request(mode: &str, targets: &[ObjectId], doc: &Document) -> String {
    let mut s = format!("c13 {} {} {}", mode, FUEL, targets.len());
    for t in targets { s.push_str(&format!(" {}_{}", t.0, t.1)); }
    s.push(' '); s.push_str(&show_obj(&Object::Dictionary(doc.trailer.clone())));
    s.push(' '); s.push_str(&show_objects(doc.objects.iter()));
    s
}
fn with_mode(req: &str, mode: &str) -> String {
    let mut it = req.splitn(3, ' '); let a = it.next().unwrap(); let _ = it.next(); let rest = it.next().unwrap_or("");
    format!("{} {} {}", a, mode, rest)
}

/// source text of a panic site (`src/document.rs:736`) read from the checkout the harness was built against
fn site_text(site: &str) -> String {
    let Some((file, line)) = site.rsplit_once(':') else { return String::new() };
    let Ok(line) = line.parse::<usize>() else { return String::new() };
    let path = format!("{}/../repo-link/{}", env!("CARGO_MANIFEST_DIR"), file);
    std::fs::read_to_string(path).ok().and_then(|s| s.lines().nth(line.wrapping_sub(1)).map(|l| l.trim().to_string())).unwrap_or_default()
}

struct Pending { case_id: u64, stream: String, req: String, doc_targets: Vec<ObjectId>, hazard: Hazard }

/// run a batch in the isolated worker; a dead worker (abort / timeout) is re-run field by field
fn run_batch(c: &mut Ctx, batch: Vec<Pending>, docs: &[Document]) {
    // in chunks: once many documents made the real code hang / abort (a broken lopdf), the rest of the run would only
    // add timeouts — the remaining chunks are skipped and counted
    let mut batch = batch; let mut docs: Vec<Document> = docs.to_vec();
    while !batch.is_empty() {
        let k = batch.len().min(48);
        let rest = batch.split_off(k); let rest_docs = docs.split_off(k);
        let dead_so_far: u64 = c.counters.iter().filter(|(k, _)| k.starts_with("dead.")).map(|(_, v)| *v).sum();
        if dead_so_far >= MAX_DEAD { c.count_n("isolated.cases_skipped_after_many_dead", batch.len() as u64); }
        else { run_chunk(c, batch, &docs); }
        batch = rest; docs = rest_docs;
    }
}

fn run_chunk(c: &mut Ctx, batch: Vec<Pending>, docs: &[Document]) {
    if batch.is_empty() { return; }
    let lines: Vec<String> = batch.iter().map(|p| p.req.clone()).collect();
    let single = lines.iter().all(|l| l.split(' ').nth(1).map(|m| m.starts_with("one=")).unwrap_or(false));
    let replies = crate::iso::run_isolated("C13", &lines, if single { TIMEOUT_MS } else { TIMEOUT_MS * 2 }, MEM_MB);
    for ((p, reply), doc) in batch.into_iter().zip(replies.into_iter()).zip(docs.iter()) {
        c.cur = p.case_id;
        let mode = p.req.split(' ').nth(1).unwrap_or("all").to_string();
        let mut fields: Vec<(String, String)> = vec![];
        let dead = reply == "timeout" || reply.starts_with("abort") || reply.is_empty();
        let dead_value = |r: &str| if r == "timeout" { "hang".to_string() } else { format!("abort:{}", r.trim_start_matches("abort").trim().replace(' ', "_")) };
        if dead && mode.starts_with("one=") {
            fields.push((mode[4..].to_string(), dead_value(&reply)));
        } else if dead && c.counters.get("isolated.rerun_per_field").copied().unwrap_or(0) >= MAX_LOCALISED {
            // the real code hung / aborted on this document; enough documents were localised field by field already
            c.count("isolated.dead_not_localised");
            fields.push(("all".into(), dead_value(&reply)));
        } else if dead {
            // localise: re-run field by field (in groups, stopping once three dead queries are known)
            c.count("isolated.rerun_per_field");
            let names: Vec<String> = field_names(&p.doc_targets).into_iter().filter(|f| mode != "nowalk" || !is_walker(f)).collect();
            let mut n_dead = 0;
            for group in names.chunks(6) {
                if n_dead >= 3 { for f in group { fields.push((f.clone(), "skipped".into())); } continue; }
                let reqs: Vec<String> = group.iter().map(|f| with_mode(&p.req, &format!("one={}", f))).collect();
                let rs = crate::iso::run_isolated("C13", &reqs, TIMEOUT_MS, MEM_MB);
                for (f, r) in group.iter().zip(rs.iter()) {
                    let v = if let Some(v) = r.strip_prefix(&format!("{}=", f)) { v.to_string() } else { n_dead += 1; dead_value(r) };
                    fields.push((f.clone(), v));
                }
            }
            if n_dead == 0 { fields.push(("all".into(), dead_value(&reply))); }
        } else {
            for tok in reply.split(' ') { if let Some((f, v)) = tok.split_once('=') { fields.push((f.to_string(), v.to_string())); } }
        }
        for (f, v) in fields.iter() {
            if v == "hang" || v.starts_with("abort:") { c.count(&format!("dead.{}.{}", f.split(':').next().unwrap(), v.split(':').next().unwrap())); }
        }
        // correspondence (the `text` field is oracle-only: content parser / filters / CMaps are other properties)
        let corr_reply: String = fields.iter().filter(|(f, _)| f != "text").map(|(f, v)| format!("{}={}", f, v)).collect::<Vec<_>>().join(" ");
        if !corr_reply.is_empty() { c.corr(p.req.clone(), corr_reply); }
        // oracle: every query returns a value or an error
        for (f, v) in &fields {
            let q = f.split(':').next().unwrap();
            let class = if v == "ok" || v.starts_with("ok,") { "ok" } else if v == "err" { "err" } else if v.starts_with("panic@") { "panic" }
                else if v == "hang" { "hang" } else if v.starts_with("abort:") { "abort" } else if v == "skipped" { "skipped" } else { "other" };
            c.count(&format!("outcome.{}.{}", q, class));
            if q == "xt" { c.count(if v == "ok,?" { "xt.outside_composed_model" } else if v.starts_with("ok,") { "xt.text_compared" } else if v == "ok" { "xt.empty_text_compared" } else { "xt.error_compared" }); }
            if class == "ok" || class == "err" || class == "skipped" { continue; }
            let qname = match q { "outl" => "get_outlines", "toc" => "get_toc", "dests" | "nd" => "get_named_destinations", "pages" => "get_pages", "iter" => "page_iter.collect",
                "op" => "get_object_page", "text" | "xt" => "extract_text", "pi" => "get_page_images", "go" => "get_object", "gom" => "get_object_mut", "gd" => "get_dictionary",
                "pc" => "get_page_contents", "pcc" => "get_page_content", "pr" => "get_page_resources", "pf" => "get_page_fonts", "pa" => "get_page_annotations",
                "fe" => "get_font_encoding", "ol" => "get_outline", "cat" => "catalog", "enc" => "get_encrypted", "cf" => "get_crypt_filters", "all" => "some-query", x => x };
            // a query that does not come back (timeout in the isolated worker) or kills the process is ALWAYS an oracle failure
            let sig = if let Some(site) = v.strip_prefix("panic@") {
                if site.starts_with("src/") { format!("panic@{}:{}", site, site_text(site)) } else { format!("panic@{}", site) }
            } else if v == "hang" { format!("hang:{}", qname) }
              else if v.starts_with("abort:") { format!("abort:{}", qname) }
              else { format!("dead:{}:{}", qname, v) };
            c.oracle_fail(&sig, &format!("{} did not return a value or an error: {}", qname, v),
                json!({"stream": p.stream, "field": f, "outcome": v, "request": if p.req.len() < 3000 { p.req.clone() } else { format!("{}…", &p.req[..3000]) }}));
        }
        let _ = doc;
    }
}

fn pick_targets(r: &mut Rng, doc: &Document, leaves: &[ObjectId]) -> Vec<ObjectId> {
    let ids: Vec<ObjectId> = doc.objects.keys().cloned().collect();
    let mut t = vec![];
    if !leaves.is_empty() { t.push(*r.pick(leaves)); }
    for _ in 0..3 { if !ids.is_empty() { t.push(*r.pick(&ids)); } }
    if r.chance(1, 4) { t.push((999, 0)); }
    t.dedup();
    t
}

/// EVERY byte of EVERY predefined one-byte encoding, one at a time and all together, through `get_font_encoding` +
/// `Document::decode_text` and through `extract_text` of a one-page document: a value or an error, never a panic
/// (one wrong entry of a 256-entry table — a lone surrogate — is reached by one byte of one encoding only).
pub fn encoding_sweep(c: &mut Ctx) {
    use lopdf::content::{Content, Operation};
    for (ei, enc) in ["StandardEncoding", "MacRomanEncoding", "MacExpertEncoding", "WinAnsiEncoding", "PDFDocEncoding"].iter().enumerate() {
        let Some(_r) = c.case("encoding-sweep", ei as u64) else { continue };
        let mut font = Dictionary::new();
        font.set("Type", Object::Name(b"Font".to_vec())); font.set("Subtype", Object::Name(b"Type1".to_vec()));
        font.set("BaseFont", Object::Name(b"Helvetica".to_vec())); font.set("Encoding", Object::Name(enc.as_bytes().to_vec()));
        let build = |bytes: &[u8]| -> Document {
            let mut doc = Document::with_version("1.5");
            let fid = doc.add_object(Object::Dictionary(font.clone()));
            let mut fonts = Dictionary::new(); fonts.set("F1", Object::Reference(fid));
            let mut res = Dictionary::new(); res.set("Font", Object::Dictionary(fonts));
            let content = Content { operations: vec![Operation::new("BT", vec![]), Operation::new("Tf", vec![Object::Name(b"F1".to_vec()), Object::Integer(12)]),
                Operation::new("Tj", vec![Object::String(bytes.to_vec(), StringFormat::Hexadecimal)]), Operation::new("ET", vec![])] };
            let cid = doc.add_object(Object::Stream(Stream::new(Dictionary::new(), content.encode().unwrap_or_default())));
            let pages_id = doc.new_object_id();
            let mut page = Dictionary::new(); page.set("Type", Object::Name(b"Page".to_vec())); page.set("Parent", Object::Reference(pages_id));
            page.set("Contents", Object::Reference(cid)); page.set("Resources", Object::Dictionary(res));
            let pid = doc.add_object(Object::Dictionary(page));
            let mut pages = Dictionary::new(); pages.set("Type", Object::Name(b"Pages".to_vec())); pages.set("Count", Object::Integer(1)); pages.set("Kids", Object::Array(vec![Object::Reference(pid)]));
            doc.objects.insert(pages_id, Object::Dictionary(pages));
            let mut cat = Dictionary::new(); cat.set("Type", Object::Name(b"Catalog".to_vec())); cat.set("Pages", Object::Reference(pages_id));
            let cat_id = doc.add_object(Object::Dictionary(cat)); doc.trailer.set("Root", Object::Reference(cat_id));
            doc
        };
        let all: Vec<u8> = (0..=255u8).collect();
        let mut inputs: Vec<Vec<u8>> = (0..=255u8).map(|b| vec![b]).collect(); inputs.push(all);
        for bytes in inputs {
            let doc = build(&bytes);
            c.count("encoding_sweep.inputs");
            match guard(|| font.get_font_encoding(&doc).map(|e| Document::decode_text(&e, &bytes))) {
                Ok(_) => {}
                Err((site, msg)) => { c.oracle_fail(&format!("panic@{}", site), &format!("decode_text with {} panics: {}", enc, msg.chars().take(100).collect::<String>()), json!({"encoding": enc, "bytes": hex(&bytes)})); }
            }
            match guard(|| doc.extract_text(&[1])) {
                Ok(_) => {}
                Err((site, msg)) => { c.oracle_fail(&format!("panic@{}", site), &format!("extract_text of a page shown in {} panics: {}", enc, msg.chars().take(100).collect::<String>()), json!({"encoding": enc, "bytes": hex(&bytes)})); }
            }
        }
    }
}

pub fn run(c: &mut Ctx) {
    encoding_sweep(c);
    c.rule = "documents = well-formed generator output (page tree, Contents direct/array/chained, Resources direct/by reference/inherited, \
fonts with every Encoding branch, image XObjects, Annots, outlines with Dest/A/named destinations, name trees, Encrypt/CF) with 0-12 typed-chaos \
mutations (a key the queries read re-bound to a value of a random kind or to a reference, possibly forming cycles); every query runs on the real \
Document in the isolated worker on 3-5 target ids; non-trivial = every case (distinct by request text); every walker runs on every document (cyclic Next / First / Kids included: seen-sets); stream `refchains`: for each of 34 keys a query looks up x 24 chain shapes (acyclic 1..5 and 126..129 hops, dangling, self loop, ring 2..4, rho-shape tail 1..5 + ring 1..4, chains ending in an array / name / array of references) the value of the key — or an item of its array — is put behind a chain of bare reference objects; a query that does not return in the isolated worker is an oracle failure hang:<query> / abort:<query> with the document as replay; stream `systematic`: every key x every value kind (null, bool, int, real, name, string, array, dictionary, stream, reference) x {trailer, a dictionary that has the key, any dictionary} once per run; stream `count_outline`: /Count specials (0, -1, 2^31, 2^40, 2^60, 2^62, i64::MAX, i64::MIN, the 12-byte capacity boundary, real, name, null, string, array) on the root and / or a non-root /Pages node (directly or behind a reference) of documents with a readable table of contents and a name tree, every query run; stream `actions`: the /A of an outline item (direct, referenced, behind bare references) with /S in {GoTo, GoToR, URI, Launch, Named, JavaScript, unknown, missing, ill-typed} x /Next in {absent, inline dictionaries, reference, chain, ARRAY of actions, empty array, self loop, rho-shape, ring, dangling, ill-typed, bare-reference chain / ring, long chain}; get_outline itself is a compared query (`ol`)".into();
    let _ = guard(|| ());
    // ---------------- well-formed documents
    let mut batch = vec![]; let mut docs = vec![];
    for i in 0..c.n(150, 2500) {
        let Some(mut r) = c.case("valid", i) else { continue };
        let (doc, leaves) = gen_valid(&mut r);
        let targets = pick_targets(&mut r, &doc, &leaves);
        let hz = analyse(&doc, &targets);
        if hz.cyclic() { c.oracle_fail("generator", "well-formed generator produced a cyclic / explosive link structure", json!({"hazard": format!("{:?}", hz)})); }
        let req = request("all", &targets, &doc);
        c.nontrivial(&req);
        if i < 2 { c.sample(json!({"stream": "valid", "request": if req.len() < 600 { req.clone() } else { format!("{}…", &req[..600]) }})); }
        batch.push(Pending { case_id: c.cur, stream: "valid".into(), req, doc_targets: targets, hazard: hz }); docs.push(doc);
    }
    run_batch(c, batch, &docs);
    // ---------------- typed chaos
    let mut batch = vec![]; let mut docs = vec![];
    for i in 0..c.n(1200, 20000) {
        let Some(mut r) = c.case("chaos", i) else { continue };
        let (mut doc, leaves) = gen_valid(&mut r);
        let n_mut = 1 + r.usize(12);
        chaos(&mut r, &mut doc, n_mut, c);
        let targets = pick_targets(&mut r, &doc, &leaves);
        let hz = analyse(&doc, &targets);
        if hz.next_cycle { c.count("chaos.next_cycle_walked"); }
        if hz.first_cycle { c.count("chaos.first_cycle_walked"); }
        if hz.kids_cycle { c.count("chaos.kids_cycle_walked"); }
        if hz.explosive { c.count("chaos.explosive_dag_walked"); }
        let mode = if hz.any() { c.count("chaos.hazard_nowalk"); "nowalk" } else { "all" };
        let req = request(mode, &targets, &doc);
        c.nontrivial(&req);
        if i < 2 { c.sample(json!({"stream": "chaos", "mutations": n_mut, "request": if req.len() < 600 { req.clone() } else { format!("{}…", &req[..600]) }})); }
        batch.push(Pending { case_id: c.cur, stream: "chaos".into(), req, doc_targets: targets, hazard: hz }); docs.push(doc);
    }
    run_batch(c, batch, &docs);
    // ---------------- reference chains around DEREF_LIMIT (dereference: > 128 hops; get_page_contents: < 128)
    let mut batch = vec![]; let mut docs = vec![];
    let lens: Vec<usize> = if c.quick() { vec![1, 2, 126, 127, 128, 129, 130, 131, 200] } else { (1..=140).chain([200, 256, 300]).collect() };
    for (i, len) in lens.iter().flat_map(|l| [l, l]).enumerate() {
        let Some(_r) = c.case("chains", i as u64) else { continue };
        // 100+len .. 101 form a chain of `len` references ending in the page 3 / in a content stream 50
        let mut doc = mini(vec![], vec![(50, stream(Dictionary::new(), CONTENT))]);
        let end = if i % 2 == 0 { (3, 0) } else { (50, 0) };
        for k in 1..=*len { doc.objects.insert((100 + k as u32, 0), rf(if k == 1 { end } else { (100 + k as u32 - 1, 0) })); }
        let top = (100 + *len as u32, 0);
        doc.objects.insert((3, 0), Object::Dictionary(dict(vec![("Type", name("Page")), ("Parent", rf((2, 0))), ("Contents", rf(if end == (50, 0) { top } else { (50, 0) })),
            ("Annots", rf(top)), ("Resources", rf(top))])));
        // a cyclic chain as well
        doc.objects.insert((60, 0), rf((61, 0))); doc.objects.insert((61, 0), rf((60, 0)));
        let targets = vec![top, (3, 0), (60, 0), (100 + (*len as u32 + 1) / 2, 0)];
        let hz = analyse(&doc, &targets);
        let req = request("all", &targets, &doc);
        c.nontrivial(&req); c.count("chains.cases");
        batch.push(Pending { case_id: c.cur, stream: "chains".into(), req, doc_targets: targets, hazard: hz }); docs.push(doc);
    }
    run_batch(c, batch, &docs);
    parent_graph_stream(c);
    refchain_stream(c);
    systematic_stream(c);
    count_outline_stream(c);
    actions_stream(c);
    known_streams(c);
}


// ------------------------------------------------------------------------------------------
// Parent chains of DICTIONARIES of every shape above a page: `lead` nodes and then a ring of `ring` nodes (0 = the chain
// ends), the page itself in or outside the ring, Resources on no node / a lead node / a ring node / the page, Type keys
// present or not. Anything that walks up (resources, fonts, images, annotations, page lookups) must come back.
// ------------------------------------------------------------------------------------------
fn parent_graph_stream(c: &mut Ctx) {
    let mut batch = vec![]; let mut docs = vec![];
    let mut k = 0u64;
    for lead in 0..4usize { for ring in 0..5usize { for through_page in [false, true] { for res_at in 0..4usize { for typed in [true, false] {
        k += 1;
        if c.quick() && k % 2 == 0 && ring != 2 { continue; }
        let Some(_r) = c.case("parent_graph", k) else { continue };
        // nodes 40.. : lead nodes then ring nodes
        let n_nodes = lead + ring;
        let node_id = |i: usize| (40 + i as u32, 0u16);
        let mut doc = mini(vec![], vec![(50, stream(Dictionary::new(), CONTENT)), (60, Object::Dictionary(dict(vec![("Type", name("Font")), ("Subtype", name("Type1")), ("BaseFont", name("Helvetica"))]))),
            (61, stream(dict(vec![("Type", name("XObject")), ("Subtype", name("Image")), ("Width", Object::Integer(1)), ("Height", Object::Integer(1)), ("ColorSpace", name("DeviceGray")), ("BitsPerComponent", Object::Integer(8))]), b"x"))]);
        let res = || Object::Dictionary(dict(vec![("Font", Object::Dictionary(dict(vec![("F1", rf((60, 0)))]))), ("XObject", Object::Dictionary(dict(vec![("Im1", rf((61, 0)))])))]));
        let mut page = dict(vec![("Contents", rf((50, 0)))]);
        if typed { page.set("Type", name("Page")); }
        if n_nodes > 0 { page.set("Parent", rf(node_id(0))); } else { page.set("Parent", rf((3, 0))); }
        if res_at == 3 { page.set("Resources", res()); }
        doc.objects.insert((3, 0), Object::Dictionary(page));
        for i in 0..n_nodes {
            let mut nd = dict(vec![("Kids", Object::Array(vec![rf((3, 0))])), ("Count", Object::Integer(1))]);
            if typed { nd.set("Type", name("Pages")); }
            let next = if i + 1 < n_nodes { Some(node_id(i + 1)) } else if ring > 0 { Some(if through_page { (3, 0) } else { node_id(lead) }) } else { None };
            if let Some(nx) = next { nd.set("Parent", rf(nx)); }
            if (res_at == 1 && i == 0 && lead > 0) || (res_at == 2 && i >= lead) { nd.set("Resources", res()); }
            doc.objects.insert(node_id(i), Object::Dictionary(nd));
        }
        let mut targets = vec![(3, 0), (50, 0), (61, 0)]; if n_nodes > 0 { targets.push(node_id(0)); targets.push(node_id(n_nodes - 1)); }
        let hz = analyse(&doc, &targets);
        let req = request("all", &targets, &doc);
        c.nontrivial(&req); c.count("parent_graph.cases");
        batch.push(Pending { case_id: c.cur, stream: "parent_graph".into(), req, doc_targets: targets, hazard: hz }); docs.push(doc);
    } } } } }
    run_batch(c, batch, &docs);
}

// ------------------------------------------------------------------------------------------
// reference chains of every shape at every place a query dereferences
// ------------------------------------------------------------------------------------------

/// keys whose value some query looks up, dereferences or follows
const DEREF_KEYS: [&str; 34] = ["Root", "Pages", "Kids", "Count", "Parent", "Resources", "Font", "XObject", "Encoding", "ToUnicode", "Contents", "Annots",
    "Outlines", "First", "Next", "Dest", "A", "D", "S", "Title", "Names", "Dests", "Encrypt", "CF", "Type", "Subtype", "ColorSpace", "Width", "Height",
    "BitsPerComponent", "Filter", "Length", "Last", "Prev"];

#[derive(Clone, Copy, Debug)]
enum Shape { Chain(usize), Dangling(usize), SelfLoop, Ring(usize), Rho(usize, usize), ToArray(usize), ToName(usize), ToRefArray(usize) }
const SHAPES: [Shape; 24] = [Shape::Chain(1), Shape::Chain(2), Shape::Chain(3), Shape::Chain(5), Shape::Chain(126), Shape::Chain(127), Shape::Chain(128), Shape::Chain(129),
    Shape::Dangling(1), Shape::Dangling(3), Shape::SelfLoop, Shape::Ring(2), Shape::Ring(3), Shape::Ring(4),
    Shape::Rho(1, 1), Shape::Rho(1, 2), Shape::Rho(2, 3), Shape::Rho(3, 1), Shape::Rho(5, 4), Shape::Rho(4, 2),
    Shape::ToArray(1), Shape::ToArray(3), Shape::ToName(2), Shape::ToRefArray(2)];

/// replace `slot` (a value bound to a key, or an item of the array bound to it) by a reference into a chain of bare
/// reference objects of the given shape; acyclic chains end in the original value (moved into an object of its own
/// when it was direct)
fn chain_value(r: &mut Rng, doc: &mut Document, old: Object, shape: Shape) -> Object {
    let mut next = doc.objects.keys().map(|k| k.0).max().unwrap_or(0) + 1;
    let mut fresh = |doc: &mut Document, o: Object| -> ObjectId { let id = (next, 0); next += 1; doc.objects.insert(id, o); id };
    // link(ids): ids[i] -> ids[i+1]
    let target: ObjectId = match &old { Object::Reference(t) => *t, o => fresh(doc, o.clone()) };
    let mk_ids = |doc: &mut Document, n: usize, fresh: &mut dyn FnMut(&mut Document, Object) -> ObjectId| -> Vec<ObjectId> { (0..n).map(|_| fresh(doc, Object::Null)).collect() };
    match shape {
        Shape::Chain(l) | Shape::Dangling(l) => {
            let ids = mk_ids(doc, l, &mut fresh);
            for i in 0..l { let to = if i + 1 < l { ids[i + 1] } else if matches!(shape, Shape::Chain(_)) { target } else { (9999, 0) }; doc.objects.insert(ids[i], rf(to)); }
            rf(ids[0])
        }
        Shape::SelfLoop => { let ids = mk_ids(doc, 1, &mut fresh); doc.objects.insert(ids[0], rf(ids[0])); rf(ids[0]) }
        Shape::Ring(m) => { let ids = mk_ids(doc, m, &mut fresh); for i in 0..m { doc.objects.insert(ids[i], rf(ids[(i + 1) % m])); } rf(ids[0]) }
        Shape::Rho(t, m) => {
            let tail = mk_ids(doc, t, &mut fresh); let ring = mk_ids(doc, m, &mut fresh);
            for i in 0..t { doc.objects.insert(tail[i], rf(if i + 1 < t { tail[i + 1] } else { ring[0] })); }
            for i in 0..m { doc.objects.insert(ring[i], rf(ring[(i + 1) % m])); }
            rf(tail[0])
        }
        Shape::ToArray(l) | Shape::ToName(l) | Shape::ToRefArray(l) => {
            let ids = mk_ids(doc, l, &mut fresh);
            let end = match shape { Shape::ToArray(_) => Object::Array(if r.chance(1, 2) { vec![] } else { vec![rf(target), name("Fit")] }), Shape::ToName(_) => name(*r.pick(&NAMES)),
                _ => Object::Array(vec![rf(ids[0]), rf(target)]) };
            for i in 0..l { doc.objects.insert(ids[i], if i + 1 < l { rf(ids[i + 1]) } else { end.clone() }); }
            rf(ids[0])
        }
    }
}

/// put a chain of the given shape behind `key` somewhere in the document; returns the id owning the slot (None = trailer / key absent)
fn chainify(r: &mut Rng, doc: &mut Document, key: &str, shape: Shape) -> Option<Option<ObjectId>> {
    let kb = key.as_bytes();
    if doc.trailer.has(kb) && (key == "Root" || key == "Encrypt" || r.chance(1, 4)) {
        let old = doc.trailer.get(kb).unwrap().clone();
        let v = chain_value(r, doc, old, shape);
        doc.trailer.set(key, v);
        return Some(None);
    }
    // slots: (object id, pre-order index of the dictionary having the key)
    let mut slots: Vec<(ObjectId, usize)> = vec![];
    for (id, o) in doc.objects.iter() { let mut fl = vec![]; dict_flags(o, 0, kb, &mut fl); for (i, f) in fl.iter().enumerate() { if *f { slots.push((*id, i)); } } }
    if slots.is_empty() { return None; }
    let (id, idx) = *r.pick(&slots);
    let mut old: Option<Object> = None;
    { let o = doc.objects.get_mut(&id).unwrap(); with_nth_dict(o, 0, &mut 0, idx, &mut |d| { old = d.get(kb).ok().cloned(); }); }
    let old = old?;
    // half of the time an item of an array value is replaced instead of the value itself
    let new = match &old {
        Object::Array(items) if !items.is_empty() && r.chance(1, 2) => {
            let k = r.usize(items.len());
            let mut items = items.clone();
            let it = items[k].clone();
            items[k] = chain_value(r, doc, it, shape);
            Object::Array(items)
        }
        _ => chain_value(r, doc, old.clone(), shape),
    };
    let mut new = Some(new);
    let o = doc.objects.get_mut(&id).unwrap();
    with_nth_dict(o, 0, &mut 0, idx, &mut |d| { if let Some(v) = new.take() { d.set(key, v); } });
    Some(Some(id))
}


/// every key the queries read x every value kind x {trailer, a dictionary that has the key, any dictionary}: one deterministic
/// re-binding per case, so that a rare combination (e.g. a DIRECT dictionary under /Encrypt in the trailer) is in every run
fn systematic_stream(c: &mut Ctx) {
    let mut batch = vec![]; let mut docs = vec![];
    let combos = KEYS.len() as u64 * N_KINDS * 3;
    for i in 0..c.n(combos, combos * 4) {
        let Some(mut r) = c.case("systematic", i) else { continue };
        let key = KEYS[(i % KEYS.len() as u64) as usize];
        let kind = (i / KEYS.len() as u64) % N_KINDS;
        let loc = (i / (KEYS.len() as u64 * N_KINDS)) % 3;
        let (mut doc, leaves) = gen_valid(&mut r);
        let ids: Vec<ObjectId> = doc.objects.keys().cloned().collect();
        let v = chaos_value_kind(&mut r, &ids, 0, key, kind);
        c.count(&format!("systematic.kind{}", kind)); c.count(&format!("systematic.loc{}", loc));
        let mut owner = None;
        if loc == 0 { doc.trailer.set(key, v); }
        else {
            let mut slots: Vec<(ObjectId, usize)> = vec![];
            for (id, o) in doc.objects.iter() { let mut fl = vec![]; dict_flags(o, 0, key.as_bytes(), &mut fl); for (k, f) in fl.iter().enumerate() { if *f || loc == 2 { slots.push((*id, k)); } } }
            if slots.is_empty() { for (id, o) in doc.objects.iter() { let mut fl = vec![]; dict_flags(o, 0, key.as_bytes(), &mut fl); for k in 0..fl.len() { slots.push((*id, k)); } } }
            if let Some((id, idx)) = if slots.is_empty() { None } else { Some(*r.pick(&slots)) } {
                let mut v = Some(v);
                with_nth_dict(doc.objects.get_mut(&id).unwrap(), 0, &mut 0, idx, &mut |d| { if let Some(v) = v.take() { d.set(key, v); } });
                owner = Some(id);
            }
        }
        if i >= combos && r.chance(1, 2) { let n = 1 + r.usize(3); chaos(&mut r, &mut doc, n, c); }
        let mut targets = pick_targets(&mut r, &doc, &leaves);
        if let Some(o) = owner { targets.insert(0, o); targets.truncate(5); targets.dedup(); }
        let hz = analyse(&doc, &targets);
        let req = request("all", &targets, &doc);
        c.nontrivial(&req);
        batch.push(Pending { case_id: c.cur, stream: "systematic".into(), req, doc_targets: targets, hazard: hz }); docs.push(doc);
    }
    run_batch(c, batch, &docs);
}


/// attacker-chosen /Count on root and non-root /Pages nodes of documents that have a well-formed outline and named
/// destinations, so that get_toc / get_outlines / get_object_page / extract_text get as far as the page numbering
fn count_outline_stream(c: &mut Ctx) {
    let specials: Vec<Object> = vec![Object::Integer(0), Object::Integer(-1), Object::Integer(1 << 31), Object::Integer(1 << 40), Object::Integer(1 << 60),
        Object::Integer(i64::MAX), Object::Integer(i64::MIN), Object::Integer(768614336404564650), Object::Real(2.5), name("Pages"), Object::Null, lit(b"7"),
        Object::Array(vec![Object::Integer(3)]), Object::Integer(1 << 62)];
    let mut batch = vec![]; let mut docs = vec![];
    let combos = specials.len() as u64 * 4;
    for i in 0..c.n(combos, combos * 5) {
        let Some(mut r) = c.case("count_outline", i) else { continue };
        let special = specials[(i as usize) % specials.len()].clone();
        let place = (i / specials.len() as u64) % 4;      // 0 root, 1 non-root, 2 both, 3 non-root behind a reference object
        // a well-formed document with an outline and a name tree
        let mut found = None;
        for _ in 0..60 {
            let (doc, leaves) = gen_valid(&mut r);
            let cat = doc.catalog().ok().cloned();
            // (the unmodified document is well-formed: get_toc is called in-process, under `guard`, to select documents whose
            //  table of contents is readable — the page numbering is reached)
            if let Some(cat) = cat { if cat.has(b"Outlines") && (cat.has(b"Dests") || cat.has(b"Names")) && matches!(guard(|| doc.get_toc().map(|t| !t.toc.is_empty()).unwrap_or(false)), Ok(true)) { found = Some((doc, leaves)); break; } }
        }
        let Some((mut doc, leaves)) = found else { c.count("count_outline.no_outline_doc"); continue };
        let root_id = doc.catalog().ok().and_then(|cat| cat.get(b"Pages").ok().and_then(|o| o.as_reference().ok()));
        let Some(root_id) = root_id else { continue };
        let pages_nodes: Vec<ObjectId> = doc.objects.iter().filter(|(id, o)| **id != root_id && matches!(o, Object::Dictionary(d) if d.has_type(b"Pages"))).map(|(id, _)| *id).collect();
        // make sure there is a non-root Pages kid right after the first kid of the root
        let non_root = if let Some(id) = pages_nodes.first() { *id } else {
            let id = (doc.objects.keys().map(|k| k.0).max().unwrap_or(0) + 1, 0);
            doc.objects.insert(id, Object::Dictionary(dict(vec![("Type", name("Pages")), ("Parent", rf(root_id)), ("Kids", Object::Array(vec![])), ("Count", Object::Integer(0))])));
            // Kids of the root: direct array or an array object
            let kids_ref = match doc.objects.get(&root_id) { Some(Object::Dictionary(d)) => match d.get(b"Kids") { Ok(Object::Reference(k)) => Some(*k), _ => None }, _ => None };
            let push = |a: &mut Vec<Object>| { let at = 1.min(a.len()); a.insert(at, rf(id)); };
            match kids_ref {
                Some(k) => { if let Some(Object::Array(a)) = doc.objects.get_mut(&k) { push(a); } }
                None => { if let Some(Object::Dictionary(d)) = doc.objects.get_mut(&root_id) { if let Ok(Object::Array(a)) = d.get_mut(b"Kids") { push(a); } } }
            }
            id
        };
        let value = if place == 3 { let id = (doc.objects.keys().map(|k| k.0).max().unwrap_or(0) + 1, 0); doc.objects.insert(id, special.clone()); rf(id) } else { special.clone() };
        let set_count = |doc: &mut Document, id: ObjectId, v: Object| { if let Some(Object::Dictionary(d)) = doc.objects.get_mut(&id) { d.set("Count", v); } };
        if place == 0 || place == 2 { set_count(&mut doc, root_id, special.clone()); }
        if place >= 1 { set_count(&mut doc, non_root, value); }
        if i >= combos && r.chance(1, 2) { let n = 1 + r.usize(2); chaos(&mut r, &mut doc, n, c); }
        let mut targets = pick_targets(&mut r, &doc, &leaves);
        targets.insert(0, non_root); targets.truncate(5); targets.dedup();
        let hz = analyse(&doc, &targets);
        let req = request("all", &targets, &doc);
        c.nontrivial(&req); c.count(&format!("count_outline.place{}", place));
        if i < 1 { c.sample(json!({"stream": "count_outline", "count": show_obj(&special), "place": place, "request": if req.len() < 600 { req.clone() } else { format!("{}…", &req[..600]) }})); }
        batch.push(Pending { case_id: c.cur, stream: "count_outline".into(), req, doc_targets: targets, hazard: hz }); docs.push(doc);
    }
    run_batch(c, batch, &docs);
}


/// action dictionaries in outline items: /S of every kind x /Next of every shape (ISO 32000-1 12.6.2 allows a dictionary or an
/// ARRAY of actions): inline, referenced, arrays, chains, self loops, rings, rho-shapes, dangling, ill-typed — with /A direct,
/// referenced or behind a chain of bare references
fn actions_stream(c: &mut Ctx) {
    const S_KINDS: [&str; 9] = ["GoTo", "GoToR", "URI", "Launch", "Named", "JavaScript", "Foo", "-missing", "-int"];
    const N_SHAPES: u64 = 14;
    let mut batch = vec![]; let mut docs = vec![];
    let combos = S_KINDS.len() as u64 * N_SHAPES;
    for i in 0..c.n(combos, combos * 6) {
        let Some(mut r) = c.case("actions", i) else { continue };
        let s_kind = S_KINDS[(i as usize) % S_KINDS.len()];
        let shape = (i / S_KINDS.len() as u64) % N_SHAPES;
        let placement = (i / combos + i) % 3;            // /A: 0 direct, 1 reference, 2 behind two bare references
        // a well-formed document with an outline
        let mut found = None;
        for _ in 0..40 {
            let (doc, leaves) = gen_valid(&mut r);
            let items: Vec<ObjectId> = doc.objects.iter().filter(|(_, o)| matches!(o, Object::Dictionary(d) if d.has(b"Title") && d.has(b"Parent"))).map(|(id, _)| *id).collect();
            if !items.is_empty() && !leaves.is_empty() { found = Some((doc, leaves, items)); break; }
        }
        let Some((mut doc, leaves, items)) = found else { c.count("actions.no_outline_doc"); continue };
        let item = *r.pick(&items);
        let mut next_id = doc.objects.keys().map(|k| k.0).max().unwrap_or(0) + 1;
        let mut fresh = |doc: &mut Document, o: Object| -> ObjectId { let id = (next_id, 0); next_id += 1; doc.objects.insert(id, o); id };
        let page = leaves[0];
        let act = |s: &str, next: Option<Object>| -> Dictionary {
            let mut d = Dictionary::new();
            match s { "-missing" => {}, "-int" => { d.set("S", Object::Integer(1)); }, k => { d.set("S", name(k)); } }
            d.set("D", Object::Array(vec![rf(page), name("Fit")]));
            if s == "URI" { d.set("URI", lit(b"http://x")); }
            if let Some(n) = next { d.set("Next", n); }
            d
        };
        let goto = |next: Option<Object>| act("GoTo", next);
        // the head action, by shape of its /Next
        let mut head_is_obj: Option<ObjectId> = None;
        let head: Dictionary = match shape {
            0 => act(s_kind, None),
            1 => act(s_kind, Some(Object::Dictionary(act("Named", Some(Object::Dictionary(goto(None))))))),
            2 => { let g = fresh(&mut doc, Object::Dictionary(goto(None))); act(s_kind, Some(rf(g))) }
            3 => { let g = fresh(&mut doc, Object::Dictionary(goto(None))); let u = fresh(&mut doc, Object::Dictionary(act("URI", Some(rf(g))))); act(s_kind, Some(rf(u))) }
            4 => { let u = fresh(&mut doc, Object::Dictionary(act("URI", None))); act(s_kind, Some(Object::Array(vec![rf(u), Object::Dictionary(goto(None))]))) }
            5 => act(s_kind, Some(Object::Array(vec![]))),
            6 => { let x = fresh(&mut doc, Object::Null); doc.objects.insert(x, Object::Dictionary(act(s_kind, Some(rf(x))))); head_is_obj = Some(x); act(s_kind, Some(rf(x))) }
            7 => { let y = fresh(&mut doc, Object::Null); doc.objects.insert(y, Object::Dictionary(act("URI", Some(rf(y))))); act(s_kind, Some(rf(y))) }
            8 => { let y = fresh(&mut doc, Object::Null); let z = fresh(&mut doc, Object::Dictionary(act("Launch", Some(rf(y))))); doc.objects.insert(y, Object::Dictionary(act("Named", Some(rf(z))))); act(s_kind, Some(rf(y))) }
            9 => act(s_kind, Some(rf((9990, 0)))),
            10 => act(s_kind, Some(if r.chance(1, 2) { Object::Integer(3) } else { name("GoTo") })),
            11 => { let g = fresh(&mut doc, Object::Dictionary(goto(None))); let r2 = fresh(&mut doc, rf(g)); let r1 = fresh(&mut doc, rf(r2)); act(s_kind, Some(rf(r1))) }
            12 => { let r1 = fresh(&mut doc, Object::Null); let r2 = fresh(&mut doc, rf(r1)); doc.objects.insert(r1, rf(r2)); act(s_kind, Some(rf(r1))) }
            _ => { // a long chain of non-go-to actions ending in a GoTo
                let mut cur = fresh(&mut doc, Object::Dictionary(goto(None)));
                for k in 0..(3 + r.usize(40)) { cur = fresh(&mut doc, Object::Dictionary(act(*r.pick(&["URI", "Named", "Launch"]), Some(if k % 2 == 0 { rf(cur) } else { rf(cur) })))); }
                act(s_kind, Some(rf(cur))) }
        };
        let a_value = match (placement, head_is_obj) {
            (_, Some(x)) => rf(x),
            (0, _) => Object::Dictionary(head),
            (1, _) => rf(fresh(&mut doc, Object::Dictionary(head))),
            _ => { let h = fresh(&mut doc, Object::Dictionary(head)); let r2 = fresh(&mut doc, rf(h)); rf(fresh(&mut doc, rf(r2))) }
        };
        if let Some(Object::Dictionary(d)) = doc.objects.get_mut(&item) { d.set("A", a_value); if r.chance(1, 2) { d.remove(b"Dest"); } }
        if i >= combos && r.chance(1, 3) { let n = 1 + r.usize(2); chaos(&mut r, &mut doc, n, c); }
        let mut targets = pick_targets(&mut r, &doc, &leaves);
        targets.insert(0, item); targets.truncate(5); targets.dedup();
        let hz = analyse(&doc, &targets);
        let req = request("all", &targets, &doc);
        c.nontrivial(&req); c.count(&format!("actions.shape{}", shape)); c.count(&format!("actions.S.{}", s_kind));
        if i < 1 { c.sample(json!({"stream": "actions", "S": s_kind, "next_shape": shape, "request": if req.len() < 600 { req.clone() } else { format!("{}…", &req[..600]) }})); }
        batch.push(Pending { case_id: c.cur, stream: "actions".into(), req, doc_targets: targets, hazard: hz }); docs.push(doc);
    }
    run_batch(c, batch, &docs);
}

fn refchain_stream(c: &mut Ctx) {
    let mut batch = vec![]; let mut docs = vec![];
    let combos = (DEREF_KEYS.len() * SHAPES.len()) as u64;
    for i in 0..c.n(combos, combos * 5) {
        let Some(mut r) = c.case("refchains", i) else { continue };
        let key = DEREF_KEYS[(i as usize) % DEREF_KEYS.len()];
        let shape = SHAPES[((i as usize) / DEREF_KEYS.len()) % SHAPES.len()];
        // a well-formed document that has the key
        let mut found = None;
        for _ in 0..40 {
            let (mut doc, leaves) = gen_valid(&mut r);
            if let Some(owner) = chainify(&mut r, &mut doc, key, shape) { found = Some((doc, leaves, owner)); break; }
        }
        let Some((mut doc, leaves, owner)) = found else { c.count("refchains.key_absent"); continue };
        // later rounds: a second chain elsewhere and some typed chaos on top
        if i >= combos { if r.chance(1, 2) { let k2 = *r.pick(&DEREF_KEYS); let s2 = *r.pick(&SHAPES); let _ = chainify(&mut r, &mut doc, k2, s2); }
                         if r.chance(1, 3) { let n = 1 + r.usize(3); chaos(&mut r, &mut doc, n, c); } }
        let mut targets = pick_targets(&mut r, &doc, &leaves);
        if let Some(o) = owner { targets.insert(0, o); targets.truncate(5); targets.dedup(); }
        let hz = analyse(&doc, &targets);
        let req = request("all", &targets, &doc);
        c.nontrivial(&req);
        c.count(&format!("refchains.key.{}", key)); c.count(&format!("refchains.shape.{}", format!("{:?}", shape).split('(').next().unwrap()));
        if i < 2 { c.sample(json!({"stream": "refchains", "key": key, "shape": format!("{:?}", shape), "request": if req.len() < 600 { req.clone() } else { format!("{}…", &req[..600]) }})); }
        batch.push(Pending { case_id: c.cur, stream: "refchains".into(), req, doc_targets: targets, hazard: hz }); docs.push(doc);
    }
    run_batch(c, batch, &docs);
}

// ------------------------------------------------------------------------------------------
// known-finding territory: cyclic link structures, attacker-chosen Count, canonical witnesses
// ------------------------------------------------------------------------------------------

/// catalog 1, page-tree root 2 with one page 3, plus the given catalog entries and objects
fn mini(cat_extra: Vec<(&str, Object)>, objs: Vec<(u32, Object)>) -> Document {
    let mut doc = Document::with_version("1.5");
    let mut cat = dict(vec![("Type", name("Catalog")), ("Pages", rf((2, 0)))]);
    for (k, v) in cat_extra { cat.set(k, v); }
    doc.objects.insert((1, 0), Object::Dictionary(cat));
    doc.objects.insert((2, 0), Object::Dictionary(dict(vec![("Type", name("Pages")), ("Kids", Object::Array(vec![rf((3, 0))])), ("Count", Object::Integer(1))])));
    doc.objects.insert((3, 0), Object::Dictionary(dict(vec![("Type", name("Page")), ("Parent", rf((2, 0)))])));
    for (n, o) in objs { doc.objects.insert((n, 0), o); }
    doc.trailer.set("Root", rf((1, 0)));
    doc
}
fn fit_dest() -> Object { Object::Array(vec![rf((3, 0)), name("Fit")]) }
fn item(kv: Vec<(&str, Object)>) -> Object { let mut d = dict(vec![("Title", lit(b"T"))]); for (k, v) in kv { d.set(k, v); } Object::Dictionary(d) }
fn outlines_to(_first: u32) -> Vec<(&'static str, Object)> { vec![("Outlines", rf((10, 0)))] }

/// root Kids = [page 3, Pages nodes 20.. with the given Count values]
fn count_doc(counts: &[i64]) -> Document {
    let mut doc = mini(vec![], vec![]);
    let mut kids = vec![rf((3, 0))];
    for (i, c) in counts.iter().enumerate() {
        let id = 20 + i as u32; kids.push(rf((id, 0)));
        doc.objects.insert((id, 0), Object::Dictionary(dict(vec![("Type", name("Pages")), ("Kids", Object::Array(vec![])), ("Count", Object::Integer(*c))])));
    }
    doc.objects.insert((2, 0), Object::Dictionary(dict(vec![("Type", name("Pages")), ("Kids", Object::Array(kids)), ("Count", Object::Integer(1))])));
    doc
}

fn cyclic_doc(r: &mut Rng, kind: u64) -> Document {
    let with_dest = r.chance(1, 2);
    let d = |kv: Vec<(&str, Object)>| { let mut kv = kv; if with_dest { kv.push(("Dest", fit_dest())); } item(kv) };
    let root = Object::Dictionary(dict(vec![("Type", name("Outlines")), ("First", rf((11, 0)))]));
    match kind {
        0 => mini(outlines_to(11), vec![(10, root), (11, d(vec![("Next", rf((11, 0)))]))]),
        1 => mini(outlines_to(11), vec![(10, root), (11, d(vec![("Next", rf((12, 0)))])), (12, d(vec![("Next", rf((11, 0)))]))]),
        2 => mini(outlines_to(11), vec![(10, root), (11, d(vec![("First", rf((11, 0)))]))]),
        3 => mini(outlines_to(11), vec![(10, root), (11, d(vec![("First", rf((12, 0)))])), (12, d(vec![("First", rf((11, 0)))]))]),
        4 => mini(vec![("Dests", rf((15, 0)))], vec![(15, Object::Dictionary(dict(vec![("Kids", Object::Array(vec![rf((15, 0))]))])))]),
        // inline First whose Next points back to the item: no First reference is ever repeated
        6 => mini(outlines_to(11), vec![(10, root), (11, d(vec![("First", d(vec![("Next", rf((11, 0)))]))]))]),
        // chain of inline Next dictionaries ending in a First reference back to the item
        7 => mini(outlines_to(11), vec![(10, root), (11, d(vec![("Next", d(vec![("Next", d(vec![("First", rf((11, 0)))]))]))]))]),
        // shared child: 11 and 13 both have First -> 12
        8 => mini(outlines_to(11), vec![(10, root), (11, d(vec![("First", rf((12, 0))), ("Next", rf((13, 0)))])), (12, d(vec![])), (13, d(vec![("First", rf((12, 0)))]))]),
        // explosive DAG: 40 items, each with First and Next -> the following item (2^40 paths without a global seen-set)
        9 => { let mut objs = vec![(10, root)]; for k in 0..40u32 { let nx = rf((12 + k, 0)); objs.push((11 + k, if k < 39 { d(vec![("First", nx.clone()), ("Next", nx)]) } else { d(vec![]) })); } mini(outlines_to(11), objs) }
        // name-tree DAG: Kids [16, 16] and an explosive one
        10 => { let mut objs = vec![]; for k in 0..40u32 { let nx = rf((16 + k, 0)); objs.push((15 + k, Object::Dictionary(if k < 39 { dict(vec![("Kids", Object::Array(vec![nx.clone(), nx]))]) } else { dict(vec![("Names", Object::Array(vec![lit(b"k"), fit_dest()]))]) }))); }
                mini(vec![("Dests", rf((15, 0)))], objs) }
        _ => mini(vec![("Names", Object::Dictionary(dict(vec![("Dests", rf((15, 0)))])))], vec![
            (15, Object::Dictionary(dict(vec![("Kids", Object::Array(vec![rf((16, 0))]))]))), (16, Object::Dictionary(dict(vec![("Kids", Object::Array(vec![rf((15, 0))]))])))]),
    }
}

fn known_streams(c: &mut Ctx) {
    // ---------------- cyclic Next / First / Kids (F-C13-b, F-C13-b2, F-C13-d4)
    let mut batch = vec![]; let mut docs = vec![];
    let n = c.n(11, 44);
    for i in 0..n {
        let Some(mut r) = c.case("cyclic", i) else { continue };
        let kind = i % 11;
        let doc = cyclic_doc(&mut r, kind);
        let targets = vec![(15, 0)];
        let hz = analyse(&doc, &targets);
        let fields: Vec<&str> = if kind < 4 || (6..=9).contains(&kind) { vec!["outl", "toc"] } else if kind == 4 || kind == 10 { vec!["dests", "nd:15_0", "outl"] } else { vec!["dests", "toc"] };
        for (fi, f) in fields.into_iter().enumerate() {
            let req = request(&format!("one={}", f), &targets, &doc);
            if fi == 0 { c.nontrivial(&req); } c.count(&format!("cyclic.kind{}", kind));
            batch.push(Pending { case_id: c.cur, stream: "cyclic".into(), req, doc_targets: targets.clone(), hazard: hz.clone() }); docs.push(doc.clone());
        }
    }
    run_batch(c, batch, &docs);
    // ---------------- attacker-chosen Count in Pages nodes (F-C13-f*)
    const B12: i64 = 768614336404564649; // largest Count for which (Count+1)*12 <= isize::MAX
    const B8: i64 = 1152921504606846974; // same for 8-byte elements
    let specials: [i64; 17] = [-1, -5, i64::MIN, 1 << 36, 1 << 40, 1 << 59, 1 << 60, 1 << 62, i64::MAX, B12 - 1, B12, B12 + 1, B8 - 1, B8, B8 + 1, i64::MAX - 1, 1 << 50];
    let mut batch = vec![]; let mut docs = vec![];
    // ---- outline items with edge-case titles (byte-order-mark fragments, empty, single bytes) and a destination
    // ---- that resolves to a page of the page tree: get_toc / get_outlines must return
    for (i, t) in [&b"\xfe"[..], b"\xff", b"\xfe\xff", b"\xff\xfe", b"", b"\xef", b"\xef\xbb", b"\xef\xbb\xbf", b"\xfe\x00", b"\xff\x00\x00", b"\xfe\xff\x00", b"\xff\xfe\x00", b"\x00", b"A", b"\xfe\xff\xd8\x00", b"\xff\xfe\x00\xd8\x00"].iter().enumerate() {
        let Some(_r) = c.case("toc_titles", i as u64) else { continue };
        let root = Object::Dictionary(dict(vec![("Type", name("Outlines")), ("First", rf((11, 0))), ("Last", rf((12, 0)))]));
        let doc = mini(outlines_to(11), vec![(10, root),
            (11, item(vec![("Title", lit(t)), ("Dest", fit_dest()), ("Next", rf((12, 0)))])),
            (12, item(vec![("Title", lit(t)), ("A", Object::Dictionary(dict(vec![("S", name("GoTo")), ("D", fit_dest())])))]))]);
        let targets = vec![(3, 0)];
        let hz = analyse(&doc, &targets);
        for f in ["toc", "outl"] {
            let req = request(&format!("one={}", f), &targets, &doc);
            if f == "toc" { c.nontrivial(&req); } c.count("toc_titles.cases");
            batch.push(Pending { case_id: c.cur, stream: "toc_titles".into(), req, doc_targets: targets.clone(), hazard: hz.clone() }); docs.push(doc.clone());
        }
    }
    // ---- page trees with cycles through the LAST kid of a node (nothing is pushed on the iterator's stack there):
    // ---- enumeration must still terminate through the iteration budget
    for i in 0..c.n(40, 400) {
        let Some(mut r) = c.case("pagecycle", i) else { continue };
        let mut doc = mini(vec![], vec![]);
        let depth = 1 + r.usize(4);
        let mut top_kids = vec![]; if r.chance(1, 2) { top_kids.push(rf((3, 0))); }
        top_kids.push(rf((20, 0)));
        for k in 0..depth {
            let id = 20 + k as u32;
            let mut kids = vec![]; if r.chance(1, 2) { kids.push(rf((3, 0))); }
            // last kid: the next level, or (at the bottom) a back edge to some ancestor / itself / the root
            let back = if r.chance(1, 3) { 2 } else { 20 + r.usize(k + 1) as u32 };
            kids.push(rf((if k + 1 < depth { id + 1 } else { back }, 0)));
            doc.objects.insert((id, 0), Object::Dictionary(dict(vec![("Type", name("Pages")), ("Kids", Object::Array(kids)), ("Count", Object::Integer(1))])));
        }
        doc.objects.insert((2, 0), Object::Dictionary(dict(vec![("Type", name("Pages")), ("Kids", Object::Array(top_kids)), ("Count", Object::Integer(1))])));
        let targets = vec![(3, 0)];
        let hz = analyse(&doc, &targets);
        for f in ["pages", "iter", "text"] {
            let req = request(&format!("one={}", f), &targets, &doc);
            if f == "pages" { c.nontrivial(&req); } c.count("pagecycle.cases");
            batch.push(Pending { case_id: c.cur, stream: "pagecycle".into(), req, doc_targets: targets.clone(), hazard: hz.clone() }); docs.push(doc.clone());
        }
    }
    for i in 0..c.n(19, 120) {
        let Some(mut r) = c.case("count", i) else { continue };
        let k = if (i as usize) < specials.len() { 1 } else { 1 + r.usize(4) };
        let counts: Vec<i64> = if i == 17 || i == 18 { vec![i64::MAX, i64::MAX, if i == 17 { 1 } else { 2 }] } else { (0..k).map(|j| if (i as usize) < specials.len() && j == 0 { specials[i as usize] } else if r.chance(1, 4) { r.range(-5, 5) } else { *r.pick(&specials) }).collect() };
        let doc = count_doc(&counts);
        let targets = vec![(3, 0)];
        let hz = analyse(&doc, &targets);
        let fields: Vec<&str> = if i % 5 == 0 { vec!["pages", "iter", "op:3_0", "toc", "text"] } else { vec!["pages", "iter"] };
        for f in fields {
            let req = request(&format!("one={}", f), &targets, &doc);
            if f == "pages" { c.nontrivial(&req); } c.count("count.cases");
            batch.push(Pending { case_id: c.cur, stream: "count".into(), req, doc_targets: targets.clone(), hazard: hz.clone() }); docs.push(doc.clone());
        }
    }
    run_batch(c, batch, &docs);
    // ---------------- canonical witnesses of the registered findings
    let root = |first: u32| Object::Dictionary(dict(vec![("Type", name("Outlines")), ("First", rf((first, 0)))]));
    let img = |cs: Object| stream(dict(vec![("Subtype", name("Image")), ("Width", Object::Integer(1)), ("Height", Object::Integer(1)), ("ColorSpace", cs)]), b"");
    let mut pg = dict(vec![("Type", name("Page")), ("Parent", rf((2, 0)))]);
    pg.set("Resources", Object::Dictionary(dict(vec![("XObject", Object::Dictionary(dict(vec![("Im1", rf((30, 0)))])))])));
    let names_doc = |key: Object, val: Object, extra: Vec<(u32, Object)>| mini(vec![("Dests", Object::Dictionary(dict(vec![("Names", Object::Array(vec![key, val]))])))], extra);
    let w: Vec<(&str, &str, Document, &str, String)> = vec![
        ("F-C13-a", "pi:3_0", { let mut d = mini(vec![], vec![(30, img(Object::Array(vec![])))]); d.objects.insert((3, 0), Object::Dictionary(pg.clone())); d },
            "panic@src/document.rs", "get_page_images: ColorSpace [] -> array[0]".into()),
        ("F-C13-b", "outl", mini(outlines_to(11), vec![(10, root(11)), (11, item(vec![("Next", rf((11, 0)))]))]), "diverge", "get_outlines: cyclic Next never terminates".into()),
        ("F-C13-b", "toc", mini(outlines_to(11), vec![(10, root(11)), (11, item(vec![("Next", rf((11, 0))), ("Dest", fit_dest())]))]), "diverge", "get_toc: cyclic Next never terminates (vector grows until the allocator fails)".into()),
        ("F-C13-b2", "outl", mini(outlines_to(11), vec![(10, root(11)), (11, item(vec![("First", rf((11, 0)))]))]), "diverge", "get_outlines: cyclic First recurses until the stack overflows".into()),
        ("F-C13-c", "outl", mini(outlines_to(11), vec![(10, root(11)), (11, item(vec![("Dest", Object::Array(vec![]))]))]), "panic@src/outlines.rs", "build_outline_result: Dest [] -> obj_array[0]".into()),
        ("F-C13-c", "outl", mini(outlines_to(11), vec![(10, root(11)), (11, item(vec![("Dest", Object::Array(vec![rf((3, 0))]))]))]), "panic@src/outlines.rs", "build_outline_result: Dest [page] -> obj_array[1]".into()),
        ("F-C13-d", "dests", names_doc(lit(b"k"), rf((31, 0)), vec![(31, Object::Dictionary(dict(vec![("X", Object::Null)])))]), "panic@src/destinations.rs", "get_named_destinations: destination dictionary without D -> unwrap".into()),
        ("F-C13-d2", "dests", names_doc(lit(b"k"), rf((31, 0)), vec![(31, Object::Array(vec![rf((3, 0))]))]), "panic@src/destinations.rs", "get_named_destinations: destination array of length 1 -> val[1]".into()),
        ("F-C13-d3", "dests", names_doc(name("k"), Object::Dictionary(dict(vec![("D", fit_dest())])), vec![]), "panic@src/destinations.rs", "get_named_destinations: key is not a string -> as_str().unwrap()".into()),
        ("F-C13-d4", "dests", mini(vec![("Dests", rf((15, 0)))], vec![(15, Object::Dictionary(dict(vec![("Kids", Object::Array(vec![rf((15, 0))]))])))]), "diverge", "get_named_destinations: cyclic Kids recurses until the stack overflows".into()),
        ("F-C13-f", "pages", count_doc(&[i64::MAX, i64::MAX, 2]), "panic@core:sum-overflow", "get_pages: size_hint sums Count values -> usize overflow".into()),
        ("F-C13-f2", "pages", count_doc(&[1 << 62]), "panic@alloc:capacity-overflow", "get_pages: collect() reserves Count+1 elements -> capacity overflow".into()),
        ("F-C13-f3", "pages", count_doc(&[1 << 40]), "panic@abort:alloc", "get_pages: collect() reserves Count+1 elements -> 12 TB allocation fails, process aborts".into()),
    ];
    let mut batch = vec![]; let mut docs = vec![]; let mut meta = vec![];
    for (i, (fid, field, doc, expect, what)) in w.into_iter().enumerate() {
        let Some(_r) = c.case("witness", i as u64) else { continue };
        let targets = vec![(3, 0)];
        let hz = analyse(&doc, &targets);
        let req = request(&format!("one={}", field), &targets, &doc);
        c.nontrivial(&req);
        meta.push((fid.to_string(), field.to_string(), expect.to_string(), what, req.clone()));
        batch.push(Pending { case_id: c.cur, stream: "witness".into(), req, doc_targets: targets, hazard: hz }); docs.push(doc);
    }
    let before = c.corr.len();
    run_batch(c, batch, &docs);
    for (k, (fid, field, expect, what, _req)) in meta.into_iter().enumerate() {
        let got = c.corr.get(before + k).map(|x| x.impl_reply.clone()).unwrap_or_default();
        let v = got.strip_prefix(&format!("{}=", field)).unwrap_or(&got).to_string();
        c.witness(&fid, v.starts_with(&expect) || (expect == "diverge" && (v == "hang" || v.starts_with("abort:"))), &format!("{} — observed {}", what, v));
    }
}
