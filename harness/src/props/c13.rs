//! C13 — read-only queries are total on arbitrary object graphs.
//!
//! Every query runs on the REAL `Document` inside the isolated worker (`iso::run_isolated`):
//! a case line is the protocol request `c13 <mode> <fuel> <nt> <target ids…> <trailer> <k> <objects…>`;
//! the worker answers one `field=value` token per query (`ok…` / `err` / `panic@file:line`),
//! the parent adds `timeout` / `abort` for a dead worker and then isolates the offending field.
//! Correspondence: the same request line is answered by the Lean model (`Driver/C13.lean`) and the
//! replies are diffed field by field. Oracle: every field must be `ok…` or `err`.
use crate::codec::*;
use crate::ctx::{guard, Ctx};
use crate::rng::Rng;
use indexmap::IndexMap;
use lopdf::{Dictionary, Document, Object, ObjectId, Outline, Stream, StringFormat};
use serde_json::json;
use std::collections::{BTreeMap, HashSet};

// ------------------------------------------------------------------------------------------
// worker side: run the queries on the real document
// ------------------------------------------------------------------------------------------

fn ids_str(ids: &[ObjectId]) -> String {
    ids.iter().map(|(n, g)| format!("{}_{}", n, g)).collect::<Vec<_>>().join("+")
}
fn variant(o: &Object) -> String {
    match o {
        Object::Dictionary(d) => format!("Dictionary{}", d.len()),
        Object::Array(a) => format!("Array{}", a.len()),
        Object::Stream(s) => format!("Stream{}", s.dict.len()),
        o => o.enum_variant().to_string(),
    }
}
/// object as one token: protocol text with spaces replaced
fn obj_tok(o: &Object) -> String { show_obj(o).replace(' ', "~") }

fn site_class(site: &str, msg: &str) -> String {
    if msg.contains("capacity overflow") { return "alloc:capacity-overflow".into(); }
    if site.contains("iter/traits/accum.rs") && msg.contains("add with overflow") { return "core:sum-overflow".into(); }
    site.to_string()
}
fn run_field<F: FnOnce() -> Result<String, ()>>(f: F) -> String {
    match guard(f) {
        Ok(Ok(s)) => if s.is_empty() { "ok".into() } else { format!("ok,{}", s) },
        Ok(Err(())) => "err".into(),
        Err((site, msg)) => format!("panic@{}", site_class(&site, &msg)),
    }
}
fn e<T, E>(r: Result<T, E>) -> Result<T, ()> { r.map_err(|_| ()) }

fn outline_digest(o: &Outline, s: &mut String) {
    match o {
        Outline::Destination(d) => {
            s.push_str("d(");
            s.push_str(&d.title().map(obj_tok).unwrap_or("-".into())); s.push('|');
            s.push_str(&d.page().map(obj_tok).unwrap_or("-".into())); s.push(')');
        }
        Outline::SubOutlines(v) => { s.push('['); for x in v { outline_digest(x, s); } s.push(']'); }
    }
}
fn named_digest(n: &IndexMap<Vec<u8>, lopdf::Destination>) -> String {
    let mut s = format!("{}", n.len());
    for (k, d) in n.iter() {
        s.push_str(&format!(":{}({}|{})", hex_tok(k), d.title().map(obj_tok).unwrap_or("-".into()), d.page().map(obj_tok).unwrap_or("-".into())));
    }
    s
}
pub const WALKER_FIELDS: [&str; 3] = ["outl", "toc", "dests"];
pub const PAGES_FIELDS: [&str; 4] = ["pages", "iter", "toc", "text"];

/// all fields of a document, in the fixed order shared with the model
pub fn field_names(targets: &[ObjectId]) -> Vec<String> {
    let mut v: Vec<String> = vec!["cat".into(), "enc".into(), "cf".into(), "iter".into(), "pages".into()];
    for t in targets {
        let t = format!("{}_{}", t.0, t.1);
        for q in ["go", "gom", "gd", "pc", "pcc", "pr", "pf", "pa", "pi", "op", "fe", "nd"] { v.push(format!("{}:{}", q, t)); }
    }
    v.push("outl".into()); v.push("toc".into()); v.push("dests".into()); v.push("text".into());
    v
}

fn parse_id(s: &str) -> Option<ObjectId> { let (a, b) = s.split_once('_')?; Some((a.parse().ok()?, b.parse().ok()?)) }

fn one_byte_name(t: &[Option<u16>; 256]) -> &'static str {
    // distinguishing cells: 0x27 quotesingle/quoteright, 0x80, 0xA0, 0x18
    match (t[0x27], t[0x80], t[0x18], t[0x21]) {
        (Some(0x2019), None, None, _) => "Standard",
        (Some(0x27), Some(0xC4), None, _) => "MacRoman",
        (_, _, _, Some(0xF721)) => "MacExpert",
        (Some(0x27), Some(0x20AC), None, _) => "WinAnsi",
        (Some(0x27), Some(0x2022), Some(0x02D8), _) => "PDFDoc",
        _ => "?",
    }
}

fn font_encoding_field(doc: &Document, t: ObjectId) -> Result<String, ()> {
    let d = e(doc.get_dictionary(t))?;
    use lopdf::Encoding::*;
    match d.get_font_encoding(doc) {
        Ok(OneByteEncoding(t)) => Ok(format!("one:{}", one_byte_name(t))),
        Ok(SimpleEncoding(n)) => Ok(format!("simple:{}", hex_tok(n))),
        Ok(UnicodeMapEncoding(_)) => Ok("tounicode".into()),
        // failures inside get_encoding_from_to_unicode_cmap (filters / CMap parser: C09, C15)
        Err(lopdf::Error::ToUnicodeCMap(_)) | Err(lopdf::Error::Decompress(_)) | Err(lopdf::Error::Unimplemented(_)) | Err(lopdf::Error::IO(_)) => Ok("tounicode".into()),
        Err(_) => Err(()),
    }
}

pub fn eval_field(doc: &mut Document, field: &str) -> String {
    let (q, arg) = field.split_once(':').unwrap_or((field, ""));
    let t = parse_id(arg).unwrap_or((0, 0));
    match q {
        "cat" => run_field(|| Ok(format!("{}", e(doc.catalog())?.len()))),
        "enc" => run_field(|| Ok(format!("{}", e(doc.get_encrypted())?.len()))),
        "cf" => run_field(|| {
            let m = doc.get_crypt_filters();
            // the concrete filter type is not observable through `dyn CryptFilter`; names only
            Ok(format!("{}{}", m.len(), m.keys().map(|k| format!(":{}", hex_tok(k))).collect::<String>()))
        }),
        "iter" => run_field(|| { let v: Vec<ObjectId> = doc.page_iter().collect(); Ok(format!("{},{}", v.len(), ids_str(&v))) }),
        "pages" => run_field(|| {
            let m = doc.get_pages();
            let ok = m.keys().enumerate().all(|(i, k)| *k as usize == i + 1);
            let v: Vec<ObjectId> = m.values().cloned().collect();
            Ok(format!("{}{},{}", if ok { "" } else { "BADNUM" }, v.len(), ids_str(&v)))
        }),
        "go" => run_field(|| Ok(variant(e(doc.get_object(t))?))),
        "gom" => run_field(|| Ok(variant(e(doc.get_object_mut(t))?))),
        "gd" => run_field(|| Ok(format!("{}", e(doc.get_dictionary(t))?.len()))),
        "pc" => run_field(|| Ok(ids_str(&doc.get_page_contents(t)))),
        "pcc" => run_field(|| { e(doc.get_page_content(t))?; Ok(String::new()) }),
        "pr" => run_field(|| { let (d, ids) = e(doc.get_page_resources(t))?; Ok(format!("{},{}", if let Some(d) = d { format!("d{}", d.len()) } else { "n".into() }, ids_str(&ids))) }),
        "pf" => run_field(|| { let f = e(doc.get_page_fonts(t))?; Ok(f.iter().map(|(k, d)| format!("{}.{}", hex_tok(k), d.len())).collect::<Vec<_>>().join("+")) }),
        "pa" => run_field(|| Ok(format!("{}", e(doc.get_page_annotations(t))?.len()))),
        "pi" => run_field(|| {
            let v = e(doc.get_page_images(t))?;
            Ok(v.iter().map(|i| format!("{}_{}.{}.{}.{}.{}.{}", i.id.0, i.id.1, i.width, i.height,
                i.color_space.as_ref().map(|s| hex_tok(s.as_bytes())).unwrap_or("n".into()),
                i.bits_per_component.map(|b| b.to_string()).unwrap_or("n".into()),
                i.filters.as_ref().map(|f| f.len()).unwrap_or(0))).collect::<Vec<_>>().join("+"))
        }),
        "op" => run_field(|| { let p = e(doc.get_object_page(t))?; Ok(format!("{}_{}", p.0, p.1)) }),
        "fe" => run_field(|| font_encoding_field(doc, t)),
        "nd" => run_field(|| {
            let d = e(doc.get_dictionary(t))?;
            let mut named = IndexMap::new();
            e(doc.get_named_destinations(d, &mut named))?;
            Ok(named_digest(&named))
        }),
        "dests" => run_field(|| {
            // the tree `get_outlines` would use
            let cat = e(doc.catalog())?;
            let tree = match doc.get_dict_in_dict(cat, b"Dests") {
                Ok(t) => t,
                Err(_) => e(doc.get_dict_in_dict(e(doc.get_dict_in_dict(cat, b"Names"))?, b"Dests"))?,
            };
            let mut named = IndexMap::new();
            e(doc.get_named_destinations(tree, &mut named))?;
            Ok(named_digest(&named))
        }),
        "outl" => run_field(|| {
            let mut named = IndexMap::new();
            let o = e(doc.get_outlines(None, None, &mut named))?;
            let mut s = String::new();
            match o { Some(v) => { s.push('['); for x in &v { outline_digest(x, &mut s); } s.push(']'); } None => s.push_str("none") }
            Ok(format!("{},{}", s, named_digest(&named)))
        }),
        "toc" => run_field(|| {
            let t = e(doc.get_toc())?;
            Ok(format!("{}{},{}", t.toc.len(), t.toc.iter().map(|x| format!(":{}.{}", x.level, x.page)).collect::<String>(), t.errors.len()))
        }),
        "text" => run_field(|| {
            let n = doc.get_pages().len() as u32;
            let mut nums: Vec<u32> = (1..=n.min(3)).collect(); nums.push(99); nums.push(0);
            let chunks = doc.extract_text_chunks(&nums);
            let all = doc.extract_text(&nums);
            // decode_text on every font of the first pages
            for (_, pid) in doc.get_pages().into_iter().take(3) {
                if let Ok(fonts) = doc.get_page_fonts(pid) {
                    for (_, f) in fonts { if let Ok(enc) = f.get_font_encoding(doc) {
                        let _ = Document::decode_text(&enc, &[0, 1, 0x41, 0x80, 0xff, 0xd8, 0x00, 0xdc, 0x7f]);
                    } }
                }
            }
            Ok(format!("{}.{}", chunks.len(), if all.is_ok() { "ok" } else { "err" }))
        }),
        _ => "bad-field".into(),
    }
}

pub struct Case { pub mode: String, pub fuel: u64, pub targets: Vec<ObjectId>, pub doc: Document }

pub fn parse_case(line: &str) -> Option<Case> {
    let toks: Vec<&str> = line.split(' ').filter(|t| !t.is_empty()).collect();
    let mut it = toks.iter();
    if *it.next()? != "c13" { return None; }
    let mode = it.next()?.to_string();
    let fuel: u64 = it.next()?.parse().ok()?;
    let nt: usize = it.next()?.parse().ok()?;
    let mut targets = vec![];
    for _ in 0..nt { targets.push(parse_id(it.next()?)?); }
    let trailer = match parse_obj(&mut it)? { Object::Dictionary(d) => d, _ => return None };
    let k: usize = it.next()?.parse().ok()?;
    let mut doc = Document::with_version("1.5");
    doc.trailer = trailer;
    for _ in 0..k {
        let n: u32 = it.next()?.parse().ok()?;
        let g: u16 = it.next()?.parse().ok()?;
        let o = parse_obj(&mut it)?;
        doc.objects.insert((n, g), o);
        if n > doc.max_id { doc.max_id = n; }
    }
    if it.next().is_some() { return None; }
    Some(Case { mode, fuel, targets, doc })
}

/// worker entry: `mode` = `all` | `nowalk` | `one=<field>`
pub fn worker_case(case: &str) -> String {
    let Some(mut c) = parse_case(case) else { return "bad-case".into() };
    let fields: Vec<String> = if let Some(f) = c.mode.strip_prefix("one=") { vec![f.to_string()] }
        else { field_names(&c.targets).into_iter().filter(|f| c.mode != "nowalk" || !WALKER_FIELDS.contains(&f.as_str())).collect() };
    fields.iter().map(|f| format!("{}={}", f, eval_field(&mut c.doc, f))).collect::<Vec<_>>().join(" ")
}

pub fn run(c: &mut Ctx) { c.notes.push("C13: harness parent not yet written".into()); let _ = (json!({}), Rng::new(1), HashSet::<u8>::new(), BTreeMap::<u8, u8>::new(), Dictionary::new(), StringFormat::Literal, Stream::new(Dictionary::new(), vec![])); }
