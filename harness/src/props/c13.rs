//! C13 — not yet built
use crate::ctx::Ctx;
pub fn run(c: &mut Ctx) { c.notes.push("C13: not implemented".into()); }
pub fn worker_case(_case: &str) -> String { "unimplemented".into() }
