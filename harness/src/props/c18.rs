//! C18 — not yet built
use crate::ctx::Ctx;
pub fn run(c: &mut Ctx) { c.notes.push("C18: not implemented".into()); }
