//! C18 — dates convert to PDF date strings and back.
//!
//! Real code: `Object::from(chrono::DateTime<Local>|DateTime<Utc>|jiff::Zoned|jiff::Timestamp|time::OffsetDateTime)`,
//! `Object::as_datetime()` and the three `TryFrom<lopdf DateTime>` parsers.
//! Oracle: an independent reference formatter / parser for the PDF date form (own civil-from-days arithmetic).
//! Correspondence: the Lean model instantiated with the field-wise reading of the regenerated format strings.
//!
//! chrono's `DateTime<Local>` takes its offset from the `TZ` environment variable through a thread-local
//! cache: every offset is produced on a fresh thread after setting `TZ` to a POSIX string for that offset
//! (`<LOC>-05:30:00`); the harness checks that the value really carries the requested offset and counts the
//! cases where it does not (none expected).
use crate::codec::*;
use crate::ctx::{guard, Ctx};
use crate::rng::Rng;
use lopdf::{Object, StringFormat};
use serde_json::json;

#[derive(Clone, Copy, Debug, PartialEq)]
struct Fields { y: i64, mo: i64, d: i64, h: i64, mi: i64, s: i64, off: i64 }

// ---------------------------------------------------------------- reference arithmetic (Hinnant)
fn civil_from_days(z: i64) -> (i64, i64, i64) {
    let z = z + 719468;
    let era = if z >= 0 { z } else { z - 146096 } / 146097;
    let doe = z - era * 146097;
    let yoe = (doe - doe / 1460 + doe / 36524 - doe / 146096) / 365;
    let y = yoe + era * 400;
    let doy = doe - (365 * yoe + yoe / 4 - yoe / 100);
    let mp = (5 * doy + 2) / 153;
    let d = doy - (153 * mp + 2) / 5 + 1;
    let m = if mp < 10 { mp + 3 } else { mp - 9 };
    (if m <= 2 { y + 1 } else { y }, m, d)
}
fn days_from_civil(y: i64, m: i64, d: i64) -> i64 {
    let y = if m <= 2 { y - 1 } else { y };
    let era = if y >= 0 { y } else { y - 399 } / 400;
    let yoe = y - era * 400;
    let doy = (153 * ((m + 9) % 12) + 2) / 5 + d - 1;
    let doe = yoe * 365 + yoe / 4 - yoe / 100 + doy;
    era * 146097 + doe - 719468
}
fn fields_of(epoch: i64, off: i64) -> Fields {
    let local = epoch + off;
    let days = local.div_euclid(86400); let sod = local.rem_euclid(86400);
    let (y, mo, d) = civil_from_days(days);
    Fields { y, mo, d, h: sod / 3600, mi: sod / 60 % 60, s: sod % 60, off }
}
fn epoch_of(f: &Fields) -> i64 { days_from_civil(f.y, f.mo, f.d) * 86400 + f.h * 3600 + f.mi * 60 + f.s - f.off }

/// reference formatter: D:YYYYMMDDHHmmSS+HH'mm'
fn ref_format(f: &Fields) -> String {
    let a = f.off.abs();
    format!("D:{:04}{:02}{:02}{:02}{:02}{:02}{}{:02}'{:02}'", f.y, f.mo, f.d, f.h, f.mi, f.s, if f.off < 0 { '-' } else { '+' }, a / 3600, a / 60 % 60)
}
fn ref_format_z(f: &Fields) -> String { format!("D:{:04}{:02}{:02}{:02}{:02}{:02}Z", f.y, f.mo, f.d, f.h, f.mi, f.s) }

/// reference parser of ISO 32000-1 7.9.4 dates: D:YYYY[MM[DD[HH[mm[SS]]]]][O[HH'[mm']]]  -> (epoch, offset)
fn ref_parse(s: &str) -> Option<(i64, i64)> {
    let b = s.as_bytes();
    let mut i = 0;
    if b.starts_with(b"D:") { i = 2; }
    let num = |i: &mut usize, n: usize| -> Option<i64> {
        if *i + n > b.len() || !b[*i..*i + n].iter().all(|c| c.is_ascii_digit()) { return None; }
        let v = std::str::from_utf8(&b[*i..*i + n]).ok()?.parse().ok()?; *i += n; Some(v)
    };
    let y = num(&mut i, 4)?;
    let mut v = [1i64, 1, 0, 0, 0];
    for k in 0..5 { if i < b.len() && b[i].is_ascii_digit() { v[k] = num(&mut i, 2)?; } else { break; } }
    let mut off = 0i64;
    if i < b.len() {
        match b[i] {
            b'Z' => { i += 1; }
            b'+' | b'-' => {
                let neg = b[i] == b'-'; i += 1;
                let oh = num(&mut i, 2)?; let mut om = 0;
                if i < b.len() && b[i] == b'\'' { i += 1; }
                if i < b.len() && b[i].is_ascii_digit() { om = num(&mut i, 2)?; if i < b.len() && b[i] == b'\'' { i += 1; } }
                if oh > 23 || om > 59 { return None; }
                off = (oh * 3600 + om * 60) * if neg { -1 } else { 1 };
            }
            _ => return None,
        }
    }
    if i != b.len() { return None; }
    let f = Fields { y, mo: v[0], d: v[1], h: v[2], mi: v[3], s: v[4], off };
    // a date that exists (proleptic Gregorian), a time of day in range
    let leap = y % 4 == 0 && (y % 100 != 0 || y % 400 == 0);
    let dim = match f.mo { 2 => if leap { 29 } else { 28 }, 4 | 6 | 9 | 11 => 30, 1..=12 => 31, _ => return None };
    // offsets: hours 00-23, minutes 00-59 (the property's domain; what lies beyond is library specific, see below)
    if f.d < 1 || f.d > dim || f.h > 23 || f.mi > 59 || f.s > 59 || off.abs() >= 86400 || (off.abs() / 60 % 60 != off.abs() % 3600 / 60) { return None; }
    Some((epoch_of(&f), off))
}

// ---------------------------------------------------------------- real producers
fn obj_text(o: &Object) -> String { match o { Object::String(b, _) => String::from_utf8_lossy(b).to_string(), _ => format!("{:?}", o) } }
fn obj_is_literal(o: &Object) -> bool { matches!(o, Object::String(_, StringFormat::Literal)) }

fn posix_tz(off: i64) -> String {
    // POSIX: the sign is inverted (west positive)
    let a = off.abs();
    format!("<LOC>{}{:02}:{:02}:{:02}", if off > 0 { "-" } else { "+" }, a / 3600, a / 60 % 60, a % 60)
}
/// (object, offset actually carried) produced on a fresh thread so that chrono re-reads TZ
fn chrono_local(epoch: i64, off: i64) -> Result<(Object, i64), (String, String)> {
    std::env::set_var("TZ", posix_tz(off));
    let r = std::thread::spawn(move || {
        crate::ctx::install_panic_hook();
        guard(|| {
            use chrono::prelude::*;
            let dt: DateTime<Local> = Local.timestamp_opt(epoch, 0).single().expect("chrono instant");
            (Object::from(dt), dt.offset().local_minus_utc() as i64)
        })
    }).join().unwrap_or(Err(("thread".into(), "join".into())));
    std::env::set_var("TZ", "UTC");
    r
}
fn chrono_utc(epoch: i64) -> Object { use chrono::prelude::*; Object::from(Utc.timestamp_opt(epoch, 0).single().expect("chrono instant")) }
fn jiff_zoned(epoch: i64, off: i64) -> Object {
    let ts = jiff::Timestamp::from_second(epoch).expect("jiff instant");
    let tz = jiff::tz::TimeZone::fixed(jiff::tz::Offset::from_seconds(off as i32).expect("jiff offset"));
    Object::from(ts.to_zoned(tz))
}
fn jiff_ts(epoch: i64) -> Object { Object::from(jiff::Timestamp::from_second(epoch).expect("jiff instant")) }
fn time_odt(epoch: i64, off: i64) -> Object {
    let t = time::OffsetDateTime::from_unix_timestamp(epoch).expect("time instant")
        .to_offset(time::UtcOffset::from_whole_seconds(off as i32).expect("time offset"));
    Object::from(t)
}

// ---------------------------------------------------------------- real parsers: ok(epoch, offset?) | err
type Parsed = Result<Option<(i64, Option<i64>)>, (String, String)>;
/// `TryFrom<DateTime> for DateTime<Local>` while the local zone is at `tz_off`: (instant, offset, civil fields) of the value
fn parse_chrono_in_zone(o: &Object, tz_off: i64) -> Result<Option<(i64, i64, [i64; 6])>, (String, String)> {
    std::env::set_var("TZ", posix_tz(tz_off));
    let o2 = o.clone();
    let r = std::thread::spawn(move || {
        crate::ctx::install_panic_hook();
        guard(|| {
            use chrono::prelude::*;
            o2.as_datetime().and_then(|d| DateTime::<Local>::try_from(d).ok()).map(|d| {
                let n = d.naive_local();
                (d.timestamp(), d.offset().local_minus_utc() as i64,
                 [n.year() as i64, n.month() as i64, n.day() as i64, n.hour() as i64, n.minute() as i64, n.second() as i64])
            })
        })
    }).join().unwrap_or(Err(("thread".into(), "join".into())));
    std::env::set_var("TZ", "UTC");
    r
}
fn parse_chrono(o: &Object) -> Parsed {
    guard(|| { use chrono::prelude::*; o.as_datetime().and_then(|d| DateTime::<Local>::try_from(d).ok()).map(|d| (d.timestamp(), None)) })
}
fn parse_jiff(o: &Object) -> Parsed {
    guard(|| o.as_datetime().and_then(|d| jiff::Zoned::try_from(d).ok()).map(|z| (z.timestamp().as_second(), Some(z.offset().seconds() as i64))))
}
fn parse_time(o: &Object) -> Parsed {
    guard(|| o.as_datetime().and_then(|d| time::OffsetDateTime::try_from(d).ok()).map(|t| (t.unix_timestamp(), Some(t.offset().whole_seconds() as i64))))
}
fn show_parsed(p: &Parsed) -> String {
    match p { Ok(Some((e, Some(o)))) => format!("ok {} {}", e, o), Ok(Some((e, None))) => format!("ok {}", e), Ok(None) => "err".into(), Err((site, _)) => format!("panic {}", site) }
}

fn fields_req(which: &str, f: &Fields) -> String {
    let a = f.off.abs();
    format!("c18.fmt {} {} {} {} {} {} {} {} {} {}", which, f.y, f.mo, f.d, f.h, f.mi, f.s, if f.off < 0 { "-" } else { "+" }, a / 3600, a / 60 % 60)
}

/// one (instant, offset) pair through the 3 producers, the 2 UTC producers and the 3 parsers
fn check_pair(c: &mut Ctx, epoch: i64, off: i64, stream: &str) {
    let f = fields_of(epoch, off);
    let fz = fields_of(epoch, 0);
    let expect = ref_format(&f);
    let expect_z = ref_format_z(&fz);
    let case = json!({"epoch": epoch, "offset_s": off, "expected": expect});
    // ---- producers
    let mut outs: Vec<(&str, Object)> = vec![];
    match chrono_local(epoch, off) {
        Ok((o, carried)) => {
            if carried != off { c.count("chrono_local.offset_not_reached"); }
            else { outs.push(("chrono_local", o)); }
        }
        Err((site, msg)) => c.oracle_fail(&format!("panic@{}", site), &msg, case.clone()),
    }
    match guard(|| jiff_zoned(epoch, off)) { Ok(o) => outs.push(("jiff_zoned", o)), Err((site, msg)) => c.oracle_fail(&format!("panic@{}", site), &msg, case.clone()) }
    match guard(|| time_odt(epoch, off)) { Ok(o) => outs.push(("time_odt", o)), Err((site, msg)) => c.oracle_fail(&format!("panic@{}", site), &msg, case.clone()) }
    for (which, o) in &outs {
        let text = obj_text(o);
        c.count(&format!("fmt.{}", which));
        c.corr(fields_req(which, &f), format!("ok {}", hex_tok(text.as_bytes())));
        if text != expect || !obj_is_literal(o) {
            c.oracle_fail(&format!("fmt:{}", which), "date string differs from D:YYYYMMDDHHmmSS+HH'mm' of the reference formatter",
                json!({"epoch": epoch, "offset_s": off, "expected": expect, "got": text}));
        }
    }
    let mut outs_z: Vec<(&str, Object)> = vec![];
    match guard(|| chrono_utc(epoch)) { Ok(o) => outs_z.push(("chrono_utc", o)), Err((site, msg)) => c.oracle_fail(&format!("panic@{}", site), &msg, case.clone()) }
    match guard(|| jiff_ts(epoch)) { Ok(o) => outs_z.push(("jiff_ts", o)), Err((site, msg)) => c.oracle_fail(&format!("panic@{}", site), &msg, case.clone()) }
    if stream != "offsets" || off == 0 {
        for (which, o) in &outs_z {
            let text = obj_text(o);
            c.count(&format!("fmt.{}", which));
            c.corr(fields_req(which, &fz), format!("ok {}", hex_tok(text.as_bytes())));
            if text != expect_z { c.oracle_fail(&format!("fmt:{}", which), "UTC date string differs from D:YYYYMMDDHHmmSSZ", json!({"epoch": epoch, "expected": expect_z, "got": text})); }
        }
    }
    // ---- parsers: every producer's string through every backend (9 ordered pairs + 2x3 for the Z form)
    let parsers: [(&str, fn(&Object) -> Parsed); 3] = [("chrono", parse_chrono), ("jiff", parse_jiff), ("time", parse_time)];
    for (which, o) in outs.iter() {
        for (pname, p) in parsers.iter() {
            let r = p(o);
            c.count(&format!("pair.{}->{}", which, pname));
            c.corr(format!("c18.parse {} {}", pname, show_obj(o)), show_parsed(&r));
            match &r {
                Ok(Some((e, o2))) => {
                    if *e != epoch || o2.map_or(false, |x| x != off) {
                        c.oracle_fail(&format!("rt:{}->{}", which, pname), "parsing the date string back gives another instant / offset",
                            json!({"epoch": epoch, "offset_s": off, "text": obj_text(o), "got": show_parsed(&r)}));
                    }
                }
                Ok(None) => c.oracle_fail(&format!("rt-err:{}->{}", which, pname), "the date string does not parse back", json!({"epoch": epoch, "offset_s": off, "text": obj_text(o)})),
                Err((site, msg)) => c.oracle_fail(&format!("panic@{}", site), msg, case.clone()),
            }
        }
    }
    if stream != "offsets" || off == 0 {
        for (which, o) in outs_z.iter() {
            for (pname, p) in parsers.iter() {
                let r = p(o);
                c.count(&format!("pair.{}->{}", which, pname));
                c.corr(format!("c18.parse {} {}", pname, show_obj(o)), show_parsed(&r));
                match &r {
                    Ok(Some((e, o2))) => {
                        if *e != epoch || o2.map_or(false, |x| x != 0) {
                            c.oracle_fail(&format!("rt:{}->{}", which, pname), "parsing the Z date string back gives another instant / offset", json!({"epoch": epoch, "text": obj_text(o), "got": show_parsed(&r)}));
                        }
                    }
                    Ok(None) => c.oracle_fail(&format!("rt-err:{}->{}", which, pname), "the Z date string does not parse back", json!({"epoch": epoch, "text": obj_text(o)})),
                    Err((site, msg)) => c.oracle_fail(&format!("panic@{}", site), msg, case.clone()),
                }
            }
        }
    }
}

/// the text inside `DateTime("…")` of the Debug rendering (the field is private)
fn debug_inner(d: &lopdf::Object) -> Option<String> {
    let dt = d.as_datetime()?;
    let s = format!("{:?}", dt);
    let inner = s.strip_prefix("DateTime(\"")?.strip_suffix("\")")?;
    let mut out = String::new();
    let mut it = inner.chars().peekable();
    while let Some(ch) = it.next() {
        if ch != '\\' { out.push(ch); continue; }
        match it.next()? {
            'n' => out.push('\n'), 't' => out.push('\t'), 'r' => out.push('\r'), '0' => out.push('\0'),
            '\\' => out.push('\\'), '"' => out.push('"'), '\'' => out.push('\''),
            'u' => { it.next(); let mut h = String::new(); while let Some(c2) = it.next() { if c2 == '}' { break; } h.push(c2); } out.push(char::from_u32(u32::from_str_radix(&h, 16).ok()?)?); }
            _ => return None,
        }
    }
    Some(out)
}

pub fn run(c: &mut Ctx) {
    c.rule = "all 2879 UTC offsets -23:59..+23:59 at a fixed instant (exhaustive in both tiers) x 3 offset-carrying producers \
(chrono DateTime<Local> via TZ on a fresh thread, jiff Zoned, time OffsetDateTime) x 3 parsers = 9 ordered backend pairs, plus the two UTC \
producers (Z form) x 3 parsers; sampled (instant, offset) pairs over years 0001-9999 incl. leap days, year/century boundaries and the ends of \
the range; the specification's date-only, minute-precision and Z examples through all three backends; dates and times that do not exist (30 February, 29 February of common years, month 13, hour 24 …) in four forms; chrono's DateTime<Local> under three local zones (instant, offset, civil fields); From<time::Time> for 96 times of day; as_datetime on arbitrary objects. Non-trivial = offset != 0 or \
year < 1000 or a malformed object; distinct by (instant, offset) / request.".into();
    std::env::set_var("TZ", "UTC");
    // ---------------------------------------------------------------- all offsets at a fixed instant
    let fixed = 1_709_210_096i64; // 2024-02-29T12:34:56Z
    let mut idx = 0u64;
    for m in -(23 * 60 + 59)..=(23 * 60 + 59) {
        let Some(_r) = c.case("offsets", idx) else { idx += 1; continue }; idx += 1;
        let off = m as i64 * 60;
        if off != 0 { c.nontrivial(&format!("{} {}", fixed, off)); }
        check_pair(c, fixed, off, "offsets");
    }
    // ---------------------------------------------------------------- sampled instants
    let min_e = days_from_civil(1, 1, 2) * 86400;            // keep local time inside 0001..9999 for every offset
    let max_e = days_from_civil(9999, 12, 30) * 86400;
    let mut special: Vec<(i64, i64)> = vec![];
    for (y, mo, d, h, mi, s) in [(1i64, 1i64, 2i64, 0i64, 0i64, 0i64), (42, 3, 15, 1, 2, 3), (999, 12, 31, 23, 59, 59), (1000, 1, 1, 0, 0, 0), (1582, 10, 10, 12, 0, 0),
                                 (1600, 2, 29, 23, 59, 59), (1900, 2, 28, 23, 59, 59), (1900, 3, 1, 0, 0, 0), (1969, 12, 31, 23, 59, 59), (1970, 1, 1, 0, 0, 0),
                                 (1999, 12, 31, 23, 59, 59), (2000, 1, 1, 0, 0, 0), (2000, 2, 29, 12, 0, 0), (2023, 2, 28, 23, 59, 59), (2024, 2, 29, 0, 0, 0),
                                 (2024, 12, 31, 23, 59, 59), (2038, 1, 19, 3, 14, 8), (2100, 2, 28, 23, 59, 59), (9999, 12, 30, 0, 0, 0)] {
        let e = days_from_civil(y, mo, d) * 86400 + h * 3600 + mi * 60 + s;
        for off in [0i64, 60, -60, 19800, -34200, 86340, -86340, 3600, -3600 * 8] { special.push((e, off)); }
    }
    for (i, (e, off)) in special.iter().enumerate() {
        let Some(_r) = c.case("special", i as u64) else { continue };
        if *e + *off < min_e - 86400 || *e + *off > max_e + 86399 { continue; }
        c.nontrivial(&format!("{} {}", e, off));
        check_pair(c, *e, *off, "special");
    }
    let n = c.n(600, 20000);
    for i in 0..n {
        let Some(mut r) = c.case("sampled", i) else { continue };
        let e = match r.below(4) { 0 => min_e + r.below((max_e - min_e) as u64) as i64,
                                   1 => days_from_civil(1 + r.below(999) as i64, 1 + r.below(12) as i64, 1 + r.below(28) as i64) * 86400 + r.below(86400) as i64,
                                   2 => { let y = 1 + r.below(9998) as i64; days_from_civil(y, *r.pick(&[1, 12]), *r.pick(&[1, 31])) * 86400 + *r.pick(&[0i64, 86399, 43200]) }
                                   _ => { let y = 4 * (1 + r.below(2499) as i64); days_from_civil(y, 2, 28) * 86400 + r.below(2 * 86400) as i64 } };
        let e = e.clamp(min_e, max_e);
        let off = (r.range(-(23 * 60 + 59), 23 * 60 + 59)) * 60;
        c.nontrivial(&format!("{} {}", e, off));
        check_pair(c, e, off, "sampled");
        if i < 3 { let f = fields_of(e, off); c.sample(json!({"stream": "sampled", "epoch": e, "offset_s": off, "date_string": ref_format(&f)})); }
    }
    // ---------------------------------------------------------------- chrono: the value in the LOCAL zone
    // what `TryFrom<DateTime> for DateTime<Local>` returns is compared completely: instant, offset (the zone's, not the
    // string's) and civil fields, with the local zone at +00:00, +05:30 and -08:00
    {
        let zones: [(&str, i64); 3] = [("chrono_utc0", 0), ("chrono_p0530", 19800), ("chrono_m0800", -28800)];
        let n = c.n(120, 2000);
        for i in 0..n {
            let Some(mut r) = c.case("chrono_zone", i) else { continue };
            let e = (days_from_civil(2, 1, 1) * 86400 + r.below(((days_from_civil(9998, 12, 30) - days_from_civil(2, 1, 1)) * 86400) as u64) as i64).clamp(min_e, max_e);
            let off = r.range(-(23 * 60 + 59), 23 * 60 + 59) * 60;
            let f = fields_of(e, off);
            let o = Object::string_literal(if r.chance(1, 4) { ref_format_z(&fields_of(e, 0)) } else { ref_format(&f) });
            let (zname, zoff) = *r.pick(&zones);
            c.nontrivial(&format!("zone {} {} {}", e, off, zoff));
            let res = parse_chrono_in_zone(&o, zoff);
            let rep = match &res { Ok(Some((ts, lo, fl))) => format!("ok {} {} {} {} {} {} {} {}", ts, lo, fl[0], fl[1], fl[2], fl[3], fl[4], fl[5]),
                                   Ok(None) => "err".into(), Err((site, _)) => format!("panic {}", site) };
            c.corr(format!("c18.parse {} {}", zname, show_obj(&o)), rep.clone());
            c.count(&format!("chrono_zone.{}", zname));
            let lf = fields_of(e, zoff);
            match &res {
                Ok(Some((ts, lo, fl))) if *ts == e && *lo == zoff && *fl == [lf.y, lf.mo, lf.d, lf.h, lf.mi, lf.s] => {}
                _ => c.oracle_fail("chrono-local", "DateTime<Local> is not the parsed instant expressed in the local zone",
                        json!({"text": obj_text(&o), "zone_offset_s": zoff, "expected_epoch": e, "got": rep})),
            }
        }
    }
    // ---------------------------------------------------------------- dates that do not exist
    {
        let mut bad: Vec<String> = vec![];
        for (y, mo, d) in [(2023, 2, 30), (2023, 2, 29), (1900, 2, 29), (2100, 2, 29), (2023, 4, 31), (2023, 6, 31), (2023, 9, 31), (2023, 11, 31),
                           (2024, 2, 30), (2024, 13, 1), (2024, 0, 10), (2024, 1, 0), (2024, 1, 32), (2000, 2, 30)] {
            bad.push(format!("D:{:04}{:02}{:02}", y, mo, d));
            bad.push(format!("D:{:04}{:02}{:02}120000Z", y, mo, d));
            bad.push(format!("D:{:04}{:02}{:02}120000+05'30'", y, mo, d));
            bad.push(format!("D:{:04}{:02}{:02}1200-08'00'", y, mo, d));
        }
        for t in ["D:20240229240000Z", "D:20240229126000Z", "D:20240229120061Z", "D:20240229120000+05'60'", "D:20240229120000-26'00'"] { bad.push(t.into()); }
        let good = ["D:20000229", "D:20240229", "D:24000229120000Z", "D:00040229000000+00'00'", "D:20231231235959-23'59'"];
        for (i, text) in bad.iter().map(|s| s.as_str()).chain(good.iter().cloned()).enumerate() {
            let Some(_r) = c.case("validity", i as u64) else { continue };
            let o = Object::string_literal(text);
            c.nontrivial(text);
            let reference = ref_parse(text);
            for (pname, p) in [("chrono", parse_chrono as fn(&Object) -> Parsed), ("jiff", parse_jiff), ("time", parse_time)] {
                let r = p(&o);
                c.corr(format!("c18.parse {} {}", pname, show_obj(&o)), show_parsed(&r));
                c.count(&format!("validity.{}.{}", pname, if matches!(r, Ok(Some(_))) { "accepted" } else { "rejected" }));
                match (&r, reference) {
                    (Err((site, msg)), _) => c.oracle_fail(&format!("panic@{}", site), msg, json!({"text": text})),
                    (Ok(Some(_)), None) => c.oracle_fail(&format!("validity:{}", pname), "a date or time that does not exist was accepted", json!({"text": text, "got": show_parsed(&r)})),
                    (Ok(None), Some(_)) => c.oracle_fail(&format!("validity-err:{}", pname), "an existing date was rejected", json!({"text": text})),
                    (Ok(Some((e, _))), Some((re, _))) if *e != re => c.oracle_fail(&format!("validity-instant:{}", pname), "wrong instant", json!({"text": text, "got": show_parsed(&r)})),
                    _ => {}
                }
            }
        }
    }
    // offsets beyond the property's ±23:59: chrono's FixedOffset ends before 24:00, jiff's and time's offsets reach 25:59 —
    // outside the property, compared with the model only (and counted)
    // likewise a leap second `60`: chrono and jiff read it as second 59, time rejects it; no producer prints it
    for (i, text) in ["D:20240229120000+24'00'", "D:20240229120000-25'59'", "D:20240229120000+25'00'", "D:20240229120060Z", "D:20161231235960+00'00'"].iter().enumerate() {
        let Some(_r) = c.case("wide_offset", i as u64) else { continue };
        let o = Object::string_literal(*text);
        for (pname, p) in [("chrono", parse_chrono as fn(&Object) -> Parsed), ("jiff", parse_jiff), ("time", parse_time)] {
            let r = p(&o);
            c.corr(format!("c18.parse {} {}", pname, show_obj(&o)), show_parsed(&r));
            c.count(&format!("wide_offset.{}.{}", pname, if matches!(r, Ok(Some(_))) { "accepted" } else { "rejected" }));
        }
    }
    // ---------------------------------------------------------------- forms given in the specification
    let spec_forms: [(&str, bool); 8] = [("D:199812231952-08'00'", true), ("D:20040229", true), ("D:20240229123456+05'30'", true), ("D:20240229123456Z", true),
        ("D:202402291234Z", true), ("D:20240229123456-00'30'", true), ("D:00010102000000+00'00'", true), ("D:2024022912345", false)];
    for (i, (text, valid)) in spec_forms.iter().enumerate() {
        let Some(_r) = c.case("forms", i as u64) else { continue };
        let o = Object::string_literal(*text);
        c.nontrivial(text);
        let reference = ref_parse(text);
        for (pname, p) in [("chrono", parse_chrono as fn(&Object) -> Parsed), ("jiff", parse_jiff), ("time", parse_time)] {
            let r = p(&o);
            c.corr(format!("c18.parse {} {}", pname, show_obj(&o)), show_parsed(&r));
            c.count(&format!("forms.{}.{}", pname, if matches!(r, Ok(Some(_))) { "ok" } else { "err" }));
            match (&r, reference, valid) {
                (Err((site, msg)), _, _) => c.oracle_fail(&format!("panic@{}", site), msg, json!({"text": text})),
                (Ok(Some((e, o2))), Some((re, ro)), true) => if *e != re || o2.map_or(false, |x| x != ro) {
                    c.oracle_fail(&format!("form:{}", pname), "specification form parsed to another instant", json!({"text": text, "got": show_parsed(&r), "expected": [re, ro]})) },
                (Ok(None), Some(_), true) => c.oracle_fail(&format!("form-err:{}", pname), "a form given in the specification does not parse", json!({"text": text})),
                _ => {}
            }
        }
    }
    // witnesses of the fixed findings: reproduced = the defect is back
    if let Some(_r) = c.case("witness", 0) {
        let z = Object::string_literal("D:20240229123456Z");
        let d = Object::string_literal("D:20040229");
        let m = Object::string_literal("D:199812231952-08'00'");
        let rej = [&z, &d, &m].iter().filter(|o| !matches!(parse_time(o), Ok(Some(_)))).count();
        c.witness("F-C18-a", rej > 0, &format!("time backend rejects {} of the 3 forms D:…Z, D:YYYYMMDD, D:YYYYMMDDHHmm-08'00'", rej));
        let t = guard(|| obj_text(&Object::from(time::Time::MIDNIGHT))).unwrap_or_else(|(site, _)| format!("panic {}", site));
        let shape_ok = t.len() == 17 && t.starts_with("D:") && t.ends_with("000000Z") && t[2..10].bytes().all(|b| b.is_ascii_digit());
        c.witness("F-C18-b", !shape_ok, &format!("Object::from(time::Time::MIDNIGHT) = {:?}", t));
    }
    // ---------------------------------------------------------------- From<time::Time>: a time of day on the current UTC date
    {
        let mut tods: Vec<(u8, u8, u8)> = vec![];
        for h in 0..24u8 { for (mi, se) in [(0u8, 0u8), (59, 59), (7, 5), (30, 0)] { tods.push((h, mi, se)); } }
        for (i, (h, mi, se)) in tods.iter().enumerate() {
            let Some(_r) = c.case("time_of_day", i as u64) else { continue };
            let t = time::Time::from_hms(*h, *mi, *se).expect("time of day");
            match guard(|| Object::from(t)) {
                Ok(o) => {
                    let text = obj_text(&o);
                    c.count("fmt.time_time");
                    c.nontrivial(&format!("tod {} {} {}", h, mi, se));
                    // shape: D: + 8 digits of a date (the clock's) + HHmmSS + Z
                    let ok = text.len() == 17 && text.starts_with("D:") && text[2..10].bytes().all(|b| b.is_ascii_digit())
                        && text[10..] == format!("{:02}{:02}{:02}Z", h, mi, se) && obj_is_literal(&o);
                    if !ok { c.oracle_fail("fmt:time_time", "From<time::Time> is not D:YYYYMMDDHHmmSSZ with the given time of day", json!({"time": [h, mi, se], "got": text})); continue; }
                    let (y, mo, d): (i64, i64, i64) = (text[2..6].parse().unwrap(), text[6..8].parse().unwrap(), text[8..10].parse().unwrap());
                    let f = Fields { y, mo, d, h: *h as i64, mi: *mi as i64, s: *se as i64, off: 0 };
                    c.corr(fields_req("time_time", &f), format!("ok {}", hex_tok(text.as_bytes())));
                    // it is a date: every backend reads it back as that civil time in UTC
                    for (pname, p) in [("chrono", parse_chrono as fn(&Object) -> Parsed), ("jiff", parse_jiff), ("time", parse_time)] {
                        let r = p(&o);
                        c.corr(format!("c18.parse {} {}", pname, show_obj(&o)), show_parsed(&r));
                        match &r {
                            Ok(Some((e, o2))) if *e == epoch_of(&f) && o2.map_or(true, |x| x == 0) => c.count(&format!("pair.time_time->{}", pname)),
                            _ => c.oracle_fail(&format!("rt:time_time->{}", pname), "the date string of a time of day does not read back", json!({"text": text, "got": show_parsed(&r)})),
                        }
                    }
                }
                Err((site, msg)) => c.oracle_fail(&format!("panic@{}", site), &msg, json!({"time": [h, mi, se]})),
            }
        }
    }
    if let Some(n) = c.counters.get("chrono_local.offset_not_reached").cloned() {
        c.notes.push(format!("chrono DateTime<Local> could not be given the requested offset through TZ in {} cases (those cases ran without the chrono Local producer)", n));
    }
    // ---------------------------------------------------------------- as_datetime on arbitrary objects
    let n = c.n(800, 20000);
    for i in 0..n {
        let Some(mut r) = c.case("strip", i) else { continue };
        let o = match r.below(6) {
            0 => r.pick(&[Object::Null, Object::Integer(20240229), Object::Name(b"D:2024".to_vec()), Object::Array(vec![])]).clone(),
            1 => { let n = r.usize(24); Object::String(r.bytes(n), StringFormat::Literal) }
            2 => { let n = r.usize(30); Object::String((0..n).map(|_| *r.pick(b"D:'0123456789+-Zd;\"\\ \n")).collect(), StringFormat::Hexadecimal) }
            3 => { let s: String = (0..r.usize(8)).map(|_| *r.pick(&['D', ':', '\'', 'é', '€', '😀', '1', 'Z'])).collect(); Object::string_literal(s) }
            _ => { let f = fields_of(r.range(-60_000_000_000, 250_000_000_000), r.range(-1439, 1439) * 60); let mut t = ref_format(&f).into_bytes();
                   if r.chance(1, 3) && !t.is_empty() { let p = r.usize(t.len()); t[p] = *r.pick(b"D:'9Z+"); } Object::String(t, StringFormat::Literal) }
        };
        let req = format!("c18.strip {}", show_obj(&o));
        c.nontrivial(&req);
        match guard(|| (o.as_datetime().is_some(), debug_inner(&o))) {
            Ok((some, inner)) => {
                c.count(if some { "strip.some" } else { "strip.none" });
                let rep = match (&some, &inner) { (true, Some(t)) => format!("ok {}", hex_tok(t.as_bytes())), (false, _) => "none".into(), (true, None) => "undecodable-debug".into() };
                c.corr(req.clone(), rep);
                // oracle: exactly the bytes other than D : ' in order, when they are UTF-8; None otherwise / for non-strings
                let exp: Option<Vec<u8>> = match &o { Object::String(b, _) => { let v: Vec<u8> = b.iter().cloned().filter(|x| *x != b'D' && *x != b':' && *x != b'\'').collect(); if std::str::from_utf8(&v).is_ok() { Some(v) } else { None } } _ => None };
                if exp != inner.map(|t| t.into_bytes()) { c.oracle_fail("strip", "as_datetime is not the input without D : '", json!({"request": req})); }
            }
            Err((site, msg)) => c.oracle_fail(&format!("panic@{}", site), &msg, json!({"request": req})),
        }
    }
}
