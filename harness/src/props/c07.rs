//! C07 — incremental updates: latest revision wins, history preserved.
use crate::codec::*;
use crate::ctx::{guard, Ctx};
use crate::gen::*;
use crate::props::c01::{compare_docs, load_reply};
use crate::props::c02::*;
use crate::refwriter::*;
use crate::rng::Rng;
use lopdf::xref::XrefType;
use lopdf::{Dictionary, Document, IncrementalDocument, Object};
use serde_json::json;

/// base revision + k updates; each update replaces a random subset and adds new objects
pub fn gen_history(r: &mut Rng, k: usize) -> (Vec<Revision>, AObjects) {
    let base = gen_aobjects(r, 8, 0);
    let extra = gen_trailer_extra(r, &base);
    let mut latest = base.clone();
    let mut revs = vec![Revision { objects: base, trailer_extra: extra.clone() }];
    for _ in 0..k {
        let mut upd = AObjects::new();
        let ids: Vec<_> = latest.keys().cloned().collect();
        for id in &ids { if r.chance(1, 3) { let fresh = gen_aobjects(r, 1, 0); upd.insert(*id, fresh.into_values().next().unwrap()); } }
        let maxn = ids.iter().map(|i| i.0).max().unwrap_or(0);
        for (_, v) in gen_aobjects(r, 3, 0) { if r.chance(1, 2) { let n = maxn + 1 + upd.len() as u32; upd.insert((n, 0), v); } }
        if upd.is_empty() { upd.insert(ids[0], AObj { obj: Object::Integer(r.range(0, 99)), stream: None }); }
        for (id, v) in &upd { latest.insert(*id, v.clone()); }
        revs.push(Revision { objects: upd, trailer_extra: extra.clone() });
    }
    (revs, latest)
}

/// "the result can be loaded and updated again" for files of ANOTHER producer: the history file is opened as an
/// IncrementalDocument, one object is added, the update is saved and reloaded — every object of the history must still be
/// there (newest wins), the new object under the id `add_object` handed out, and that id must not have been in use.
fn update_again(c: &mut Ctx, r: &mut Rng, bytes: &[u8], latest: &AObjects, extra: &Dictionary, version: &str, helper_from: u32) {
    let low: Vec<u32> = crate::refwriter::LOW_HELPER_IDS.with(|l| l.borrow().clone());
    let Ok(Ok(mut inc)) = guard(|| IncrementalDocument::load_from(bytes)) else { c.count("update_again.load_failed"); return };
    let in_use: std::collections::BTreeSet<u32> = inc.get_prev_documents().objects.keys().map(|k| k.0).collect();
    // (no real numbers: they come back in normal form, which `compare_abstract` does not apply to the abstract document)
    let o = { let mut d = Dictionary::new(); d.set("Added", Object::string_literal(r.bytes(6))); d.set("N", Object::Integer(r.below(1000) as i64)); d.set("To", Object::Reference(*r.pick(&latest.keys().cloned().collect::<Vec<_>>()))); Object::Dictionary(d) };
    let id = inc.new_document.add_object(o.clone());
    if in_use.contains(&id.0) || latest.keys().any(|k| k.0 == id.0) {
        c.oracle_fail("incr:id-collision", &format!("add_object on the loaded history handed out {:?}, a number the file already uses (max_id = {})", id, inc.get_prev_documents().max_id), json!({"file": hex(bytes)}));
        return;
    }
    let kind = if matches!(inc.get_prev_documents().reference_table.cross_reference_type, XrefType::CrossReferenceStream) { "stream" } else { "table" };
    let nd = &inc.new_document;
    let req = format!("save_incr {} {} {} {} {} {} {}", kind, nd.max_id, hex_tok(nd.version.as_bytes()), hex_tok(&nd.binary_mark), hex_tok(bytes),
        show_obj(&Object::Dictionary(nd.trailer.clone())), show_objects(nd.objects.iter()));
    if bytes.windows(5).position(|w| w == b"%PDF-").unwrap_or(0) > 0 { c.count("update_again.bytes_before_header"); }
    let mut out = Vec::new();
    match guard(|| inc.save_to(&mut out)) {
        Ok(Ok(())) => {
            c.corr(req, format!("ok {} {} {}", hex_tok(&out), inc.new_document.max_id, show_obj(&Object::Dictionary(inc.new_document.trailer.clone()))));
            let mut want = latest.clone(); want.insert(id, AObj { obj: o, stream: None });
            crate::refwriter::LOW_HELPER_IDS.with(|l| *l.borrow_mut() = low);
            match guard(|| Document::load_mem(&out)) {
                Ok(Ok(d)) => { if let Some((sig, diff)) = compare_abstract(&d, &want, extra, version, helper_from.min(id.0 + 1).max(helper_from)) { if sig != "extra-object" || !diff.contains(&format!("{:?}", id)) { c.oracle_fail(&format!("incr-on-foreign:{}", sig), &format!("after one more incremental update of the history file: {}", diff), json!({"file": hex(&out)})); } } c.count("update_again.ok"); }
                Ok(Err(e)) => c.oracle_fail("incr-on-foreign:reload", &format!("the updated history file does not load: {:?}", e), json!({"file": hex(&out)})),
                Err((site, msg)) => c.oracle_fail(&format!("panic@{}", site), &msg, json!({})),
            }
        }
        Ok(Err(_)) => c.count("update_again.save_error"),
        Err((site, msg)) => c.oracle_fail(&format!("panic@{}", site), &msg, json!({})),
    }
}

pub fn run(c: &mut Ctx) {
    c.rule = "histories of 1..k update revisions over random base documents: (A) written by the reference writer in every cross-reference style \
(tables, streams, object streams, compressed or not), oracle = latest-wins abstract document; (B) replayed through IncrementalDocument \
(replace/add objects, save, reload after every step): prefix preserved, previous view unchanged, strict reader accepts, content = previous overridden \
by new; model bytes = real bytes (`save_incr`), model load = real load. Non-trivial = every case.".into();
    let kmax = if c.quick() { 3 } else { 6 };
    let mut counters = Counters::new();
    // ---- (A) reference-writer histories
    for i in 0..c.n(500, 8000) {
        let Some(mut r) = c.case("refhist", i) else { continue };
        let k = 1 + r.usize(kmax);
        let (revs, latest) = gen_history(&mut r, k);
        let style = gen_style(&mut r);
        // object streams in EVERY revision: an updated object is then a member of containers of several
        // revisions and the cross-reference table must pick the newest (finding F-C07-a, fixed by 943080b)
        if style.objstm { c.count("refhist.objstm_in_all_revisions"); }
        let version = "1.6";
        let helper_from = latest.keys().map(|k| k.0).max().unwrap() + 1;
        let w = write_file(&mut r, &mut counters, &style, version, &revs);
        c.count(&format!("refhist.revisions_{}", k + 1));
        check_file(c, &w.bytes, &latest, &revs[0].trailer_extra, version, helper_from, i < 2, &style);
        if i % 2 == 0 && !style.raw_cr_in_strings { update_again(c, &mut r, &w.bytes, &latest, &revs[0].trailer_extra, version, helper_from); }
    }
    // object streams in the updates only in ONE revision (base plain): allowed domain for "updated objects inside object streams"
    for i in 0..c.n(200, 3000) {
        let Some(mut r) = c.case("refhist_objstm", i) else { continue };
        let (revs, latest) = gen_history(&mut r, 1);
        let version = "1.6";
        let helper_from = latest.keys().map(|k| k.0).max().unwrap() + 1;
        // object streams in exactly ONE revision (base or update), so no number lives in containers of two revisions
        let mut style = gen_style(&mut r); style.xref = XrefStyle::Stream; style.objstm = true;
        let which = r.usize(2);
        let w = write_file_with(&mut r, &mut counters, &style, version, &revs, &|ri| ri == which);
        c.count(if which == 0 { "refhist_objstm.in_base" } else { "refhist_objstm.in_update" });
        check_file(c, &w.bytes, &latest, &revs[0].trailer_extra, version, helper_from, false, &style);
        if !style.raw_cr_in_strings { update_again(c, &mut r, &w.bytes, &latest, &revs[0].trailer_extra, version, helper_from); }
    }
    // witness F-C07-a: the same object in object streams of two revisions
    if let Some(mut r) = c.case("witness", 0) {
        let mut base = AObjects::new();
        base.insert((1, 0), AObj { obj: Object::Dictionary(Dictionary::new()), stream: None });
        base.insert((2, 0), AObj { obj: Object::string_literal("old"), stream: None });
        let mut upd = AObjects::new();
        upd.insert((2, 0), AObj { obj: Object::string_literal("new"), stream: None });
        let mut extra = Dictionary::new(); extra.set("Root", Object::Reference((1, 0)));
        let revs = vec![Revision { objects: base.clone(), trailer_extra: extra.clone() }, Revision { objects: upd.clone(), trailer_extra: extra.clone() }];
        let style = Style { xref: XrefStyle::Stream, objstm: true, compress: false, indirect_length: false, raw_cr_in_strings: false, junk_before_header: false, lexical_freedom: false };
        // force both into object streams: retry seeds until both revisions put object 2 into a container
        let mut reproduced = false; let mut found = false;
        for _ in 0..40 {
            let w = write_file(&mut r, &mut counters, &style, "1.6", &revs);
            if w.containers.len() >= 2 {
                if let Ok(d) = Document::load_mem(&w.bytes) {
                    if let Some(Object::String(s, _)) = d.objects.get(&(2, 0)) {
                        if !found { c.corr(format!("load {}", hex_tok(&w.bytes)), load_reply(&w.bytes)); }
                        found = true; if s == b"old" { reproduced = true; break; }
                    }
                }
            }
        }
        if found { c.witness("F-C07-a", reproduced, "object 2 stored in object streams of two revisions: the member of the older container is loaded"); }
        else { c.notes.push("F-C07-a witness could not be constructed".into()); }
    }
    // witness of the repaired finding F-C07-b: an incremental update of a file with bytes in front of the header
    if c.only.is_none() {
        let mut base = Document::with_version("1.5");
        let id1 = base.add_object(Object::Dictionary({ let mut d = Dictionary::new(); d.set("Type", Object::Name(b"Catalog".to_vec())); d }));
        base.trailer.set("Root", Object::Reference(id1));
        let mut reproduced = false; let mut what = String::new();
        // any number of bytes: a few, and around / beyond the first KiB
        for (stream, junk_len) in [false, true].into_iter().flat_map(|s| [11usize, 1019, 1020, 1024, 1025, 4096].into_iter().map(move |n| (s, n))) {
            base.reference_table.cross_reference_type = if stream { XrefType::CrossReferenceStream } else { XrefType::CrossReferenceTable };
            let mut saved = Vec::new(); let mut b2 = base.clone();
            if b2.save_to(&mut saved).is_err() { continue; }
            let mut f = if junk_len == 11 { b"%!PS-Adobe\n".to_vec() } else { let mut j = vec![b'#'; junk_len - 1]; j.push(b'\n'); j }; f.extend_from_slice(&saved);
            let Ok(mut inc) = IncrementalDocument::load_from(&f[..]) else { reproduced = true; what = "base with bytes before the header does not load".into(); continue };
            let nid = inc.new_document.add_object(Object::Integer(42));
            let mut out = Vec::new();
            if inc.save_to(&mut out).is_err() { continue; }
            match Document::load_mem(&out) { Ok(d) if d.objects.get(&nid) == Some(&Object::Integer(42)) && d.objects.contains_key(&id1) => {}, Ok(_) => { reproduced = true; what = format!("{} bytes before the header: objects missing after the update", junk_len); } Err(e) => { reproduced = true; what = format!("{} bytes before the header: {:?}", junk_len, e); } }
        }
        c.witness("F-C07-b", reproduced, &format!("incremental update of a file with bytes before %PDF-: {}", if reproduced { what } else { "loads".into() }));
    }
    // ---- (B) IncrementalDocument replay
    for i in 0..c.n(200, 3000) {
        let Some(mut r) = c.case("incr", i) else { continue };
        let mut doc = gen_doc(&mut r);
        let stream = r.chance(1, 2);
        doc.reference_table.cross_reference_type = if stream { XrefType::CrossReferenceStream } else { XrefType::CrossReferenceTable };
        let mut bytes = Vec::new();
        if doc.save_to(&mut bytes).is_err() { c.count("incr.base_save_error"); continue; }
        // third-party files end in LF, CRLF, CR or blank lines after %%EOF: all of it must be kept as the prefix
        if r.chance(1, 2) { bytes.extend_from_slice(*r.pick(&[&b"\n"[..], b"\r\n", b"\r", b"\n\n", b"\r\n\r\n"])); c.count("incr.base_with_trailing_eol"); }
        let Ok(mut expected) = Document::load_mem(&bytes) else { c.oracle_fail("incr:base-load", "base does not load", json!({})); continue };
        let k = 1 + r.usize(kmax);
        for step in 0..k {
            let Ok(mut inc) = IncrementalDocument::load_from(&bytes[..]) else { c.oracle_fail("incr:load", "file written by incremental save does not load as IncrementalDocument", json!({"file": hex(&bytes), "step": step})); break };
            let prev_view = inc.get_prev_documents().clone();
            // edits: replace some, add some
            let ids: Vec<_> = prev_view.objects.keys().cloned().filter(|id| !matches!(prev_view.objects[id], Object::Stream(ref s) if s.dict.has_type(b"XRef"))).collect();
            // modes: empty update (nothing replaced, nothing added), replace-only, replace+add; a replacement may be `null`
            let mode = r.usize(6);
            if mode == 0 { c.count("incr.empty_update"); }
            if mode == 1 { c.count("incr.replace_only"); }
            for id in &ids { if mode != 0 && r.chance(1, 3) { let o = if r.chance(1, 8) { c.count("incr.replaced_by_null"); Object::Null } else { gen_obj(&mut r, 3) }; inc.new_document.set_object(*id, o.clone()); expected.objects.insert(*id, o); c.count("incr.replaced"); } }
            for _ in 0..(if mode <= 1 { 0 } else { r.usize(3) }) { let o = if r.chance(1, 4) { Object::Stream(gen_stream(&mut r, 1)) } else { gen_obj(&mut r, 3) }; let id = inc.new_document.add_object(o.clone()); expected.objects.insert(id, o); c.count("incr.added"); }
            let kind = if stream { "stream" } else { "table" };
            let nd = &inc.new_document;
            let req = format!("save_incr {} {} {} {} {} {} {}", kind, nd.max_id, hex_tok(nd.version.as_bytes()), hex_tok(&nd.binary_mark), hex_tok(&bytes),
                show_obj(&Object::Dictionary(nd.trailer.clone())), show_objects(nd.objects.iter()));
            let mut out = Vec::new();
            let inc_before = inc.clone();
            match guard(|| inc.save_to(&mut out)) {
                Ok(Ok(())) => {
                    // the same update through a sink with short writes / Interrupted: the file must be the same
                    if (i + step as u64) % 3 == 0 {
                        let mut odd = OddSink::new(&mut r); let mut i2 = inc_before.clone();
                        match guard(|| i2.save_to(&mut odd)) {
                            Ok(Ok(())) => if odd.data != out { c.oracle_fail("incr:sink-dependent-bytes", &format!("step {}: incremental save through a sink with {} gives other bytes than into a Vec", step, odd.describe()), json!({"file": hex(&out), "odd": hex(&odd.data)})); },
                            Ok(Err(e)) => c.oracle_fail("incr:sink-dependent-bytes", &format!("incremental save through a sink with {} fails: {:?}", odd.describe(), e), json!({})),
                            Err((site, msg)) => c.oracle_fail(&format!("panic@{}", site), &msg, json!({})),
                        }
                        c.count("incr.odd_sink_saves");
                    }
                    c.corr(req, format!("ok {} {} {}", hex_tok(&out), inc.new_document.max_id, show_obj(&Object::Dictionary(inc.new_document.trailer.clone()))));
                    c.nontrivial(&format!("{}-{}", i, step));
                    if !out.starts_with(&bytes) { c.oracle_fail("incr:prefix", "previous bytes are not an unchanged prefix of the incremental save", json!({"step": step})); break; }
                    // previous view unmodified
                    let view = |d: &Document| format!("{} {} {} {}", d.max_id, d.version, show_obj(&Object::Dictionary(d.trailer.clone())), show_objects(d.objects.iter()));
                    if view(&prev_view) != view(inc.get_prev_documents()) {
                        c.oracle_fail("incr:prev-view", "the view of the previous revisions changed by saving", json!({"step": step}));
                    }
                    // only new objects + xref + Prev after the prefix: strict structural reader over all revisions
                    crate::props::c03::strict_twin(c, &out);
                    match crate::strict::strict_load(&out) {
                        Ok(sd) => { if sd.revisions != step + 2 { c.oracle_fail("incr:revisions", &format!("strict reader sees {} revisions, expected {}", sd.revisions, step + 2), json!({"file": hex(&out)})); } c.count("incr.strict_ok"); }
                        Err(rule) => { c.oracle_fail(&format!("incr:strict-reject:{}", rule.split(' ').take(3).collect::<Vec<_>>().join("-")), &format!("strict reader rejects the incremental file: {}", rule), json!({"file": hex(&out)})); }
                    }
                    // reload: content = previous overridden by new
                    c.corr(format!("load {}", hex_tok(&out)), load_reply(&out));
                    match Document::load_mem(&out) {
                        Ok(back) => {
                            let strip = |d: &Document| { let mut d = d.clone(); d.objects.retain(|_, o| !matches!(o, Object::Stream(s) if s.dict.has_type(b"XRef"))); d };
                            if let Some(diff) = compare_docs(&strip(&expected), &strip(&back), false) { c.oracle_fail("incr:content", &format!("step {}: {}", step, diff), json!({"file": hex(&out)})); break; }
                        }
                        Err(e) => { c.oracle_fail("incr:reload", &format!("step {}: incremental file does not load: {:?}", step, e), json!({"file": hex(&out)})); break; }
                    }
                    // the SAME value edited further and saved again without a reload (its trailer carries the bookkeeping of the
                    // save just made, max_id was raised by a cross-reference-stream save): still one appended revision on top of
                    // `bytes`, holding every object of new_document
                    if (i + step as u64) % 2 == 0 {
                        let mut exp2 = expected.clone();
                        for _ in 0..1 + r.usize(3) { let o = gen_obj(&mut r, 3); let id = inc.new_document.add_object(o.clone()); exp2.objects.insert(id, o); c.count("incr.resave_added"); }
                        let nd = &inc.new_document;
                        let req2 = format!("save_incr {} {} {} {} {} {} {}", kind, nd.max_id, hex_tok(nd.version.as_bytes()), hex_tok(&nd.binary_mark), hex_tok(&bytes),
                            show_obj(&Object::Dictionary(nd.trailer.clone())), show_objects(nd.objects.iter()));
                        let mut out2 = Vec::new();
                        match guard(|| inc.save_to(&mut out2)) {
                            Ok(Ok(())) => {
                                c.corr(req2, format!("ok {} {} {}", hex_tok(&out2), inc.new_document.max_id, show_obj(&Object::Dictionary(inc.new_document.trailer.clone()))));
                                if !out2.starts_with(&bytes) { c.oracle_fail("incr:prefix", "second save of the same value: previous bytes are not an unchanged prefix", json!({"step": step})); }
                                if let Err(rule) = crate::strict::strict_load(&out2) { c.oracle_fail(&format!("incr:strict-reject:{}", rule.split(' ').take(3).collect::<Vec<_>>().join("-")), &format!("second save of the same value: strict reader rejects the file: {}", rule), json!({"file": hex(&out2)})); }
                                c.corr(format!("load {}", hex_tok(&out2)), load_reply(&out2));
                                match Document::load_mem(&out2) {
                                    Ok(back) => {
                                        let strip = |d: &Document| { let mut d = d.clone(); d.objects.retain(|_, o| !matches!(o, Object::Stream(s) if s.dict.has_type(b"XRef"))); d };
                                        if let Some(diff) = compare_docs(&strip(&exp2), &strip(&back), false) { c.oracle_fail("incr:content", &format!("step {}, second save of the same value after more edits: {}", step, diff), json!({"file": hex(&out2)})); }
                                    }
                                    Err(e) => c.oracle_fail("incr:reload", &format!("step {}: second save of the same value does not load: {:?}", step, e), json!({"file": hex(&out2)})),
                                }
                                c.count("incr.resaved_same_value");
                            }
                            Ok(Err(_)) => c.count("incr.resave_error"),
                            Err((site, msg)) => c.oracle_fail(&format!("panic@{}", site), &msg, json!({})),
                        }
                    }
                    bytes = out;
                }
                Ok(Err(_)) => { c.count("incr.save_error"); break; }
                Err((site, msg)) => { c.oracle_fail(&format!("panic@{}", site), &msg, json!({})); break; }
            }
        }
    }
    for (k, v) in counters { c.count_n(&format!("choice.{}", k), v); }
}

