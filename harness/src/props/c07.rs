//! C07 — not yet built
use crate::ctx::Ctx;
pub fn run(c: &mut Ctx) { c.notes.push("C07: not implemented".into()); }
