//! C03 — not yet built
use crate::ctx::Ctx;
pub fn run(c: &mut Ctx) { c.notes.push("C03: not implemented".into()); }
