//! C03 — saved files are valid PDF for a strict third-party reader.
use crate::codec::*;
use crate::ctx::{guard, Ctx};
use crate::gen::*;
use crate::props::c01::{doc_request, norm, norm_dict, same};
use crate::strict::strict_load;
use lopdf::xref::XrefType;
use lopdf::{Document, IncrementalDocument, Object};
use serde_json::json;

const BOOKKEEPING: &[&[u8]] = &[b"Size", b"Prev", b"Type", b"W", b"Index", b"Length", b"Filter", b"DecodeParms"];

/// the second, independent strict reader (Lean, `Spec/Strict.lean`, driver op `strict`) must reach
/// the same verdict, revision count, object count, version and cross-reference-stream count
pub fn strict_twin(c: &mut Ctx, bytes: &[u8]) {
    let reply = match guard(|| strict_load(bytes)) {
        Ok(Ok(sd)) => format!("ok {} {} {} {}", sd.revisions, sd.objects.len(), hex_tok(&sd.version), sd.xref_stream_ids.len()),
        _ => "err".to_string(),
    };
    c.corr(format!("strict {}", hex_tok(bytes)), reply);
}

pub fn check_strict(c: &mut Ctx, before: &Document, bytes: &[u8], kind: &str, tag: &str) {
    strict_twin(c, bytes);
    match guard(|| strict_load(bytes)) {
        Ok(Ok(sd)) => {
            if sd.version != before.version.as_bytes() { c.oracle_fail("strict:version", "version differs", json!({"file": hex(bytes)})); }
            let skipped = |o: &Object| matches!(o.type_name(), Ok(b"ObjStm") | Ok(b"XRef") | Ok(b"Linearized"));
            let want: Vec<_> = before.objects.iter().filter(|(_, o)| !skipped(o)).collect();
            if want.len() != sd.objects.len() || want.iter().any(|(id, o)| !matches!(sd.objects.get(id), Some(b) if same(&norm(b), &norm(o)))) {
                c.oracle_fail("strict:objects", "the strict reader does not recover exactly the saved objects",
                    json!({"file": hex(bytes), "kind": kind, "want": want.len(), "got": sd.objects.len()}));
            }
            let strip = |d: &lopdf::Dictionary| { let mut n = norm_dict(d); for k in BOOKKEEPING { n.remove(k); } n };
            if strip(&before.trailer) != strip(&sd.trailer) { c.oracle_fail("strict:trailer", "trailer differs", json!({"file": hex(bytes)})); }
            c.count(&format!("{}.strict_ok", tag));
        }
        Ok(Err(rule)) => c.oracle_fail(&format!("strict-reject:{}", rule.split(' ').take(4).collect::<Vec<_>>().join("-")), &format!("strict reader rejects the saved file: {}", rule), json!({"file": hex(bytes), "kind": kind})),
        Err((site, msg)) => c.oracle_fail(&format!("harness-panic@{}", site), &msg, json!({"file": hex(bytes)})),
    }
}

/// incremental saves: previous file + appended revision must be strictly valid as a whole
fn incremental(c: &mut Ctx) {
    for i in 0..c.n(150, 2000) {
        let Some(mut r) = c.case("incr", i) else { continue };
        let mut doc = gen_doc(&mut r);
        let stream = r.chance(1, 2);
        doc.reference_table.cross_reference_type = if stream { XrefType::CrossReferenceStream } else { XrefType::CrossReferenceTable };
        let kind = if stream { "stream" } else { "table" };
        let mut base = Vec::new();
        if doc.save_to(&mut base).is_err() { continue; }
        // files ending with and without an end-of-line after %%EOF
        if r.chance(1, 2) { base.extend_from_slice(*r.pick(&[&b"\n"[..], b"\r\n"])); }
        let Ok(mut inc) = IncrementalDocument::load_from(&base[..]) else { c.oracle_fail("incr:load", "saved file does not load as IncrementalDocument", json!({"file": hex(&base)})); continue };
        let mut expected = inc.get_prev_documents().clone();
        let ids: Vec<_> = expected.objects.keys().cloned().filter(|id| !matches!(expected.objects[id], Object::Stream(ref s) if s.dict.has_type(b"XRef"))).collect();
        // modes: empty update, replace-only, replace+add
        let mode = r.usize(6);
        c.count(match mode { 0 => "incr.empty_update", 1 => "incr.replace_only", _ => "incr.replace_and_add" });
        for id in &ids { if mode != 0 && r.chance(1, 3) { let o = if r.chance(1, 8) { Object::Null } else { gen_obj(&mut r, 3) }; inc.new_document.set_object(*id, o.clone()); expected.objects.insert(*id, o); } }
        for _ in 0..(if mode <= 1 { 0 } else { 1 + r.usize(3) }) { let o = if r.chance(1, 4) { Object::Stream(gen_stream(&mut r, 1)) } else { gen_obj(&mut r, 3) }; let id = inc.new_document.add_object(o.clone()); expected.objects.insert(id, o); }
        expected.objects.retain(|_, o| !matches!(o, Object::Stream(s) if s.dict.has_type(b"XRef")));
        let nd = &inc.new_document;
        let req = format!("save_incr {} {} {} {} {} {} {}", kind, nd.max_id, hex_tok(nd.version.as_bytes()), hex_tok(&nd.binary_mark), hex_tok(&base),
            show_obj(&Object::Dictionary(nd.trailer.clone())), show_objects(nd.objects.iter()));
        let mut out = Vec::new();
        let inc_before = inc.clone();
        match guard(|| inc.save_to(&mut out)) {
            Ok(Ok(())) => {
                c.corr(req.clone(), format!("ok {} {} {}", hex_tok(&out), inc.new_document.max_id, show_obj(&Object::Dictionary(inc.new_document.trailer.clone()))));
                c.nontrivial(&req);
                c.count(if stream { "incr.xref_stream" } else { "incr.xref_table" });
                strict_twin(c, &out);
                if i % 3 == 0 {
                    let mut odd = OddSink::new(&mut r); let mut i2 = inc_before.clone();
                    match guard(|| i2.save_to(&mut odd)) {
                        Ok(Ok(())) => if odd.data != out { c.oracle_fail("sink-dependent-bytes", &format!("incremental save through a sink with {} gives other bytes than into a Vec", odd.describe()), json!({"file": hex(&out), "odd": hex(&odd.data), "kind": kind})); },
                        Ok(Err(e)) => c.oracle_fail("sink-dependent-bytes", &format!("incremental save through a sink with {} fails: {:?}", odd.describe(), e), json!({"kind": kind})),
                        Err((site, msg)) => c.oracle_fail(&format!("panic@{}", site), &msg, json!({"kind": kind})),
                    }
                    c.count("incr.odd_sink_saves");
                }
                // the two-revision file loaded as a plain Document and saved again (both cross-reference kinds): one revision,
                // nothing of the history may leak into it (a `Prev` left in the trailer points into the middle of an object)
                if let Ok(Ok(loaded)) = guard(|| Document::load_mem(&out)) {
                    for flat_stream in [false, true] {
                        let mut d2 = loaded.clone();
                        d2.reference_table.cross_reference_type = if flat_stream { XrefType::CrossReferenceStream } else { XrefType::CrossReferenceTable };
                        let before2 = d2.clone();
                        let mut flat = Vec::new();
                        if let Ok(Ok(())) = guard(|| d2.save_to(&mut flat)) {
                            check_strict(c, &before2, &flat, if flat_stream { "stream" } else { "table" }, "flatten");
                            if let Ok(Ok(sd)) = guard(|| strict_load(&flat)) { if sd.revisions != 1 { c.oracle_fail("strict:revisions", &format!("a plain save of a loaded history has {} revisions", sd.revisions), json!({"file": hex(&flat)})); } }
                        }
                    }
                }
                match guard(|| strict_load(&out)) {
                    Ok(Ok(sd)) => {
                        if sd.revisions != 2 { c.oracle_fail("strict:revisions", &format!("strict reader sees {} revisions, expected 2", sd.revisions), json!({"file": hex(&out)})); }
                        let bad = expected.objects.len() != sd.objects.len() || expected.objects.iter().any(|(id, o)| !matches!(sd.objects.get(id), Some(b) if same(&norm(b), &norm(o))));
                        if bad { c.oracle_fail("strict:objects", "the strict reader does not recover previous objects overridden by the new revision", json!({"file": hex(&out), "kind": kind})); }
                        c.count("incr.strict_ok");
                    }
                    Ok(Err(rule)) => c.oracle_fail(&format!("strict-reject:{}", rule.split(' ').take(4).collect::<Vec<_>>().join("-")), &format!("strict reader rejects the incremental file: {}", rule), json!({"file": hex(&out), "kind": kind})),
                    Err((site, msg)) => c.oracle_fail(&format!("harness-panic@{}", site), &msg, json!({"file": hex(&out)})),
                }
            }
            Ok(Err(_)) => c.count("incr.save_error"),
            Err((site, msg)) => c.oracle_fail(&format!("panic@{}", site), &msg, json!({"kind": kind})),
        }
    }
}

pub fn run(c: &mut Ctx) {
    incremental(c);
    c.rule = "documents as in C01 (all object kinds, sparse ids, generations, streams, any version/binary mark) x table|stream xref, plain save AND incremental save over previous files ending with/without an EOL; \
each saved file goes through the strict structural reader (every byte accounted for) and through the `save` correspondence (model bytes = real bytes). \
Non-trivial = document with >= 2 objects; distinct by request text.".into();
    let n = c.n(400, 6000);
    for i in 0..n {
        let Some(mut r) = c.case("doc", i) else { continue };
        let mut doc = gen_doc(&mut r);
        let stream = r.chance(1, 2);
        doc.reference_table.cross_reference_type = if stream { XrefType::CrossReferenceStream } else { XrefType::CrossReferenceTable };
        let kind = if stream { "stream" } else { "table" };
        let before = doc.clone();
        let req = doc_request(kind, &doc);
        if doc.objects.len() >= 2 { c.nontrivial(&req); }
        let mut buf = Vec::new();
        match guard(|| doc.save_to(&mut buf)) {
            Ok(Ok(())) => {
                c.corr(req, format!("ok {} {} {}", hex_tok(&buf), doc.max_id, show_obj(&Object::Dictionary(doc.trailer.clone()))));
                c.count(if stream { "doc.xref_stream" } else { "doc.xref_table" });
                check_strict(c, &before, &buf, kind, "doc");
                // the same document through a sink with short writes / Interrupted: the file must be the same
                if i % 3 == 0 {
                    let mut odd = OddSink::new(&mut r); let mut d2 = before.clone();
                    match guard(|| d2.save_to(&mut odd)) {
                        Ok(Ok(())) => if odd.data != buf { c.oracle_fail("sink-dependent-bytes", &format!("saving through a sink with {} gives other bytes than saving into a Vec", odd.describe()), json!({"file": hex(&buf), "odd": hex(&odd.data), "kind": kind})); },
                        Ok(Err(e)) => c.oracle_fail("sink-dependent-bytes", &format!("save through a sink with {} fails: {:?}", odd.describe(), e), json!({"kind": kind})),
                        Err((site, msg)) => c.oracle_fail(&format!("panic@{}", site), &msg, json!({"kind": kind})),
                    }
                    c.count("doc.odd_sink_saves");
                }
                // self-test of the oracle: a structural mutation of the file must not pass unnoticed
                if i % 4 == 0 && buf.len() > 40 {
                    let mut m = buf.clone();
                    match r.below(4) {
                        0 => { let k = r.usize(m.len()); m.remove(k); }
                        1 => { let k = r.usize(m.len()); m.insert(k, b' '); }
                        2 => { // change a digit of an xref offset / startxref
                               let pos: Vec<usize> = (m.len().saturating_sub(200)..m.len()).filter(|&k| m[k].is_ascii_digit()).collect();
                               if !pos.is_empty() { let k = *r.pick(&pos); m[k] = if m[k] == b'9' { b'8' } else { m[k] + 1 }; } }
                        _ => { let k = r.usize(m.len()); m[k] = m[k].wrapping_add(1); }
                    }
                    let accepted_same = match strict_load(&m) { Ok(sd) => {
                        let skipped = |o: &Object| matches!(o.type_name(), Ok(b"ObjStm") | Ok(b"XRef") | Ok(b"Linearized"));
                        let want: Vec<_> = before.objects.iter().filter(|(_, o)| !skipped(o)).collect();
                        want.len() == sd.objects.len() && want.iter().all(|(id, o)| matches!(sd.objects.get(id), Some(b) if same(&norm(b), &norm(o)))) }, Err(_) => false };
                    c.count(if accepted_same { "selftest.mutation_accepted_same_objects" } else { "selftest.mutation_detected" });
                }
                if i < 2 { c.sample(json!({"kind": kind, "objects": before.objects.len(), "file": String::from_utf8_lossy(&buf).chars().take(300).collect::<String>()})); }
            }
            Ok(Err(_)) => { c.corr(req, "err".into()); c.count("doc.save_error"); }
            Err((site, msg)) => c.oracle_fail(&format!("panic@{}", site), &msg, json!({"kind": kind})),
        }
    }
}
