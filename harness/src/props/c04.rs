//! C04 — not yet built
use crate::ctx::Ctx;
pub fn run(c: &mut Ctx) { c.notes.push("C04: not implemented".into()); }
pub fn worker_case(_case: &str) -> String { "unimplemented".into() }
