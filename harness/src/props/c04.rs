//! C04 — parsing untrusted bytes never panics, aborts or hangs.
//! Every case runs in the isolated worker (memory limit, per-case timeout, 2 MiB stack = the default of a spawned Rust thread); the
//! outcome class must be ok / err. `load` outcomes are also compared with the Lean model.
use crate::codec::*;
use crate::ctx::Ctx;
use crate::gen::*;
use crate::iso::run_isolated;
use crate::props::c01::load_reply;
use crate::props::c02::*;
use crate::refwriter::*;
use crate::rng::Rng;
use lopdf::content::Content;
use lopdf::xref::XrefType;
use lopdf::{Dictionary, Document, IncrementalDocument, Object, Stream};
use serde_json::json;

/// worker side: `<entry> <args…>`
pub fn worker_case(case: &str) -> String {
    let mut it = case.split(' ');
    let entry = it.next().unwrap_or("");
    let arg = |s: Option<&str>| s.and_then(unhex).unwrap_or_default();
    match entry {
        "L" => load_reply(&arg(it.next())),
        // the same file loaded 12 times in a row (schedule-dependent hangs of the parallel phase need a few tries)
        "AR" => { let b = arg(it.next()); let t = std::time::Instant::now(); let mut last = 0usize; let mut errs = 0;
                  for _ in 0..12 { match Document::load_mem(&b) { Ok(d) => last = d.objects.len(), Err(_) => errs += 1 } }
                  let hwm = std::fs::read_to_string("/proc/self/status").ok().and_then(|s| s.lines().find(|l| l.starts_with("VmHWM:")).and_then(|l| l.split_whitespace().nth(1).and_then(|v| v.parse::<u64>().ok()))).unwrap_or(0);
                  format!("{} rss_kb={} ms={}", if errs == 0 { format!("ok {}", last) } else { "err".into() }, hwm, t.elapsed().as_millis()) }
        // amplification probe: load, then report the peak resident set of this (fresh) worker process and the time taken
        "A" => { let b = arg(it.next()); let t = std::time::Instant::now();
                 let r = Document::load_mem(&b).map(|d| d.objects.len());
                 let hwm = std::fs::read_to_string("/proc/self/status").ok().and_then(|s| s.lines().find(|l| l.starts_with("VmHWM:")).and_then(|l| l.split_whitespace().nth(1).and_then(|v| v.parse::<u64>().ok()))).unwrap_or(0);
                 format!("{} rss_kb={} ms={}", match r { Ok(n) => format!("ok {}", n), Err(_) => "err".into() }, hwm, t.elapsed().as_millis()) }
        "I" => { let b = arg(it.next()); match IncrementalDocument::load_from(&b[..]) { Ok(d) => format!("ok {}", d.get_prev_documents().objects.len()), Err(_) => "err".into() } }
        "C" => { let b = arg(it.next()); match Content::decode(&b) { Ok(c) => format!("ok {}", c.operations.len()), Err(_) => "err".into() } }
        "T" => { let b = arg(it.next()); match lopdf::decode_text_string(&Object::string_literal(b)) { Ok(s) => format!("ok {}", s.chars().count()), Err(_) => "err".into() } }
        "F" => {
            // F <filter,filter…> <parms-obj-tokens…> ; <hex>
            let filters: Vec<&str> = it.next().unwrap_or("").split(',').filter(|s| !s.is_empty()).collect();
            let rest: Vec<&str> = it.collect();
            let semi = rest.iter().position(|t| *t == ";").unwrap_or(rest.len());
            let mut d = Dictionary::new();
            d.set("Filter", Object::Array(filters.iter().map(|f| Object::Name(f.as_bytes().to_vec())).collect()));
            let toks: Vec<&str> = rest[..semi].to_vec();
            if !toks.is_empty() { if let Some(p) = parse_obj(&mut toks.iter()) { d.set("DecodeParms", p); } }
            let data = rest.get(semi + 1).and_then(|h| unhex(h)).unwrap_or_default();
            let st = Stream { dict: d, content: data, allows_compression: true, start_position: None };
            match st.decompressed_content() { Ok(v) => format!("ok {}", v.len()), Err(_) => "err".into() }
        }
        "O" => {
            // object stream / xref stream decoding through a whole file is covered by L; here: ObjectStream::new directly
            let rest: Vec<&str> = it.collect();
            let semi = rest.iter().position(|t| *t == ";").unwrap_or(rest.len());
            let toks: Vec<&str> = rest[..semi].to_vec();
            let d = match parse_obj(&mut toks.iter()) { Some(Object::Dictionary(d)) => d, _ => Dictionary::new() };
            let data = rest.get(semi + 1).and_then(|h| unhex(h)).unwrap_or_default();
            let mut st = Stream { dict: d, content: data, allows_compression: true, start_position: None };
            match lopdf::ObjectStream::new(&mut st) { Ok(o) => format!("ok {}", o.objects.len()), Err(_) => "err".into() }
        }
        "M" => {
            // ToUnicode CMap text -> font encoding -> decode some bytes
            let cmap = arg(it.next()); let text = arg(it.next());
            let mut doc = Document::with_version("1.5");
            let sid = doc.add_object(Object::Stream(Stream::new(Dictionary::new(), cmap)));
            let mut font = Dictionary::new(); font.set("Type", Object::Name(b"Font".to_vec())); font.set("Encoding", Object::Name(b"Identity-H".to_vec())); font.set("ToUnicode", Object::Reference(sid));
            match font.get_font_encoding(&doc) { Ok(enc) => match Document::decode_text(&enc, &text) { Ok(s) => format!("ok {}", s.chars().count()), Err(e) => format!("err decode {:?}", e).chars().take(80).collect() }, Err(e) => format!("err font {:?}", e).chars().take(80).collect() }
        }
        _ => "bad-entry".into(),
    }
}

const AMP_N: usize = 3500;
/// (kind, worker case): inputs of 30–120 kB built so that a naive reader does quadratic work or keeps quadratically many copies
fn amplification_cases() -> Vec<(&'static str, String)> {
    let n = AMP_N;
    let big_array = |m: usize| { let mut b = String::from("["); for _ in 0..m { b.push_str("1 "); } b.push(']'); b };
    let file_with = |objs: &[(u32, String)], xref_entries: &[(u32, usize)]| -> Vec<u8> {
        // objs are written in order; xref_entries: (number, index into objs whose offset to use)
        let mut f = b"%PDF-1.5\n".to_vec(); let mut offs = vec![];
        for (num, body) in objs { offs.push(f.len()); f.extend_from_slice(format!("{} 0 obj\n{}\nendobj\n", num, body).as_bytes()); }
        let xs = f.len();
        let maxn = xref_entries.iter().map(|e| e.0).max().unwrap_or(0);
        f.extend_from_slice(format!("xref\n0 {}\n0000000000 65535 f \n", maxn + 1).as_bytes());
        for k in 1..=maxn { match xref_entries.iter().find(|e| e.0 == k) { Some(e) => f.extend_from_slice(format!("{:010} 00000 n \n", offs[e.1]).as_bytes()), None => f.extend_from_slice(b"0000000000 65535 f \n") } }
        f.extend_from_slice(format!("trailer\n<</Size {}/Root 1 0 R>>\nstartxref\n{}\n%%EOF", maxn + 1, xs).as_bytes());
        f
    };
    let mut v = vec![];
    // (a) object stream: n index pairs, every offset 0, one array of n integers
    { let mut index = String::new(); for i in 0..n { index.push_str(&format!("{} 0 ", 10 + i)); }
      let content = format!("{}{}", index, big_array(n));
      let stm = format!("<</Type/ObjStm/N {}/First {}/Length {}>>\nstream\n{}\nendstream", n, index.len(), content.len(), content);
      let f = file_with(&[(1, "<</Type/Catalog>>".into()), (2, stm)], &[(1, 0), (2, 1)]);
      v.push(("objstm-alias", format!("A {}", hex_tok(&f)))); }
    // (b) the same members listed at DISTINCT, properly increasing offsets (one small object each): must be fine
    { let mut index = String::new(); let mut body = String::new();
      for i in 0..n { index.push_str(&format!("{} {} ", 10 + i, body.len())); body.push_str("[1 2 3] "); }
      let content = format!("{}{}", index, body);
      let stm = format!("<</Type/ObjStm/N {}/First {}/Length {}>>\nstream\n{}\nendstream", n, index.len(), content.len(), content);
      let f = file_with(&[(1, "<</Type/Catalog>>".into()), (2, stm)], &[(1, 0), (2, 1)]);
      v.push(("objstm-distinct", format!("A {}", hex_tok(&f)))); }
    // (c) cross-reference table: n entries all pointing at one large object
    { let entries: Vec<(u32, usize)> = std::iter::once((1u32, 0usize)).chain((2..(n as u32 + 2)).map(|k| (k, 1usize))).collect();
      let f = file_with(&[(1, "<</Type/Catalog>>".into()), (2, big_array(n))], &entries);
      v.push(("xref-alias", format!("A {}", hex_tok(&f)))); }
    // (d) object stream: members at nested offsets of one deeply nested array (each `[` of 60 levels is a member)
    { let depth = 60usize; let mut body = String::new(); for _ in 0..depth { body.push('['); } for _ in 0..n { body.push_str("1 "); } for _ in 0..depth { body.push(']'); }
      let mut index = String::new(); for i in 0..depth { index.push_str(&format!("{} {} ", 10 + i, i)); }
      let content = format!("{}{}", index, body);
      let stm = format!("<</Type/ObjStm/N {}/First {}/Length {}>>\nstream\n{}\nendstream", depth, index.len(), content.len(), content);
      let f = file_with(&[(1, "<</Type/Catalog>>".into()), (2, stm)], &[(1, 0), (2, 1)]);
      v.push(("objstm-nested", format!("A {}", hex_tok(&f)))); }
    // (f) the deepest nesting the parser accepts (MAX_NESTING - 1 closed arrays), as a plain object and as an object-stream member,
    //     in files with 2 and with 300 cross-reference entries (rayon's own recursion shares the worker's stack with the parser)
    for (tag, entries) in [("deep-nesting-2", 2usize), ("deep-nesting-300", 300usize)] {
        let depth = 127usize; let mut body = String::new(); for _ in 0..depth { body.push('['); } body.push_str("1 2 3"); for _ in 0..depth { body.push(']'); }
        let index = "400 0 ";
        let content = format!("{}{}", index, body);
        let stm = format!("<</Type/ObjStm/N 1/First {}/Length {}>>\nstream\n{}\nendstream", index.len(), content.len(), content);
        let mut objs: Vec<(u32, String)> = vec![(1, "<</Type/Catalog>>".into()), (2, body.clone()), (3, stm)];
        for k in 3..entries { objs.push((k as u32 + 1, "null".into())); }
        let ents: Vec<(u32, usize)> = (0..objs.len()).map(|i| (objs[i].0, i)).collect();
        let f = file_with(&objs, &ents);
        v.push((tag, format!("A {}", hex_tok(&f))));
    }
    // (g) many object streams with members that take a while to parse, loaded repeatedly: the nested parallel iterators of the
    //     object pass and of ObjectStream::new steal work from each other — nothing may be held across them
    { let containers = 32usize; let members = 64usize;
      let mut objs: Vec<(u32, String)> = vec![(1, "<</Type/Catalog>>".into())];
      let member = { let mut m = String::from("["); for k in 0..150 { m.push_str(&format!("{} ", k)); } m.push(']'); m };
      for cidx in 0..containers {
          let mut index = String::new(); let mut body = String::new();
          for k in 0..members { index.push_str(&format!("{} {} ", 1000 + cidx * members + k, body.len())); body.push_str(&member); body.push(' '); }
          let content = format!("{}{}", index, body);
          objs.push((2 + cidx as u32, format!("<</Type/ObjStm/N {}/First {}/Length {}>>\nstream\n{}\nendstream", members, index.len(), content.len(), content)));
      }
      let ents: Vec<(u32, usize)> = (0..objs.len()).map(|i| (objs[i].0, i)).collect();
      let f = file_with(&objs, &ents);
      v.push(("many-objstm", format!("AR {}", hex_tok(&f)))); }
    // (e) n streams sharing one indirect Length object
    { let mut objs: Vec<(u32, String)> = vec![(1, "<</Type/Catalog>>".into()), (2, "3".into())];
      for k in 0..n.min(1500) { objs.push((3 + k as u32, "<</Length 2 0 R>>\nstream\nabc\nendstream".into())); }
      let entries: Vec<(u32, usize)> = (0..objs.len()).map(|i| (objs[i].0, i)).collect();
      let f = file_with(&objs, &entries);
      v.push(("shared-length", format!("A {}", hex_tok(&f)))); }
    v
}

const EXTREMES: &[&str] = &["0", "1", "-1", "2", "255", "256", "65535", "65536", "2147483647", "2147483648", "4294967295", "4294967296", "4000000000",
    "9223372036854775807", "-9223372036854775808", "9223372036854775808", "18446744073709551615", "18446744073709551616", "99999999999999", "1099511627776",
    "4611686018427387904", "-5", "00000000000000000000000007", "1e5", "0.5", "999999999999999999999999999999"];

/// replace one run of digits in `b` by an extreme number
fn mutate_number(r: &mut Rng, b: &mut Vec<u8>) {
    let runs: Vec<(usize, usize)> = { let mut v = vec![]; let mut i = 0; while i < b.len() { if b[i].is_ascii_digit() { let s = i; while i < b.len() && b[i].is_ascii_digit() { i += 1; } v.push((s, i)); } else { i += 1; } } v };
    if runs.is_empty() { return; }
    let (s, e) = *r.pick(&runs);
    let x = r.pick(EXTREMES).as_bytes().to_vec();
    b.splice(s..e, x);
}
fn mutate_bytes(r: &mut Rng, b: &mut Vec<u8>) {
    if b.is_empty() { b.push(r.byte()); return; }
    match r.below(9) {
        0 => { let k = r.usize(b.len()); b[k] ^= 1 << r.below(8); }
        1 => { let k = r.usize(b.len()); b[k] = special_byte(r); }
        2 => { let k = r.usize(b.len()); let n = 1 + r.usize(16.min(b.len() - k)); b.drain(k..k + n); }
        3 => { let k = r.usize(b.len()); let n = 1 + r.usize(32.min(b.len() - k)); let chunk = b[k..k + n].to_vec(); let at = r.usize(b.len()); for (i, x) in chunk.into_iter().enumerate() { b.insert(at + i, x); } }
        4 => { let k = r.usize(b.len()); b.truncate(k); }
        5 => { const KW: &[&[u8]] = &[b"stream\n", b"endstream", b"endobj", b" obj ", b"<<", b">>", b"[", b"]", b"(", b")", b"xref\n", b"trailer", b"startxref\n", b"%%EOF", b" R ", b"/Length ", b"/Prev ", b"/W [", b"/Index [", b"/Filter /FlateDecode", b"/Type /ObjStm", b"/Type /XRef", b"BI ", b" ID ", b" EI "];
               let k = r.usize(b.len() + 1); let kw: &[u8] = *r.pick(KW); for (i, x) in kw.iter().enumerate() { b.insert(k + i, *x); } }
        6 | 7 => mutate_number(r, b),
        _ => { let k = r.usize(b.len()); let n = r.usize(64); for _ in 0..n { b.insert(k, *r.pick(b"[<(")); } }
    }
}

fn valid_file(r: &mut Rng, counters: &mut Counters) -> Vec<u8> {
    match r.below(5) {
        0 | 1 => { let mut d = gen_doc(r); d.reference_table.cross_reference_type = if r.chance(1, 2) { XrefType::CrossReferenceStream } else { XrefType::CrossReferenceTable }; let mut b = vec![]; let _ = d.save_to(&mut b); b }
        2 | 3 => { let o = gen_aobjects(r, 8, 0); let e = gen_trailer_extra(r, &o); let st = gen_style(r); write_file(r, counters, &st, "1.6", &[Revision { objects: o, trailer_extra: e }]).bytes }
        _ => { let names = ["example.pdf", "Incremental.pdf", "unicode.pdf"]; std::fs::read(format!("{}/assets/{}", repo_dir(), r.pick(&names))).unwrap_or_default() }
    }
}
fn repo_dir() -> String { std::fs::read_link(concat!(env!("CARGO_MANIFEST_DIR"), "/../repo-link")).map(|p| p.to_string_lossy().to_string()).unwrap_or("/repo".into()) }

/// grammar-directed adversarial constructions
fn adversarial(r: &mut Rng, i: u64) -> (String, String) {
    let x = |r: &mut Rng| r.pick(EXTREMES).to_string();
    match i % 13 {
        0 => { // xref stream with extreme W / Index / Size
            let body = b"\x01\x00\x10\x00\x01\x00\x20\x00";
            let f = format!("%PDF-1.5\n1 0 obj\n<</Type/Catalog>>\nendobj\n2 0 obj\n<</Type/XRef/Size {}/W[{} {} {}]/Index[{} {}]/Root 1 0 R/Length {}>>\nstream\n", x(r), x(r), x(r), x(r), x(r), x(r), body.len());
            let mut b = f.into_bytes(); b.extend_from_slice(body); b.extend_from_slice(b"\nendstream\nendobj\nstartxref\n41\n%%EOF");
            ("xrefstream-extremes".into(), format!("L {}", hex_tok(&b))) }
        1 => { // xref table with extreme subsection header / entries; half the time the count matches the two entries and
               // the start is one of the largest numbers (so that the numbering of the entries runs past the type's range)
            let (start, count) = if r.chance(1, 2) { (r.pick(&["18446744073709551615", "18446744073709551614", "4294967295", "4294967294", "9223372036854775807", "18446744073709551616"]).to_string(), r.pick(&["1", "2"]).to_string()) } else { (x(r), x(r)) };
            let f = format!("%PDF-1.4\n1 0 obj\n<</Type/Catalog>>\nendobj\nxref\n0 2\n0000000000 65535 f \n0000000009 00000 n \n{} {}\n{:0>10} {:0>5} n \n0000000009 00000 n \ntrailer\n<</Size {}/Root 1 0 R/Prev {}>>\nstartxref\n41\n%%EOF", start, count, x(r), x(r), x(r), x(r));
            ("xreftable-extremes".into(), format!("L {}", hex_tok(f.as_bytes()))) }
        2 => { // nesting bombs
            let depth = *r.pick(&[50usize, 127, 128, 129, 1000, 20000, 100000]);
            let open: &[u8] = *r.pick(&[&b"["[..], b"<</A", b"[<</B[", b"("]);
            let mut o = vec![]; for _ in 0..depth { o.extend_from_slice(open); }
            let f = [b"%PDF-1.4\n1 0 obj\n".to_vec(), o, b"\nendobj\nxref\n0 2\n0000000000 65535 f \n0000000009 00000 n \ntrailer\n<</Size 2/Root 1 0 R>>\nstartxref\n".to_vec()].concat();
            let sx = f.len() - "xref\n0 2\n0000000000 65535 f \n0000000009 00000 n \ntrailer\n<</Size 2/Root 1 0 R>>\nstartxref\n".len();
            let mut f = f; f.extend_from_slice(format!("{}\n%%EOF", sx).as_bytes());
            ("nesting-bomb".into(), format!("L {}", hex_tok(&f))) }
        3 => { // nesting bombs in content streams
            let depth = *r.pick(&[100usize, 129, 5000, 50000]);
            let mut o = vec![]; let open: &[u8] = *r.pick(&[&b"["[..], b"<</A ", b"("]); for _ in 0..depth { o.extend_from_slice(open); }
            ("content-nesting".into(), format!("C {}", hex_tok(&o))) }
        4 => { // Prev cycles / self references / Length cycles
            let f = format!("%PDF-1.4\n1 0 obj\n<</Length 2 0 R>>\nstream\nabc\nendstream\nendobj\n2 0 obj\n<</Length {} 0 R>>\nstream\nx\nendstream\nendobj\nxref\n0 3\n0000000000 65535 f \n0000000009 00000 n \n0000000062 00000 n \ntrailer\n<</Size 3/Root 1 0 R/Prev {}>>\nstartxref\n116\n%%EOF", 1 + r.below(2), *r.pick(&["116", "0", "9", "62"]));
            ("cycles".into(), format!("L {}", hex_tok(f.as_bytes()))) }
        5 => { // filters with extreme decode parameters
            let filt = *r.pick(&["FlateDecode", "LZWDecode", "ASCII85Decode", "FlateDecode,ASCII85Decode", "ASCII85Decode,LZWDecode", "LZWDecode,LZWDecode,LZWDecode"]);
            let parms = format!("D5 {} i{} {} i{} {} i{} {} i{} {} i{}", hex(b"Predictor"), r.pick(&["10", "12", "15", "2", "1", "14"]), hex(b"Columns"), clampi(&x(r)), hex(b"Colors"), clampi(&x(r)), hex(b"BitsPerComponent"), clampi(&x(r)), hex(b"EarlyChange"), r.below(2));
            let data = if r.chance(1, 2) { let mut e = flate2::write::ZlibEncoder::new(vec![], flate2::Compression::fast()); use std::io::Write; let _ = e.write_all(&r.bytes(64)); e.finish().unwrap() } else { r.bytes(40) };
            if r.chance(1, 2) {
                // a well-formed predictor frame (rows of 1 + cols bytes) cut short by 0..3 bytes
                let cols = 1 + r.usize(6); let rows = 1 + r.usize(5);
                let mut frame = vec![]; for _ in 0..rows { frame.push(r.below(5) as u8); frame.extend(r.bytes(cols)); }
                let cut = r.usize(4).min(frame.len()); frame.truncate(frame.len() - cut);
                let mut e = flate2::write::ZlibEncoder::new(vec![], flate2::Compression::fast()); use std::io::Write; let _ = e.write_all(&frame);
                let z = e.finish().unwrap();
                let parms = format!("D2 {} i{} {} i{}", hex(b"Predictor"), 10 + r.below(6), hex(b"Columns"), cols);
                return ("predictor-truncated".into(), format!("F FlateDecode {} ; {}", parms, hex_tok(&z)));
            }
            ("filter-extremes".into(), format!("F {} {} ; {}", filt, parms, hex_tok(&data))) }
        6 => { // ASCII85 adversarial
            let alphabet = b"!\"#$%&'()*+,-./0123456789:;<=>?@ABCDEFGHIJKLMNOPQRSTUVWXYZ[\\]^_`abcdefghijklmnopqrstuz~> \n";
            let n = r.usize(40); let mut d: Vec<u8> = (0..n).map(|_| *r.pick(alphabet)).collect(); if r.chance(1, 2) { d.extend_from_slice(b"~>"); }
            if r.chance(1, 4) { d = b"s8W-\"~>".to_vec(); }
            ("a85".into(), format!("F ASCII85Decode ; {}", hex_tok(&d))) }
        7 => { // inline image extremes
            let f = format!("q BI /W {} /H {} /BPC {} /CS /{} ID abc EI Q", x(r), x(r), x(r), r.pick(&["RGB", "G", "DeviceCMYK", "Pattern", "X"]));
            ("inline-image-extremes".into(), format!("C {}", hex_tok(f.as_bytes()))) }
        8 => { // object stream with extreme First / N / index
            let d = format!("D3 {} N{} {} i{} {} i{}", hex(b"Type"), hex(b"ObjStm"), hex(b"First"), clampi(&x(r)), hex(b"N"), clampi(&x(r)));
            let body = format!("{} {} {} {} 1 0 true [1 2] <<>>", x(r), x(r), x(r), x(r));
            ("objstm-extremes".into(), format!("O {} ; {}", d, hex_tok(body.as_bytes()))) }
        9 => { // text strings
            let mut b = match r.below(3) { 0 => vec![0xfe, 0xff], 1 => vec![0xef, 0xbb, 0xbf], _ => vec![] }; let nb = r.usize(9); b.extend(r.bytes(nb));
            ("text-string".into(), format!("T {}", hex_tok(&b))) }
        10 => { // CMap soups
            const TOK: &[&str] = &["beginbfchar", "endbfchar", "beginbfrange", "endbfrange", "begincodespacerange", "endcodespacerange", "<00>", "<FFFF>", "<0000>", "<D800>", "<DC00>", "<00660069>", "[", "]", "<FFFFFFFF>", "<01>", "1", "2", "100", "begincmap", "endcmap", "/CMapName", "def", "<", ">", "<0>", "<FFFE>", "<0001> <FFFF> <FFFF>", "<00> <FF> [<0041>]"];
            let mut s = String::from("/CIDInit /ProcSet findresource begin\n12 dict begin\nbegincmap\n/CMapType 2 def\n1 begincodespacerange\n<0000> <FFFF>\nendcodespacerange\n");
            if r.chance(1, 2) {
                // syntactically complete sections with arbitrary (also nonsensical) hexadecimal operands
                const HX: &[&str] = &["<00>", "<01>", "<41>", "<FF>", "<0000>", "<0001>", "<00FF>", "<FFFF>", "<D800>", "<DC00>", "<DBFFDFFF>", "<00660069>", "<FFFE>", "<FEFF0041>", "<FFFFFFFF>", "<0041FFFF>", "<000000>"];
                for _ in 0..1 + r.usize(3) {
                    let n = 1 + r.usize(3);
                    if r.chance(1, 2) { s.push_str(&format!("{} beginbfchar\n", n)); for _ in 0..n { s.push_str(&format!("{} {}\n", r.pick(HX), r.pick(HX))); } s.push_str("endbfchar\n"); }
                    else { s.push_str(&format!("{} beginbfrange\n", n)); for _ in 0..n { if r.chance(1, 3) { s.push_str(&format!("{} {} [{} {}]\n", r.pick(HX), r.pick(HX), r.pick(HX), r.pick(HX))); } else { s.push_str(&format!("{} {} {}\n", r.pick(HX), r.pick(HX), r.pick(HX))); } } s.push_str("endbfrange\n"); }
                }
            } else {
            for _ in 0..r.usize(14) { let t: &str = *r.pick(TOK); s.push_str(t); s.push(' '); }
            }
            s.push_str("\nendcmap\nCMapName currentdict /CMap defineresource pop\nend\nend\n");
            if r.chance(1, 2) {
                // a WELL-FORMED small CMap (codes of 1..4 bytes) and a text that mixes mapped codes with long unmapped runs
                let mut m = String::from("/CIDInit /ProcSet findresource begin\n12 dict begin\nbegincmap\n/CMapType 2 def\n1 begincodespacerange\n<0000> <FFFF>\nendcodespacerange\n");
                let n = 1 + r.usize(5); let mut codes: Vec<Vec<u8>> = vec![];
                m.push_str(&format!("{} beginbfchar\n", n));
                for _ in 0..n { let len = 1 + r.usize(4); let code = r.bytes(len); m.push_str(&format!("<{}> <{:04X}>\n", hex(&code), 0x41 + r.below(500))); codes.push(code); }
                m.push_str("endbfchar\nendcmap\nCMapName currentdict /CMap defineresource pop\nend\nend\n");
                let mut text = vec![];
                for _ in 0..r.usize(8) { if r.chance(1, 2) { let cd: &Vec<u8> = r.pick(&codes[..]); text.extend_from_slice(cd); } else { let k = 1 + r.usize(12); text.extend(r.bytes(k)); } }
                return ("cmap-text".into(), format!("M {} {}", hex_tok(m.as_bytes()), hex_tok(&text)));
            }
            let tl = r.usize(24);
            ("cmap-soup".into(), format!("M {} {}", hex_tok(s.as_bytes()), hex_tok(&r.bytes(tl)))) }
        11 => { // search windows: tens of thousands of `%%EOF` / `startxref` / `%PDF-` markers, with and without one near the end
            let marker: &[u8] = *r.pick(&[&b"%%EOF\n"[..], b"startxref\n1\n%%EOF\n", b"%PDF-1.4\n", b"endobj\n", b"xref\n"]);
            let n = *r.pick(&[100usize, 5000, 20000, 60000, 150000, 300000]);
            let mut f = b"%PDF-1.4\n1 0 obj\nnull\nendobj\n".to_vec();
            for _ in 0..n { f.extend_from_slice(marker); }
            // padding so that the last 512 / 1024 bytes hold no marker at all (or just one)
            let pad = *r.pick(&[0usize, 100, 513, 600, 1025, 5000]);
            f.extend(std::iter::repeat(*r.pick(&[b' ', b'\n', b'x'])).take(pad));
            if r.chance(1, 3) { f.extend_from_slice(b"startxref\n9\n%%EOF"); }
            ("marker-flood".into(), format!("{} {}", if r.chance(1, 3) { "I" } else { "L" }, hex_tok(&f))) }
        _ => { // startxref / header oddities
            let f = format!("{}%PDF-{}\n1 0 obj\nnull\nendobj\nxref\n0 2\n0000000000 65535 f \n0000000009 00000 n \ntrailer\n<</Size 2>>\nstartxref\n{}\n%%EOF{}", r.pick(&["", "junk", "%PDF-%PDF-"]), r.pick(&["1.4", "", "\u{e9}", "1.7\r"]), x(r), r.pick(&["", "\n", "%%EOF%%EOF%%EOF", " "]));
            ("startxref-extremes".into(), format!("L {}", hex_tok(f.as_bytes()))) }
    }
}
fn clampi(s: &str) -> String { s.parse::<i64>().map(|v| v.to_string()).unwrap_or_else(|_| "9223372036854775807".into()) }

pub fn run(c: &mut Ctx) {
    c.rule = "byte-level entry points (Document and IncrementalDocument loading, content decoding, stream filters, object streams, ToUnicode CMaps, \
text strings) on (a) 1-4 structure-aware mutations (bit/byte/token edits, truncation, splicing, numeric extremes in digit runs) of valid files from \
the C01/C02 generators and the repository assets, (b) grammar-directed adversarial constructions (W/Index/Size/Length/Prev/First extremes, nesting \
bombs, cycles, predictor geometry, ASCII85, inline-image geometry, CMap soups); each case in an isolated worker (memory limit, timeout); lopdf built \
with overflow checks. Outcome must be ok/err; `load` outcomes are also compared with the Lean reader model. Non-trivial = every case, distinct by case text.".into();
    let mut counters = Counters::new();
    let mut cases: Vec<(String, String, u64)> = vec![];   // (stream, case, case_id)
    let n_mut = c.n(4000, 40000);
    for i in 0..n_mut {
        let Some(mut r) = c.case("mutate", i) else { continue };
        let mut b = valid_file(&mut r, &mut counters);
        if b.len() > 6000 { b.truncate(6000); }
        for _ in 0..1 + r.usize(4) { mutate_bytes(&mut r, &mut b); }
        let entry = match r.below(8) { 0 => "I", 1 => "C", _ => "L" };
        cases.push(("mutate".into(), format!("{} {}", entry, hex_tok(&b)), c.cur));
    }
    let n_adv = c.n(2500, 25000);
    for i in 0..n_adv {
        let Some(mut r) = c.case("adversarial", i) else { continue };
        let (stream, case) = adversarial(&mut r, i);
        cases.push((stream, case, c.cur));
    }
    // systematic products of SMALL values (zero / negative / missing / odd-length) in the fields of cross-reference streams and object
    // streams: guards in the code are conjunctions over several fields (all widths zero AND some count positive, …), which independent
    // random extremes almost never satisfy together
    {
        let ws = ["[0 0 0]", "[1 0 0]", "[0 1 0]", "[0 0 1]", "[1 2 1]", "[0 0]", "[]", "[1 1 1 1]", "[-1 0 0]", "[0 0 0 0]"];
        let idxs = ["", "/Index[]", "/Index[0 0]", "/Index[0 -1]", "/Index[3 0 9 0]", "/Index[0 1]", "/Index[0 2]", "/Index[5]", "/Index[0 0 0 1]", "/Index[-1 1]", "/Index[4294967295 1]", "/Index[0 1 0 1]", "/Index[0 0 0 0 0 0]", "/Index[1 -9223372036854775808]"];
        let sizes = ["/Size 0", "/Size 1", "/Size 2", "", "/Size -1"];
        let bodies: [&[u8]; 3] = [b"", b"\x01\x00\x09", b"\x01\x00\x10\x00\x01\x00\x20\x00"];
        let mut k = 0u64;
        for w in ws { for ix in idxs { for sz in sizes { for body in bodies {
            k += 1;
            if c.quick() && !(w.contains("0 0") || k % 3 == 0) { continue; }
            let Some(_r) = c.case("xrefstream-systematic", k) else { continue };
            let f = format!("%PDF-1.5\n1 0 obj\n<</Type/Catalog>>\nendobj\n2 0 obj\n<</Type/XRef{}/W{}{}/Root 1 0 R/Length {}>>\nstream\n", sz, w, ix, body.len());
            let mut b = f.into_bytes(); b.extend_from_slice(body); b.extend_from_slice(b"\nendstream\nendobj\nstartxref\n41\n%%EOF");
            cases.push(("xrefstream-systematic".into(), format!("L {}", hex_tok(&b)), c.cur));
        } } } }
        // whole files around an object stream whose index lists an offset (and / or a number) more than once: loaded by lopdf and by
        // the Lean reader (an offset that is listed again is used by its first pair only — lopdf fix of F-C04-h)
        let dup_indexes: [&[(u32, usize)]; 7] = [&[(5, 0), (6, 0)], &[(5, 0), (5, 0), (6, 0)], &[(5, 0), (6, 6), (7, 0)], &[(5, 6), (6, 0), (7, 6), (8, 0)], &[(5, 0), (6, 6), (5, 6)], &[(9, 6), (9, 0)], &[(5, 0), (6, 0), (7, 0), (8, 0), (9, 6)]];
        for (j, idx) in dup_indexes.iter().enumerate() {
            let Some(_r) = c.case("objstm-dup-offsets", j as u64) else { continue };
            let members = "[1 2] (ab) ";        // offsets 0 and 6
            let index: String = idx.iter().map(|(n, o)| format!("{} {} ", n, o)).collect();
            let content = format!("{}{}", index, members);
            let mut f = b"%PDF-1.5\n".to_vec();
            let o1 = f.len(); f.extend_from_slice(b"1 0 obj\n<</Type/Catalog>>\nendobj\n");
            let o2 = f.len(); f.extend_from_slice(format!("2 0 obj\n<</Type/ObjStm/N {}/First {}/Length {}>>\nstream\n{}\nendstream\nendobj\n", idx.len(), index.len(), content.len(), content).as_bytes());
            let xs = f.len();
            f.extend_from_slice(format!("xref\n0 3\n0000000000 65535 f \n{:010} 00000 n \n{:010} 00000 n \ntrailer\n<</Size 10/Root 1 0 R>>\nstartxref\n{}\n%%EOF", o1, o2, xs).as_bytes());
            cases.push(("objstm-dup-offsets".into(), format!("L {}", hex_tok(&f)), c.cur));
        }
        let firsts = ["0", "1", "4", "8", "9", "100", "-1"];
        let ns = ["0", "1", "2", "-1", "3"];
        let contents: [&[u8]; 6] = [b"", b"5 0 (x)", b"5 0 6 0 [1 2]", b"5 0 6 3 1 2 3", b"5 0 5 0 5 0 true", b"5 9 6 99 7 0 <<>>"];
        k = 0;
        for fi in firsts { for n in ns { for ct in contents {
            k += 1;
            let Some(_r) = c.case("objstm-systematic", k) else { continue };
            cases.push(("objstm-systematic".into(), format!("O D3 {} N{} {} i{} {} i{} ; {}", hex(b"Type"), hex(b"ObjStm"), hex(b"First"), fi, hex(b"N"), n, hex_tok(ct)), c.cur));
        } } }
    }
    // ENCRYPTED files with a damaged security handler: `Document::load_mem` authenticates the empty password and decrypts every
    // string and stream while loading, so the Encrypt dictionary and the ciphertexts are untrusted bytes like any others.
    // Base: documents lopdf itself encrypted (every version, EMPTY user password, so that loading goes all the way through
    // decryption); then ONE field of the Encrypt dictionary / its crypt filters / the file identifier / one ciphertext is set to a
    // systematic list of values (and Length x V x R as a full product): key lengths 0, not a multiple of 8, beyond the cipher's
    // range; missing, truncated, over-long, wrongly typed O / U / OE / UE / Perms; unknown or missing CFM; ciphertexts shorter
    // than an IV or not a multiple of the block size.
    {
        use super::c05;
        use lopdf::{Dictionary, Document, Object, StringFormat};
        let vers = [c05::Ver::V1, c05::Ver::V2(40), c05::Ver::V2(128), c05::Ver::V4, c05::Ver::V4, c05::Ver::R5, c05::Ver::V5];
        let ints: [i64; 15] = [0, 1, 5, 8, 16, 24, 32, 40, 41, 64, 128, 136, 256, -8, 1 << 40];
        let lens: [usize; 10] = [0, 1, 15, 16, 17, 31, 32, 33, 47, 48];
        let mut k = 0u64;
        for (vi, ver) in vers.iter().enumerate() {
            let Some(mut r) = c.case("encdict-base", vi as u64) else { continue };
            let opts = c05::GenOpts { stream_dict_strings: true, nested_streams: false, meta_dicts: false, bad_length: false };
            // (documents numbered around 2^24 are C05's business: here every variant is saved and loaded, which is linear in max_id)
            let mut doc = loop { let d = c05::gen_doc(&mut r, &opts); if d.max_id < 100_000 { break d; } };
            let mut cfg = c05::gen_config(&mut r, Some(ver.clone()));
            cfg.user = String::new();
            let Ok(state) = cfg.make_state(&doc) else { c.count("encdict.mkstate_failed"); continue };
            if doc.encrypt(&state).is_err() { c.count("encdict.encrypt_failed"); continue }
            let enc_id = match doc.trailer.get(b"Encrypt") { Ok(Object::Reference(id)) => Some(*id), _ => None };
            let get_enc = |d: &Document| -> Dictionary { match enc_id { Some(id) => d.objects.get(&id).and_then(|o| o.as_dict().ok()).cloned().unwrap_or_default(),
                None => d.trailer.get(b"Encrypt").ok().and_then(|o| o.as_dict().ok()).cloned().unwrap_or_default() } };
            let put_enc = |d: &mut Document, e: Dictionary| { match enc_id { Some(id) => { d.objects.insert(id, Object::Dictionary(e)); } None => d.trailer.set("Encrypt", Object::Dictionary(e)) } };
            let base_enc = get_enc(&doc);
            let mut variants: Vec<(String, Document)> = vec![("base".into(), doc.clone())];
            let mut add = |name: String, f: &dyn Fn(&mut Dictionary, &mut Document)| { let mut d = doc.clone(); let mut e = base_enc.clone(); f(&mut e, &mut d); put_enc(&mut d, e); variants.push((name, d)); };
            for key in ["Length", "V", "R", "P"] { for v in ints { add(format!("{}={}", key, v), &|e, _| e.set(key, Object::Integer(v))); } }
            for key in ["Length", "V", "R", "P", "O", "U", "OE", "UE", "Perms", "Filter", "CF", "StmF", "StrF", "EncryptMetadata"] {
                add(format!("-{}", key), &|e, _| { e.remove(key.as_bytes()); });
                add(format!("{}:int", key), &|e, _| e.set(key, Object::Integer(7)));
                add(format!("{}:name", key), &|e, _| e.set(key, Object::Name(b"Nope".to_vec())));
            }
            for key in ["O", "U", "OE", "UE", "Perms"] { for l in lens {
                add(format!("{}.len={}", key, l), &|e, _| { let cur = e.get(key.as_bytes()).ok().and_then(|o| o.as_str().ok()).map(|b| b.to_vec()).unwrap_or_default();
                    let mut b = cur; b.resize(l, 0x5a); e.set(key, Object::String(b, StringFormat::Hexadecimal)); });
            } }
            let cf_names: Vec<Vec<u8>> = base_enc.get(b"CF").ok().and_then(|o| o.as_dict().ok()).map(|d| d.iter().map(|(k, _)| k.clone()).collect()).unwrap_or_default();
            for n in &cf_names {
                for cfm in ["V2", "AESV2", "AESV3", "None", "Identity", "Foo"] {
                    add(format!("CF.{}.CFM={}", String::from_utf8_lossy(n), cfm), &|e, _| { if let Ok(Object::Dictionary(cf)) = e.get_mut(b"CF") { if let Ok(Object::Dictionary(f)) = cf.get_mut(n) { f.set("CFM", Object::Name(cfm.as_bytes().to_vec())); } } });
                }
                for v in ints { add(format!("CF.{}.Length={}", String::from_utf8_lossy(n), v), &|e, _| { if let Ok(Object::Dictionary(cf)) = e.get_mut(b"CF") { if let Ok(Object::Dictionary(f)) = cf.get_mut(n) { f.set("Length", Object::Integer(v)); } } }); }
                add(format!("CF.{}-CFM", String::from_utf8_lossy(n)), &|e, _| { if let Ok(Object::Dictionary(cf)) = e.get_mut(b"CF") { if let Ok(Object::Dictionary(f)) = cf.get_mut(n) { f.remove(b"CFM"); } } });
                add(format!("CF.{}:int", String::from_utf8_lossy(n)), &|e, _| { if let Ok(Object::Dictionary(cf)) = e.get_mut(b"CF") { cf.set(n.clone(), Object::Integer(1)); } });
            }
            add("CF={}".into(), &|e, _| e.set("CF", Object::Dictionary(Dictionary::new())));
            add("ID-".into(), &|_, d| { d.trailer.remove(b"ID"); });
            add("ID=[]".into(), &|_, d| d.trailer.set("ID", Object::Array(vec![])));
            add("ID=[1 2]".into(), &|_, d| d.trailer.set("ID", Object::Array(vec![Object::Integer(1), Object::Integer(2)])));
            add("ID=[<>]".into(), &|_, d| d.trailer.set("ID", Object::Array(vec![Object::String(vec![], StringFormat::Hexadecimal)])));
            // ciphertexts cut to lengths around the IV / block size
            let ids: Vec<_> = doc.objects.keys().cloned().collect();
            for l in lens { add(format!("cipher.len={}", l), &|_, d| { for id in &ids { if Some(*id) == enc_id { continue; } match d.objects.get_mut(id) {
                Some(Object::String(b, _)) => b.resize(l, 0xa5), Some(Object::Stream(st)) => { st.content.resize(l, 0xa5); st.dict.set("Length", Object::Integer(l as i64)); } _ => {} } } }); }
            // Length x V x R in full on the first RC4 and the first AES base
            if vi == 1 || vi == 3 || vi == 6 { for l in ints { for v in 0..=6i64 { for rv in 0..=7i64 {
                add(format!("L{}V{}R{}", l, v, rv), &|e, _| { e.set("Length", Object::Integer(l)); e.set("V", Object::Integer(v)); e.set("R", Object::Integer(rv)); });
            } } } }
            for (name, mut d) in variants {
                k += 1;
                if c.quick() && name.starts_with('L') && name.contains('V') && name.contains('R') && !name.contains('=') && k % 4 != 0 { continue; }
                let Some(_r) = c.case("encdict", k) else { continue };
                let mut out = vec![];
                if d.save_to(&mut out).is_err() { c.count("encdict.save_failed"); continue }
                let is_product = name.starts_with('L') && name.contains('V') && name.contains('R') && !name.contains('=');
                c.count(&format!("encdict.{}", if is_product { "LxVxR" } else { name.split(|ch: char| ch == '=' || ch == '.').next().unwrap_or("") }));
                cases.push(("encdict".into(), format!("L {}", hex_tok(&out)), c.cur));
            }
        }
    }
    // every byte of every predefined one-byte encoding through decode_text / extract_text (shared with C13)
    super::c13::encoding_sweep(c);
    // fixed regression witnesses (repaired defects); reported through c.witness below
    let witnesses: Vec<(&str, String, &str)> = vec![
        ("F-C04-a", format!("F ASCII85Decode ; {}", hex_tok(b"s8W-\"~>")), "ASCII85 group value overflow"),
        ("F-C04-b", format!("L {}", hex_tok(b"%PDF-1.5\n1 0 obj\n<</Type/XRef/Size 2/W[1 99999999999999 1]/Root 1 0 R/Length 3>>\nstream\nabc\nendstream\nendobj\nstartxref\n9\n%%EOF")), "xref stream with a field width of 10^14"),
        ("F-C04-c", format!("L {}", hex_tok(b"%PDF-1.5\n1 0 obj\n<</Type/XRef/Size 2/W[0 0 0]/Index[0 4000000000]/Root 1 0 R/Length 3>>\nstream\nabc\nendstream\nendobj\nstartxref\n9\n%%EOF")), "xref stream with zero-width rows and a count of 4e9"),
        ("F-C04-d", { let mut o = b"%PDF-1.4\n1 0 obj\n".to_vec(); o.extend(vec![b'['; 20000]); o.extend_from_slice(b"\nendobj\nxref\n0 2\n0000000000 65535 f \n0000000009 00000 n \ntrailer\n<</Size 2>>\nstartxref\n20024\n%%EOF"); format!("L {}", hex_tok(&o)) }, "20000 nested arrays"),
        ("F-C04-g", format!("C {}", hex_tok(b"BI /W 9223372036854775807 /H 9223372036854775807 /BPC 8 /CS /RGB ID x EI")), "inline image with overflowing geometry"),
        ("F-C04-i", format!("L {}", hex_tok(b"%PDF-1.4\n1 0 obj\nnull\nendobj\nxref\n0 2\n0000000000 65535 f \n0000000009 00000 n \n18446744073709551615 2\n0000000009 00000 n \n0000000009 00000 n \ntrailer\n<</Size 2>>\nstartxref\n29\n%%EOF")), "xref table subsection start = usize::MAX"),
        ("F-C04-j", format!("L {}", hex_tok(b"%PDF-1.5\n1 0 obj\n<</Type/XRef/Size 2/W[1 1 1]/Index[9223372036854775807 2]/Root 1 0 R/Length 6>>\nstream\n\x01\x09\x00\x01\x09\x00\nendstream\nendobj\nstartxref\n9\n%%EOF")), "xref stream Index start = i64::MAX"),
        ("F-C04-e", format!("F FlateDecode D3 {} i12 {} i4611686018427387904 {} i4 ; {}", hex(b"Predictor"), hex(b"Columns"), hex(b"Colors"), hex_tok(&[0x78, 0x9c, 0x03, 0x00, 0x00, 0x00, 0x00, 0x01])), "PNG predictor geometry overflow"),
    ];
    let wit_cases: Vec<String> = witnesses.iter().map(|w| w.1.clone()).collect();
    if c.only.is_none() {
        let out = run_isolated("C04", &wit_cases, 5000, 2048);
        for (w, o) in witnesses.iter().zip(out.iter()) {
            let bad = !(o.starts_with("ok") || o.starts_with("err"));
            c.witness(w.0, bad, &format!("{} -> {}", w.2, o.chars().take(80).collect::<String>()));
        }
    }
    // amplification: small files (8-80 kB) whose structure makes one region of the input be parsed / copied many times. Each runs
    // alone in a fresh worker, which reports its own peak resident set; more than 400 MB for such an input (5000 times its size)
    // is an allocation unrelated to the input size.
    {
        let amp = amplification_cases();
        for (k, (kind, case)) in amp.iter().enumerate() {
            // the dev-profile build runs the stack probes only (resident set and time of an unoptimised build say nothing)
            if cfg!(debug_assertions) && !kind.starts_with("deep-nesting") { continue; }
            let Some(_r) = c.case("amplify", k as u64) else { continue };
            c.nontrivial(case); c.evaluations += 1;
            let out = run_isolated("C04", &[case.clone()], 60_000, 16384).pop().unwrap_or_default();
            let rss_kb: u64 = out.split(' ').find_map(|t| t.strip_prefix("rss_kb=")).and_then(|v| v.parse().ok()).unwrap_or(u64::MAX);
            let bad = !(out.starts_with("ok") || out.starts_with("err")) || rss_kb > 400 * 1024;
            c.count(&format!("amplify.{}.{}", kind, if bad { "blow-up" } else { "fine" }));
            c.extra.insert(format!("amplify.{}", kind), json!({"input_bytes": case.len() / 2, "outcome": out.chars().take(80).collect::<String>()}));
            if *kind == "objstm-alias" { c.witness("F-C04-h", bad, &format!("object stream whose {} index pairs all point at one {}-element array ({} bytes of input) -> {}", AMP_N, AMP_N, case.len() / 2, out.chars().take(60).collect::<String>())); }
            if *kind == "xref-alias" { c.witness("F-C04-h2", bad, &format!("cross-reference table whose {} entries all point at one {}-element array ({} bytes of input) -> {}", AMP_N, AMP_N, case.len() / 2, out.chars().take(60).collect::<String>())); }
            let sig = if kind.starts_with("deep-nesting") { format!("stack:{}:{}", kind, if cfg!(debug_assertions) { "dev-profile" } else { "release" }) } else { format!("amplify:{}", kind) };
            if kind.starts_with("deep-nesting") && cfg!(debug_assertions) { c.witness("F-C04-k", bad, &format!("{}: arrays nested 127 deep (below the parser's limit), dev profile -> {}", kind, out.chars().take(60).collect::<String>())); }
            if bad { c.oracle_fail(&sig, &format!("{} bytes of input: {}", case.len() / 2, out.chars().take(80).collect::<String>()), json!({"kind": kind, "case": if case.len() < 4000 { case.clone() } else { format!("{}…", &case[..4000]) }})); }
        }
    }
    // run all cases isolated
    let case_strs: Vec<String> = cases.iter().map(|x| x.1.clone()).collect();
    let outs = run_isolated("C04", &case_strs, 4000, 2048);
    for ((stream, case, id), out) in cases.iter().zip(outs.iter()) {
        c.cur = *id;
        c.nontrivial(case);
        let class = if out.starts_with("ok") { "ok" } else if out.starts_with("err") { "err" } else if out.starts_with("panic") { "panic" } else if out.starts_with("timeout") { "timeout" } else { "abort" };
        c.count(&format!("{}.{}", stream, class));
        if class != "ok" && class != "err" {
            let sig = if class == "panic" { format!("panic@{}", out.split(' ').nth(1).unwrap_or("?")) } else { format!("{}:{}", class, stream) };
            c.oracle_fail(&sig, &format!("entry point {} -> {}", &case[..1], out.chars().take(160).collect::<String>()), json!({"case": if case.len() < 4000 { case.clone() } else { format!("{}…", &case[..4000]) }, "stream": stream}));
        }
        // model correspondence for load outcomes (files up to 8 kB to bound the driver's work)
        if case.starts_with("L ") && case.len() < 16000 && (class == "ok" || class == "err") {
            c.corr(format!("load {}", &case[2..]), out.clone());
        }
        if c.samples.len() < 3 && class == "err" { c.sample(json!({"stream": stream, "outcome": out.chars().take(60).collect::<String>(), "case": case.chars().take(200).collect::<String>()})); }
    }
    for (k, v) in counters { c.count_n(&format!("choice.{}", k), v); }
}
