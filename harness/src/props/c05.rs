//! C05 — Encrypt then decrypt restores every string and stream.
//!
//! Real code: `EncryptionState::try_from`, `Document::{encrypt, decrypt, decrypt_raw,
//! authenticate_*}`, `encrypt_object` / `decrypt_object`, the four crypt filters, save_to / load_mem.
//! Correspondence: the compiled Lean model (Model/Crypt.lean, run with Lean reference MD5 / SHA-256 /
//! AES) must reproduce the real output bit for bit given the random bytes read off the real output.
//! Oracle: structural round-trip comparison + the independent ISO reference handler of c06::refimpl.
use super::c06::refimpl as rf;
use crate::codec::*;
use crate::ctx::{guard, Ctx};
use crate::rng::Rng;
use lopdf::encryption::crypt_filters::{Aes128CryptFilter, Aes256CryptFilter, CryptFilter, IdentityCryptFilter, Rc4CryptFilter};
use lopdf::{Dictionary, Document, EncryptionState, EncryptionVersion, Object, ObjectId, Permissions, Stream, StringFormat};
use serde_json::json;
use std::collections::BTreeMap;
use std::sync::Arc;

// ------------------------------------------------------------------ configurations
#[derive(Clone, Debug, PartialEq)]
pub enum Ver { V1, V2(usize), V4, R5, V5 }

#[derive(Clone, Debug)]
pub struct Config {
    pub ver: Ver,
    pub encrypt_metadata: bool,
    /// name -> one of b'I', b'R', b'A', b'B'
    pub filters: Vec<(Vec<u8>, u8)>,
    pub stmf: Vec<u8>,
    pub strf: Vec<u8>,
    pub file_key: Vec<u8>,
    pub owner: String,
    pub user: String,
    pub perms: u64,
}

pub const PERM_BITS: [u32; 8] = [2, 3, 4, 5, 8, 9, 10, 11];

pub fn filter_arc(k: u8) -> Arc<dyn CryptFilter> {
    match k { b'I' => Arc::new(IdentityCryptFilter), b'R' => Arc::new(Rc4CryptFilter), b'A' => Arc::new(Aes128CryptFilter), _ => Arc::new(Aes256CryptFilter) }
}
pub fn filter_tok(m: &[u8]) -> &'static str {
    match m { b"Identity" => "I", b"V2" => "R", b"AESV2" => "A", b"AESV3" => "B", _ => "?" }
}

impl Config {
    pub fn is_r6ish(&self) -> bool { matches!(self.ver, Ver::R5 | Ver::V5) }
    pub fn revision(&self) -> i64 { match self.ver { Ver::V1 => 2, Ver::V2(_) => 3, Ver::V4 => 4, Ver::R5 => 5, Ver::V5 => 6 } }
    pub fn make_state(&self, doc: &Document) -> Result<EncryptionState, lopdf::Error> {
        let permissions = Permissions::from_bits_truncate(self.perms);
        let crypt_filters: BTreeMap<Vec<u8>, Arc<dyn CryptFilter>> = self.filters.iter().map(|(n, k)| (n.clone(), filter_arc(*k))).collect();
        let v = match &self.ver {
            Ver::V1 => EncryptionVersion::V1 { document: doc, owner_password: &self.owner, user_password: &self.user, permissions },
            Ver::V2(l) => EncryptionVersion::V2 { document: doc, owner_password: &self.owner, user_password: &self.user, key_length: *l, permissions },
            Ver::V4 => EncryptionVersion::V4 { document: doc, encrypt_metadata: self.encrypt_metadata, crypt_filters,
                stream_filter: self.stmf.clone(), string_filter: self.strf.clone(), owner_password: &self.owner, user_password: &self.user, permissions },
            #[allow(deprecated)]
            Ver::R5 => EncryptionVersion::R5 { encrypt_metadata: self.encrypt_metadata, crypt_filters, file_encryption_key: &self.file_key,
                stream_filter: self.stmf.clone(), string_filter: self.strf.clone(), owner_password: &self.owner, user_password: &self.user, permissions },
            Ver::V5 => EncryptionVersion::V5 { encrypt_metadata: self.encrypt_metadata, crypt_filters, file_encryption_key: &self.file_key,
                stream_filter: self.stmf.clone(), string_filter: self.strf.clone(), owner_password: &self.owner, user_password: &self.user, permissions },
        };
        EncryptionState::try_from(v)
    }
    /// password bytes as the handler sees them (`sanitize_password` of the real code is public)
    pub fn show(&self, owner_b: &[u8], user_b: &[u8]) -> String {
        let ver = match &self.ver { Ver::V1 => "v1".to_string(), Ver::V2(l) => format!("v2 {}", l), Ver::V4 => "v4".into(), Ver::R5 => "r5".into(), Ver::V5 => "v5".into() };
        let mut fs: Vec<(Vec<u8>, u8)> = self.filters.clone(); fs.sort(); fs.dedup_by(|a, b| a.0 == b.0);
        let mut s = format!("{} {} {}", ver, self.encrypt_metadata as u8, fs.len());
        for (n, k) in &fs { s.push_str(&format!(" {} {}", hex_tok(n), *k as char)); }
        s.push_str(&format!(" {} {} {} {} {} {}", hex_tok(&self.stmf), hex_tok(&self.strf), hex_tok(&self.file_key), hex_tok(owner_b), hex_tok(user_b), self.perms));
        s
    }
}

pub fn show_state(st: &EncryptionState) -> String {
    let mut s = format!("{} {} {} {} {}", st.version(), st.revision(), st.key_length().map(|l| l as i64).unwrap_or(-1),
        st.encrypt_metadata() as u8, st.crypt_filters().len());
    for (n, f) in st.crypt_filters() { s.push_str(&format!(" {} {}", hex_tok(n), filter_tok(f.method()))); }
    s.push_str(&format!(" {} {} {} {} {} {} {} {} {}", hex_tok(st.file_encryption_key()), hex_tok(st.default_stream_filter()),
        hex_tok(st.default_string_filter()), hex_tok(st.owner_value()), hex_tok(st.owner_encrypted()), hex_tok(st.user_value()),
        hex_tok(st.user_encrypted()), st.permissions().bits(), hex_tok(st.permission_encrypted())));
    s
}

pub fn show_doc(d: &Document) -> String {
    format!("{} {} {}", d.max_id, show_obj(&Object::Dictionary(d.trailer.clone())), show_objects(d.objects.iter()))
}

pub fn err_class(e: &lopdf::Error) -> String {
    let s = format!("{:?}", e);
    for k in ["UnrepresentablePassword", "InvalidKeyLength", "InvalidCipherTextLength", "Padding", "IncorrectPassword", "AlreadyEncrypted", "NotEncrypted",
              "InvalidRevision", "UnsupportedRevision", "InvalidHashLength", "MissingFileID", "UnsupportedSecurityHandler"] {
        if s.contains(k) { return k.to_string(); }
    }
    format!("other:{}", s.chars().take(60).collect::<String>().replace(' ', "_"))
}

// ------------------------------------------------------------------ generators
const PASSWORDS_ASCII: [&str; 8] = ["", "user", "owner", "a", "correct horse battery staple", "p@ss w0rd!", "0123456789abcdef0123456789abcdef", "Zz"];

pub fn gen_password(r: &mut Rng, r6: bool) -> String {
    match r.below(10) {
        0 => String::new(),
        1..=4 => r.pick(&PASSWORDS_ASCII).to_string(),
        5 => { let n = 1 + r.usize(20); (0..n).map(|_| (0x21 + r.below(0x5e) as u8) as char).collect() }
        6 => { let n = 33 + r.usize(40); (0..n).map(|_| (b'a' + r.below(26) as u8) as char).collect() }      // longer than 32
        7 => { // Latin-1 letters: PDFDoc-encodable, stable under SASLprep (NFKC) for these code points
               let pool = ['é', 'ü', 'ß', 'Ø', 'ñ', 'a', 'Z', '7']; let n = 1 + r.usize(10); (0..n).map(|_| *r.pick(&pool)).collect() }
        8 => if r6 { let pool = ['п', 'а', 'р', 'о', 'л', 'ь', '密', '码', 'x']; let n = 1 + r.usize(10); (0..n).map(|_| *r.pick(&pool)).collect() }
             else { r.pick(&PASSWORDS_ASCII).to_string() },
        _ => if r6 && r.chance(1, 2) { let w = 2 + r.usize(3); let ph = r.usize(w - 1); let total = 120 + r.usize(21); straddle_password(r, w, ph, total) }   // a multi-byte character across byte 127
             else { let n = match r.below(4) { 0 => 127, 1 => 128, _ => 100 + r.usize(100) }; (0..n).map(|_| (b'A' + r.below(26) as u8) as char).collect() }   // around and beyond 127 bytes
    }
}

/// an R5/R6 password (SASLprep-stable characters) of at least `total` UTF-8 bytes in which a character of
/// `w` bytes (2, 3 or 4) starts at byte 128 - w + phase (phase in 0..w-1), i.e. straddles the 127-byte cut
pub fn straddle_password(r: &mut Rng, w: usize, phase: usize, total: usize) -> String {
    let start = 128 - w + phase;                      // 126 | 125,126 | 124,125,126
    let wide: char = match w { 2 => *r.pick(&['é', 'п', 'ß']), 3 => *r.pick(&['密', '€', '码']), _ => *r.pick(&['\u{1D11E}', '\u{20000}']) };
    let mut s = String::new();
    // the prefix: ASCII, or with other multi-byte characters in front so that the earlier boundaries vary too
    let mixed = r.chance(1, 2);
    while s.len() < start {
        let left = start - s.len();
        if mixed && left >= 3 && r.chance(1, 3) { s.push(*r.pick(&['ü', 'Ж', '水'])); } else { s.push((b'a' + r.below(26) as u8) as char); }
        if s.len() > start { s.pop(); }
    }
    while s.len() < start { s.push('x'); }
    debug_assert_eq!(s.len(), start);
    s.push(wide);
    while s.len() < total.max(start + w) { if r.chance(1, 4) { s.push(*r.pick(&['é', '密'])); } else { s.push((b'A' + r.below(26) as u8) as char); } }
    s
}

pub fn gen_config(r: &mut Rng, forced: Option<Ver>) -> Config {
    let ver = forced.unwrap_or_else(|| match r.below(10) {
        0 => Ver::V1,
        1..=3 => Ver::V2(40 + 8 * r.usize(12)),
        4..=6 => Ver::V4,
        7 => Ver::R5,
        _ => Ver::V5,
    });
    let r6 = matches!(ver, Ver::R5 | Ver::V5);
    let names: [&[u8]; 4] = [b"StdCF", b"Other", b"X", b"Identity"];
    let mut filters: Vec<(Vec<u8>, u8)> = vec![];
    let (mut stmf, mut strf);
    match ver {
        Ver::V4 => {
            let kinds = [b'R', b'A', b'I'];
            let k1 = *r.pick(&kinds); let k2 = *r.pick(&kinds);
            if k1 == k2 && r.chance(1, 2) {
                filters.push((b"StdCF".to_vec(), k1)); stmf = b"StdCF".to_vec(); strf = b"StdCF".to_vec();
            } else {
                filters.push((b"StdCF".to_vec(), k1)); filters.push((b"Other".to_vec(), k2)); stmf = b"StdCF".to_vec(); strf = b"Other".to_vec();
            }
            if r.chance(1, 2) { filters.push((b"X".to_vec(), *r.pick(&kinds))); }
            // the predefined name Identity (never listed in CF) as a default filter
            match r.below(8) { 0 => stmf = b"Identity".to_vec(), 1 => strf = b"Identity".to_vec(), _ => {} }
        }
        Ver::R5 | Ver::V5 => {
            let kinds = [b'B', b'B', b'B', b'I'];
            let k1 = *r.pick(&kinds); let k2 = *r.pick(&kinds);
            filters.push((b"StdCF".to_vec(), k1)); stmf = b"StdCF".to_vec();
            if k1 == k2 { strf = b"StdCF".to_vec(); } else { filters.push((b"Other".to_vec(), k2)); strf = b"Other".to_vec(); }
            if r.chance(1, 2) { filters.push((b"X".to_vec(), *r.pick(&[b'B', b'I']))); }
            match r.below(8) { 0 => stmf = b"Identity".to_vec(), 1 => strf = b"Identity".to_vec(), _ => {} }
        }
        _ => { stmf = vec![]; strf = vec![]; }
    }
    let _ = names;
    let mut perms = 0u64;
    match r.below(4) { 0 => perms = 3900, 1 => {}, _ => for b in PERM_BITS { if r.chance(1, 2) { perms |= 1 << b; } } }
    let user = gen_password(r, r6);
    let owner = if r.chance(1, 6) { user.clone() } else { gen_password(r, r6) };
    Config { ver, encrypt_metadata: r.chance(1, 2), filters, stmf, strf, file_key: if r6 { r.bytes(32) } else { vec![] }, owner, user, perms }
}

fn gen_bytes(r: &mut Rng) -> Vec<u8> {
    // one string in twenty is long (250..1100 bytes: past one period of the RC4 index bytes, many AES blocks)
    let n = if r.chance(1, 20) { 250 + r.usize(850) } else { match r.below(10) { 0 => 0, 1 => 15, 2 => 16, 3 => 17, 4 => 32, 5..=7 => r.usize(12), _ => r.usize(70) } };
    if r.chance(1, 3) { (0..n).map(|_| b' ' + r.below(90) as u8).collect() } else { r.bytes(n) }
}
fn gen_string(r: &mut Rng) -> Object {
    Object::String(gen_bytes(r), if r.chance(1, 2) { StringFormat::Literal } else { StringFormat::Hexadecimal })
}
fn gen_name(r: &mut Rng) -> Vec<u8> { r.pick(&[&b"A"[..], b"Kids", b"Title", b"Contents", b"Info", b"V", b"Type", b"Name", b"K1", b"K2"]).to_vec() }

pub struct GenOpts { pub stream_dict_strings: bool, pub nested_streams: bool, pub meta_dicts: bool, pub bad_length: bool }

fn gen_value(r: &mut Rng, depth: usize, o: &GenOpts) -> Object {
    match r.below(if depth >= 3 { 6 } else { 9 }) {
        0 => Object::Integer(r.range(-1000, 1000)),
        1 => Object::Name(gen_name(r)),
        2 => Object::Reference((1 + r.below(30) as u32, 0)),
        3 => if r.chance(1, 2) { Object::Null } else { Object::Boolean(r.chance(1, 2)) },
        4 | 5 => gen_string(r),
        6 => Object::Array((0..r.usize(4)).map(|_| gen_value(r, depth + 1, o)).collect()),
        7 => Object::Dictionary(gen_dict(r, depth + 1, o)),
        _ => if o.nested_streams && r.chance(1, 3) { gen_stream(r, o) } else { gen_string(r) },
    }
}
fn gen_dict(r: &mut Rng, depth: usize, o: &GenOpts) -> Dictionary {
    let mut d = Dictionary::new();
    for _ in 0..r.usize(4) {
        let k = gen_name(r);
        if k == b"Type" { d.set(k, Object::Name(r.pick(&[&b"Page"[..], b"Font", b"Metadata", b"XRef", b"Catalog"]).to_vec())); }
        else { d.set(k, gen_value(r, depth, o)); }
    }
    if o.meta_dicts && r.chance(1, 10) { d.set("Type", Object::Name(b"Metadata".to_vec())); d.set("S", gen_string(r)); }
    d
}
fn gen_stream(r: &mut Rng, o: &GenOpts) -> Object {
    let mut d = Dictionary::new();
    match r.below(12) {
        0 | 1 => { d.set("Type", Object::Name(b"Metadata".to_vec())); d.set("Subtype", Object::Name(b"XML".to_vec())); }
        2 => { d.set("Type", Object::Name(b"XRef".to_vec())); }
        3 => { d.set("Type", Object::Name(b"XObject".to_vec())); }
        _ => {}
    }
    match r.below(12) {
        0 => { d.set("Filter", Object::Name(b"Crypt".to_vec()));
               let mut p = Dictionary::new(); p.set("Type", Object::Name(b"CryptFilterDecodeParms".to_vec()));
               p.set("Name", Object::Name(r.pick(&[&b"StdCF"[..], b"Other", b"X", b"Identity", b"Nope"]).to_vec())); d.set("DecodeParms", Object::Dictionary(p)); }
        1 => { d.set("Filter", Object::Array(vec![Object::Name(b"Crypt".to_vec())]));
               let mut p = Dictionary::new(); if r.chance(2, 3) { p.set("Name", Object::Name(r.pick(&[&b"StdCF"[..], b"Other", b"X"]).to_vec())); } d.set("DecodeParms", Object::Dictionary(p)); }
        2 => { d.set("Filter", Object::Name(b"Crypt".to_vec())); }                                     // no DecodeParms: no override in lopdf
        3 => { d.set("Filter", Object::Name(b"FlateDecode".to_vec())); }
        5 => { d.set("Filter", Object::Array(vec![Object::Name(b"FlateDecode".to_vec()), Object::Name(b"Crypt".to_vec())]));   // DecodeParms array, one entry per filter
               let mut p = Dictionary::new(); if r.chance(3, 4) { p.set("Name", Object::Name(r.pick(&[&b"StdCF"[..], b"Other", b"X", b"Identity"]).to_vec())); }
               d.set("DecodeParms", Object::Array(vec![Object::Null, Object::Dictionary(p)])); }
        4 => { d.set("Filter", Object::Array(vec![Object::Name(b"Crypt".to_vec()), Object::Integer(1)])); // not all names: filters() fails
               let mut p = Dictionary::new(); p.set("Name", Object::Name(b"X".to_vec())); d.set("DecodeParms", Object::Dictionary(p)); }
        _ => {}
    }
    if o.stream_dict_strings && r.chance(1, 3) { d.set("Note", gen_string(r)); }
    if r.chance(1, 3) { d.set("K", Object::Integer(r.range(0, 9))); }
    let content = match r.below(8) { 0 => vec![], 1 => r.bytes(16), 2 => r.bytes(15), 3 => { let n = 250 + r.usize(1500); r.bytes(n) } _ => { let n = r.usize(200); r.bytes(n) } };
    let mut s = Stream::new(d, content);
    if o.bad_length && r.chance(1, 4) {
        match r.below(3) { 0 => { s.dict.remove(b"Length"); } 1 => { s.dict.set("Length", Object::Integer(r.range(0, 500))); } _ => { s.dict.set("Length", Object::Reference((99, 0))); } }
    }
    Object::Stream(s)
}

pub fn gen_doc(r: &mut Rng, o: &GenOpts) -> Document {
    let mut doc = Document::with_version("1.7");
    let n = 1 + r.usize(8);
    // one document in ten numbers its objects around 2^24: Algorithm 1 uses the LOW-ORDER three bytes of the object number
    let mut cur = if r.chance(1, 10) { 0x00ff_fffc } else { 0u32 };
    for _ in 0..n {
        cur += 1 + r.below(3) as u32;
        let id: ObjectId = (cur, if r.chance(1, 8) { r.below(4) as u16 } else { 0 });
        let obj = match r.below(10) {
            0..=3 => gen_stream(r, o),
            4..=6 => Object::Dictionary(gen_dict(r, 0, o)),
            7 => gen_string(r),
            _ => gen_value(r, 0, o),
        };
        doc.objects.insert(id, obj);
    }
    doc.max_id = cur + r.below(3) as u32;
    // keep the would-be Encrypt id free (max_id is meant to be the largest object number)
    let mut cat = Dictionary::new(); cat.set("Type", Object::Name(b"Catalog".to_vec()));
    let first = *doc.objects.keys().next().unwrap();
    doc.trailer.set("Root", Object::Reference(first));
    let _ = cat;
    let id0 = r.bytes(16); let id1 = r.bytes(16);
    doc.trailer.set("ID", Object::Array(vec![Object::String(id0, StringFormat::Hexadecimal), Object::String(id1, StringFormat::Hexadecimal)]));
    if r.chance(1, 3) { doc.trailer.set("Info", Object::Reference(first)); }
    doc
}

// ------------------------------------------------------------------ oracle helpers
/// equality of two objects ignoring the `Length` entry of stream dictionaries (Stream::set_content)
pub fn same_mod_length(a: &Object, b: &Object) -> bool {
    match (a, b) {
        (Object::Array(x), Object::Array(y)) => x.len() == y.len() && x.iter().zip(y).all(|(p, q)| same_mod_length(p, q)),
        (Object::Dictionary(x), Object::Dictionary(y)) => same_dict(x, y, false),
        (Object::Stream(x), Object::Stream(y)) => x.content == y.content && same_dict(&x.dict, &y.dict, true),
        (Object::String(x, f), Object::String(y, g)) => x == y && f == g,
        (Object::Real(x), Object::Real(y)) => x.to_bits() == y.to_bits(),
        _ => show_obj(a) == show_obj(b),
    }
}
fn same_dict(x: &Dictionary, y: &Dictionary, skip_length: bool) -> bool {
    let kx: Vec<&Vec<u8>> = x.iter().map(|(k, _)| k).filter(|k| !(skip_length && k.as_slice() == b"Length")).collect();
    let ky: Vec<&Vec<u8>> = y.iter().map(|(k, _)| k).filter(|k| !(skip_length && k.as_slice() == b"Length")).collect();
    if kx != ky { return false; }
    kx.iter().all(|k| same_mod_length(x.get(k).unwrap(), y.get(k).unwrap()))
}
pub fn docs_same_mod_length(a: &Document, b: &Document) -> Result<(), String> {
    if a.objects.len() != b.objects.len() { return Err(format!("object count {} vs {}", a.objects.len(), b.objects.len())); }
    for ((ia, oa), (ib, ob)) in a.objects.iter().zip(b.objects.iter()) {
        if ia != ib { return Err(format!("ids {:?} vs {:?}", ia, ib)); }
        if !same_mod_length(oa, ob) { return Err(format!("object {:?} differs: {} vs {}", ia, show_obj(oa), show_obj(ob))); }
    }
    if show_obj(&Object::Dictionary(a.trailer.clone())) != show_obj(&Object::Dictionary(b.trailer.clone())) { return Err("trailer differs".into()); }
    Ok(())
}

/// IVs in the order the real code drew them: strings / streams whose length changed (AES output is
/// always longer than its input, RC4 / Identity keep the length).
pub fn collect_ivs(orig: &Object, enc: &Object, out: &mut Vec<Vec<u8>>) {
    match (orig, enc) {
        (Object::Array(x), Object::Array(y)) => for (p, q) in x.iter().zip(y) { collect_ivs(p, q, out); },
        (Object::Dictionary(x), Object::Dictionary(y)) => for ((_, p), (_, q)) in x.iter().zip(y.iter()) { collect_ivs(p, q, out); },
        (Object::String(x, _), Object::String(y, _)) => if x.len() != y.len() && y.len() >= 16 { out.push(y[..16].to_vec()); },
        (Object::Stream(x), Object::Stream(y)) => {
            // the strings of the stream dictionary are processed before the data
            for ((_, p), (_, q)) in x.dict.iter().zip(y.dict.iter()) { collect_ivs(p, q, out); }
            if x.content.len() != y.content.len() && y.content.len() >= 16 { out.push(y.content[..16].to_vec()); }
        }
        _ => {}
    }
}
pub fn show_ivs(ivs: &[Vec<u8>]) -> String {
    let mut s = ivs.len().to_string();
    for iv in ivs { s.push(' '); s.push_str(&hex_tok(iv)); }
    s
}

/// Algorithm 2.B table for the model: every (password, salt, udata) the code can hash for this
/// encryption dictionary and these candidate passwords — computed by the reference.
pub fn h2b_table(rev: i64, o: &[u8], u: &[u8], pws: &[Vec<u8>]) -> String {
    // Algorithm 2.B is now part of the Lean model itself: no results are shipped any more
    let _ = (rev, o, u, pws);
    "0".into()
}

/// the password bytes the real code feeds its algorithms (`PasswordAlgorithm::sanitize_password` is public)
pub fn sanitize(enc_doc: &Document, pw: &str) -> Option<Vec<u8>> {
    let alg = lopdf::encryption::PasswordAlgorithm::try_from(enc_doc).ok()?;
    alg.sanitize_password(pw).ok()
}

pub struct Encrypted { pub state: EncryptionState, pub doc: Document, pub ivs: Vec<Vec<u8>>, pub owner_b: Vec<u8>, pub user_b: Vec<u8>,
    /// whether the hashing requests of this case (c5_mkstate / c5_decdoc) are sent to the model: always, except
    /// for revision 6 beyond a per-run budget — the model runs the full Algorithm 2.B in Lean (about 0.2 s a hash)
    pub full_model: bool }

/// budget of revision-6 cases whose hashing requests go to the Lean model (all R2–R5 cases do)
pub fn r6_model_budget(c: &mut Ctx, rev: i64, key: &str) -> bool {
    if rev != 6 { return true; }
    let used = *c.counters.get(key).unwrap_or(&0);
    if used >= c.n(6, 40) { c.count(&format!("{}.skipped", key)); return false; }
    c.count(key); true
}

/// real `try_from` + `encrypt`; records the `c5_mkstate` / `c5_encdoc` correspondences
pub fn encrypt_real(c: &mut Ctx, cfg: &Config, orig: &Document) -> Result<Encrypted, String> {
    let state = match guard(|| cfg.make_state(orig)) {
        Ok(Ok(s)) => s,
        Ok(Err(e)) => return Err(format!("try_from: {}", err_class(&e))),
        Err((site, msg)) => return Err(format!("panic@{} {}", site, msg)),
    };
    let mut doc = orig.clone();
    match guard(|| doc.encrypt(&state)) {
        Ok(Ok(())) => {}
        Ok(Err(e)) => return Err(format!("encrypt: {}", err_class(&e))),
        Err((site, msg)) => return Err(format!("panic@{} {}", site, msg)),
    }
    let mut ivs = vec![];
    for (id, o) in orig.objects.iter() { if let Some(e) = doc.objects.get(id) { collect_ivs(o, e, &mut ivs); } }
    let owner_b = sanitize(&doc, &cfg.owner).ok_or("sanitize")?;
    let user_b = sanitize(&doc, &cfg.user).ok_or("sanitize")?;
    // random bytes of try_from, read off its result
    let rev = state.revision();
    let (u_tail, u_salts, o_salts, perms_rnd) = if rev >= 5 {
        // the random tail of the Perms block: decrypt it with the (independent) aes crate
        let pr = rf::aes_dec_block(state.file_encryption_key(), state.permission_encrypted());
        (vec![], state.user_value()[32..48].to_vec(), state.owner_value()[32..48].to_vec(), pr[12..16].to_vec())
    } else if rev >= 3 { (state.user_value()[16..32].to_vec(), vec![], vec![], vec![]) } else { (vec![], vec![], vec![], vec![]) };
    let tbl = h2b_table(rev, state.owner_value(), state.user_value(), &[owner_b.clone(), user_b.clone()]);
    let full_model = r6_model_budget(c, rev, "r6.model_cases");
    if full_model {
        c.corr(format!("c5_mkstate {} {} {} {} {} {} {}", cfg.show(&owner_b, &user_b), hex_tok(&rf::file_id0(orig)),
            hex_tok(&u_tail), hex_tok(&u_salts), hex_tok(&o_salts), hex_tok(&perms_rnd), tbl), format!("ok {}", show_state(&state)));
    }
    c.corr(format!("c5_encdoc {} {} {}", show_state(&state), show_doc(orig), show_ivs(&ivs)), format!("ok {}", show_doc(&doc)));
    Ok(Encrypted { state, doc, ivs, owner_b, user_b, full_model })
}

/// real `decrypt(password)` on a clone; records the `c5_decdoc` correspondence (with the sanitised bytes)
pub fn decrypt_real(c: &mut Ctx, e: &Encrypted, pw: &str, extra_tbl: &[Vec<u8>]) -> Result<Document, String> { decrypt_real2(c, e, pw, extra_tbl, true) }
pub fn decrypt_real2(c: &mut Ctx, e: &Encrypted, pw: &str, extra_tbl: &[Vec<u8>], check_unchanged: bool) -> Result<Document, String> {
    let mut d = e.doc.clone();
    let Some(pw_b) = sanitize(&e.doc, pw) else {
        // the password cannot be prepared (R<=4: a character outside PDFDocEncoding): it must be rejected as such
        let res = guard(|| d.decrypt(pw));
        let cls = match &res { Ok(Ok(())) => "ok".to_string(), Ok(Err(err)) => err_class(err), Err(_) => "panic".into() };
        corr_sanitize(c, &e.doc, pw);
        if show_doc(&d) != show_doc(&e.doc) { c.oracle_fail("failed-decrypt-mutated", "decrypt with an unpreparable password changed the document", json!({"password": pw, "result": cls})); }
        return if cls == "ok" { Ok(d) } else { Err(cls) };
    };
    let res = guard(|| d.decrypt(pw));
    let mut pws = vec![e.owner_b.clone(), e.user_b.clone(), pw_b.clone()]; pws.extend_from_slice(extra_tbl);
    let tbl = h2b_table(e.state.revision(), e.state.owner_value(), e.state.user_value(), &pws);
    let req = format!("c5_decdoc {} {} {}", show_doc(&e.doc), hex_tok(&pw_b), tbl);
    match res {
        Ok(Ok(())) => { if e.full_model { c.corr(req, format!("ok {}", show_doc(&d))); } Ok(d) }
        Ok(Err(err)) => {
            let cls = err_class(&err);
            if e.full_model { c.corr(req, format!("err {}", cls)); }
            if check_unchanged && show_doc(&d) != show_doc(&e.doc) {
                c.oracle_fail("failed-decrypt-mutated", "decrypt returned an error but changed the document", json!({"password": pw, "error": cls}));
            }
            Err(cls)
        }
        Err((site, msg)) => { c.oracle_fail(&format!("panic@{}", site), &msg, json!({"password": pw})); Err("panic".into()) }
    }
}

/// `c5_sanitize`: the model's password preparation against the real `sanitize_password` (R<=4 documents)
pub fn corr_sanitize(c: &mut Ctx, enc_doc: &Document, pw: &str) {
    let Ok(alg) = lopdf::encryption::PasswordAlgorithm::try_from(enc_doc) else { return };
    let units: Vec<u8> = pw.encode_utf16().flat_map(|u| u.to_be_bytes()).collect();
    let reply = match alg.sanitize_password(pw) { Ok(b) => format!("ok {}", hex_tok(&b)), Err(e) => format!("err {}", err_class(&lopdf::Error::from(e))) };
    c.corr(format!("c5_sanitize {}", hex_tok(&units)), reply);
}

/// independent judgement: does the password contain a character PDFDocEncoding certainly lacks
/// (Greek, Cyrillic, Hebrew, Arabic, …, CJK — PDFDocEncoding is Latin only)?
pub fn certainly_unrepresentable(pw: &str) -> bool { pw.chars().any(|ch| matches!(ch as u32, 0x0370..=0x1FFF | 0x3000..=0x9FFF | 0xAC00..=0xD7A3)) }
pub fn certainly_representable(pw: &str) -> bool { pw.chars().all(|ch| matches!(ch as u32, 0x20..=0x7E)) }

/// R<=4 passwords with characters outside PDFDocEncoding: rejected at creation and at every check,
/// never shortened or treated as empty (stream "unrep")
fn unrepresentable_cases(c: &mut Ctx) {
    let pool = ['п', 'а', 'р', 'о', 'л', 'ь', '密', '码', 'λ', 'ש', 'ع', '한'];
    let n = c.n(40, 400);
    for i in 0..n {
        let Some(mut r) = c.case("unrep", i) else { continue };
        let ver = match r.below(3) { 0 => Ver::V1, 1 => Ver::V2(40 + 8 * r.usize(12)), _ => Ver::V4 };
        let mut cfg = gen_config(&mut r, Some(ver));
        let bad: String = { let k = 1 + r.usize(6); let mut s: String = (0..k).map(|_| *r.pick(&pool)).collect(); if r.chance(1, 2) { s.insert_str(0, "pw"); } if r.chance(1, 2) { s.push_str("42"); } s };
        let orig = gen_doc(&mut r, &GenOpts { stream_dict_strings: true, nested_streams: false, meta_dicts: false, bad_length: false });
        let case = json!({"config": format!("{:?}", cfg), "bad": bad});
        // (1) creation with such a user / owner password is an error
        let which = r.below(2);
        let mut bad_cfg = cfg.clone(); if which == 0 { bad_cfg.user = bad.clone(); } else { bad_cfg.owner = bad.clone(); }
        match guard(|| bad_cfg.make_state(&orig)) {
            Ok(Ok(_)) => c.oracle_fail("non-pdfdoc-password-collapses", "EncryptionState::try_from accepted a password with characters outside PDFDocEncoding", case.clone()),
            Ok(Err(e)) => { let cls = err_class(&e); if cls == "UnrepresentablePassword" { c.count("unrep.creation_rejected"); } else { c.oracle_fail("unrepresentable-wrong-error", &cls, case.clone()); } }
            Err((site, msg)) => c.oracle_fail(&format!("panic@{}", site), &msg, case.clone()),
        }
        // (2) on a document with representable passwords (possibly empty): such a password is rejected by every entry point
        if !certainly_representable(&cfg.user) { cfg.user = "user".into(); }
        if !certainly_representable(&cfg.owner) { cfg.owner = "owner".into(); }
        if r.chance(1, 3) { cfg.user = String::new(); }
        let Ok(e) = encrypt_real(c, &cfg, &orig) else { c.oracle_fail("encrypt-failed", "representable passwords", case.clone()); continue };
        debug_assert!(certainly_unrepresentable(&bad));
        match decrypt_real(c, &e, &bad, &[]) {
            Ok(_) => c.oracle_fail("non-pdfdoc-password-collapses", "decrypt accepted a password with characters outside PDFDocEncoding", case.clone()),
            Err(cls) => if cls == "UnrepresentablePassword" { c.count("unrep.decrypt_rejected"); } else { c.oracle_fail("unrepresentable-wrong-error", &cls, case.clone()); },
        }
        for (name, ok) in [("authenticate_password", e.doc.authenticate_password(&bad).is_ok()), ("authenticate_user_password", e.doc.authenticate_user_password(&bad).is_ok()),
                           ("authenticate_owner_password", e.doc.authenticate_owner_password(&bad).is_ok())] {
            if ok { c.oracle_fail("non-pdfdoc-password-collapses", &format!("{} accepted a password with characters outside PDFDocEncoding", name), case.clone()); }
        }
        // the prepared form of the representable passwords, model against implementation
        corr_sanitize(c, &e.doc, &cfg.user); corr_sanitize(c, &e.doc, &cfg.owner);
        let latin: String = (0..1 + r.usize(8)).map(|_| *r.pick(&['é', 'ü', 'ß', 'Ø', 'ñ', '€', '•', 'Ł', 'ﬁ', 'a', '~', ' '])).collect();
        corr_sanitize(c, &e.doc, &latin);
        c.nontrivial(&format!("{}{}", bad, show_doc(&e.doc)));
    }
}


// ------------------------------------------------------------------ object streams: re-expanded by decrypt_raw
fn ser(o: &Object, out: &mut Vec<u8>) {
    match o {
        Object::Null => out.extend_from_slice(b"null"),
        Object::Boolean(b) => out.extend_from_slice(if *b { b"true" } else { b"false" }),
        Object::Integer(i) => out.extend_from_slice(i.to_string().as_bytes()),
        Object::Name(n) => { out.push(b'/'); out.extend_from_slice(n); }
        Object::String(s, _) => { out.push(b'('); out.extend_from_slice(s); out.push(b')'); }
        Object::Array(a) => { out.push(b'['); for (i, x) in a.iter().enumerate() { if i > 0 { out.push(b' '); } ser(x, out); } out.push(b']'); }
        Object::Dictionary(d) => { out.extend_from_slice(b"<<"); for (k, v) in d.iter() { out.push(b'/'); out.extend_from_slice(k); out.push(b' '); ser(v, out); } out.extend_from_slice(b">>"); }
        Object::Reference((n, g)) => out.extend_from_slice(format!("{} {} R", n, g).as_bytes()),
        _ => out.extend_from_slice(b"null"),
    }
}
fn gen_member(r: &mut Rng, depth: usize) -> Object {
    match r.below(if depth >= 2 { 5 } else { 7 }) {
        0 => Object::Integer(r.range(-99, 9999)),
        1 => Object::Name(r.pick(&[&b"A"[..], b"Font", b"Page", b"K1"]).to_vec()),
        2 => Object::String((0..r.usize(12)).map(|_| b'a' + r.below(26) as u8).collect(), StringFormat::Literal),
        3 => Object::Reference((1 + r.below(20) as u32, 0)),
        4 => if r.chance(1, 2) { Object::Null } else { Object::Boolean(r.chance(1, 2)) },
        5 => Object::Array((0..r.usize(4)).map(|_| gen_member(r, depth + 1)).collect()),
        _ => { let mut d = Dictionary::new(); for k in [&b"K"[..], b"T", b"V"].iter().take(r.usize(4)) { d.set(k.to_vec(), gen_member(r, depth + 1)); } Object::Dictionary(d) }
    }
}
/// an unfiltered `/Type /ObjStm` stream holding `members`; `damage` selects a malformation
fn make_objstm(members: &[(u32, Object)], damage: u64) -> Object {
    let mut bodies: Vec<Vec<u8>> = vec![];
    for (_, o) in members { let mut b = vec![]; ser(o, &mut b); bodies.push(b); }
    let mut index = String::new(); let mut off = 0usize;
    for (i, (id, _)) in members.iter().enumerate() {
        let shown_off = if damage == 3 && i == 0 { 100000 } else { off };
        if damage == 4 && i == 1 { index.push_str(&format!("x{} {} ", id, shown_off)); } else { index.push_str(&format!("{} {} ", id, shown_off)); }
        off += bodies[i].len() + 1;
    }
    let mut content = index.clone().into_bytes();
    for b in &bodies { content.extend_from_slice(b); content.push(b' '); }
    let mut d = Dictionary::new();
    d.set("Type", Object::Name(b"ObjStm".to_vec()));
    if damage != 2 { d.set("N", Object::Integer(members.len() as i64)); }
    d.set("First", Object::Integer(if damage == 1 { content.len() as i64 + 50 } else { index.len() as i64 }));
    if damage == 5 { content.clear(); }
    Object::Stream(Stream::new(d, content))
}

fn objstm_cases(c: &mut Ctx) {
    let n = c.n(60, 600);
    for i in 0..n {
        let Some(mut r) = c.case("objstm", i) else { continue };
        let cfg = { let mut cfg = gen_config(&mut r, None); if cfg.is_r6ish() && r.chance(1, 2) { cfg = gen_config(&mut r, Some(Ver::V4)); } cfg };
        let mut orig = gen_doc(&mut r, &GenOpts { stream_dict_strings: true, nested_streams: false, meta_dicts: false, bad_length: false });
        let existing: Vec<ObjectId> = orig.objects.keys().cloned().collect();
        let n_cont = 1 + r.usize(2);
        let mut expected_new: BTreeMap<ObjectId, Object> = BTreeMap::new();   // what the re-expansion must add
        let mut well_formed = true;
        let mut next_id = orig.max_id + 1;   // the Encrypt object takes max_id + 1: keep containers below / above deliberately
        let mut conts = vec![];
        for _ in 0..n_cont {
            let mut members: Vec<(u32, Object)> = vec![];
            for _ in 0..1 + r.usize(4) {
                let id = match r.below(5) {
                    0 => r.pick(&existing).0,                       // already present: must NOT be replaced
                    1 => orig.max_id + 1,                           // the number the Encrypt object takes: not inserted, gone afterwards
                    _ => { next_id += 1 + r.below(2) as u32; next_id }
                };
                members.push((id, gen_member(&mut r, 0)));
            }
            if r.chance(1, 6) && members.len() > 1 { let dup = members[0].0; members.last_mut().unwrap().0 = dup; }   // number listed twice: last wins
            let damage = if r.chance(1, 4) { 1 + r.below(5) } else { 0 };
            if damage != 0 { well_formed = false; }
            conts.push((members, damage));
        }
        // containers get ids above everything else; max_id stays the largest non-member id so that the Encrypt id can collide with a member
        let mut cid = next_id + 5;
        // members always have generation 0: an existing object with the same number but another generation does not block them
        let mut claimed: std::collections::BTreeSet<ObjectId> = existing.iter().cloned().collect();
        claimed.insert((orig.max_id + 1, 0));
        for (members, damage) in &conts {
            cid += 1;
            orig.objects.insert((cid, 0), make_objstm(members, *damage));
            // a document that was LOADED from a file with object streams still carries the cross-reference entries that place
            // the members in their containers (and may have been edited since): half of the members get such an entry
            for (j, (id, _)) in members.iter().enumerate() {
                if r.chance(1, 2) { orig.reference_table.insert(*id, lopdf::xref::XrefEntry::Compressed { container: cid, index: j as u16 }); c.count("objstm.member_with_compressed_xref_entry"); }
            }
            if *damage == 0 {
                // BTreeMap of one container: the last entry of a repeated number wins; across containers the first container wins
                let mut one: BTreeMap<u32, Object> = BTreeMap::new();
                for (id, o) in members { one.insert(*id, o.clone()); }
                for (id, o) in one { if !claimed.contains(&(id, 0)) { claimed.insert((id, 0)); expected_new.insert((id, 0), o); } }
            }
        }
        let case = json!({"config": format!("{:?}", cfg), "doc": show_doc(&orig)});
        c.count(if well_formed { "objstm.well_formed" } else { "objstm.damaged" });
        let e = match encrypt_real(c, &cfg, &orig) { Ok(e) => e, Err(w) => { c.oracle_fail("encrypt-failed", &w, case); continue } };
        match decrypt_real(c, &e, &cfg.user, &[]) {
            Ok(d) => {
                for (id, o) in orig.objects.iter() {
                    match d.objects.get(id) { Some(x) if same_mod_length(o, x) => {}, other => { c.oracle_fail("objstm-original-changed", &format!("object {:?}: {} became {:?}", id, show_obj(o), other.map(show_obj)), case.clone()); break; } }
                }
                if well_formed {
                    for (id, o) in &expected_new {
                        match d.objects.get(id) { Some(x) if show_obj(x) == show_obj(o) => c.count("objstm.member_added"), other => { c.oracle_fail("objstm-member-missing", &format!("member {:?} = {} of a decrypted object stream: got {:?}", id, show_obj(o), other.map(show_obj)), case.clone()); break; } }
                    }
                    let extra: Vec<_> = d.objects.keys().filter(|k| !orig.objects.contains_key(k) && !expected_new.contains_key(k)).collect();
                    if !extra.is_empty() { c.oracle_fail("objstm-unexpected-object", &format!("{:?}", extra), case.clone()); }
                }
                if d.is_encrypted() { c.oracle_fail("encrypt-entry-left", "", case.clone()); }
                c.nontrivial(&show_doc(&e.doc));
            }
            Err(cls) => c.oracle_fail("user-password-rejected", &cls, case.clone()),
        }
    }
}

fn pick_wrong(r: &mut Rng, cfg: &Config) -> String {
    loop {
        let w = match r.below(4) { 0 => String::new(), 1 => format!("{}x", cfg.user), 2 => "wrong".to_string(), _ => cfg.owner.chars().rev().collect::<String>() + "!" };
        if w != cfg.user && w != cfg.owner { return w; }
    }
}

/// does the ISO reference regard this document as free of the registered C06 deviations
/// (so that its decryption must agree with lopdf's)?
fn count_strings(o: &Object, in_stream_dict: bool, n_plain: &mut usize, n_sd: &mut usize, n_meta_dict: &mut usize) {
    match o {
        Object::String(_, _) => if in_stream_dict { *n_sd += 1 } else { *n_plain += 1 },
        Object::Array(a) => for x in a { count_strings(x, in_stream_dict, n_plain, n_sd, n_meta_dict); },
        Object::Dictionary(d) => {
            if matches!(d.get(b"Type"), Ok(Object::Name(n)) if n == b"Metadata") { *n_meta_dict += 1; }
            for (_, x) in d.iter() { count_strings(x, in_stream_dict, n_plain, n_sd, n_meta_dict); }
        }
        Object::Stream(s) => { *n_plain += 1; for (_, x) in s.dict.iter() { count_strings(x, true, n_plain, n_sd, n_meta_dict); } }
        _ => {}
    }
}

pub fn run(c: &mut Ctx) {
    c.rule = "random documents (1-9 objects, sparse ids / generations, strings nested in arrays and dictionaries to depth 4, binary / empty / 15-16-17-byte \
strings and streams, Metadata / XRef / Crypt-override streams, Metadata dictionaries, wrong or missing Length) x configurations {V1; V2 40..128 step 8; V4 with \
{RC4,AESV2,Identity} chosen independently for strings and streams; R5; V5} x EncryptMetadata x permission subsets x passwords (empty, ASCII, Latin-1, non-Latin (R>=5; for R<=4 they must be rejected: stream unrep), \
33-72 and 100-200 bytes incl. 127 / 128, owner = user). Non-trivial = at least one string or stream was present and the configuration is not all-Identity; distinct by encdoc request.".into();
    primitives(c);
    let n = c.n(260, 2500);
    for i in 0..n {
        let Some(mut r) = c.case("doc", i) else { continue };
        // every version / key length is hit deterministically at the start of the stream
        let forced = match i { 0 => Some(Ver::V1), 1..=12 => Some(Ver::V2(40 + 8 * (i as usize - 1))), 13..=16 => Some(Ver::V4), 17 | 18 => Some(Ver::R5), 19..=22 => Some(Ver::V5), _ => None };
        let cfg = gen_config(&mut r, forced);
        let opts = GenOpts { stream_dict_strings: r.chance(1, 4), nested_streams: r.chance(1, 4), meta_dicts: r.chance(1, 4), bad_length: r.chance(1, 3) };
        let orig = gen_doc(&mut r, &opts);
        one_case(c, &mut r, &cfg, &orig, i % 3 == 0);
    }
    unrepresentable_cases(c);
    objstm_cases(c);
    witnesses(c);
}

fn one_case(c: &mut Ctx, r: &mut Rng, cfg: &Config, orig: &Document, with_save: bool) {
    let tag = match &cfg.ver { Ver::V1 => "v1".to_string(), Ver::V2(l) => format!("v2.{}", l), Ver::V4 => "v4".into(), Ver::R5 => "r5".into(), Ver::V5 => "v5".into() };
    c.count(&format!("cfg.{}", tag));
    if cfg.encrypt_metadata { c.count("cfg.encrypt_metadata") } else { c.count("cfg.no_encrypt_metadata") }
    if cfg.owner == cfg.user { c.count("pw.owner_eq_user"); }
    if cfg.user.is_empty() { c.count("pw.user_empty"); }
    if !cfg.user.is_ascii() || !cfg.owner.is_ascii() { c.count("pw.non_ascii"); }
    if cfg.user.len() > 32 || cfg.owner.len() > 32 { c.count("pw.longer_than_32"); }
    if cfg.user.len() > 100 || cfg.owner.len() > 100 { c.count("pw.longer_than_100"); }
    for (_, k) in &cfg.filters { c.count(&format!("cfg.filter.{}", *k as char)); }
    let e = match encrypt_real(c, cfg, orig) {
        Ok(e) => e,
        Err(what) => { c.oracle_fail("encrypt-failed", &what, json!({"config": format!("{:?}", cfg)})); return; }
    };
    let (mut n_plain, mut n_sd, mut n_md) = (0, 0, 0);
    for (_, o) in orig.objects.iter() { count_strings(o, false, &mut n_plain, &mut n_sd, &mut n_md); }
    if n_plain > 0 { c.nontrivial(&show_doc(&e.doc)); }
    c.count_n("ivs", e.ivs.len() as u64);
    let case = json!({"config": format!("{:?}", cfg), "doc": show_doc(orig)});
    c.sample(json!({"config": format!("{:?}", cfg), "objects": orig.objects.len(), "ivs": e.ivs.len()}));

    // ---- structure of the encrypted document
    if !e.doc.is_encrypted() { c.oracle_fail("not-marked-encrypted", "is_encrypted() is false after encrypt", case.clone()); }
    if e.doc.objects.len() != orig.objects.len() + 1 { c.oracle_fail("encrypt-object-count", "encrypt did not add exactly one object", case.clone()); }

    // ---- ISO reference decrypts what lopdf encrypted (user and owner password), bit for bit
    // the reference is ISO; keep documents on which lopdf is known / expected to differ out of the reference checks:
    // Metadata *dictionaries*, Crypt filters in V<4 documents or in a malformed Filter array.
    let mut crypt_any = false; let mut crypt_odd = false;
    for (_, o) in orig.objects.iter() { scan_crypt(o, &mut crypt_any, &mut crypt_odd); }
    let iso_clean = n_md == 0 && !(cfg.revision() < 4 && crypt_any) && !crypt_odd;
    if iso_clean {
        for (who, pw) in [("user", &e.user_b), ("owner", &e.owner_b)] {
            if who == "owner" && cfg.revision() <= 4 && e.owner_b.is_empty() && !e.user_b.is_empty() { continue; }
            match rf::decrypt_document(&e.doc, pw, true, false) {
                Ok((d, _)) => {
                    if let Err(w) = docs_same_mod_length(orig, &d) {
                        c.oracle_fail("reference-decrypt-differs", &format!("ISO reference decrypting lopdf's output with the {} password: {}", who, w), case.clone());
                    } else { c.count(&format!("ref_decrypt_ok.{}", who)); }
                }
                Err(w) => {
                    c.oracle_fail("reference-rejects", &format!("ISO reference on lopdf's output ({} password): {}", who, w), case.clone());
                }
            }
        }
    } else { c.count("skipped_reference.metadata_dict"); }

    // ---- ciphertext differs from plaintext (>= 16 bytes, non-identity filter): judged with the reference's filter assignment
    if iso_clean {
        if let Some(Object::Dictionary(ed)) = e.doc.trailer.get(b"Encrypt").ok().and_then(|o| o.as_reference().ok()).and_then(|id| e.doc.objects.get(&id)) {
            if let Some(d) = rf::read_enc_dict(ed) {
                for (id, o) in orig.objects.iter() {
                    if let Some(enc) = e.doc.objects.get(id) { check_changed(c, &d, o, enc, &case, *id); }
                }
            }
        }
    }

    // ---- real decrypt: user password
    match decrypt_real(c, &e, &cfg.user, &[]) {
        Ok(d) => {
            if let Err(w) = docs_same_mod_length(orig, &d) { c.oracle_fail("user-roundtrip-differs", &w, case.clone()); } else { c.count("roundtrip_ok.user"); }
            if d.is_encrypted() || d.trailer.has(b"Encrypt") { c.oracle_fail("encrypt-entry-left", "Encrypt still present after decrypt", case.clone()); }
        }
        Err(cls) => c.oracle_fail("user-password-rejected", &cls, case.clone()),
    }
    // ---- real decrypt: owner password. R2–R4 with owner != user is finding F-C05-a territory: correspondence only
    let owner_known_bad = false;   // F-C05-a repaired: the owner password is under the oracle for every revision
    // R2-R4: an empty owner password means there is none (Algorithm 3 step a): "" is then not a password of the document
    let owner_absent = cfg.revision() <= 4 && e.owner_b.is_empty() && !e.user_b.is_empty();
    if owner_absent {
        match decrypt_real(c, &e, &cfg.owner, &[]) {
            Ok(_) => c.oracle_fail("wrong-password-accepted", "the empty password was accepted although no owner password was set and the user password is not empty", case.clone()),
            Err(_) => c.count("owner_absent.empty_rejected"),
        }
    } else { match decrypt_real2(c, &e, &cfg.owner, &[], !owner_known_bad) {
        Ok(d) => {
            if owner_known_bad { c.count("owner_r234.corr_only"); }
            else if let Err(w) = docs_same_mod_length(orig, &d) { c.oracle_fail("owner-roundtrip-differs", &w, case.clone()); } else { c.count("roundtrip_ok.owner"); }
        }
        Err(cls) => if !owner_known_bad { c.oracle_fail("owner-password-rejected", &cls, case.clone()) }
                    else { c.count("owner_r234.rejected") },
    } }
    // ---- wrong password: error, document unchanged (checked inside decrypt_real)
    let wrong = pick_wrong(r, cfg);
    let wrong_b = sanitize(&e.doc, &wrong).unwrap_or_default();
    if wrong_b != e.user_b && wrong_b != e.owner_b {
        // for R<=4 only 32 bytes count
        let eq32 = |a: &[u8], b: &[u8]| a.iter().take(32).eq(b.iter().take(32));
        // R5/R6: only the first 127 bytes count
        let eq127 = |a: &[u8], b: &[u8]| a.iter().take(127).eq(b.iter().take(127));
        if (cfg.revision() > 4 && !eq127(&wrong_b, &e.user_b) && !eq127(&wrong_b, &e.owner_b)) || (cfg.revision() <= 4 && !eq32(&wrong_b, &e.user_b) && !eq32(&wrong_b, &e.owner_b)) {
            match decrypt_real(c, &e, &wrong, &[]) {
                Ok(_) => c.oracle_fail("wrong-password-accepted", "a password that is neither the user nor the owner password was accepted", json!({"wrong": wrong, "case": case})),
                Err(_) => c.count("wrong_rejected"),
            }
            if e.doc.authenticate_password(&wrong).is_ok() { c.oracle_fail("wrong-password-accepted", "authenticate_password accepted a wrong password", case.clone()); }
        }
    }
    // ---- authenticate_* agree with the reference
    if iso_clean {
        let enc_dict = e.doc.get_encrypted().ok().and_then(rf::read_enc_dict);
        if let Some(d) = enc_dict {
            let id0 = rf::file_id0(orig);
            for pw in [&cfg.user, &cfg.owner, &wrong] {
                let b = sanitize(&e.doc, pw).unwrap_or_default();
                let expect = rf::authenticate(&d, &id0, &b, false).is_some();
                let got = e.doc.authenticate_password(pw).is_ok();
                if expect != got {
                    c.oracle_fail("authenticate-differs", &format!("authenticate_password={} reference={}", got, expect), json!({"pw": pw, "case": case}));
                }
            }
        }
    }
    // ---- through save_to / load_mem
    if with_save {
        let mut bytes = vec![];
        let mut to_save = e.doc.clone();
        if guard(|| to_save.save_to(&mut bytes)).map(|r| r.is_ok()).unwrap_or(false) {
            match guard(|| Document::load_mem(&bytes)) {
                Ok(Ok(mut loaded)) => {
                    c.count("saveload.loaded");
                    let auto = !loaded.is_encrypted();
                    if auto { c.count("saveload.auto_decrypted"); }
                    let ok = auto || loaded.decrypt(&cfg.user).is_ok();
                    if !ok { c.oracle_fail("saveload-user-rejected", "user password rejected after save/load", case.clone()); }
                    else if auto && owner_known_bad && e.owner_b.is_empty() { c.count("saveload.auto_owner_r234_known"); }
                    else {
                        // compare strings and stream contents object by object (ids survive; the loader may add nothing else)
                        for (id, o) in orig.objects.iter() {
                            if !file_representable(o, true) { c.count("saveload.skipped_unrepresentable_object"); continue; }
                            match loaded.objects.get(id) {
                                Some(l) if same_mod_length(o, l) => {}
                                Some(l) => { if !has_real_or_lengthref(o) { c.oracle_fail("saveload-roundtrip-differs", &format!("object {:?}: {} vs {}", id, show_obj(o), show_obj(l)), case.clone()); } break; }
                                None if matches!(o, Object::Stream(s) if matches!(s.dict.get(b"Type"), Ok(Object::Name(n)) if n == b"XRef")) => { c.count("saveload.xref_typed_stream_dropped_by_loader"); }
                                None => { c.oracle_fail("saveload-object-lost", &format!("object {:?} = {} missing after save/load/decrypt", id, show_obj(o)), case.clone()); break; }
                            }
                        }
                        c.count("saveload.compared");
                    }
                }
                Ok(Err(_)) if owner_known_bad && e.owner_b.is_empty() => c.count("saveload.load_failed_empty_owner_r234_known"),
                Ok(Err(err)) => c.oracle_fail("saveload-load-failed", &format!("load_mem failed on the saved encrypted document: {:?}", err), case.clone()),
                Err((site, msg)) => c.oracle_fail(&format!("panic@{}", site), &msg, case.clone()),
            }
        }
    }
}

/// objects the file syntax cannot carry (a stream nested inside another object) or that the loader treats
/// specially (`/Type /XRef`) are outside this property's save/load comparison (C01 / C03 territory)
fn file_representable(o: &Object, top: bool) -> bool {
    let is_xref = |d: &Dictionary| matches!(d.get(b"Type"), Ok(Object::Name(n)) if n == b"XRef");
    match o {
        Object::Array(a) => a.iter().all(|x| file_representable(x, false)),
        Object::Dictionary(d) => !(top && is_xref(d)) && d.iter().all(|(_, v)| file_representable(v, false)),
        Object::Stream(s) => top && !is_xref(&s.dict) && s.dict.iter().all(|(_, v)| file_representable(v, false)),
        _ => true,
    }
}
pub fn scan_crypt(o: &Object, any: &mut bool, odd: &mut bool) {
    match o {
        Object::Array(a) => for x in a { scan_crypt(x, any, odd); },
        Object::Dictionary(d) => for (_, x) in d.iter() { scan_crypt(x, any, odd); },
        Object::Stream(s) => {
            let (has, all_names) = match s.dict.get(b"Filter") {
                Ok(Object::Name(n)) => (n == b"Crypt", true),
                Ok(Object::Array(a)) => (a.iter().any(|x| matches!(x, Object::Name(n) if n == b"Crypt")), a.iter().all(|x| matches!(x, Object::Name(_)))),
                _ => (false, true),
            };
            if has { *any = true; if !all_names { *odd = true; } }
        }
        _ => {}
    }
}
fn has_real_or_lengthref(o: &Object) -> bool {
    match o {
        Object::Real(_) => true,
        Object::Array(a) => a.iter().any(has_real_or_lengthref),
        Object::Dictionary(d) => d.iter().any(|(_, v)| has_real_or_lengthref(v)),
        Object::Stream(s) => !matches!(s.dict.get(b"Length"), Ok(Object::Integer(n)) if *n as usize == s.content.len()) || s.dict.iter().any(|(_, v)| has_real_or_lengthref(v)),
        _ => false,
    }
}

fn check_changed(c: &mut Ctx, d: &rf::EncDict, o: &Object, enc: &Object, case: &serde_json::Value, id: ObjectId) {
    match (o, enc) {
        (Object::Array(x), Object::Array(y)) => for (p, q) in x.iter().zip(y) { check_changed(c, d, p, q, case, id); },
        (Object::Dictionary(x), Object::Dictionary(y)) => for ((_, p), (_, q)) in x.iter().zip(y.iter()) { check_changed(c, d, p, q, case, id); },
        (Object::String(x, _), Object::String(y, _)) => {
            if rf::method_of(d, d.strf.as_deref()) != rf::Method::None && x.len() >= 16 && x == y {
                c.oracle_fail("ciphertext-equals-plaintext", "string of >= 16 bytes unchanged by a non-identity filter", json!({"id": format!("{:?}", id), "case": case}));
            } else if x.len() >= 16 { c.count("changed_checked.string"); }
        }
        (Object::Stream(x), Object::Stream(y)) => {
            let exempt = matches!(x.dict.get(b"Type"), Ok(Object::Name(n)) if n == b"XRef" || (n == b"Metadata" && !d.encrypt_metadata));
            if !exempt && x.content.len() >= 16 && x.content == y.content {
                // which method applies is the reference's decision
                let mut probe = Object::Stream(x.clone());
                let mut dir = rf::Dir::Enc(&mut || vec![0u8; 16]);
                let _ = rf::crypt_object(d, &[7u8; 32][..d.key_bytes()], id, &mut probe, &mut dir, false);
                if let Object::Stream(p) = probe { if p.content != x.content {
                    c.oracle_fail("ciphertext-equals-plaintext", "stream of >= 16 bytes unchanged by a non-identity filter", json!({"id": format!("{:?}", id), "case": case}));
                } }
            } else if x.content.len() >= 16 { c.count("changed_checked.stream"); }
        }
        _ => {}
    }
}

// ------------------------------------------------------------------ primitives: RC4 / per-object key / filters against the model
fn primitives(c: &mut Ctx) {
    let n = c.n(150, 1500);
    for i in 0..n {
        let Some(mut r) = c.case("prim", i) else { continue };
        // RC4 through the public Rc4CryptFilter
        let klen = match r.below(6) { 0 => 1, 1 => 5, 2 => 16, 3 => 32, 4 => 256, _ => 1 + r.usize(40) };
        let key = r.bytes(klen);
        let dl = r.usize(300); let data = r.bytes(dl);
        let out = match Rc4CryptFilter.encrypt(&key, &data) { Ok(o) => o, Err(e) => { c.oracle_fail("rc4-error", &format!("RC4 encrypt fails: {:?}", e), json!({"key": hex(&key), "data": hex(&data)})); continue } };
        c.corr(format!("c5_rc4 {} {}", hex_tok(&key), hex_tok(&data)), format!("ok {}", hex_tok(&out)));
        if out != rf::rc4(&key, &data) { c.oracle_fail("rc4-differs", "RC4 differs from the reference", json!({"key": hex(&key), "data": hex(&data)})); }
        if Rc4CryptFilter.decrypt(&key, &out).ok().as_ref() != Some(&data) { c.oracle_fail("rc4-not-involutive", "", json!({"key": hex(&key)})); }
        // per-object keys
        let fk_len = *r.pick(&[5usize, 7, 10, 11, 12, 16, 32]);
        let fk = r.bytes(fk_len);
        let id: ObjectId = (match r.below(4) { 0 => r.below(256) as u32, 1 => 0x00ff_ffff, 2 => 0x0100_0000 + r.below(1000) as u32, _ => r.next() as u32 }, if r.chance(1, 2) { 0 } else { r.next() as u16 });
        for (tok, f) in [("I", filter_arc(b'I')), ("R", filter_arc(b'R')), ("A", filter_arc(b'A')), ("B", filter_arc(b'B'))] {
            let k = match f.compute_key(&fk, id) { Ok(k) => k, Err(e) => { c.oracle_fail("object-key-error", &format!("compute_key fails for a legal object id: {:?}", e), json!({"filter": tok, "key": hex(&fk), "id": format!("{:?}", id)})); continue } };
            c.corr(format!("c5_key {} {} {} {}", tok, hex_tok(&fk), id.0, id.1), format!("ok {}", hex_tok(&k)));
            let expect = match tok { "I" | "B" => fk.clone(), "R" => rf::object_key(&fk, id, false, false), _ => rf::object_key(&fk, id, true, false) };
            if k != expect { c.oracle_fail("object-key-differs", "per-object key differs from Algorithm 1 / 1.A", json!({"filter": tok, "key": hex(&fk), "id": format!("{:?}", id)})); }
            // encrypt / decrypt with that key
            let pl = match r.below(6) { 0 => 0, 1 => 15, 2 => 16, 3 => 17, _ => r.usize(100) };
            let pt = r.bytes(pl);
            match f.encrypt(&k, &pt) {
                Ok(ct) => {
                    let iv = if ct.len() != pt.len() { ct[..16].to_vec() } else { vec![] };
                    c.corr(format!("c5_filt enc {} {} {} {}", tok, hex_tok(&k), hex_tok(&iv), hex_tok(&pt)), format!("ok {}", hex_tok(&ct)));
                    let back = f.decrypt(&k, &ct);
                    c.corr(format!("c5_filt dec {} {} - {}", tok, hex_tok(&k), hex_tok(&ct)), match &back { Ok(b) => format!("ok {}", hex_tok(b)), Err(e) => format!("err {}", err_class(&lopdf::Error::from(clone_err(e)))) });
                    if back.ok().as_deref() != Some(&pt[..]) { c.oracle_fail("filter-roundtrip", "decrypt(encrypt(x)) != x", json!({"filter": tok})); }
                    if (tok == "A" || tok == "B") && ct.len() != 16 + (pt.len() / 16 + 1) * 16 { c.oracle_fail("aes-length", "AES output length is not 16 + padded length", json!({"len": ct.len()})); }
                    c.count(&format!("prim.filter_ok.{}", tok));
                }
                Err(e) => {
                    c.corr(format!("c5_filt enc {} {} {} {}", tok, hex_tok(&k), hex_tok(&[0u8; 16]), hex_tok(&pt)), format!("err {}", err_class(&lopdf::Error::from(e))));
                    c.count(&format!("prim.filter_err.{}", tok));
                }
            }
            // malformed ciphertext
            let gl = r.usize(70); let garbage = r.bytes(gl);
            let back = f.decrypt(&k, &garbage);
            c.corr(format!("c5_filt dec {} {} - {}", tok, hex_tok(&k), hex_tok(&garbage)), match &back { Ok(b) => format!("ok {}", hex_tok(b)), Err(e) => format!("err {}", err_class(&lopdf::Error::from(clone_err(e)))) });
        }
    }
}
fn clone_err(e: &lopdf::encryption::DecryptionError) -> lopdf::encryption::DecryptionError {
    use lopdf::encryption::DecryptionError as D;
    match e { D::InvalidKeyLength => D::InvalidKeyLength, D::InvalidCipherTextLength => D::InvalidCipherTextLength, D::Padding => D::Padding, D::IncorrectPassword => D::IncorrectPassword, _ => D::NotDecryptable }
}

// ------------------------------------------------------------------ canonical witnesses of the known findings
fn simple_doc() -> Document {
    let mut doc = Document::with_version("1.7");
    doc.objects.insert((1, 0), Object::String(b"The quick brown fox jumps over the lazy dog".to_vec(), StringFormat::Literal));
    doc.objects.insert((2, 0), Object::Stream(Stream::new(Dictionary::new(), b"stream content 0123456789 0123456789".to_vec())));
    doc.max_id = 2;
    doc.trailer.set("Root", Object::Reference((1, 0)));
    doc.trailer.set("ID", Object::Array(vec![Object::String(vec![7u8; 16], StringFormat::Hexadecimal), Object::String(vec![9u8; 16], StringFormat::Hexadecimal)]));
    doc
}
fn base_cfg(ver: Ver) -> Config {
    let r6 = matches!(ver, Ver::R5 | Ver::V5);
    let k = if r6 { b'B' } else { b'A' };
    let has_cf = matches!(ver, Ver::V4 | Ver::R5 | Ver::V5);
    Config { ver, encrypt_metadata: true, filters: if has_cf { vec![(b"StdCF".to_vec(), k)] } else { vec![] },
        stmf: if has_cf { b"StdCF".to_vec() } else { vec![] }, strf: if has_cf { b"StdCF".to_vec() } else { vec![] },
        file_key: if r6 { (0..32).collect() } else { vec![] }, owner: "owner".into(), user: "user".into(), perms: 3900 }
}

fn witnesses(c: &mut Ctx) {
    // F-C05-a: R2–R4, owner password: Ok but garbage
    if let Some(_r) = c.case("witness", 0) {
        let mut repro = 0; let mut detail = vec![];
        for ver in [Ver::V1, Ver::V2(40), Ver::V2(128), Ver::V4] {
            let cfg = base_cfg(ver.clone()); let orig = simple_doc();
            if let Ok(e) = encrypt_real(c, &cfg, &orig) {
                let auth = e.doc.authenticate_owner_password("owner").is_ok();
                match decrypt_real2(c, &e, "owner", &[], false) {
                    Ok(d) => { if auth && docs_same_mod_length(&orig, &d).is_err() { repro += 1; detail.push(format!("{:?}: authenticated, Ok, content garbage", ver)); } else { detail.push(format!("{:?}: restored", ver)); } }
                    Err(cls) => { if auth && cls == "Padding" { repro += 1; } detail.push(format!("{:?}: authenticated={} then Err({}) (AES padding of garbage)", ver, auth, cls)) }
                }
                // and the ISO reference opens the same document with the owner password
                if !matches!(rf::decrypt_document(&e.doc, b"owner", true, false), Ok((ref d, true)) if docs_same_mod_length(&orig, d).is_ok()) { detail.push(format!("{:?}: reference failed too", ver)); }
            }
        }
        c.witness("F-C05-a", repro == 4, &format!("decrypt(\"owner\") on documents encrypted with owner=\"owner\", user=\"user\": {}", detail.join("; ")));
    }
    // F-C05-b (repaired): R<=4 passwords with characters outside PDFDocEncoding were shortened (to the empty password)
    if let Some(_r) = c.case("witness", 1) {
        let mut cfg = base_cfg(Ver::V2(128)); cfg.user = "пароль".into(); cfg.owner = "владелец".into();
        let orig = simple_doc();
        let created = matches!(guard(|| cfg.make_state(&orig)), Ok(Ok(_)));
        // a document without user password: a non-Latin password must not open it "as the empty password"
        let mut cfg2 = base_cfg(Ver::V2(128)); cfg2.user = String::new();
        let (mut accepted_other, mut auth_other) = (false, false);
        if let Ok(e) = encrypt_real(c, &cfg2, &orig) {
            accepted_other = decrypt_real(c, &e, "密码", &[]).is_ok();
            auth_other = e.doc.authenticate_user_password("密码").is_ok();
        }
        c.witness("F-C05-b", created || accepted_other || auth_other,
            &format!("V2(128): try_from with user \"пароль\" succeeded={}; on a document with an empty user password decrypt(\"密码\") ok={}, authenticate_user_password(\"密码\") ok={}", created, accepted_other, auth_other));
    }
    // F-C05-c: R5/R6 password longer than 127 bytes: hashed in full when creating, truncated when checking
    if let Some(_r) = c.case("witness", 2) {
        let mut detail = vec![]; let mut repro = 0;
        for ver in [Ver::R5, Ver::V5] {
            let mut cfg = base_cfg(ver.clone()); cfg.user = "u".repeat(128); cfg.owner = "o".repeat(200);
            let orig = simple_doc();
            if let Ok(e) = encrypt_real(c, &cfg, &orig) {
                let user = decrypt_real(c, &e, &cfg.user, &[]); let owner = decrypt_real(c, &e, &cfg.owner, &[]);
                if user.is_err() || owner.is_err() { repro += 1; }
                detail.push(format!("{:?}: user {:?} owner {:?}", ver, user.err(), owner.err()));
            }
        }
        c.witness("F-C05-c", repro > 0, &format!("128-byte user / 200-byte owner password rejected after encrypt: {}", detail.join("; ")));
    }
}
