//! C05 — not yet built
use crate::ctx::Ctx;
pub fn run(c: &mut Ctx) { c.notes.push("C05: not implemented".into()); }
