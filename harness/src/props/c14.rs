//! C14 — content streams survive encode and decode.
use crate::codec::*;
use crate::ctx::{guard, Ctx};
use crate::gen::*;
use crate::props::c01::{norm, same};
use crate::rng::Rng;
use lopdf::content::{Content, Operation};
use lopdf::{Dictionary, Object, Stream, StringFormat};
use serde_json::json;

fn show_ops(ops: &[Operation]) -> String {
    let mut s = ops.len().to_string();
    for op in ops {
        s.push_str(&format!(" {} {}", hex_tok(op.operator.as_bytes()), op.operands.len()));
        for o in &op.operands { s.push(' '); push_obj(&mut s, o); }
    }
    s
}

const OPERATORS: &[&str] = &["q", "Q", "cm", "BT", "ET", "Tf", "Tj", "TJ", "'", "\"", "T*", "re", "f", "f*", "B*", "b*", "W*", "n", "S", "s", "m", "l", "c", "h",
    "rg", "RG", "g", "G", "k", "K", "Do", "gs", "BDC", "EMC", "MP", "sh", "d", "w", "J", "j", "M", "i", "ri", "Td", "TD", "Tm", "Tc", "Tw", "Tz", "TL", "Tr", "Ts",
    "cs", "CS", "sc", "SC", "scn", "SCN", "BX", "EX", "R", "obj", "x", "tr", "nu", "fa", "B", "b", "I", "E", "EI", "ID", "Zz*'\""];

fn gen_operator(r: &mut Rng) -> String {
    loop {
        let s: String = if r.chance(5, 6) { r.pick(OPERATORS).to_string() } else {
            let n = 1 + r.usize(4);
            (0..n).map(|_| *r.pick(b"abcdefghijklmnopqrstuvwxyzABCDEFGHIJKLMNOPQRSTUVWXYZ*'\"") as char).collect()
        };
        // guard forced by the grammar (WFOps): an operator must not start with a keyword operand or BI
        if s.starts_with("true") || s.starts_with("false") || s.starts_with("null") || s.starts_with("BI") { continue; }
        return s;
    }
}
/// operands are direct objects without references at the top level (content operands have no reference alternative)
fn gen_operand(r: &mut Rng) -> Object {
    loop {
        let depth = r.usize(4);
        let o = gen_obj(r, depth);
        if matches!(o, Object::Reference(_)) { continue; }
        return o;
    }
}

fn gen_inline_image(r: &mut Rng, c: &mut Ctx) -> (Vec<u8>, Operation) {
    // valid inline image: BI <entries> ID <data> EI ; every supported colour space and geometry
    let cs: &[(&str, usize)] = &[("DeviceGray", 1), ("Gray", 1), ("DeviceRGB", 3), ("RGB", 3), ("DeviceCMYK", 4), ("CMYK", 4), ("DeviceRGBA", 4), ("RGBA", 4)];
    let (name, nc) = *r.pick(cs);
    let w = 1 + r.usize(9); let h = r.usize(5); let bpc = *r.pick(&[1usize, 2, 4, 8, 16]);
    let stride = (w * nc * bpc + 7) / 8; let len = h * stride;
    let mut data: Vec<u8> = r.bytes(len);
    // the grammar skips ALL white space after ID: data must not start with a content-space byte (F-C14-c territory)
    if let Some(b) = data.first_mut() { if b" \t\r\n".contains(b) { *b = b'x'; } }
    let abbr = r.chance(1, 2);
    let mut d = Dictionary::new();
    d.set(if abbr { "W" } else { "Width" }, Object::Integer(w as i64));
    d.set(if abbr { "H" } else { "Height" }, Object::Integer(h as i64));
    d.set(if abbr { "BPC" } else { "BitsPerComponent" }, Object::Integer(bpc as i64));
    d.set(if abbr { "CS" } else { "ColorSpace" }, Object::Name(name.as_bytes().to_vec()));
    if r.chance(1, 3) { d.set("I", Object::Boolean(true)); }
    // extra entries whose keys need #-escaping when written back
    if r.chance(1, 3) { let mut k = gen_bytes(r, 6); k.retain(|b| *b != 0); if !k.is_empty() && ![&b"W"[..], b"H", b"BPC", b"CS", b"F", b"Width", b"Height", b"BitsPerComponent", b"ColorSpace", b"Filter", b"Length", b"I"].contains(&&k[..]) { d.set(k, Object::Integer(r.range(0, 9))); c.count("inline.odd_key"); } }
    c.count(&format!("inline.cs.{}", name));
    let mut text = b"BI".to_vec();
    text.extend_from_slice(*r.pick(&[&b" "[..], b"\n", b"\r\n", b"\t "]));
    for (k, v) in d.iter() {
        lopdf::verif_api::Writer::write_object(&mut text, &Object::Name(k.clone())).unwrap(); text.push(b' ');
        lopdf::verif_api::Writer::write_object(&mut text, v).unwrap();
        text.extend_from_slice(*r.pick(&[&b" "[..], b"\n"]));
    }
    text.extend_from_slice(b"ID");
    text.extend_from_slice(*r.pick(&[&b" "[..], b"\n", b"\r\n"]));
    text.extend_from_slice(&data);
    text.extend_from_slice(*r.pick(&[&b" "[..], b"\n", b""]));
    text.extend_from_slice(b"EI");
    text.extend_from_slice(*r.pick(&[&b" "[..], b"\n", b""]));
    let st = Stream::new(d, data);
    (text, Operation::new("BI", vec![Object::Stream(st)]))
}

fn dec_reply(bytes: &[u8]) -> Result<String, (String, String)> {
    guard(|| match Content::decode(bytes) { Ok(c) => format!("ok {}", show_ops(&c.operations)), Err(_) => "err".into() })
}

fn ops_equal(a: &[Operation], b: &[Operation]) -> bool {
    a.len() == b.len() && a.iter().zip(b).all(|(x, y)| x.operator == y.operator && x.operands.len() == y.operands.len()
        && x.operands.iter().zip(&y.operands).all(|(p, q)| same(&norm(p), &norm(q))))
}

pub fn run(c: &mut Ctx) {
    c.rule = "operation sequences over the documented operator alphabet (real PDF operators + random letter/*/'/\" strings, excluding the \
guarded prefixes true/false/null/BI) with 0..5 operands of every direct kind nested to depth 3 and adversarial bytes in names and strings; \
byte sweeps as string / name operand; valid inline images of every supported colour space (full and abbreviated keys), geometry and bit depth, \
embedded between ordinary operations; decoder-only token soups. Non-trivial = at least one operand; distinct by request text.".into();
    // ---- encode / decode round trip
    let n = c.n(2500, 40000);
    for i in 0..n {
        let Some(mut r) = c.case("ops", i) else { continue };
        let k = r.usize(6);
        let ops: Vec<Operation> = (0..k).map(|_| { let m = r.usize(5); Operation::new(&gen_operator(&mut r), (0..m).map(|_| gen_operand(&mut r)).collect()) }).collect();
        check_ops(c, &ops, i < 2);
    }
    // ---- literal-string operands around the parser's nesting limit (MAX_BRACKET) and with odd parenthesis shapes
    for i in 0..c.n(120, 1200) {
        let Some(mut r) = c.case("deep_parens", i) else { continue };
        let depth = 90 + r.usize(25);
        let mut sbytes = vec![b'('; depth];
        if r.chance(1, 2) { sbytes.extend_from_slice(b"x\\y"); }
        sbytes.extend(vec![b')'; depth - r.usize(3)]);
        if r.chance(1, 3) { sbytes.insert(r.usize(sbytes.len()), b')'); }
        let ops = vec![Operation::new("BT", vec![]), Operation::new("Tj", vec![Object::String(sbytes, StringFormat::Literal)]), Operation::new("ET", vec![])];
        check_ops(c, &ops, false);
    }
    // ---- byte sweep through operands
    if let Some(mut r) = c.case("sweep", 0) {
        let mut pairs: Vec<Vec<u8>> = (0..=255u8).map(|b| vec![b]).collect();
        if c.quick() { for _ in 0..2048 { pairs.push(vec![r.byte(), r.byte()]); } }
        else { for a in 0..=255u8 { for b in 0..=255u8 { pairs.push(vec![a, b]); } } }
        for p in &pairs {
            let ops = vec![Operation::new("Tj", vec![Object::String(p.clone(), StringFormat::Literal)]),
                           Operation::new("gs", vec![Object::Name(p.clone()), Object::String(p.clone(), StringFormat::Hexadecimal)])];
            c.evaluations += 1;
            check_ops(c, &ops, false);
        }
        c.extra.insert("sweep_exhaustive_pairs".into(), json!(!c.quick()));
    }
    // ---- inline images: decode (correspondence + oracle), and decode -> encode -> decode
    let n = c.n(600, 8000);
    let mut reencode_fail = 0u64;
    for i in 0..n {
        let Some(mut r) = c.case("inline", i) else { continue };
        let mut text = vec![]; let mut expect = vec![];
        if r.chance(1, 2) { text.extend_from_slice(b"q 1 0 0 1 0 0 cm\n"); expect.push(Operation::new("q", vec![])); expect.push(Operation::new("cm", vec![1.into(), 0.into(), 0.into(), 1.into(), 0.into(), 0.into()])); }
        let (t, op) = gen_inline_image(&mut r, c);
        text.extend_from_slice(&t); expect.push(op);
        if r.chance(1, 2) { text.extend_from_slice(b"Q"); expect.push(Operation::new("Q", vec![])); }
        c.nontrivial(&hex(&text));
        match dec_reply(&text) {
            Ok(reply) => {
                c.corr(format!("dec_content {}", hex_tok(&text)), reply);
                match Content::decode(&text) {
                    Ok(dec) => {
                        if !ops_equal(&dec.operations, &expect) {
                            c.oracle_fail("inline-decode", "inline image decoded to other operations than written", json!({"content": hex(&text), "decoded": show_ops(&dec.operations), "expected": show_ops(&expect)}));
                        }
                        // decode -> encode -> decode
                        if let Ok(b) = dec.encode() {
                            c.corr(format!("enc_content {}", show_ops(&dec.operations)), format!("ok {}", hex_tok(&b)));
                            if let Ok(reply) = dec_reply(&b) { c.corr(format!("dec_content {}", hex_tok(&b)), reply); }
                        }
                        let again = dec.encode().ok().and_then(|b| Content::decode(&b).ok());
                        let ok = matches!(&again, Some(a) if ops_equal(&a.operations, &dec.operations));
                        if !ok { reencode_fail += 1; c.oracle_fail("inline-reencode", "decode -> encode -> decode of an inline image is not the identity", json!({"content": hex(&text)})); }
                    }
                    Err(_) => c.oracle_fail("inline-decode", "valid inline image rejected", json!({"content": hex(&text)})),
                }
            }
            Err((site, msg)) => c.oracle_fail(&format!("panic@{}", site), &msg, json!({"content": hex(&text)})),
        }
    }
    c.extra.insert("inline_reencode_failures".into(), json!(reencode_fail));
    // regression witness of the repaired defect F-C14-a
    if let Some(_) = c.case("witness", 0) {
        let text = b"BI /W 2 /H 2 /BPC 8 /CS /RGB ID abcdefghijkl EI Q";
        let dec = Content::decode(text).ok();
        let again = dec.as_ref().and_then(|d| d.encode().ok()).and_then(|b| Content::decode(&b).ok());
        let ok = matches!((&dec, &again), (Some(a), Some(b)) if ops_equal(&a.operations, &b.operations) && a.operations.len() == 2);
        c.witness("F-C14-a", !ok, "decode -> encode -> decode of `BI /W 2 /H 2 /BPC 8 /CS /RGB ID abcdefghijkl EI Q` must be the identity");
    }
    // ---- decoder-only soups
    const TOK: &[&[u8]] = &[b"1", b" ", b"\n", b"q", b"Q", b"BT", b"BI", b"ID", b"EI", b"/W 1", b"/H 1", b"/BPC 8", b"/CS /G", b"/CS /RGB", b"/F /X", b"(a)", b"<4>", b"[", b"]", b"<<", b">>",
        b"%c\n", b"%", b"true", b"nullx", b"-", b".", b"5", b"0 0 R", b"Tj", b"'", b"\"", b"*", b"/N", b"\r", b"\t", b"/W -1", b"/H 99999999999", b"/W 9223372036854775807"];
    let n = c.n(3000, 50000);
    for i in 0..n {
        let Some(mut r) = c.case("soup", i) else { continue };
        let k = 1 + r.usize(12);
        let mut inp = vec![];
        for _ in 0..k { if r.chance(1, 10) { inp.push(special_byte(&mut r)); } else { let t: &[u8] = *r.pick(TOK); inp.extend_from_slice(t); if r.chance(1, 2) { inp.push(b' '); } } }
        match dec_reply(&inp) {
            Ok(reply) => { if reply.starts_with("ok") && !reply.starts_with("ok 0") { c.count("soup.decoded_some"); } c.corr(format!("dec_content {}", hex_tok(&inp)), reply); }
            Err((site, _msg)) => { c.count("soup.panic"); c.corr(format!("dec_content {}", hex_tok(&inp)), "panic".into()); let _ = site; }
        }
    }
    // ---- state carried from one call to the next: after all the failing decodes above (deep nesting, truncated
    // ---- arrays and dictionaries, soups) on this very thread, ordinary content must still round-trip
    // the deepest operand nesting that round-trips on a CLEAN thread (probed, not assumed): it must keep round-tripping after
    // any number of rejected over-deep inputs on this thread (a guard that leaks one level per rejection moves this boundary)
    let nested = |depth: usize, dict: bool| -> Vec<Operation> {
        let mut o = Object::Integer(7);
        for k in 0..depth { o = if dict && k % 2 == 0 { let mut d = lopdf::Dictionary::new(); d.set("A", o); Object::Dictionary(d) } else { Object::Array(vec![o]) }; }
        vec![Operation::new("BDC", vec![Object::Name(b"P".to_vec()), o])]
    };
    let rt = |ops: &[Operation]| -> bool { Content { operations: ops.to_vec() }.encode().ok().and_then(|b| Content::decode(&b).ok()).map(|d| ops_equal(&d.operations, ops)).unwrap_or(false) };
    let deepest = std::thread::spawn(move || { let mut best = 0usize; for d in 1..400usize { let mut o = Object::Integer(7); for _ in 0..d { o = Object::Array(vec![o]); } let ops = vec![Operation::new("BDC", vec![Object::Name(b"P".to_vec()), o])]; let ok = Content { operations: ops.clone() }.encode().ok().and_then(|b| Content::decode(&b).ok()).map(|dd| dd.operations.len() == 1 && dd.operations[0].operands == ops[0].operands).unwrap_or(false); if ok { best = d; } else { break; } } best }).join().unwrap_or(0);
    c.extra.insert("deepest_operand_nesting_on_a_clean_thread".into(), json!(deepest));
    for i in 0..c.n(200, 2000) {
        let Some(mut r) = c.case("after_failures", i) else { continue };
        if i % 10 == 5 && deepest > 0 {
            // a few rejected over-deep inputs first (arrays, dictionaries, mixed; closed and unclosed), then the deepest legal operand
            for _ in 0..1 + r.usize(3) { let d = deepest + 1 + r.usize(40); let mut o = vec![]; let open: &[u8] = *r.pick(&[&b"["[..], b"<</A ", b"[<</B["]); for _ in 0..d { o.extend_from_slice(open); } if r.chance(1, 2) { o.extend_from_slice(b"1"); for _ in 0..d { o.extend_from_slice(if open == b"[" { b"]" } else { b">>" }); } o.extend_from_slice(b" Do"); } let _ = dec_reply(&o); c.count("after_failures.over_deep_rejected"); }
            for dict in [false, true] {
                let ops = nested(deepest, dict);
                c.count("after_failures.deepest_legal_operand");
                if !rt(&ops) { c.oracle_fail("content-rt", &format!("an operand nested {} deep (the deepest that round-trips on a clean thread) no longer round-trips after over-deep inputs were rejected on this thread", deepest), json!({"depth": deepest, "dict": dict})); }
            }
        }
        if i % 20 == 0 { for d in [40usize, 129, 300] { let mut o = vec![]; for _ in 0..d { o.extend_from_slice(*r.pick(&[&b"["[..], b"<</A "])); } let _ = dec_reply(&o); } }
        let k = 1 + r.usize(4);
        let ops: Vec<Operation> = (0..k).map(|_| { let m = 1 + r.usize(3); Operation::new(&gen_operator(&mut r), (0..m).map(|_| gen_operand(&mut r)).collect()) }).collect();
        check_ops(c, &ops, false);
    }
}

fn check_ops(c: &mut Ctx, ops: &[Operation], sample: bool) {
    let content = Content { operations: ops.to_vec() };
    let req = format!("enc_content {}", show_ops(ops));
    if ops.iter().any(|o| !o.operands.is_empty()) { c.nontrivial(&req); }
    match guard(|| content.encode()) {
        Ok(Ok(bytes)) => {
            c.corr(req, format!("ok {}", hex_tok(&bytes)));
            match dec_reply(&bytes) {
                Ok(reply) => c.corr(format!("dec_content {}", hex_tok(&bytes)), reply),
                Err((site, msg)) => { c.oracle_fail(&format!("panic@{}", site), &msg, json!({"content": hex(&bytes)})); return; }
            }
            match Content::decode(&bytes) {
                Ok(dec) => if !ops_equal(&dec.operations, ops) {
                    c.oracle_fail("content-rt", "decoded operations differ from the encoded ones", json!({"ops": show_ops(ops), "content": hex(&bytes), "decoded": show_ops(&dec.operations)}));
                },
                Err(_) => c.oracle_fail("content-rt", "encoded content does not decode", json!({"ops": show_ops(ops), "content": hex(&bytes)})),
            }
            if sample { c.sample(json!({"ops": show_ops(ops), "content": String::from_utf8_lossy(&bytes).to_string()})); }
            c.count("ops.cases");
        }
        Ok(Err(_)) => c.oracle_fail("encode-error", "Content::encode failed", json!({"ops": show_ops(ops)})),
        Err((site, msg)) => c.oracle_fail(&format!("panic@{}", site), &msg, json!({"ops": show_ops(ops)})),
    }
}
