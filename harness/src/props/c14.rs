//! C14 — not yet built
use crate::ctx::Ctx;
pub fn run(c: &mut Ctx) { c.notes.push("C14: not implemented".into()); }
