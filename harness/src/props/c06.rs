//! C06 — not yet built
use crate::ctx::Ctx;
pub fn run(c: &mut Ctx) { c.notes.push("C06: not implemented".into()); }
