//! C06 — Standard security handler agrees with ISO 32000 algorithms.
//!
//! `refimpl` is an INDEPENDENT implementation of the standard security handler, written from
//! the algorithm text of ISO 32000-1:2008 §7.6 (Algorithms 1–7) and ISO 32000-2:2020 §7.6
//! (Algorithms 1.A, 2.A, 2.B, 8–13) directly on the md-5 / sha2 / aes crates plus an own RC4 and
//! own CBC chaining.  It shares no code with lopdf (lopdf's `Object` types are used only as a
//! container for documents).  It is also the oracle of C05.
use crate::codec::*;
use crate::ctx::{guard, Ctx};
use crate::rng::Rng;
use super::c05::{self, Config, Ver};
use lopdf::{Dictionary, Document, Object, ObjectId, Stream, StringFormat};
use serde_json::json;

pub mod refimpl {
    use aes::cipher::{generic_array::GenericArray, BlockDecrypt, BlockEncrypt, KeyInit};
    use lopdf::{Dictionary, Document, Object, ObjectId};
    use md5::{Digest, Md5};
    use sha2::{Sha256, Sha384, Sha512};

    /// ISO 32000-1 Algorithm 2 step (a): the 32-byte padding string
    pub const PAD: [u8; 32] = [
        0x28, 0xBF, 0x4E, 0x5E, 0x4E, 0x75, 0x8A, 0x41, 0x64, 0x00, 0x4E, 0x56, 0xFF, 0xFA, 0x01, 0x08,
        0x2E, 0x2E, 0x00, 0xB6, 0xD0, 0x68, 0x3E, 0x80, 0x2F, 0x0C, 0xA9, 0xFE, 0x64, 0x53, 0x69, 0x7A,
    ];

    pub fn md5(data: &[u8]) -> Vec<u8> { Md5::digest(data).to_vec() }
    pub fn sha256(data: &[u8]) -> Vec<u8> { Sha256::digest(data).to_vec() }
    pub fn sha384(data: &[u8]) -> Vec<u8> { Sha384::digest(data).to_vec() }
    pub fn sha512(data: &[u8]) -> Vec<u8> { Sha512::digest(data).to_vec() }

    /// RC4 (own implementation: KSA + PRGA as in the original description)
    pub fn rc4(key: &[u8], data: &[u8]) -> Vec<u8> {
        assert!(!key.is_empty());
        let mut s: Vec<u8> = (0..=255u8).collect();
        let mut j: usize = 0;
        for i in 0..256 {
            j = (j + s[i] as usize + key[i % key.len()] as usize) % 256;
            s.swap(i, j);
        }
        let (mut i, mut j) = (0usize, 0usize);
        let mut out = Vec::with_capacity(data.len());
        for b in data {
            i = (i + 1) % 256;
            j = (j + s[i] as usize) % 256;
            s.swap(i, j);
            out.push(b ^ s[(s[i] as usize + s[j] as usize) % 256]);
        }
        out
    }

    pub fn aes_enc_block(key: &[u8], block: &[u8]) -> Vec<u8> {
        let mut b = GenericArray::clone_from_slice(block);
        match key.len() {
            16 => aes::Aes128::new(GenericArray::from_slice(key)).encrypt_block(&mut b),
            32 => aes::Aes256::new(GenericArray::from_slice(key)).encrypt_block(&mut b),
            _ => panic!("aes key length"),
        }
        b.to_vec()
    }
    pub fn aes_dec_block(key: &[u8], block: &[u8]) -> Vec<u8> {
        let mut b = GenericArray::clone_from_slice(block);
        match key.len() {
            16 => aes::Aes128::new(GenericArray::from_slice(key)).decrypt_block(&mut b),
            32 => aes::Aes256::new(GenericArray::from_slice(key)).decrypt_block(&mut b),
            _ => panic!("aes key length"),
        }
        b.to_vec()
    }
    /// CBC, no padding; `data.len()` must be a multiple of 16
    pub fn cbc_enc(key: &[u8], iv: &[u8], data: &[u8]) -> Vec<u8> {
        assert!(data.len() % 16 == 0 && iv.len() == 16);
        let mut prev = iv.to_vec();
        let mut out = Vec::with_capacity(data.len());
        for blk in data.chunks(16) {
            let x: Vec<u8> = blk.iter().zip(prev.iter()).map(|(a, b)| a ^ b).collect();
            prev = aes_enc_block(key, &x);
            out.extend_from_slice(&prev);
        }
        out
    }
    pub fn cbc_dec(key: &[u8], iv: &[u8], data: &[u8]) -> Vec<u8> {
        assert!(data.len() % 16 == 0 && iv.len() == 16);
        let mut prev = iv.to_vec();
        let mut out = Vec::with_capacity(data.len());
        for blk in data.chunks(16) {
            let d = aes_dec_block(key, blk);
            out.extend(d.iter().zip(prev.iter()).map(|(a, b)| a ^ b));
            prev = blk.to_vec();
        }
        out
    }

    /// "Pad or truncate the password string to exactly 32 bytes"
    pub fn pad_pw(pw: &[u8]) -> Vec<u8> {
        let mut v: Vec<u8> = pw.iter().take(32).cloned().collect();
        let need = 32 - v.len();
        v.extend_from_slice(&PAD[..need]);
        v
    }

    /// Algorithm 2: computing a file encryption key (R2–R4). `p` is the P integer as stored.
    pub fn alg2(pw: &[u8], o: &[u8], p: i64, id0: &[u8], r: i64, key_bytes: usize, encrypt_metadata: bool) -> Vec<u8> {
        let mut input = pad_pw(pw);                                   // a, b
        input.extend_from_slice(o);                                   // c
        input.extend_from_slice(&(p as u32).to_le_bytes());           // d: 32-bit unsigned, low-order byte first
        input.extend_from_slice(id0);                                 // e
        if r >= 4 && !encrypt_metadata { input.extend_from_slice(&[0xff; 4]); }   // f
        let mut h = md5(&input);                                      // g
        let n = if r == 2 { 5 } else { key_bytes };
        if r >= 3 { for _ in 0..50 { h = md5(&h[..n]); } }            // h
        h[..n].to_vec()                                               // i
    }

    /// RC4 key of Algorithm 3 steps a–d
    fn owner_rc4_key(owner_pw: &[u8], r: i64, key_bytes: usize) -> Vec<u8> {
        let mut h = md5(&pad_pw(owner_pw));
        if r >= 3 { for _ in 0..50 { h = md5(&h); } }
        let n = if r == 2 { 5 } else { key_bytes };
        h[..n].to_vec()
    }
    fn xor_key(key: &[u8], i: u8) -> Vec<u8> { key.iter().map(|b| b ^ i).collect() }

    /// Algorithm 3: computing the O value. `owner_pw = None` ("no owner password") uses the user password.
    pub fn alg3(owner_pw: Option<&[u8]>, user_pw: &[u8], r: i64, key_bytes: usize) -> Vec<u8> {
        let k = owner_rc4_key(owner_pw.unwrap_or(user_pw), r, key_bytes);
        let mut x = rc4(&k, &pad_pw(user_pw));
        if r >= 3 { for i in 1..=19u8 { x = rc4(&xor_key(&k, i), &x); } }
        x
    }
    /// Algorithm 4 (R2) / Algorithm 5 (R3, R4): the U value; only the first 16 bytes are significant for R≥3
    pub fn alg4_5(key: &[u8], id0: &[u8], r: i64) -> Vec<u8> {
        if r == 2 { return rc4(key, &PAD); }
        let mut input = PAD.to_vec();
        input.extend_from_slice(id0);
        let mut x = rc4(key, &md5(&input));
        for i in 1..=19u8 { x = rc4(&xor_key(key, i), &x); }
        x
    }

    #[derive(Clone, Debug)]
    pub struct EncDict {
        pub v: i64, pub r: i64, pub length_bits: Option<i64>, pub p: i64, pub encrypt_metadata: bool,
        pub o: Vec<u8>, pub u: Vec<u8>, pub oe: Vec<u8>, pub ue: Vec<u8>, pub perms: Vec<u8>,
        /// CF: name -> CFM name
        pub cf: Vec<(Vec<u8>, Vec<u8>)>,
        pub stmf: Option<Vec<u8>>, pub strf: Option<Vec<u8>>,
    }
    impl EncDict {
        pub fn key_bytes(&self) -> usize {
            match self.v { 1 => 5, 2 | 3 => (self.length_bits.unwrap_or(40) / 8) as usize, 4 => 16, _ => 32 }
        }
    }

    /// Algorithm 6: authenticating the user password → the file encryption key
    pub fn alg6(d: &EncDict, id0: &[u8], pw: &[u8]) -> Option<Vec<u8>> {
        let key = alg2(pw, &d.o, d.p, id0, d.r, d.key_bytes(), d.encrypt_metadata);
        let u = alg4_5(&key, id0, d.r);
        let ok = if d.r == 2 { u == d.u } else { d.u.len() >= 16 && u[..16] == d.u[..16] };
        if ok { Some(key) } else { None }
    }
    /// Algorithm 7: authenticating the owner password → the file encryption key
    pub fn alg7(d: &EncDict, id0: &[u8], pw: &[u8]) -> Option<Vec<u8>> {
        let k = owner_rc4_key(pw, d.r, d.key_bytes());
        let user_pw = if d.r == 2 { rc4(&k, &d.o) } else {
            let mut x = d.o.clone();
            for i in (0..=19u8).rev() { x = rc4(&xor_key(&k, i), &x); }
            x
        };
        alg6(d, id0, &user_pw)
    }

    /// Algorithm 2.B: computing a hash (R6); R5 = SHA-256 of the input.
    pub fn alg2b(r: i64, pw: &[u8], salt: &[u8], udata: &[u8]) -> Vec<u8> {
        let mut input = pw.to_vec(); input.extend_from_slice(salt); input.extend_from_slice(udata);
        let mut k = sha256(&input);
        if r == 5 { return k; }
        let mut round: u32 = 0;
        loop {
            // a) K1 = 64 repetitions of (password ‖ K ‖ [U])
            let mut k0 = pw.to_vec(); k0.extend_from_slice(&k); k0.extend_from_slice(udata);
            let mut k1 = Vec::with_capacity(k0.len() * 64);
            for _ in 0..64 { k1.extend_from_slice(&k0); }
            // b) AES-128 CBC no padding, key = K[0..16], IV = K[16..32]
            let e = cbc_enc(&k[..16], &k[16..32], &k1);
            // c) first 16 bytes of E as unsigned big-endian integer mod 3
            let mut m: u32 = 0;
            for b in &e[..16] { m = (m * 256 + *b as u32) % 3; }
            // d)
            k = match m { 0 => sha256(&e), 1 => sha384(&e), _ => sha512(&e) };
            // e) rounds 0..63 always; from round 64 on stop when last byte of E <= round - 32
            round += 1;                              // `round` = number of rounds done
            if round >= 64 && (*e.last().unwrap() as u32) <= round - 32 { break; }
        }
        k[..32].to_vec()
    }
    fn trunc127(pw: &[u8]) -> &[u8] { if pw.len() > 127 { &pw[..127] } else { pw } }

    /// Algorithm 8: U and UE. `salts` = validation salt ‖ key salt (16 bytes)
    pub fn alg8(r: i64, pw: &[u8], key: &[u8], salts: &[u8]) -> (Vec<u8>, Vec<u8>) {
        let pw = trunc127(pw);
        let mut u = alg2b(r, pw, &salts[..8], &[]);
        u.extend_from_slice(salts);
        let ue = cbc_enc(&alg2b(r, pw, &salts[8..16], &[]), &[0; 16], key);
        (u, ue)
    }
    /// Algorithm 9: O and OE
    pub fn alg9(r: i64, pw: &[u8], key: &[u8], salts: &[u8], u: &[u8]) -> (Vec<u8>, Vec<u8>) {
        let pw = trunc127(pw);
        let mut o = alg2b(r, pw, &salts[..8], u);
        o.extend_from_slice(salts);
        let oe = cbc_enc(&alg2b(r, pw, &salts[8..16], u), &[0; 16], key);
        (o, oe)
    }
    /// Algorithm 10: Perms
    pub fn alg10(p: i64, encrypt_metadata: bool, key: &[u8], rnd: &[u8]) -> Vec<u8> {
        let mut b = vec![0u8; 16];
        b[..4].copy_from_slice(&(p as u32).to_le_bytes());
        b[4..8].copy_from_slice(&[0xff; 4]);
        b[8] = if encrypt_metadata { b'T' } else { b'F' };
        b[9] = b'a'; b[10] = b'd'; b[11] = b'b';
        b[12..16].copy_from_slice(&rnd[..4]);
        aes_enc_block(key, &b)
    }
    /// Algorithm 2.A (with 11/12/13): → (file key, is_owner)
    pub fn alg2a(d: &EncDict, pw: &[u8], skip_alg13: bool) -> Option<(Vec<u8>, bool)> {
        let pw = trunc127(pw);
        if d.o.len() < 48 || d.u.len() < 48 || d.oe.len() != 32 || d.ue.len() != 32 { return None; }
        let (key, owner) = if alg2b(d.r, pw, &d.o[32..40], &d.u[..48]) == d.o[..32] {          // Algorithm 12
            (cbc_dec(&alg2b(d.r, pw, &d.o[40..48], &d.u[..48]), &[0; 16], &d.oe), true)
        } else if alg2b(d.r, pw, &d.u[32..40], &[]) == d.u[..32] {                              // Algorithm 11
            (cbc_dec(&alg2b(d.r, pw, &d.u[40..48], &[]), &[0; 16], &d.ue), false)
        } else { return None; };
        // Algorithm 13
        if skip_alg13 { return Some((key, owner)); }
        if d.perms.len() != 16 { return None; }
        let b = aes_dec_block(&key, &d.perms);
        if &b[9..12] != b"adb" { return None; }
        if b[..4] != (d.p as u32).to_le_bytes() { return None; }
        Some((key, owner))
    }

    /// Algorithm 1 / 1.A: key for one object
    pub fn object_key(file_key: &[u8], id: ObjectId, aes: bool, v5: bool) -> Vec<u8> {
        if v5 { return file_key.to_vec(); }
        let mut input = file_key.to_vec();
        input.extend_from_slice(&id.0.to_le_bytes()[..3]);
        input.extend_from_slice(&id.1.to_le_bytes()[..2]);
        if aes { input.extend_from_slice(b"sAlT"); }
        let n = (file_key.len() + 5).min(16);
        md5(&input)[..n].to_vec()
    }

    #[derive(Clone, Copy, PartialEq, Eq, Debug)]
    pub enum Method { None, V2, AesV2, AesV3 }

    pub fn encrypt_data(m: Method, file_key: &[u8], id: ObjectId, iv: &[u8], data: &[u8]) -> Vec<u8> {
        match m {
            Method::None => data.to_vec(),
            Method::V2 => rc4(&object_key(file_key, id, false, false), data),
            Method::AesV2 | Method::AesV3 => {
                let key = object_key(file_key, id, true, m == Method::AesV3);
                let n = 16 - data.len() % 16;
                let mut padded = data.to_vec();
                padded.extend(std::iter::repeat(n as u8).take(n));
                let mut out = iv.to_vec();
                out.extend(cbc_enc(&key, iv, &padded));
                out
            }
        }
    }
    pub fn decrypt_data(m: Method, file_key: &[u8], id: ObjectId, data: &[u8]) -> Result<Vec<u8>, String> {
        match m {
            Method::None => Ok(data.to_vec()),
            Method::V2 => Ok(rc4(&object_key(file_key, id, false, false), data)),
            Method::AesV2 | Method::AesV3 => {
                let key = object_key(file_key, id, true, m == Method::AesV3);
                if data.len() < 32 || data.len() % 16 != 0 {
                    if data.is_empty() { return Ok(vec![]); }
                    return Err(format!("aes data length {}", data.len()));
                }
                let mut pt = cbc_dec(&key, &data[..16], &data[16..]);
                let n = *pt.last().unwrap() as usize;
                if n == 0 || n > 16 || pt[pt.len() - n..].iter().any(|b| *b as usize != n) { return Err("padding".into()); }
                pt.truncate(pt.len() - n);
                Ok(pt)
            }
        }
    }

    pub fn read_enc_dict(d: &Dictionary) -> Option<EncDict> {
        let s = |k: &[u8]| d.get(k).ok().and_then(|o| o.as_str().ok()).map(|s| s.to_vec());
        let i = |k: &[u8]| d.get(k).ok().and_then(|o| o.as_i64().ok());
        let n = |k: &[u8]| d.get(k).ok().and_then(|o| o.as_name().ok()).map(|s| s.to_vec());
        let mut cf = vec![];
        if let Ok(Object::Dictionary(cfd)) = d.get(b"CF") {
            for (name, f) in cfd.iter() {
                if let Object::Dictionary(fd) = f {
                    let cfm = fd.get(b"CFM").ok().and_then(|o| o.as_name().ok()).map(|s| s.to_vec()).unwrap_or(b"None".to_vec());
                    cf.push((name.clone(), cfm));
                }
            }
        }
        Some(EncDict {
            v: i(b"V").unwrap_or(0), r: i(b"R")?, length_bits: i(b"Length"), p: i(b"P")?,
            encrypt_metadata: match d.get(b"EncryptMetadata") { Ok(Object::Boolean(b)) => *b, _ => true },
            o: s(b"O")?, u: s(b"U")?, oe: s(b"OE").unwrap_or_default(), ue: s(b"UE").unwrap_or_default(),
            perms: s(b"Perms").unwrap_or_default(), cf, stmf: n(b"StmF"), strf: n(b"StrF"),
        })
    }

    /// ISO 32000 §7.6.5: which method a crypt filter name selects. `Identity` is predefined;
    /// absent StmF / StrF default to Identity; V < 4 always uses RC4 with the file key (Algorithm 1).
    pub fn method_of(d: &EncDict, name: Option<&[u8]>) -> Method {
        if d.v < 4 { return Method::V2; }
        match name {
            None => Method::None,
            Some(b"Identity") => Method::None,
            Some(nm) => match d.cf.iter().find(|(k, _)| k == nm) {
                Some((_, cfm)) => match cfm.as_slice() { b"V2" => Method::V2, b"AESV2" => Method::AesV2, b"AESV3" => Method::AesV3, _ => Method::None },
                None => Method::None,
            },
        }
    }

    pub fn file_id0(doc: &Document) -> Vec<u8> {
        match doc.trailer.get(b"ID") { Ok(Object::Array(a)) => match a.first() { Some(Object::String(s, _)) => s.clone(), _ => vec![] }, _ => vec![] }
    }

    /// authenticate a password against an encryption dictionary → (file key, is_owner)
    pub fn authenticate(d: &EncDict, id0: &[u8], pw: &[u8], skip_alg13: bool) -> Option<(Vec<u8>, bool)> {
        if d.r >= 5 { return alg2a(d, pw, skip_alg13); }
        if let Some(k) = alg7(d, id0, pw) { return Some((k, true)); }
        alg6(d, id0, pw).map(|k| (k, false))
    }

    fn stream_method(d: &EncDict, sd: &Dictionary) -> Method {
        // §7.6.5 / Table 14: a Crypt filter in the stream's Filter array overrides StmF;
        // its DecodeParms Name selects the crypt filter (default Identity).
        let filters: Vec<Vec<u8>> = match sd.get(b"Filter") {
            Ok(Object::Name(n)) => vec![n.clone()],
            Ok(Object::Array(a)) => a.iter().filter_map(|o| o.as_name().ok().map(|n| n.to_vec())).collect(),
            _ => vec![],
        };
        if let Some(pos) = filters.iter().position(|f| f == b"Crypt") {
            let parms = match sd.get(b"DecodeParms") {
                Ok(Object::Dictionary(p)) => Some(p),
                Ok(Object::Array(a)) => a.get(pos).and_then(|o| o.as_dict().ok()),
                _ => None,
            };
            let name = parms.and_then(|p| p.get(b"Name").ok()).and_then(|o| o.as_name().ok());
            return method_of(d, Some(name.unwrap_or(b"Identity")));
        }
        method_of(d, d.stmf.as_deref())
    }

    /// which top-level traversal: strings everywhere (including stream dictionaries), stream data;
    /// not: the encryption dictionary, XRef streams, the Metadata stream when EncryptMetadata is false
    /// (its data is left as is; §7.6.5: "only the stream data").
    pub enum Dir<'a> { Enc(&'a mut dyn FnMut() -> Vec<u8>), Dec }

    pub fn crypt_object(d: &EncDict, file_key: &[u8], id: ObjectId, o: &mut Object, dir: &mut Dir, in_stream_dicts: bool) -> Result<(), String> {
        match o {
            Object::String(s, _) => {
                let m = method_of(d, d.strf.as_deref());
                *s = match dir { Dir::Enc(iv) => { let iv = if matches!(m, Method::AesV2 | Method::AesV3) { iv() } else { vec![] }; encrypt_data(m, file_key, id, &iv, s) }
                                 Dir::Dec => decrypt_data(m, file_key, id, s)? };
            }
            Object::Array(a) => { for x in a.iter_mut() { crypt_object(d, file_key, id, x, dir, in_stream_dicts)?; } }
            Object::Dictionary(dict) => { for (_, x) in dict.iter_mut() { crypt_object(d, file_key, id, x, dir, in_stream_dicts)?; } }
            Object::Stream(st) => {
                let is_xref = matches!(st.dict.get(b"Type"), Ok(Object::Name(n)) if n == b"XRef");
                if is_xref { return Ok(()); }
                if in_stream_dicts { for (_, x) in st.dict.iter_mut() { crypt_object(d, file_key, id, x, dir, in_stream_dicts)?; } }
                let is_meta = matches!(st.dict.get(b"Type"), Ok(Object::Name(n)) if n == b"Metadata");
                if is_meta && !d.encrypt_metadata { return Ok(()); }
                let m = stream_method(d, &st.dict);
                let new = match dir { Dir::Enc(iv) => { let iv = if matches!(m, Method::AesV2 | Method::AesV3) { iv() } else { vec![] }; encrypt_data(m, file_key, id, &iv, &st.content) }
                                      Dir::Dec => decrypt_data(m, file_key, id, &st.content)? };
                st.content = new;
                st.dict.set("Length", st.content.len() as i64);
            }
            _ => {}
        }
        Ok(())
    }

    /// decrypt a whole document (as lopdf holds it in memory) with the reference handler.
    /// `in_stream_dicts`: also treat strings inside stream dictionaries (ISO) — lopdf never does.
    pub fn decrypt_document(doc: &Document, pw: &[u8], in_stream_dicts: bool, skip_alg13: bool) -> Result<(Document, bool), String> {
        let enc_id = match doc.trailer.get(b"Encrypt") { Ok(Object::Reference(id)) => Some(*id), _ => None };
        let enc_obj = match doc.trailer.get(b"Encrypt") {
            Ok(Object::Reference(id)) => doc.objects.get(id).ok_or("Encrypt object missing")?.clone(),
            Ok(o) => o.clone(),
            Err(_) => return Err("not encrypted".into()),
        };
        let Object::Dictionary(ed) = enc_obj else { return Err("Encrypt not a dictionary".into()) };
        let d = read_enc_dict(&ed).ok_or("bad encryption dictionary")?;
        let id0 = file_id0(doc);
        let (key, owner) = authenticate(&d, &id0, pw, skip_alg13).ok_or("password rejected")?;
        let mut out = doc.clone();
        for (id, o) in out.objects.iter_mut() {
            if Some(*id) == enc_id { continue; }
            crypt_object(&d, &key, *id, o, &mut Dir::Dec, in_stream_dicts).map_err(|e| format!("{:?}: {}", id, e))?;
        }
        out.trailer.remove(b"Encrypt");
        if let Some(id) = enc_id { out.objects.remove(&id); }
        Ok((out, owner))
    }

    /// what the reference writes into a document it encrypts
    #[derive(Clone, Debug)]
    pub struct EncParams {
        pub v: i64, pub r: i64, pub key_bits: i64, pub p: i64, pub encrypt_metadata: bool,
        pub cf: Vec<(Vec<u8>, Vec<u8>)>, pub stmf: Option<Vec<u8>>, pub strf: Option<Vec<u8>>,
        pub owner: Option<Vec<u8>>, pub user: Vec<u8>, pub file_key: Vec<u8>,
        pub write_length: bool, pub direct_encrypt_dict: bool, pub in_stream_dicts: bool,
    }
    /// encrypt a document as ISO 32000 prescribes; all randomness comes from `rnd`
    pub fn encrypt_document(doc: &Document, q: &EncParams, rnd: &mut dyn FnMut(usize) -> Vec<u8>) -> (Document, EncDict, Vec<u8>) {
        let id0 = file_id0(doc);
        let n = match q.v { 1 => 5, 2 | 3 => (q.key_bits / 8) as usize, 4 => 16, _ => 32 };
        let (o, u, oe, ue, perms, key);
        if q.r <= 4 {
            o = alg3(q.owner.as_deref(), &q.user, q.r, n);
            key = alg2(&q.user, &o, q.p, &id0, q.r, n, q.encrypt_metadata);
            let mut uu = alg4_5(&key, &id0, q.r);
            if q.r >= 3 { uu.extend(rnd(16)); }
            u = uu; oe = vec![]; ue = vec![]; perms = vec![];
        } else {
            key = q.file_key.clone();
            let (a, b) = alg8(q.r, &q.user, &key, &rnd(16)); u = a; ue = b;
            let owner = q.owner.clone().unwrap_or_else(|| q.user.clone());
            let (a, b) = alg9(q.r, &owner, &key, &rnd(16), &u); o = a; oe = b;
            perms = alg10(q.p, q.encrypt_metadata, &key, &rnd(4));
        }
        let d = EncDict { v: q.v, r: q.r, length_bits: Some(q.key_bits), p: q.p, encrypt_metadata: q.encrypt_metadata,
                          o: o.clone(), u: u.clone(), oe: oe.clone(), ue: ue.clone(), perms: perms.clone(), cf: q.cf.clone(), stmf: q.stmf.clone(), strf: q.strf.clone() };
        let mut out = doc.clone();
        for (id, obj) in out.objects.iter_mut() {
            let mut ivf = || rnd(16);
            let mut dir = Dir::Enc(&mut ivf);
            crypt_object(&d, &key, *id, obj, &mut dir, q.in_stream_dicts).expect("encrypt");
        }
        let mut ed = Dictionary::new();
        ed.set("Filter", Object::Name(b"Standard".to_vec()));
        ed.set("V", Object::Integer(q.v)); ed.set("R", Object::Integer(q.r));
        if q.write_length { ed.set("Length", Object::Integer(q.key_bits)); }
        ed.set("O", Object::String(o, lopdf::StringFormat::Hexadecimal));
        ed.set("U", Object::String(u, lopdf::StringFormat::Hexadecimal));
        ed.set("P", Object::Integer(q.p));
        if q.v >= 4 {
            let mut cf = Dictionary::new();
            for (name, cfm) in &q.cf {
                let mut f = Dictionary::new();
                f.set("Type", Object::Name(b"CryptFilter".to_vec())); f.set("CFM", Object::Name(cfm.clone()));
                f.set("AuthEvent", Object::Name(b"DocOpen".to_vec()));
                f.set("Length", Object::Integer(if q.v == 5 { 32 } else { 16 }));
                cf.set(name.clone(), Object::Dictionary(f));
            }
            ed.set("CF", Object::Dictionary(cf));
            if let Some(x) = &q.stmf { ed.set("StmF", Object::Name(x.clone())); }
            if let Some(x) = &q.strf { ed.set("StrF", Object::Name(x.clone())); }
            if !q.encrypt_metadata { ed.set("EncryptMetadata", Object::Boolean(false)); }
        }
        if q.r >= 5 {
            ed.set("OE", Object::String(oe, lopdf::StringFormat::Hexadecimal));
            ed.set("UE", Object::String(ue, lopdf::StringFormat::Hexadecimal));
            ed.set("Perms", Object::String(perms, lopdf::StringFormat::Hexadecimal));
        }
        if q.direct_encrypt_dict { out.trailer.set("Encrypt", Object::Dictionary(ed)); }
        else {
            out.max_id += 1;
            let id = (out.max_id, 0);
            out.objects.insert(id, Object::Dictionary(ed));
            out.trailer.set("Encrypt", Object::Reference(id));
        }
        (out, d, key)
    }
}

// ---------------------------------------------------------------------------------------------
fn clean_opts() -> c05::GenOpts { c05::GenOpts { stream_dict_strings: true, nested_streams: false, meta_dicts: false, bad_length: false } }

/// drop the constructs on which lopdf is known / expected to differ from ISO (each has its own witness)
fn iso_clean_doc(r: &mut Rng, allow_crypt: bool) -> Document {
    loop {
        let d = c05::gen_doc(r, &clean_opts());
        // Crypt filters: only with V >= 4 (they do not exist before) and in well-formed Filter arrays
        let (mut any, mut odd) = (false, false);
        for o in d.objects.values() { c05::scan_crypt(o, &mut any, &mut odd); }
        if odd || (any && !allow_crypt) { continue; }
        // Metadata *dictionaries* (not streams): lopdf exempts them, ISO does not — outside the main streams
        if d.objects.values().any(has_meta_dict) { continue; }
        return d;
    }
}
fn has_meta_dict(o: &Object) -> bool {
    match o {
        Object::Array(a) => a.iter().any(has_meta_dict),
        Object::Dictionary(d) => matches!(d.get(b"Type"), Ok(Object::Name(n)) if n == b"Metadata") || d.iter().any(|(_, v)| has_meta_dict(v)),
        _ => false,
    }
}
fn p_of(cfg: &Config) -> i64 { ((cfg.perms | 0xffff_ffff_ffff_f0c0) as i64) as i32 as i64 }
fn cfm_of(k: u8) -> &'static [u8] { match k { b'R' => b"V2", b'A' => b"AESV2", b'B' => b"AESV3", _ => b"None" } }

fn params_line(r: i64, n: usize, p: i64, em: bool, id0: &[u8]) -> String {
    format!("{} {} {} {} {}", r, n, p as u32, em as u8, hex_tok(id0))
}

pub fn run(c: &mut Ctx) {
    c.rule = "ISO-clean random documents (no strings in stream dictionaries, no Metadata dictionaries, no Crypt filters) x revisions 2-6 x key lengths 40..128 x \
RC4 / AESV2 / AESV3 (V4 strings and streams independently) x EncryptMetadata x conforming permission words x passwords (ASCII, Latin-1, non-Latin for R>=5, up to 200 bytes incl. 127 / 128) x Length present / absent (V4) / 256 (V5) x Identity default filters \
x random file identifiers, salts and IVs. Direction A: lopdf encrypts, the Rust reference and the Lean spec recompute O, U, OE, UE, keys, ciphertexts and decrypt. \
Direction B: the reference encrypts, lopdf authenticates / decrypts in memory and after save_to + load_mem. Non-trivial = the document holds at least one string or stream; distinct by document text.".into();
    c.corr("c6_selftest".into(), "ok".into());
    prim_cross(c);
    let n = c.n(120, 1200);
    for i in 0..n {
        let Some(mut r) = c.case("a", i) else { continue };
        let forced = match i { 0 => Some(Ver::V1), 1..=12 => Some(Ver::V2(40 + 8 * (i as usize - 1))), 13..=15 => Some(Ver::V4), 16 => Some(Ver::R5), 17 | 18 => Some(Ver::V5), _ => None };
        dir_a(c, &mut r, forced, i);
    }
    let n = c.n(120, 1200);
    for i in 0..n {
        let Some(mut r) = c.case("b", i) else { continue };
        dir_b(c, &mut r, i);
    }
    saslprep_cases(c);
    straddle_cases(c);
    witnesses(c);
}

/// cross-check of the Lean spec primitives against the crates (validates the hypotheses' instances)
fn prim_cross(c: &mut Ctx) {
    let n = c.n(40, 300);
    for i in 0..n {
        let Some(mut r) = c.case("prim", i) else { continue };
        let l = match r.below(6) { 0 => 0, 1 => 55, 2 => 56, 3 => 64, 4 => 119 + r.usize(20), _ => r.usize(300) };
        let d = r.bytes(l);
        c.corr(format!("c6_prim md5 {}", hex_tok(&d)), format!("ok {}", hex_tok(&refimpl::md5(&d))));
        c.corr(format!("c6_prim sha256 {}", hex_tok(&d)), format!("ok {}", hex_tok(&refimpl::sha256(&d))));
        c.corr(format!("c6_prim sha384 {}", hex_tok(&d)), format!("ok {}", hex_tok(&refimpl::sha384(&d))));
        c.corr(format!("c6_prim sha512 {}", hex_tok(&d)), format!("ok {}", hex_tok(&refimpl::sha512(&d))));
        let kl = if r.chance(1, 2) { 16 } else { 32 }; let k = r.bytes(kl); let b = r.bytes(16);
        let e = refimpl::aes_enc_block(&k, &b);
        c.corr(format!("c6_prim aesenc {} {}", hex_tok(&k), hex_tok(&b)), format!("ok {}", hex_tok(&e)));
        c.corr(format!("c6_prim aesdec {} {}", hex_tok(&k), hex_tok(&e)), format!("ok {}", hex_tok(&b)));
        if refimpl::aes_dec_block(&k, &e) != b { c.oracle_fail("aes-crate-not-inverse", "", json!({})); }
        c.count("prim.cross");
    }
}

fn gen_cfg_a(r: &mut Rng, forced: Option<Ver>) -> Config {
    loop {
        let mut cfg = c05::gen_config(r, forced.clone());
        // stay out of registered-deviation territory: PDFDoc-encodable passwords for R<=4 (F-C05-b)
        if cfg.owner.is_empty() && cfg.revision() >= 5 { cfg.owner = "own".into(); }
        if cfg.revision() <= 4 && !(cfg.user.chars().all(|ch| (ch as u32) < 0x7f) && cfg.owner.chars().all(|ch| (ch as u32) < 0x7f)) { continue; }
        return cfg;
    }
}

/// Direction A: lopdf encrypts; reference + Lean spec recompute and decrypt
fn dir_a(c: &mut Ctx, r: &mut Rng, forced: Option<Ver>, idx: u64) { dir_a_pw(c, r, forced, idx, None) }
fn dir_a_pw(c: &mut Ctx, r: &mut Rng, forced: Option<Ver>, idx: u64, force_pw: Option<(String, String)>) {
    let mut cfg = gen_cfg_a(r, forced);
    if let Some((u, o)) = force_pw { cfg.user = u; cfg.owner = o; }
    let orig = iso_clean_doc(r, cfg.revision() >= 4);
    let case = json!({"config": format!("{:?}", cfg), "doc": c05::show_doc(&orig)});
    let state = match guard(|| cfg.make_state(&orig)) { Ok(Ok(s)) => s, other => { c.oracle_fail("encrypt-failed", &format!("{:?}", other.map(|x| x.map(|_| ()))), case); return; } };
    let mut enc = orig.clone();
    if !matches!(guard(|| enc.encrypt(&state)), Ok(Ok(()))) { c.oracle_fail("encrypt-failed", "Document::encrypt", case); return; }
    c.nontrivial(&c05::show_doc(&orig));
    let rev = state.revision();
    c.count(&format!("a.rev{}", rev));
    let owner_b = c05::sanitize(&enc, &cfg.owner).unwrap_or_default();
    let user_b = c05::sanitize(&enc, &cfg.user).unwrap_or_default();
    let id0 = refimpl::file_id0(&orig);
    let p = p_of(&cfg);
    // the encryption dictionary lopdf wrote, read by the reference
    let Some(d) = enc.get_encrypted().ok().and_then(refimpl::read_enc_dict) else { c.oracle_fail("encdict-unreadable", "", case); return; };
    if d.p != p { c.oracle_fail("p-value", &format!("P written {} expected {}", d.p, p), case.clone()); }
    if d.v != (match cfg.ver { Ver::V1 => 1, Ver::V2(_) => 2, Ver::V4 => 4, _ => 5 }) || d.r != cfg.revision() { c.oracle_fail("v-r", "V / R entries", case.clone()); }
    let n = d.key_bytes();
    if rev <= 4 {
        // O, U, key recomputed by the reference (Algorithms 3, 2, 4/5)
        let owner_opt: Option<&[u8]> = if owner_b.is_empty() { None } else { Some(&owner_b) };   // an empty owner password = none
        let o = refimpl::alg3(owner_opt, &user_b, rev, n);
        let key = refimpl::alg2(&user_b, &o, p, &id0, rev, n, d.encrypt_metadata);
        let u = refimpl::alg4_5(&key, &id0, rev);
        let ul = if rev == 2 { 32 } else { 16 };
        if o != d.o { c.oracle_fail("O-differs", "O differs from Algorithm 3", case.clone()); }
        if u[..ul] != d.u[..ul] { c.oracle_fail("U-differs", "U differs from Algorithm 4/5", case.clone()); }
        if key != state.file_encryption_key() { c.oracle_fail("key-differs", "file key differs from Algorithm 2", case.clone()); }
        // Lean spec on the same inputs, compared with lopdf's values
        c.corr(format!("c6_dict {} {} {}", params_line(rev, n, p, d.encrypt_metadata, &id0), if owner_b.is_empty() { "none".to_string() } else { hex_tok(&owner_b) }, hex_tok(&user_b)),
               format!("ok {} {} {}", hex_tok(state.owner_value()), hex_tok(&state.user_value()[..ul]), hex_tok(state.file_encryption_key())));
        // authentication of a few passwords: lopdf vs Lean spec (and reference)
        for pw in [cfg.user.clone(), cfg.owner.clone(), "nope".to_string(), String::new()] {
            let b = c05::sanitize(&enc, &pw).unwrap_or_default();
            let (lo, lu) = (enc.authenticate_owner_password(&pw).is_ok(), enc.authenticate_user_password(&pw).is_ok());
            c.corr(format!("c6_auth {} {} {} {}", params_line(rev, n, p, d.encrypt_metadata, &id0), hex_tok(&d.o), hex_tok(&d.u), hex_tok(&b)), format!("ok {} {}", lo as u8, lu as u8));
            if lo != refimpl::alg7(&d, &id0, &b).is_some() || lu != refimpl::alg6(&d, &id0, &b).is_some() { c.oracle_fail("authenticate-differs", "authenticate_* differs from Algorithms 6 / 7", json!({"pw": pw, "case": case})); }
        }
    } else {
        let (u, ue) = refimpl::alg8(rev, &user_b, &cfg.file_key, &d.u[32..48]);
        let (o, oe) = refimpl::alg9(rev, &owner_b, &cfg.file_key, &d.o[32..48], &u);
        if u != d.u || ue != d.ue { c.oracle_fail("U-differs", "U / UE differ from Algorithm 8", case.clone()); }
        if o != d.o || oe != d.oe { c.oracle_fail("O-differs", "O / OE differ from Algorithm 9", case.clone()); }
        // Perms: Algorithm 10 with the random tail read off lopdf's (decrypted) block; Algorithm 13 on lopdf's value
        if d.perms.len() == 16 {
            let plain = refimpl::aes_dec_block(&cfg.file_key, &d.perms);
            if refimpl::alg10(p, d.encrypt_metadata, &cfg.file_key, &plain[12..16]) != d.perms { c.oracle_fail("perms-differs", "Perms differs from Algorithm 10", case.clone()); }
            c.corr(format!("c6_perms {} {} {} {}", p as u32, d.encrypt_metadata as u8, hex_tok(&cfg.file_key), hex_tok(&plain[12..16])), format!("ok {}", hex_tok(&d.perms)));
        } else { c.oracle_fail("perms-differs", "Perms is not 16 bytes", case.clone()); }
        // Lean spec: R5 always, R6 (full Algorithm 2.B in Lean, slow) on a few cases
        if rev == 5 || idx < 36 && idx % 3 == 0 || !c.quick() && idx % 8 == 0 {
            c.corr(format!("c6_dict6 {} {} {} {} {} {}", rev, hex_tok(&cfg.file_key), hex_tok(&owner_b), hex_tok(&user_b), hex_tok(&d.u[32..48]), hex_tok(&d.o[32..48])),
                   format!("ok {} {} {} {}", hex_tok(&d.u), hex_tok(&d.ue), hex_tok(&d.o), hex_tok(&d.oe)));
            c.corr(format!("c6_key6 {} {} {} {} {} {}", rev, hex_tok(&d.o), hex_tok(&d.u), hex_tok(&d.oe), hex_tok(&d.ue), hex_tok(&owner_b)), format!("ok {}", hex_tok(&cfg.file_key)));
            c.count("a.lean_spec_r56");
        }
        for pw in [cfg.user.clone(), cfg.owner.clone(), "nope".to_string()] {
            let b = c05::sanitize(&enc, &pw).unwrap_or_default();
            let b: Vec<u8> = b.into_iter().take(127).collect();   // Algorithms 11 / 12: first 127 bytes
            let (lo, lu) = (enc.authenticate_owner_password(&pw).is_ok(), enc.authenticate_user_password(&pw).is_ok());
            let eo = refimpl::alg2b(rev, &b, &d.o[32..40], &d.u) == d.o[..32];
            let eu = refimpl::alg2b(rev, &b, &d.u[32..40], &[]) == d.u[..32];
            if lo != eo || lu != eu { c.oracle_fail("authenticate-differs", "authenticate_* differs from Algorithms 11 / 12", json!({"pw": pw, "case": case})); }
        }
    }
    // per-object data: Lean spec vs lopdf's ciphertext for the first few strings / streams
    let mut budget = 3;
    for (id, o) in orig.objects.iter() {
        if budget == 0 { break; }
        let (pt, ct, is_str) = match (o, enc.objects.get(id)) {
            (Object::String(a, _), Some(Object::String(b, _))) => (a.clone(), b.clone(), true),
            (Object::Stream(a), Some(Object::Stream(b))) => (a.content.clone(), b.content.clone(), false),
            _ => continue,
        };
        let is_meta = matches!(o, Object::Stream(s) if matches!(s.dict.get(b"Type"), Ok(Object::Name(n)) if n == b"Metadata" || n == b"XRef"));
        if is_meta { continue; }
        // streams that select their own crypt filter are covered by the whole-document comparison
        if matches!(o, Object::Stream(s) if s.dict.has(b"Filter") && show_obj(s.dict.get(b"Filter").unwrap()).contains("N4372797074")) { continue; }
        let m = refimpl::method_of(&d, if is_str { d.strf.as_deref() } else { d.stmf.as_deref() });
        let mt = match m { refimpl::Method::V2 => "V2", refimpl::Method::AesV2 => "AESV2", refimpl::Method::AesV3 => "AESV3", _ => continue };
        let iv = if mt == "V2" { vec![] } else { ct[..16].to_vec() };
        c.corr(format!("c6_data {} {} {} {} {} {}", mt, hex_tok(state.file_encryption_key()), id.0, id.1, hex_tok(&iv), hex_tok(&pt)), format!("ok {}", hex_tok(&ct)));
        if refimpl::encrypt_data(m, state.file_encryption_key(), *id, &iv, &pt) != ct { c.oracle_fail("ciphertext-differs", "ciphertext differs from Algorithm 1 / 1.A", json!({"id": format!("{:?}", id), "case": case})); }
        budget -= 1;
    }
    // whole document: the reference opens lopdf's output with both passwords, Algorithm 13 included
    let owner_absent = rev <= 4 && owner_b.is_empty();
    for (who, pw, want_owner) in [("user", &user_b, false), ("owner", &owner_b, true)] {
        if owner_absent && who == "owner" { continue; }
        match refimpl::decrypt_document(&enc, pw, true, false) {
            Ok((dd, is_owner)) => {
                if let Err(w) = c05::docs_same_mod_length(&orig, &dd) { c.oracle_fail("reference-decrypt-differs", &format!("{} password: {}", who, w), case.clone()); }
                else { c.count(&format!("a.ref_decrypt_ok.{}", who)); }
                if is_owner != want_owner && owner_b != user_b && !owner_absent { c.oracle_fail("role-differs", &format!("{} password authenticated as owner={}", who, is_owner), case.clone()); }
            }
            Err(w) => c.oracle_fail("reference-rejects", &format!("{} password: {}", who, w), case.clone()),
        }
    }
    if refimpl::authenticate(&d, &id0, b"certainly not the password", false).is_some() { c.oracle_fail("reference-accepts-wrong", "", case.clone()); }
    c.sample(json!({"direction": "A", "rev": rev, "objects": orig.objects.len()}));
}

fn gen_params_b(r: &mut Rng, idx: u64, force: Option<(i64, String, String)>) -> (refimpl::EncParams, String, String) {
    let (v, rr, bits): (i64, i64, i64) = match if let Some((rev, _, _)) = &force { *rev } else if idx < 16 { (idx % 8) as i64 } else { r.below(8) as i64 } {
        0 => (1, 2, 40),
        1 | 2 => (2, 3, 40 + 8 * r.below(12) as i64),
        3 | 4 => (4, 4, 128),
        5 => (5, 5, 256),
        _ => (5, 6, 256),
    };
    let r6 = rr >= 5;
    let mut cf = vec![]; let (mut stmf, mut strf) = (None, None);
    if v == 4 {
        let k1: &[u8] = if r.chance(1, 2) { b"V2" } else { b"AESV2" }; let k2: &[u8] = if r.chance(1, 2) { b"V2" } else { b"AESV2" };
        cf.push((b"StdCF".to_vec(), k1.to_vec())); stmf = Some(b"StdCF".to_vec());
        if k1 == k2 { strf = Some(b"StdCF".to_vec()); } else { cf.push((b"StrCF".to_vec(), k2.to_vec())); strf = Some(b"StrCF".to_vec()); }
    } else if v == 5 { cf.push((b"StdCF".to_vec(), b"AESV3".to_vec())); stmf = Some(b"StdCF".to_vec()); strf = Some(b"StdCF".to_vec()); }
    // the predefined name Identity as a default filter (no CF entry)
    if v >= 4 { match r.below(8) { 0 => stmf = Some(b"Identity".to_vec()), 1 => strf = Some(b"Identity".to_vec()), _ => {} } }
    let mut perms = 0u64; for b in c05::PERM_BITS { if r.chance(1, 2) { perms |= 1 << b; } }
    let p = ((perms | 0xffff_ffff_ffff_f0c0) as i64) as i32 as i64;
    let mut user; let mut owner;
    loop {
        user = c05::gen_password(r, r6); owner = c05::gen_password(r, r6);
        if owner.is_empty() || owner == user { owner = format!("{}#o", user); }
        if !r6 && !(user.is_ascii() && owner.is_ascii()) { continue; }
        break;
    }
    if let Some((_, u, o)) = force { user = u; owner = o; }
    (refimpl::EncParams { v, r: rr, key_bits: bits, p, encrypt_metadata: v < 4 || r.chance(1, 2), cf, stmf, strf,
        owner: if !r6 && r.chance(1, 6) { None } else { Some(owner.as_bytes().to_vec()) }, user: user.as_bytes().to_vec(), file_key: if r6 { r.bytes(32) } else { vec![] },
        write_length: v == 2 || (v == 4 && r.chance(1, 2)) || (v == 5 && r.chance(1, 2)), direct_encrypt_dict: r.chance(1, 4), in_stream_dicts: true }, user, owner)
}

/// Direction B: the reference encrypts; lopdf authenticates and decrypts (in memory and from a file)
fn dir_b(c: &mut Ctx, r: &mut Rng, idx: u64) { dir_b_pw(c, r, idx, None) }
fn dir_b_pw(c: &mut Ctx, r: &mut Rng, idx: u64, force: Option<(i64, String, String)>) {
    let (q, user, owner) = gen_params_b(r, idx, force);
    // no owner password: the user password is also the owner password (Algorithm 3 step a)
    let owner = if q.owner.is_none() { c.count("b.owner_absent"); user.clone() } else { owner };
    if q.direct_encrypt_dict { c.count("b.direct_encrypt_dict"); }
    let orig = iso_clean_doc(r, q.v >= 4);
    let mut rr = r.clone();
    let (enc, d, key) = refimpl::encrypt_document(&orig, &q, &mut |n| rr.bytes(n));
    let case = json!({"params": format!("{:?}", q), "doc": c05::show_doc(&orig)});
    c.nontrivial(&c05::show_doc(&enc));
    c.count(&format!("b.rev{}", q.r));
    // sanity of the reference itself: it opens its own output with both passwords
    for pw in [&q.user, &owner.as_bytes().to_vec()] {
        if !matches!(refimpl::decrypt_document(&enc, pw, true, false), Ok((ref dd, _)) if c05::docs_same_mod_length(&orig, dd).is_ok()) { c.oracle_fail("reference-self-roundtrip", "", case.clone()); return; }
    }
    // the model of lopdf's code on the same input: correspondence with the real decrypt (revision 6 within a budget:
    // the model runs the full Algorithm 2.B in Lean)
    let full_model_case = c05::r6_model_budget(c, q.r, "b.r6_model_cases");
    let run = |c: &mut Ctx, doc: &Document, pw: &str, label: &str| -> Result<Document, String> {
        let mut dd = doc.clone();
        let res = guard(|| dd.decrypt(pw));
        let pw_b = c05::sanitize(doc, pw).unwrap_or_default();
        let full_model = full_model_case;
        let tbl = c05::h2b_table(q.r, &d.o, &d.u, &[pw_b.clone()]);
        let req = format!("c5_decdoc {} {} {}", c05::show_doc(doc), hex_tok(&pw_b), tbl);
        match res {
            Ok(Ok(())) => { if full_model { c.corr(req, format!("ok {}", c05::show_doc(&dd))); } Ok(dd) }
            Ok(Err(e)) => { let cls = c05::err_class(&e); if full_model { c.corr(req, format!("err {}", cls)); } Err(cls) }
            Err((site, msg)) => { c.oracle_fail(&format!("panic@{}", site), &msg, json!({"label": label})); Err("panic".into()) }
        }
    };
    // authentication
    let au = enc.authenticate_user_password(&user).is_ok(); let ao = enc.authenticate_owner_password(&owner).is_ok();
    if !au { c.oracle_fail("lopdf-rejects-user", "authenticate_user_password rejects the user password of a reference-encrypted document", case.clone()); }
    if !ao { c.oracle_fail("lopdf-rejects-owner", "authenticate_owner_password rejects the owner password of a reference-encrypted document", case.clone()); }
    if enc.authenticate_password("definitely wrong").is_ok() { c.oracle_fail("lopdf-accepts-wrong", "", case.clone()); }
    // decryption with both passwords, every revision
    if q.r <= 4 {
        match run(c, &enc, &user, "user") {
            Ok(dd) => if let Err(w) = c05::docs_same_mod_length(&orig, &dd) { c.oracle_fail("lopdf-decrypt-differs", &w, case.clone()); } else { c.count("b.lopdf_decrypt_ok.user"); },
            Err(cls) => c.oracle_fail("lopdf-decrypt-fails", &cls, case.clone()),
        }
        match run(c, &enc, &owner, "owner") {
            Ok(dd) => if let Err(w) = c05::docs_same_mod_length(&orig, &dd) { c.oracle_fail("lopdf-decrypt-differs", &format!("owner password: {}", w), case.clone()); } else { c.count("b.lopdf_decrypt_ok.owner_r234"); },
            Err(cls) => c.oracle_fail("lopdf-decrypt-fails", &format!("owner password, R{}: {}", q.r, cls), case.clone()),
        }
    } else {
        match run(c, &enc, &owner, "owner") {
            Ok(dd) => if let Err(w) = c05::docs_same_mod_length(&orig, &dd) { c.oracle_fail("lopdf-decrypt-differs", &w, case.clone()); } else { c.count("b.lopdf_decrypt_ok.owner"); },
            Err(cls) => c.oracle_fail("lopdf-decrypt-fails", &cls, case.clone()),
        }
        match run(c, &enc, &user, "user") {
            Ok(dd) => if let Err(w) = c05::docs_same_mod_length(&orig, &dd) { c.oracle_fail("lopdf-decrypt-differs", &w, case.clone()); } else { c.count("b.lopdf_decrypt_ok.user_r56"); },
            Err(cls) => c.oracle_fail("lopdf-decrypt-fails", &format!("user password, R{}: {}", q.r, cls), case.clone()),
        }
    }
    if key != (if q.r <= 4 { refimpl::alg2(&q.user, &d.o, q.p, &refimpl::file_id0(&orig), q.r, d.key_bytes(), q.encrypt_metadata) } else { q.file_key.clone() }) { c.oracle_fail("reference-key", "", case.clone()); }
    // through a file: lopdf's writer carries the reference-encrypted objects, lopdf's loader reads them back
    if idx % 2 == 0 {
        let mut bytes = vec![]; let mut tosave = enc.clone();
        if matches!(guard(|| tosave.save_to(&mut bytes)), Ok(Ok(()))) {
            match guard(|| Document::load_mem(&bytes)) {
                Ok(Ok(mut loaded)) => {
                    let pw = if q.r <= 4 || idx % 4 == 0 { &user } else { &owner };
                    let ok = !loaded.is_encrypted() || loaded.decrypt(pw).is_ok();
                    if !ok { c.oracle_fail("file-decrypt-fails", "decrypt after load_mem failed", case.clone()); }
                    else {
                        let mut bad = None;
                        for (id, o) in orig.objects.iter() {
                            if matches!(o, Object::Stream(s) if matches!(s.dict.get(b"Type"), Ok(Object::Name(n)) if n == b"XRef")) || matches!(o, Object::Dictionary(dd) if matches!(dd.get(b"Type"), Ok(Object::Name(n)) if n == b"XRef")) { continue; }
                            match loaded.objects.get(id) { Some(l) if c05::same_mod_length(o, l) => {}, other => { bad = Some(format!("{:?}: {} vs {:?}", id, show_obj(o), other.map(show_obj))); break; } }
                        }
                        if let Some(w) = bad { c.oracle_fail("file-decrypt-differs", &w, case.clone()); } else { c.count("b.file_roundtrip_ok"); }
                    }
                }
                other => c.oracle_fail("file-load-fails", &format!("{:?}", other.map(|x| x.map(|_| ()))), case.clone()),
            }
        }
    }
    c.sample(json!({"direction": "B", "rev": q.r, "v": q.v, "bits": q.key_bits}));
}


/// R5/R6: "truncate the UTF-8 representation to 127 bytes" cuts at byte 127 exactly, also in the middle of a
/// character.  Passwords of 120..140 bytes with a 2-, 3- or 4-byte character straddling byte 127 at every phase,
/// as user and as owner password, both revisions, both directions.
fn straddle_cases(c: &mut Ctx) {
    let combos: Vec<(usize, usize)> = vec![(2, 0), (3, 0), (3, 1), (4, 0), (4, 1), (4, 2)];
    let rounds = c.n(1, 12);
    let mut i = 0u64;
    for round in 0..rounds {
        for (k, (w, ph)) in combos.iter().enumerate() {
            let Some(mut r) = c.case("straddle", i) else { i += 1; continue };
            i += 1;
            let total = if c.quick() { 128 + (k % 3) * 6 } else { 120 + r.usize(21) };
            let long = c05::straddle_password(&mut r, *w, *ph, total);
            let other = if r.chance(1, 3) { let (w2, p2) = *r.pick(&combos); let t2 = 120 + r.usize(21); c05::straddle_password(&mut r, w2, p2, t2) } else { c05::gen_password(&mut r, true) };
            // alternate role (user / owner), revision (5 / 6) and direction so that the quick tier sees each once
            let as_user = (k as u64 + round) % 2 == 0;
            let rev6 = (k as u64 / 2 + round) % 2 == 0;
            let (user, owner) = if as_user { (long.clone(), other.clone()) } else { (other.clone(), long.clone()) };
            let (user, owner) = if user == owner { (user, format!("{}!", owner)) } else { (user, owner) };
            c.count(&format!("straddle.w{}.phase{}.{}.r{}", w, ph, if as_user { "user" } else { "owner" }, if rev6 { 6 } else { 5 }));
            dir_a_pw(c, &mut r, Some(if rev6 { Ver::V5 } else { Ver::R5 }), 1_000 + i, Some((user.clone(), owner.clone())));
            dir_b_pw(c, &mut r, 1_001 + i * 2, Some((if rev6 { 7 } else { 5 }, user, owner)));
        }
    }
}

/// R5/R6 password preparation: SASLprep (RFC 4013) is an external crate (`stringprep`) that the model
/// and the main streams take as given (both sides are fed lopdf's own `sanitize_password` result).
/// This stream checks the WIRING against the RFC's own examples (RFC 4013 §3) with expectations written
/// here by hand: the reference must open lopdf's document with the RFC's output bytes.
fn saslprep_cases(c: &mut Ctx) {
    // (input, expected output or None = prohibited)
    let table: [(&str, Option<&str>); 9] = [
        ("I\u{00AD}X", Some("IX")),          // SOFT HYPHEN mapped to nothing
        ("user", Some("user")),              // no transformation
        ("USER", Some("USER")),              // case preserved
        ("\u{00AA}", Some("a")),             // NFKC: FEMININE ORDINAL INDICATOR -> a
        ("\u{2168}", Some("IX")),            // NFKC: ROMAN NUMERAL NINE -> IX
        ("a\u{00A0}b", Some("a b")),         // non-ASCII space mapped to SPACE
        ("\u{0007}", None),                  // prohibited: control character
        ("\u{0627}\u{0031}", None),          // bidi check fails
        ("p\u{00E4}ss", Some("p\u{00E4}ss")), // already NFKC
    ];
    for (i, (input, expect)) in table.iter().enumerate() {
        let Some(_r) = c.case("saslprep", i as u64) else { continue };
        for ver in [Ver::R5, Ver::V5] {
            let cfg = Config { ver: ver.clone(), encrypt_metadata: true, filters: vec![(b"StdCF".to_vec(), b'B')], stmf: b"StdCF".to_vec(), strf: b"StdCF".to_vec(),
                file_key: (0..32).collect(), owner: "owner".into(), user: input.to_string(), perms: 3900 };
            let orig = strip_note(&wdoc());
            let case = json!({"input": input.escape_unicode().to_string(), "expect": expect, "ver": format!("{:?}", ver)});
            match (guard(|| cfg.make_state(&orig)), expect) {
                (Ok(Err(_)), None) => c.count("saslprep.prohibited_rejected"),
                (Ok(Ok(_)), None) => c.oracle_fail("saslprep-differs", "a password RFC 4013 prohibits was accepted", case),
                (Ok(Err(e)), Some(_)) => c.oracle_fail("saslprep-differs", &format!("rejected: {}", c05::err_class(&e)), case),
                (Ok(Ok(state)), Some(out)) => {
                    let mut enc = orig.clone();
                    if enc.encrypt(&state).is_err() { c.oracle_fail("encrypt-failed", "", case); continue; }
                    match refimpl::decrypt_document(&enc, out.as_bytes(), true, false) {
                        Ok((d, false)) if c05::docs_same_mod_length(&orig, &d).is_ok() => c.count("saslprep.reference_opens_with_rfc_output"),
                        other => c.oracle_fail("saslprep-differs", &format!("the reference cannot open the document with the RFC 4013 output: {:?}", other.map(|x| x.1)), case.clone()),
                    }
                    // and lopdf accepts both spellings
                    for pw in [*input, out] { let mut d = enc.clone(); if d.decrypt(pw).is_err() { c.oracle_fail("saslprep-differs", &format!("lopdf rejects {:?}", pw.escape_unicode().to_string()), case.clone()); } }
                }
                (Err((site, msg)), _) => c.oracle_fail(&format!("panic@{}", site), &msg, case),
            }
        }
    }
}

// ------------------------------------------------------------------ witnesses of the registered deviations
fn wdoc() -> Document {
    let mut doc = Document::with_version("1.7");
    doc.objects.insert((1, 0), Object::String(b"The quick brown fox jumps over the lazy dog".to_vec(), StringFormat::Literal));
    let mut sd = Dictionary::new(); sd.set("Note", Object::String(b"a string inside a stream dictionary".to_vec(), StringFormat::Literal));
    doc.objects.insert((2, 0), Object::Stream(Stream::new(sd, b"stream content 0123456789 0123456789".to_vec())));
    doc.max_id = 2;
    doc.trailer.set("Root", Object::Reference((1, 0)));
    doc.trailer.set("ID", Object::Array(vec![Object::String(vec![7u8; 16], StringFormat::Hexadecimal), Object::String(vec![9u8; 16], StringFormat::Hexadecimal)]));
    doc
}
fn wparams(v: i64, r: i64) -> refimpl::EncParams {
    let cf = if v == 4 { vec![(b"StdCF".to_vec(), b"AESV2".to_vec())] } else if v == 5 { vec![(b"StdCF".to_vec(), b"AESV3".to_vec())] } else { vec![] };
    let f = if v >= 4 { Some(b"StdCF".to_vec()) } else { None };
    refimpl::EncParams { v, r, key_bits: match v { 1 => 40, 2 => 128, 4 => 128, _ => 256 }, p: -3904, encrypt_metadata: true, cf, stmf: f.clone(), strf: f,
        owner: Some(b"owner".to_vec()), user: b"user".to_vec(), file_key: (0..32).collect(), write_length: v == 2 || v == 4, direct_encrypt_dict: false, in_stream_dicts: true }
}
fn strip_note(d: &Document) -> Document { let mut d = d.clone(); if let Some(Object::Stream(s)) = d.objects.get_mut(&(2, 0)) { s.dict.remove(b"Note"); } d }

fn witnesses(c: &mut Ctx) {
    let mut seed = 1u64; let mut rnd = move |n: usize| -> Vec<u8> { (0..n).map(|_| { seed = seed.wrapping_mul(6364136223846793005).wrapping_add(1442695040888963407); (seed >> 33) as u8 }).collect() };
    // F-C06-a: strings inside stream dictionaries are not decrypted (nor encrypted) by lopdf
    if let Some(_r) = c.case("witness", 0) {
        let orig = wdoc(); let (enc, _, _) = refimpl::encrypt_document(&orig, &wparams(2, 3), &mut rnd);
        let mut d = enc.clone(); let ok = d.decrypt("user").is_ok();
        let note = |x: &Document| match x.objects.get(&(2, 0)) { Some(Object::Stream(s)) => s.dict.get(b"Note").ok().and_then(|o| o.as_str().ok()).map(|s| s.to_vec()), _ => None };
        let content_ok = matches!((d.objects.get(&(2, 0)), orig.objects.get(&(2, 0))), (Some(Object::Stream(a)), Some(Object::Stream(b))) if a.content == b.content);
        let repro_dec = ok && content_ok && note(&d) != note(&orig) && note(&d) == note(&enc);
        // and the other way round: lopdf leaves them in clear text
        let cfg = Config { ver: Ver::V2(128), encrypt_metadata: true, filters: vec![], stmf: vec![], strf: vec![], file_key: vec![], owner: "owner".into(), user: "user".into(), perms: 3900 };
        let mut e2 = orig.clone(); let st = cfg.make_state(&orig).unwrap(); e2.encrypt(&st).unwrap();
        let repro_enc = note(&e2) == note(&orig);
        c.witness("F-C06-a", repro_dec && repro_enc, &format!("reference-encrypted V2/R3 document: lopdf decrypt ok={}, stream data restored={}, /Note string left as ciphertext={}; lopdf-encrypted document keeps /Note in clear text={}", ok, content_ok, repro_dec, repro_enc));
    }
    // F-C06-c: Perms (Algorithm 10 / 13)
    if let Some(_r) = c.case("witness", 1) {
        let orig = strip_note(&wdoc());
        let (enc, _, _) = refimpl::encrypt_document(&orig, &wparams(5, 6), &mut rnd);
        let auth = enc.authenticate_user_password("user").is_ok();
        let mut d = enc.clone(); let user = d.decrypt("user");
        let mut d2 = enc.clone(); let owner_ok = d2.decrypt("owner").is_ok() && c05::docs_same_mod_length(&orig, &d2).is_ok();
        // lopdf's own Perms is the plaintext block
        let cfg = Config { ver: Ver::V5, encrypt_metadata: true, filters: vec![(b"StdCF".to_vec(), b'B')], stmf: b"StdCF".to_vec(), strf: b"StdCF".to_vec(), file_key: (0..32).collect(), owner: "owner".into(), user: "user".into(), perms: 3900 };
        let st = cfg.make_state(&orig).unwrap();
        let plain = &st.permission_encrypted()[9..12] == b"adb";
        let mut e2 = orig.clone(); e2.encrypt(&st).unwrap();
        let strict = refimpl::decrypt_document(&e2, b"user", true, false).is_err() && refimpl::decrypt_document(&e2, b"user", true, true).is_ok();
        // the commonest kind of protected file: empty user password, owner password set -> the loader itself fails
        let mut q0 = wparams(5, 6); q0.user = vec![];
        let (enc0, _, _) = refimpl::encrypt_document(&orig, &q0, &mut rnd);
        let mut bytes = vec![]; let mut ts = enc0.clone(); let _ = ts.save_to(&mut bytes);
        let load = Document::load_mem(&bytes);
        let load_fails = load.is_err();
        // fixed in /repo ca6bb9d: reproduced = any of the symptoms is back
        c.witness("F-C06-c", (auth && user.is_err()) || plain || strict || load_fails || !owner_ok,
            &format!("conforming R6 document: authenticate_user_password ok={}, decrypt(\"user\") = {:?}, decrypt(\"owner\") restores={}; Perms written by lopdf is the unencrypted block (bytes 9..12 = \"adb\")={}; strict reference (Algorithm 13) rejects lopdf's output={}; load_mem of a conforming R6 file with an empty user password fails={}", auth, user.err().map(|e| c05::err_class(&e)), owner_ok, plain, strict, load_fails));
    }
    // F-C06-b: StrF / StmF = /Identity (predefined, not listed in CF) is treated as RC4
    if let Some(_r) = c.case("witness", 2) {
        let orig = strip_note(&wdoc()); let mut q = wparams(4, 4); q.strf = Some(b"Identity".to_vec());
        let (enc, _, _) = refimpl::encrypt_document(&orig, &q, &mut rnd);
        let mut d = enc.clone(); let ok = d.decrypt("user").is_ok();
        let s_ok = matches!((d.objects.get(&(1, 0)), orig.objects.get(&(1, 0))), (Some(Object::String(a, _)), Some(Object::String(b, _))) if a == b);
        let st_ok = matches!((d.objects.get(&(2, 0)), orig.objects.get(&(2, 0))), (Some(Object::Stream(a)), Some(Object::Stream(b))) if a.content == b.content);
        c.witness("F-C06-b", ok && !s_ok && st_ok, &format!("V4, StmF=StdCF (AESV2), StrF=/Identity: decrypt ok={}, stream restored={}, plaintext string kept={}", ok, st_ok, s_ok));
    }
    // F-C06-d: Crypt filter without DecodeParms = Identity per ISO; lopdf applies the default stream filter
    if let Some(_r) = c.case("witness", 3) {
        let mut orig = strip_note(&wdoc());
        if let Some(Object::Stream(s)) = orig.objects.get_mut(&(2, 0)) { s.dict.set("Filter", Object::Name(b"Crypt".to_vec())); }
        let (enc, _, _) = refimpl::encrypt_document(&orig, &wparams(4, 4), &mut rnd);
        let mut d = enc.clone(); let res = d.decrypt("user");
        let st_ok = matches!((d.objects.get(&(2, 0)), orig.objects.get(&(2, 0))), (Some(Object::Stream(a)), Some(Object::Stream(b))) if a.content == b.content);
        let failed = res.is_err();
        c.witness("F-C06-d", failed || !st_ok, &format!("V4 stream with /Filter /Crypt and no DecodeParms (Identity, stored unencrypted): lopdf decrypt = {:?} (the default AESV2 filter is applied to it), stream content preserved={}", res.err().map(|e| c05::err_class(&e)), st_ok));
    }
    // F-C06-e: an empty owner password is not replaced by the user password (Algorithm 3 step a)
    if let Some(_r) = c.case("witness", 4) {
        let orig = strip_note(&wdoc());
        let cfg = Config { ver: Ver::V2(128), encrypt_metadata: true, filters: vec![], stmf: vec![], strf: vec![], file_key: vec![], owner: "".into(), user: "secret".into(), perms: 3900 };
        let st = cfg.make_state(&orig).unwrap();
        let iso = refimpl::alg3(None, b"secret", 3, 16);
        let differs = st.owner_value() != &iso[..];
        let mut e = orig.clone(); e.encrypt(&st).unwrap();
        // anyone gets in with the empty password through Algorithm 7
        let d = e.get_encrypted().ok().and_then(refimpl::read_enc_dict).unwrap();
        let open = matches!(refimpl::decrypt_document(&e, b"", true, false), Ok((ref dd, true)) if c05::docs_same_mod_length(&orig, dd).is_ok());
        let _ = d;
        c.witness("F-C06-e", differs && open, &format!("V2/R3, owner=\"\", user=\"secret\": O differs from Algorithm 3 with absent owner={}, the reference opens the document with the empty password (as owner)={}", differs, open));
    }
    // note (not a finding: P = -1 is outside the quantifier "conforming permission words"): P is re-normalised before Algorithm 2
    if let Some(_r) = c.case("witness", 5) {
        let orig = strip_note(&wdoc()); let mut q = wparams(2, 3); q.p = -1;
        let (enc, _, _) = refimpl::encrypt_document(&orig, &q, &mut rnd);
        let au = enc.authenticate_user_password("user").is_ok();
        let mut q2 = wparams(2, 3); q2.p = -4; let (enc2, _, _) = refimpl::encrypt_document(&orig, &q2, &mut rnd);
        let au2 = enc2.authenticate_user_password("user").is_ok();
        c.notes.push(format!("V2/R3 reference document with P = -1: authenticate_user_password(\"user\") ok={}; same with P = -4 (what lopdf normalises -1 to) ok={}", au, au2));
        c.count(if !au && au2 { "note.nonconforming_P_renormalised" } else { "note.nonconforming_P_ok" });
    }
    // F-C06-g: Encrypt as a direct dictionary in the trailer
    if let Some(_r) = c.case("witness", 6) {
        let orig = strip_note(&wdoc()); let mut q = wparams(2, 3); q.direct_encrypt_dict = true;
        let (enc, _, _) = refimpl::encrypt_document(&orig, &q, &mut rnd);
        let is_enc = enc.is_encrypted(); let mut d = enc.clone(); let res = d.decrypt("user");
        c.witness("F-C06-g", !is_enc && res.is_err(), &format!("trailer /Encrypt given as a direct dictionary: is_encrypted()={}, decrypt = {:?}", is_enc, res.err().map(|e| c05::err_class(&e))));
    }
    // F-C06-i: V4 without the (optional, "only if V is 2 or 3") top-level Length: key length taken as 40 bits
    if let Some(_r) = c.case("witness", 8) {
        let orig = strip_note(&wdoc()); let mut q = wparams(4, 4); q.write_length = false;
        let (enc, _, _) = refimpl::encrypt_document(&orig, &q, &mut rnd);
        let au = enc.authenticate_user_password("user").is_ok();
        let mut q2 = wparams(4, 4); q2.write_length = true; let (enc2, _, _) = refimpl::encrypt_document(&orig, &q2, &mut rnd);
        let au2 = enc2.authenticate_user_password("user").is_ok();
        c.witness("F-C06-i", !au && au2, &format!("V4/AESV2 document without top-level /Length: authenticate_user_password ok={}; with /Length 128 ok={}", au, au2));
    }
    // F-C06-h: /Length 256 next to V 5 (written by common producers) is rejected
    if let Some(_r) = c.case("witness", 7) {
        let orig = strip_note(&wdoc()); let mut q = wparams(5, 6); q.write_length = true;
        let (enc, _, _) = refimpl::encrypt_document(&orig, &q, &mut rnd);
        let mut d = enc.clone(); let res = d.decrypt("owner");
        let mut q2 = wparams(5, 6); q2.write_length = false; let (enc2, _, _) = refimpl::encrypt_document(&orig, &q2, &mut rnd);
        let mut d2 = enc2.clone(); let ok2 = d2.decrypt("owner").is_ok();
        c.witness("F-C06-h", res.is_err() && ok2, &format!("R6 document with /Length 256: decrypt(\"owner\") = {:?}; without the Length entry ok={}", res.err().map(|e| c05::err_class(&e)), ok2));
    }
}
