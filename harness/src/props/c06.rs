//! C06 — Standard security handler agrees with ISO 32000 algorithms.
//!
//! `refimpl` is an INDEPENDENT implementation of the standard security handler, written from
//! the algorithm text of ISO 32000-1:2008 §7.6 (Algorithms 1–7) and ISO 32000-2:2020 §7.6
//! (Algorithms 1.A, 2.A, 2.B, 8–13) directly on the md-5 / sha2 / aes crates plus an own RC4 and
//! own CBC chaining.  It shares no code with lopdf (lopdf's `Object` types are used only as a
//! container for documents).  It is also the oracle of C05.
use crate::codec::*;
use crate::ctx::{guard, Ctx};
use crate::rng::Rng;
use lopdf::{Dictionary, Document, Object, ObjectId, Stream, StringFormat};
use serde_json::json;

pub mod refimpl {
    use aes::cipher::{generic_array::GenericArray, BlockDecrypt, BlockEncrypt, KeyInit};
    use lopdf::{Dictionary, Document, Object, ObjectId};
    use md5::{Digest, Md5};
    use sha2::{Sha256, Sha384, Sha512};

    /// ISO 32000-1 Algorithm 2 step (a): the 32-byte padding string
    pub const PAD: [u8; 32] = [
        0x28, 0xBF, 0x4E, 0x5E, 0x4E, 0x75, 0x8A, 0x41, 0x64, 0x00, 0x4E, 0x56, 0xFF, 0xFA, 0x01, 0x08,
        0x2E, 0x2E, 0x00, 0xB6, 0xD0, 0x68, 0x3E, 0x80, 0x2F, 0x0C, 0xA9, 0xFE, 0x64, 0x53, 0x69, 0x7A,
    ];

    pub fn md5(data: &[u8]) -> Vec<u8> { Md5::digest(data).to_vec() }
    pub fn sha256(data: &[u8]) -> Vec<u8> { Sha256::digest(data).to_vec() }
    pub fn sha384(data: &[u8]) -> Vec<u8> { Sha384::digest(data).to_vec() }
    pub fn sha512(data: &[u8]) -> Vec<u8> { Sha512::digest(data).to_vec() }

    /// RC4 (own implementation: KSA + PRGA as in the original description)
    pub fn rc4(key: &[u8], data: &[u8]) -> Vec<u8> {
        assert!(!key.is_empty());
        let mut s: Vec<u8> = (0..=255u8).collect();
        let mut j: usize = 0;
        for i in 0..256 {
            j = (j + s[i] as usize + key[i % key.len()] as usize) % 256;
            s.swap(i, j);
        }
        let (mut i, mut j) = (0usize, 0usize);
        let mut out = Vec::with_capacity(data.len());
        for b in data {
            i = (i + 1) % 256;
            j = (j + s[i] as usize) % 256;
            s.swap(i, j);
            out.push(b ^ s[(s[i] as usize + s[j] as usize) % 256]);
        }
        out
    }

    pub fn aes_enc_block(key: &[u8], block: &[u8]) -> Vec<u8> {
        let mut b = GenericArray::clone_from_slice(block);
        match key.len() {
            16 => aes::Aes128::new(GenericArray::from_slice(key)).encrypt_block(&mut b),
            32 => aes::Aes256::new(GenericArray::from_slice(key)).encrypt_block(&mut b),
            _ => panic!("aes key length"),
        }
        b.to_vec()
    }
    pub fn aes_dec_block(key: &[u8], block: &[u8]) -> Vec<u8> {
        let mut b = GenericArray::clone_from_slice(block);
        match key.len() {
            16 => aes::Aes128::new(GenericArray::from_slice(key)).decrypt_block(&mut b),
            32 => aes::Aes256::new(GenericArray::from_slice(key)).decrypt_block(&mut b),
            _ => panic!("aes key length"),
        }
        b.to_vec()
    }
    /// CBC, no padding; `data.len()` must be a multiple of 16
    pub fn cbc_enc(key: &[u8], iv: &[u8], data: &[u8]) -> Vec<u8> {
        assert!(data.len() % 16 == 0 && iv.len() == 16);
        let mut prev = iv.to_vec();
        let mut out = Vec::with_capacity(data.len());
        for blk in data.chunks(16) {
            let x: Vec<u8> = blk.iter().zip(prev.iter()).map(|(a, b)| a ^ b).collect();
            prev = aes_enc_block(key, &x);
            out.extend_from_slice(&prev);
        }
        out
    }
    pub fn cbc_dec(key: &[u8], iv: &[u8], data: &[u8]) -> Vec<u8> {
        assert!(data.len() % 16 == 0 && iv.len() == 16);
        let mut prev = iv.to_vec();
        let mut out = Vec::with_capacity(data.len());
        for blk in data.chunks(16) {
            let d = aes_dec_block(key, blk);
            out.extend(d.iter().zip(prev.iter()).map(|(a, b)| a ^ b));
            prev = blk.to_vec();
        }
        out
    }

    /// "Pad or truncate the password string to exactly 32 bytes"
    pub fn pad_pw(pw: &[u8]) -> Vec<u8> {
        let mut v: Vec<u8> = pw.iter().take(32).cloned().collect();
        let need = 32 - v.len();
        v.extend_from_slice(&PAD[..need]);
        v
    }

    /// Algorithm 2: computing a file encryption key (R2–R4). `p` is the P integer as stored.
    pub fn alg2(pw: &[u8], o: &[u8], p: i64, id0: &[u8], r: i64, key_bytes: usize, encrypt_metadata: bool) -> Vec<u8> {
        let mut input = pad_pw(pw);                                   // a, b
        input.extend_from_slice(o);                                   // c
        input.extend_from_slice(&(p as u32).to_le_bytes());           // d: 32-bit unsigned, low-order byte first
        input.extend_from_slice(id0);                                 // e
        if r >= 4 && !encrypt_metadata { input.extend_from_slice(&[0xff; 4]); }   // f
        let mut h = md5(&input);                                      // g
        let n = if r == 2 { 5 } else { key_bytes };
        if r >= 3 { for _ in 0..50 { h = md5(&h[..n]); } }            // h
        h[..n].to_vec()                                               // i
    }

    /// RC4 key of Algorithm 3 steps a–d
    fn owner_rc4_key(owner_pw: &[u8], r: i64, key_bytes: usize) -> Vec<u8> {
        let mut h = md5(&pad_pw(owner_pw));
        if r >= 3 { for _ in 0..50 { h = md5(&h); } }
        let n = if r == 2 { 5 } else { key_bytes };
        h[..n].to_vec()
    }
    fn xor_key(key: &[u8], i: u8) -> Vec<u8> { key.iter().map(|b| b ^ i).collect() }

    /// Algorithm 3: computing the O value. `owner_pw = None` ("no owner password") uses the user password.
    pub fn alg3(owner_pw: Option<&[u8]>, user_pw: &[u8], r: i64, key_bytes: usize) -> Vec<u8> {
        let k = owner_rc4_key(owner_pw.unwrap_or(user_pw), r, key_bytes);
        let mut x = rc4(&k, &pad_pw(user_pw));
        if r >= 3 { for i in 1..=19u8 { x = rc4(&xor_key(&k, i), &x); } }
        x
    }
    /// Algorithm 4 (R2) / Algorithm 5 (R3, R4): the U value; only the first 16 bytes are significant for R≥3
    pub fn alg4_5(key: &[u8], id0: &[u8], r: i64) -> Vec<u8> {
        if r == 2 { return rc4(key, &PAD); }
        let mut input = PAD.to_vec();
        input.extend_from_slice(id0);
        let mut x = rc4(key, &md5(&input));
        for i in 1..=19u8 { x = rc4(&xor_key(key, i), &x); }
        x
    }

    #[derive(Clone, Debug)]
    pub struct EncDict {
        pub v: i64, pub r: i64, pub length_bits: Option<i64>, pub p: i64, pub encrypt_metadata: bool,
        pub o: Vec<u8>, pub u: Vec<u8>, pub oe: Vec<u8>, pub ue: Vec<u8>, pub perms: Vec<u8>,
        /// CF: name -> CFM name
        pub cf: Vec<(Vec<u8>, Vec<u8>)>,
        pub stmf: Option<Vec<u8>>, pub strf: Option<Vec<u8>>,
    }
    impl EncDict {
        pub fn key_bytes(&self) -> usize {
            match self.v { 1 => 5, 2 | 3 => (self.length_bits.unwrap_or(40) / 8) as usize, 4 => 16, _ => 32 }
        }
    }

    /// Algorithm 6: authenticating the user password → the file encryption key
    pub fn alg6(d: &EncDict, id0: &[u8], pw: &[u8]) -> Option<Vec<u8>> {
        let key = alg2(pw, &d.o, d.p, id0, d.r, d.key_bytes(), d.encrypt_metadata);
        let u = alg4_5(&key, id0, d.r);
        let ok = if d.r == 2 { u == d.u } else { d.u.len() >= 16 && u[..16] == d.u[..16] };
        if ok { Some(key) } else { None }
    }
    /// Algorithm 7: authenticating the owner password → the file encryption key
    pub fn alg7(d: &EncDict, id0: &[u8], pw: &[u8]) -> Option<Vec<u8>> {
        let k = owner_rc4_key(pw, d.r, d.key_bytes());
        let user_pw = if d.r == 2 { rc4(&k, &d.o) } else {
            let mut x = d.o.clone();
            for i in (0..=19u8).rev() { x = rc4(&xor_key(&k, i), &x); }
            x
        };
        alg6(d, id0, &user_pw)
    }

    /// Algorithm 2.B: computing a hash (R6); R5 = SHA-256 of the input.
    pub fn alg2b(r: i64, pw: &[u8], salt: &[u8], udata: &[u8]) -> Vec<u8> {
        let mut input = pw.to_vec(); input.extend_from_slice(salt); input.extend_from_slice(udata);
        let mut k = sha256(&input);
        if r == 5 { return k; }
        let mut round: u32 = 0;
        loop {
            // a) K1 = 64 repetitions of (password ‖ K ‖ [U])
            let mut k0 = pw.to_vec(); k0.extend_from_slice(&k); k0.extend_from_slice(udata);
            let mut k1 = Vec::with_capacity(k0.len() * 64);
            for _ in 0..64 { k1.extend_from_slice(&k0); }
            // b) AES-128 CBC no padding, key = K[0..16], IV = K[16..32]
            let e = cbc_enc(&k[..16], &k[16..32], &k1);
            // c) first 16 bytes of E as unsigned big-endian integer mod 3
            let mut m: u32 = 0;
            for b in &e[..16] { m = (m * 256 + *b as u32) % 3; }
            // d)
            k = match m { 0 => sha256(&e), 1 => sha384(&e), _ => sha512(&e) };
            // e) rounds 0..63 always; from round 64 on stop when last byte of E <= round - 32
            round += 1;                              // `round` = number of rounds done
            if round >= 64 && (*e.last().unwrap() as u32) <= round - 32 { break; }
        }
        k[..32].to_vec()
    }
    fn trunc127(pw: &[u8]) -> &[u8] { if pw.len() > 127 { &pw[..127] } else { pw } }

    /// Algorithm 8: U and UE. `salts` = validation salt ‖ key salt (16 bytes)
    pub fn alg8(r: i64, pw: &[u8], key: &[u8], salts: &[u8]) -> (Vec<u8>, Vec<u8>) {
        let pw = trunc127(pw);
        let mut u = alg2b(r, pw, &salts[..8], &[]);
        u.extend_from_slice(salts);
        let ue = cbc_enc(&alg2b(r, pw, &salts[8..16], &[]), &[0; 16], key);
        (u, ue)
    }
    /// Algorithm 9: O and OE
    pub fn alg9(r: i64, pw: &[u8], key: &[u8], salts: &[u8], u: &[u8]) -> (Vec<u8>, Vec<u8>) {
        let pw = trunc127(pw);
        let mut o = alg2b(r, pw, &salts[..8], u);
        o.extend_from_slice(salts);
        let oe = cbc_enc(&alg2b(r, pw, &salts[8..16], u), &[0; 16], key);
        (o, oe)
    }
    /// Algorithm 10: Perms
    pub fn alg10(p: i64, encrypt_metadata: bool, key: &[u8], rnd: &[u8]) -> Vec<u8> {
        let mut b = vec![0u8; 16];
        b[..4].copy_from_slice(&(p as u32).to_le_bytes());
        b[4..8].copy_from_slice(&[0xff; 4]);
        b[8] = if encrypt_metadata { b'T' } else { b'F' };
        b[9] = b'a'; b[10] = b'd'; b[11] = b'b';
        b[12..16].copy_from_slice(&rnd[..4]);
        aes_enc_block(key, &b)
    }
    /// Algorithm 2.A (with 11/12/13): → (file key, is_owner)
    pub fn alg2a(d: &EncDict, pw: &[u8], skip_alg13: bool) -> Option<(Vec<u8>, bool)> {
        let pw = trunc127(pw);
        if d.o.len() < 48 || d.u.len() < 48 || d.oe.len() != 32 || d.ue.len() != 32 { return None; }
        let (key, owner) = if alg2b(d.r, pw, &d.o[32..40], &d.u[..48]) == d.o[..32] {          // Algorithm 12
            (cbc_dec(&alg2b(d.r, pw, &d.o[40..48], &d.u[..48]), &[0; 16], &d.oe), true)
        } else if alg2b(d.r, pw, &d.u[32..40], &[]) == d.u[..32] {                              // Algorithm 11
            (cbc_dec(&alg2b(d.r, pw, &d.u[40..48], &[]), &[0; 16], &d.ue), false)
        } else { return None; };
        // Algorithm 13
        if skip_alg13 { return Some((key, owner)); }
        if d.perms.len() != 16 { return None; }
        let b = aes_dec_block(&key, &d.perms);
        if &b[9..12] != b"adb" { return None; }
        if b[..4] != (d.p as u32).to_le_bytes() { return None; }
        Some((key, owner))
    }

    /// Algorithm 1 / 1.A: key for one object
    pub fn object_key(file_key: &[u8], id: ObjectId, aes: bool, v5: bool) -> Vec<u8> {
        if v5 { return file_key.to_vec(); }
        let mut input = file_key.to_vec();
        input.extend_from_slice(&id.0.to_le_bytes()[..3]);
        input.extend_from_slice(&id.1.to_le_bytes()[..2]);
        if aes { input.extend_from_slice(b"sAlT"); }
        let n = (file_key.len() + 5).min(16);
        md5(&input)[..n].to_vec()
    }

    #[derive(Clone, Copy, PartialEq, Eq, Debug)]
    pub enum Method { None, V2, AesV2, AesV3 }

    pub fn encrypt_data(m: Method, file_key: &[u8], id: ObjectId, iv: &[u8], data: &[u8]) -> Vec<u8> {
        match m {
            Method::None => data.to_vec(),
            Method::V2 => rc4(&object_key(file_key, id, false, false), data),
            Method::AesV2 | Method::AesV3 => {
                let key = object_key(file_key, id, true, m == Method::AesV3);
                let n = 16 - data.len() % 16;
                let mut padded = data.to_vec();
                padded.extend(std::iter::repeat(n as u8).take(n));
                let mut out = iv.to_vec();
                out.extend(cbc_enc(&key, iv, &padded));
                out
            }
        }
    }
    pub fn decrypt_data(m: Method, file_key: &[u8], id: ObjectId, data: &[u8]) -> Result<Vec<u8>, String> {
        match m {
            Method::None => Ok(data.to_vec()),
            Method::V2 => Ok(rc4(&object_key(file_key, id, false, false), data)),
            Method::AesV2 | Method::AesV3 => {
                let key = object_key(file_key, id, true, m == Method::AesV3);
                if data.len() < 32 || data.len() % 16 != 0 {
                    if data.is_empty() { return Ok(vec![]); }
                    return Err(format!("aes data length {}", data.len()));
                }
                let mut pt = cbc_dec(&key, &data[..16], &data[16..]);
                let n = *pt.last().unwrap() as usize;
                if n == 0 || n > 16 || pt[pt.len() - n..].iter().any(|b| *b as usize != n) { return Err("padding".into()); }
                pt.truncate(pt.len() - n);
                Ok(pt)
            }
        }
    }

    pub fn read_enc_dict(d: &Dictionary) -> Option<EncDict> {
        let s = |k: &[u8]| d.get(k).ok().and_then(|o| o.as_str().ok()).map(|s| s.to_vec());
        let i = |k: &[u8]| d.get(k).ok().and_then(|o| o.as_i64().ok());
        let n = |k: &[u8]| d.get(k).ok().and_then(|o| o.as_name().ok()).map(|s| s.to_vec());
        let mut cf = vec![];
        if let Ok(Object::Dictionary(cfd)) = d.get(b"CF") {
            for (name, f) in cfd.iter() {
                if let Object::Dictionary(fd) = f {
                    let cfm = fd.get(b"CFM").ok().and_then(|o| o.as_name().ok()).map(|s| s.to_vec()).unwrap_or(b"None".to_vec());
                    cf.push((name.clone(), cfm));
                }
            }
        }
        Some(EncDict {
            v: i(b"V").unwrap_or(0), r: i(b"R")?, length_bits: i(b"Length"), p: i(b"P")?,
            encrypt_metadata: match d.get(b"EncryptMetadata") { Ok(Object::Boolean(b)) => *b, _ => true },
            o: s(b"O")?, u: s(b"U")?, oe: s(b"OE").unwrap_or_default(), ue: s(b"UE").unwrap_or_default(),
            perms: s(b"Perms").unwrap_or_default(), cf, stmf: n(b"StmF"), strf: n(b"StrF"),
        })
    }

    /// ISO 32000 §7.6.5: which method a crypt filter name selects. `Identity` is predefined;
    /// absent StmF / StrF default to Identity; V < 4 always uses RC4 with the file key (Algorithm 1).
    pub fn method_of(d: &EncDict, name: Option<&[u8]>) -> Method {
        if d.v < 4 { return Method::V2; }
        match name {
            None => Method::None,
            Some(b"Identity") => Method::None,
            Some(nm) => match d.cf.iter().find(|(k, _)| k == nm) {
                Some((_, cfm)) => match cfm.as_slice() { b"V2" => Method::V2, b"AESV2" => Method::AesV2, b"AESV3" => Method::AesV3, _ => Method::None },
                None => Method::None,
            },
        }
    }

    pub fn file_id0(doc: &Document) -> Vec<u8> {
        match doc.trailer.get(b"ID") { Ok(Object::Array(a)) => match a.first() { Some(Object::String(s, _)) => s.clone(), _ => vec![] }, _ => vec![] }
    }

    /// authenticate a password against an encryption dictionary → (file key, is_owner)
    pub fn authenticate(d: &EncDict, id0: &[u8], pw: &[u8], skip_alg13: bool) -> Option<(Vec<u8>, bool)> {
        if d.r >= 5 { return alg2a(d, pw, skip_alg13); }
        if let Some(k) = alg7(d, id0, pw) { return Some((k, true)); }
        alg6(d, id0, pw).map(|k| (k, false))
    }

    fn stream_method(d: &EncDict, sd: &Dictionary) -> Method {
        // §7.6.5 / Table 14: a Crypt filter in the stream's Filter array overrides StmF;
        // its DecodeParms Name selects the crypt filter (default Identity).
        let filters: Vec<Vec<u8>> = match sd.get(b"Filter") {
            Ok(Object::Name(n)) => vec![n.clone()],
            Ok(Object::Array(a)) => a.iter().filter_map(|o| o.as_name().ok().map(|n| n.to_vec())).collect(),
            _ => vec![],
        };
        if let Some(pos) = filters.iter().position(|f| f == b"Crypt") {
            let parms = match sd.get(b"DecodeParms") {
                Ok(Object::Dictionary(p)) => Some(p),
                Ok(Object::Array(a)) => a.get(pos).and_then(|o| o.as_dict().ok()),
                _ => None,
            };
            let name = parms.and_then(|p| p.get(b"Name").ok()).and_then(|o| o.as_name().ok());
            return method_of(d, Some(name.unwrap_or(b"Identity")));
        }
        method_of(d, d.stmf.as_deref())
    }

    /// which top-level traversal: strings everywhere (including stream dictionaries), stream data;
    /// not: the encryption dictionary, XRef streams, the Metadata stream when EncryptMetadata is false
    /// (its data is left as is; §7.6.5: "only the stream data").
    pub enum Dir<'a> { Enc(&'a mut dyn FnMut() -> Vec<u8>), Dec }

    pub fn crypt_object(d: &EncDict, file_key: &[u8], id: ObjectId, o: &mut Object, dir: &mut Dir, in_stream_dicts: bool) -> Result<(), String> {
        match o {
            Object::String(s, _) => {
                let m = method_of(d, d.strf.as_deref());
                *s = match dir { Dir::Enc(iv) => { let iv = if matches!(m, Method::AesV2 | Method::AesV3) { iv() } else { vec![] }; encrypt_data(m, file_key, id, &iv, s) }
                                 Dir::Dec => decrypt_data(m, file_key, id, s)? };
            }
            Object::Array(a) => { for x in a.iter_mut() { crypt_object(d, file_key, id, x, dir, in_stream_dicts)?; } }
            Object::Dictionary(dict) => { for (_, x) in dict.iter_mut() { crypt_object(d, file_key, id, x, dir, in_stream_dicts)?; } }
            Object::Stream(st) => {
                let is_xref = matches!(st.dict.get(b"Type"), Ok(Object::Name(n)) if n == b"XRef");
                if is_xref { return Ok(()); }
                if in_stream_dicts { for (_, x) in st.dict.iter_mut() { crypt_object(d, file_key, id, x, dir, in_stream_dicts)?; } }
                let is_meta = matches!(st.dict.get(b"Type"), Ok(Object::Name(n)) if n == b"Metadata");
                if is_meta && !d.encrypt_metadata { return Ok(()); }
                let m = stream_method(d, &st.dict);
                let new = match dir { Dir::Enc(iv) => { let iv = if matches!(m, Method::AesV2 | Method::AesV3) { iv() } else { vec![] }; encrypt_data(m, file_key, id, &iv, &st.content) }
                                      Dir::Dec => decrypt_data(m, file_key, id, &st.content)? };
                st.content = new;
                st.dict.set("Length", st.content.len() as i64);
            }
            _ => {}
        }
        Ok(())
    }

    /// decrypt a whole document (as lopdf holds it in memory) with the reference handler.
    /// `in_stream_dicts`: also treat strings inside stream dictionaries (ISO) — lopdf never does.
    pub fn decrypt_document(doc: &Document, pw: &[u8], in_stream_dicts: bool, skip_alg13: bool) -> Result<(Document, bool), String> {
        let enc_id = match doc.trailer.get(b"Encrypt") { Ok(Object::Reference(id)) => Some(*id), _ => None };
        let enc_obj = match doc.trailer.get(b"Encrypt") {
            Ok(Object::Reference(id)) => doc.objects.get(id).ok_or("Encrypt object missing")?.clone(),
            Ok(o) => o.clone(),
            Err(_) => return Err("not encrypted".into()),
        };
        let Object::Dictionary(ed) = enc_obj else { return Err("Encrypt not a dictionary".into()) };
        let d = read_enc_dict(&ed).ok_or("bad encryption dictionary")?;
        let id0 = file_id0(doc);
        let (key, owner) = authenticate(&d, &id0, pw, skip_alg13).ok_or("password rejected")?;
        let mut out = doc.clone();
        for (id, o) in out.objects.iter_mut() {
            if Some(*id) == enc_id { continue; }
            crypt_object(&d, &key, *id, o, &mut Dir::Dec, in_stream_dicts).map_err(|e| format!("{:?}: {}", id, e))?;
        }
        out.trailer.remove(b"Encrypt");
        if let Some(id) = enc_id { out.objects.remove(&id); }
        Ok((out, owner))
    }
}

// ---------------------------------------------------------------------------------------------
pub fn run(c: &mut Ctx) { c.notes.push("C06: not implemented".into()); let _ = (guard(|| ()), json!(null)); let _ : Option<(Rng, Dictionary, Document, Object, ObjectId, Stream, StringFormat)> = None; let _ = hex(&[]); }
