//! C15 — ToUnicode CMaps decode text as the CMap defines.
//!
//! Generator: abstract definition lists (bfchar / bfrange, single / incrementing / array targets,
//! 1–4-byte codes, overlapping and adjacent definitions in any order) or random mapping *tables*
//! rendered to definitions with range merging/splitting; rendered to CMap text with random sectioning,
//! white space, comments, hex case, metadata variants.
//! Real route: font dictionary with a /ToUnicode stream -> `Dictionary::get_font_encoding` ->
//! `ToUnicodeCMap::get` (through the `Encoding::UnicodeMapEncoding` pattern), `Document::decode_text`,
//! and the `Debug` print of the map (the stored runs of the rangemap).
//! Oracle: `defines` below — the last definition covering the code, offset added to the last unit,
//! array indexed by the offset; text = std's UTF-16 decoding of the concatenated targets.
//! It knows nothing about range maps, offsets-as-values or coalescing.
//! Failures are classified by a *structural* signature computed from the definition list
//! (which kind of neighbourhood the failing code lives in), so that a failure of a new kind
//! is still an unlisted violation.
use crate::codec::*;
use crate::ctx::{guard, Ctx};
use crate::rng::Rng;
use lopdf::{Dictionary, Document, Encoding, Object, Stream};
use serde_json::json;


// ------------------------------------------------------------------ abstract definitions

#[derive(Clone, Debug, PartialEq)]
enum Def {
    /// bfchar: code -> dst
    Char { code: u32, len: u8, dst: Vec<u16> },
    /// bfrange: lo..=hi -> dsts (one string = incrementing target; several = array)
    Range { lo: u32, hi: u32, len: u8, dsts: Vec<Vec<u16>> },
}

#[derive(Clone, Debug)]
enum Sec { Cs(Vec<(u32, u32, u8)>), Chars(Vec<Def>), Ranges(Vec<Def>) }

impl Def {
    fn len(&self) -> u8 { match self { Def::Char { len, .. } | Def::Range { len, .. } => *len } }
    fn lo(&self) -> u32 { match self { Def::Char { code, .. } => *code, Def::Range { lo, .. } => *lo } }
    fn hi(&self) -> u32 { match self { Def::Char { code, .. } => *code, Def::Range { hi, .. } => *hi } }
    fn covers(&self, code: u32, len: u8) -> bool { self.len() == len && self.lo() <= code && code <= self.hi() }
    /// the single-unit case the implementation stores as an offset
    fn is_single(&self) -> bool {
        match self { Def::Char { dst, .. } => dst.len() == 1, Def::Range { dsts, .. } => dsts.len() == 1 && dsts[0].len() == 1 }
    }
    fn is_array(&self) -> bool { matches!(self, Def::Range { dsts, .. } if dsts.len() > 1) }
    /// well-formed: non-empty targets, lo<=hi, incrementing target stays within the last unit, array as long as the range
    fn well_formed(&self) -> bool {
        match self {
            Def::Char { dst, .. } => !dst.is_empty(),
            Def::Range { lo, hi, dsts, .. } => {
                if hi < lo || dsts.is_empty() || dsts.iter().any(|d| d.is_empty()) { return false; }
                if dsts.len() == 1 { *dsts[0].last().unwrap() as u64 + (*hi - *lo) as u64 <= 0xFFFF }
                else { dsts.len() as u64 == (*hi - *lo) as u64 + 1 }
            }
        }
    }
    /// what the definition says for a covered code (None: the definition itself has no answer — malformed)
    fn target(&self, code: u32) -> Option<Vec<u16>> {
        match self {
            Def::Char { dst, .. } => Some(dst.clone()),
            Def::Range { lo, dsts, .. } => {
                let off = (code - lo) as u64;
                if dsts.len() == 1 {
                    let mut t = dsts[0].clone();
                    let last = t.pop()? as u64 + off;
                    if last > 0xFFFF { return None; }
                    t.push(last as u16);
                    Some(t)
                } else { dsts.get(off as usize).cloned() }
            }
        }
    }
}

/// THE SPEC: the last definition that covers the code decides.
fn last_covering<'a>(defs: &'a [Def], code: u32, len: u8) -> Option<&'a Def> { defs.iter().rev().find(|d| d.covers(code, len)) }
fn defines(defs: &[Def], code: u32, len: u8) -> Option<Option<Vec<u16>>> { last_covering(defs, code, len).map(|d| d.target(code)) }

/// THE SEGMENTATION SPEC (Spec/CMapSeg.lean `segSpec`, written again here): at the current position the code lengths
/// 1,2,3,4 are tried in this order, the first mapped one wins; if none of the (up to four) prefixes is mapped, one
/// U+FFFD stands for up to four bytes. `None`: a malformed definition answers for one of the tried codes.
fn seg_spec(defs: &[Def], bytes: &[u8]) -> Option<Vec<u16>> {
    let mut out = vec![];
    let mut p = 0usize;
    while p < bytes.len() {
        let mut hit = None;
        for k in 1..=4usize.min(bytes.len() - p) {
            let code = bytes[p..p + k].iter().fold(0u32, |a, b| a * 256 + *b as u32);
            match defines(defs, code, k as u8) { None => {}, Some(None) => return None, Some(Some(v)) => { hit = Some((k, v)); break; } }
        }
        match hit { Some((k, v)) => { out.extend(v); p += k; } None => { out.push(0xFFFD); p += 4usize.min(bytes.len() - p); } }
    }
    Some(out)
}

fn flatten(secs: &[Sec]) -> Vec<Def> {
    let mut v = vec![];
    for s in secs { match s { Sec::Cs(_) => {}, Sec::Chars(d) | Sec::Ranges(d) => v.extend(d.iter().cloned()) } }
    v
}

// ------------------------------------------------------------------ structural classification

/// what kind of value the definition puts into the interval map (structure of the input, not of the run-time state)
#[derive(PartialEq, Clone, Debug)]
enum Stored { Off(u32), Hex(u32, Vec<u16>), Arr(u32, Vec<Vec<u16>>) }
fn stored_of(d: &Def) -> Stored {
    match d {
        Def::Char { code, dst, .. } => if dst.len() == 1 { Stored::Off((dst[0] as u32).wrapping_sub(*code)) } else { Stored::Hex(*code, dst.clone()) },
        Def::Range { lo, dsts, .. } => if dsts.len() == 1 && dsts[0].len() == 1 { Stored::Off((dsts[0][0] as u32).wrapping_sub(*lo)) }
            else if dsts.len() == 1 { Stored::Hex(*lo, dsts[0].clone()) } else { Stored::Arr(*lo, dsts.clone()) },
    }
}
/// least code `s <= code` such that every code in `s..=code` is given an equal stored value by its last covering definition
fn equal_neighbourhood_start(defs: &[Def], code: u32, len: u8) -> u32 {
    let v = last_covering(defs, code, len).map(stored_of);
    let mut s = code;
    let mut steps = 0;
    while s > 0 && steps < 200_000 {
        if last_covering(defs, s - 1, len).map(stored_of) != v { break; }
        s -= 1; steps += 1;
    }
    s
}
/// structural cause of a wrong answer for `code`: "" = none of the known structures applies
fn cause(defs: &[Def], code: u32, len: u8) -> String {
    let Some(d) = last_covering(defs, code, len) else { return String::new() };
    if d.is_single() { return String::new(); }
    let kind = if d.is_array() { "array" } else { "multiunit" };
    let s = equal_neighbourhood_start(defs, code, len);
    if s < d.lo() { return format!("adjacent-equal-{}", kind); }
    if s > d.lo() { return format!("overlap-split-{}", if d.is_array() { "array" } else { "range" }); }
    if !d.well_formed() {
        return if d.is_array() { "array-shorter-than-range".into() } else { "range-overflows-u16".into() };
    }
    String::new()
}

/// the domain of theorem `cmap_get` (lean/LopdfModel/Thm/C15.lean, `Def.wf`): every definition is well-formed
fn in_proved_domain(defs: &[Def]) -> bool { defs.iter().all(|d| d.well_formed()) }

// ------------------------------------------------------------------ rendering

fn hex_code(r: &mut Rng, code: u32, len: u8, upper: bool) -> String {
    let mut s = String::new();
    for i in (0..len).rev() {
        let b = (code >> (8 * i as u32)) as u8;
        if upper { s.push_str(&format!("{:02X}", b)) } else { s.push_str(&format!("{:02x}", b)) }
    }
    let _ = r;
    format!("<{}>", s)
}
fn ws0(r: &mut Rng) -> String { match r.below(6) { 0 => "".into(), 1 => "  ".into(), 2 => "\t".into(), _ => " ".into() } }
fn ws1(r: &mut Rng) -> String { match r.below(5) { 0 => "  ".into(), 1 => "\t".into(), 2 => " \t ".into(), _ => " ".into() } }
fn ms1(r: &mut Rng) -> String {
    match r.below(12) { 0 => "\r\n".into(), 1 => "\r".into(), 2 => " \n".into(), 3 => "\n\n".into(), 4 => " % a comment <00> endbfchar\n".into(),
        5 => "\t\n  ".into(),
        // a comment DIRECTLY after the token (`>`, `]`, a keyword and `%` delimit tokens: no blank is needed)
        6 => "%abutting comment <01> <0041>\n".into(), _ => "\n".into() }
}
fn target_text(r: &mut Rng, t: &[u16], upper: bool) -> String {
    let mut s = String::from("<");
    for (i, u) in t.iter().enumerate() {
        if upper { s.push_str(&format!("{:04X}", u)) } else { s.push_str(&format!("{:04x}", u)) }
        if i + 1 < t.len() { if r.chance(1, 5) { s.push(' '); } } else if r.chance(1, 12) { s.push(' '); }
    }
    s.push('>');
    s
}
fn render_def(r: &mut Rng, d: &Def, out: &mut String) {
    let upper = r.chance(1, 2);
    out.push_str(&ws0(r));
    match d {
        Def::Char { code, len, dst } => {
            out.push_str(&hex_code(r, *code, *len, upper)); out.push_str(&ws0(r)); out.push_str(&target_text(r, dst, upper));
        }
        Def::Range { lo, hi, len, dsts } => {
            out.push_str(&hex_code(r, *lo, *len, upper)); out.push_str(&ws0(r));
            out.push_str(&hex_code(r, *hi, *len, upper)); out.push_str(&ws0(r));
            if dsts.len() == 1 && !r.chance(1, 10) { out.push_str(&target_text(r, &dsts[0], upper)); }
            else {
                out.push('['); out.push_str(&ws0(r));
                for (i, t) in dsts.iter().enumerate() { if i > 0 { out.push_str(&ws1(r)); } out.push_str(&target_text(r, t, upper)); }
                out.push_str(&ws0(r)); out.push(']');
            }
        }
    }
    out.push_str(&ms1(r));
}
fn render(r: &mut Rng, secs: &[Sec], simple_meta: bool) -> Vec<u8> {
    let mut s = String::new();
    if r.chance(1, 4) { s.push_str("%!PS-Adobe-3.0 Resource-CMap\n%%Title: (x)\n\n"); }
    s.push_str(&format!("/CIDInit{}/{} findresource begin{}", ws0(r), if r.chance(1, 4) { "Procset" } else { "ProcSet" }, ms1(r)));
    s.push_str(&format!("{} dict begin{}", 1 + r.below(20), ms1(r)));
    s.push_str(&format!("begincmap{}", ms1(r)));
    let mut metas: Vec<String> = vec![];
    if !simple_meta {
        match r.below(4) {
            0 => metas.push(format!("/CIDSystemInfo{}<< /Registry (Adobe) /Ordering (UCS) /Supplement 0 >> def{}", if r.chance(1, 2) { "\n" } else { " " }, ms1(r))),
            1 => metas.push(format!("/CIDSystemInfo <<\n/Registry (Adobe)\n/Ordering (UCS)\n/Supplement 0\n>> def{}", ms1(r))),
            2 => metas.push(format!("/CIDSystemInfo 3 dict dup begin\n  /Registry (callas) def\n  /Ordering (My-UCMap) def\n  /Supplement 0 def\nend def{}", ms1(r))),
            _ => {}
        }
    }
    if r.chance(3, 4) { metas.push(format!("/CMapName{}/Adobe-Identity-UCS def{}", ws0(r), ms1(r))); }
    if r.chance(3, 4) || metas.is_empty() { metas.push(format!("/CMapType {} def{}", 2, ms1(r))); }
    if r.chance(1, 3) { r.shuffle(&mut metas); }
    for m in metas { s.push_str(&m); }
    for sec in secs {
        match sec {
            Sec::Cs(rs) => {
                s.push_str(&format!("{} begincodespacerange{}", rs.len(), ms1(r)));
                for (lo, hi, len) in rs { s.push_str(&format!("{}{}{}{}{}", ws0(r), hex_code(r, *lo, *len, true), ws0(r), hex_code(r, *hi, *len, true), ms1(r))); }
                s.push_str(&format!("endcodespacerange{}", ms1(r)));
            }
            Sec::Chars(ds) => {
                s.push_str(&format!("{}{}beginbfchar{}", if r.chance(1, 8) { 100 } else { ds.len() }, ws1(r), ms1(r)));
                for d in ds { render_def(r, d, &mut s); }
                s.push_str(&format!("endbfchar{}", ms1(r)));
            }
            Sec::Ranges(ds) => {
                s.push_str(&format!("{}{}beginbfrange{}", ds.len(), ws1(r), ms1(r)));
                for d in ds { render_def(r, d, &mut s); }
                s.push_str(&format!("endbfrange{}", ms1(r)));
            }
        }
    }
    s.push_str(&format!("endcmap{}CMapName currentdict /CMap defineresource pop{}end{}end", ms1(r), ms1(r), ms1(r)));
    if r.chance(2, 3) { s.push_str("\n"); }
    if r.chance(1, 6) { s.push_str("\n%%EndResource\n%%EOF\n"); }
    s.into_bytes()
}

/// the canonical writer of lean/LopdfModel/Spec/CMapRender.lean, written again here: upper-case hex, one blank
/// between tokens, LF line ends, count "1", fixed header and trailer
fn render_canonical(secs: &[Sec]) -> Vec<u8> {
    let code = |c: u32, len: u8| -> String { format!("<{}>", (0..len).rev().map(|i| format!("{:02X}", (c >> (8 * i as u32)) as u8)).collect::<String>()) };
    let units = |t: &[u16]| -> String { format!("<{}>", t.iter().map(|u| format!("{:04X}", u)).collect::<String>()) };
    let mut s = String::from("/CIDInit /ProcSet findresource begin\n12 dict begin\nbegincmap\n/CMapName /Adobe-Identity-UCS def\n/CMapType 2 def\n");
    for sec in secs {
        match sec {
            Sec::Cs(rs) => { s.push_str("1 begincodespacerange\n"); for (lo, hi, len) in rs { s.push_str(&format!("{} {}\n", code(*lo, *len), code(*hi, *len))); } s.push_str("endcodespacerange\n"); }
            Sec::Chars(ds) => {
                s.push_str("1 beginbfchar\n");
                for d in ds { if let Def::Char { code: c, len, dst } = d { s.push_str(&format!("{} {}\n", code(*c, *len), units(dst))); } }
                s.push_str("endbfchar\n");
            }
            Sec::Ranges(ds) => {
                s.push_str("1 beginbfrange\n");
                for d in ds { if let Def::Range { lo, hi, len, dsts } = d {
                    let t = if dsts.len() == 1 { units(&dsts[0]) } else { format!("[{}]", dsts.iter().map(|t| units(t)).collect::<Vec<_>>().join(" ")) };
                    s.push_str(&format!("{} {} {}\n", code(*lo, *len), code(*hi, *len), t));
                } }
                s.push_str("endbfrange\n");
            }
        }
    }
    s.push_str("endcmap\nCMapName currentdict /CMap defineresource pop\nend\nend\n");
    s.into_bytes()
}

// ------------------------------------------------------------------ protocol text

fn code_tok(code: u32, len: u8) -> String { (0..len).rev().map(|i| format!("{:02x}", (code >> (8 * i as u32)) as u8)).collect() }
fn units_tok(t: &[u16]) -> String { if t.is_empty() { "-".into() } else { t.iter().map(|u| format!("{:04x}", u)).collect() } }
fn sections_tok(secs: &[Sec]) -> String {
    let mut s = String::new();
    for sec in secs {
        match sec {
            Sec::Cs(rs) => { s.push_str(&format!("cs {} ", rs.len())); for (lo, hi, len) in rs { s.push_str(&format!("{} {} ", code_tok(*lo, *len), code_tok(*hi, *len))); } }
            Sec::Chars(ds) => {
                s.push_str(&format!("bc {} ", ds.len()));
                for d in ds { if let Def::Char { code, len, dst } = d { s.push_str(&format!("{} {} ", code_tok(*code, *len), units_tok(dst))); } }
            }
            Sec::Ranges(ds) => {
                s.push_str(&format!("br {} ", ds.len()));
                for d in ds { if let Def::Range { lo, hi, len, dsts } = d {
                    s.push_str(&format!("{} {} {} ", code_tok(*lo, *len), code_tok(*hi, *len), dsts.len()));
                    for t in dsts { s.push_str(&units_tok(t)); s.push(' '); }
                } }
            }
        }
    }
    s
}

// ------------------------------------------------------------------ the real code

type GetRes = Result<Option<Vec<u16>>, (String, String)>;
struct Real { gets: Vec<GetRes>, runs: Option<String>, decodes: Vec<Result<Result<String, String>, (String, String)>>, decode_gets: Vec<Vec<GetRes>> }

fn make_doc(r: &mut Rng, text: &[u8]) -> (Document, Dictionary) {
    let mut doc = Document::with_version("1.5");
    let mut st = Stream::new(Dictionary::new(), text.to_vec());
    if r.chance(1, 4) { let _ = st.compress(); }
    let sid = doc.add_object(Object::Stream(st));
    let mut font = Dictionary::new();
    font.set("Type", Object::Name(b"Font".to_vec()));
    font.set("Subtype", Object::Name(b"Type0".to_vec()));
    match r.below(4) {
        0 => font.set("Encoding", Object::Name(b"Identity-V".to_vec())),
        1 => {} // missing Encoding: falls back to ToUnicode
        _ => font.set("Encoding", Object::Name(b"Identity-H".to_vec())),
    }
    if r.chance(1, 3) { font.set("ToUnicode", Object::Stream(match doc.get_object(sid) { Ok(Object::Stream(s)) => s.clone(), _ => unreachable!() })); }
    else { font.set("ToUnicode", Object::Reference(sid)); }
    (doc, font)
}

/// run the real code: `None` = the CMap was rejected (`Err`)
fn run_real(doc: &Document, font: &Dictionary, queries: &[(u32, u8)], inputs: &[Vec<u8>], input_codes: &[Vec<(u32, u8)>]) -> Result<Option<Real>, (String, String)> {
    let enc = guard(|| font.get_font_encoding(doc))?;
    let enc = match enc { Ok(e) => e, Err(_) => return Ok(None) };
    let Encoding::UnicodeMapEncoding(ref m) = enc else { return Err(("?".into(), "not a UnicodeMapEncoding".into())) };
    let gets = queries.iter().map(|(c, l)| guard(|| m.get(*c, *l))).collect();
    let runs = guard(|| format!("{:?}", m)).ok();
    let decodes = inputs.iter().map(|b| guard(|| Document::decode_text(&enc, b).map_err(|e| format!("{:?}", e)))).collect();
    let decode_gets = input_codes.iter().map(|cs| cs.iter().map(|(c, l)| guard(|| m.get(*c, *l))).collect()).collect();
    Ok(Some(Real { gets, runs, decodes, decode_gets }))
}

fn show_get(g: &Result<Option<Vec<u16>>, (String, String)>) -> String {
    match g { Ok(None) => "-".into(), Ok(Some(v)) => format!("u{}", v.iter().map(|u| format!("{:04x}", u)).collect::<String>()), Err((site, _)) => format!("panic@{}", site) }
}
fn show_decode(d: &Result<Result<String, String>, (String, String)>) -> String {
    match d {
        Ok(Ok(s)) => { let mut o = String::from("ok"); for ch in s.chars() { o.push_str(&format!(" {:x}", ch as u32)); } o }
        Ok(Err(e)) => format!("err:{}", e),
        Err((site, _)) => format!("panic@{}", site),
    }
}

// ---- parse the Debug print of ToUnicodeCMap into the protocol's run list
struct Cur<'a> { s: &'a [u8], i: usize }
impl<'a> Cur<'a> {
    fn eat(&mut self, t: &str) -> bool { if self.s[self.i..].starts_with(t.as_bytes()) { self.i += t.len(); true } else { false } }
    fn num(&mut self) -> Option<u64> {
        let st = self.i; while self.i < self.s.len() && self.s[self.i].is_ascii_digit() { self.i += 1; }
        std::str::from_utf8(&self.s[st..self.i]).ok()?.parse().ok()
    }
    fn units(&mut self) -> Option<String> { // [1, 2]
        if !self.eat("[") { return None; }
        let mut o = String::new();
        if self.eat("]") { return Some(o); }
        loop { let n = self.num()?; o.push_str(&format!("{:04x}", n)); if self.eat("]") { break; } if !self.eat(", ") { return None; } }
        Some(o)
    }
    fn target(&mut self) -> Option<String> {
        if self.eat("HexString { start: ") { let st = self.num()?; if !self.eat(", value: ") { return None; } let u = self.units()?; if !self.eat(" }") { return None; } return Some(format!("h{}:{}", st, u)); }
        if self.eat("UTF16CodePoint { offset: ") { let n = self.num()?; if !self.eat(" }") { return None; } return Some(format!("c{}", n)); }
        if self.eat("ArrayOfHexStrings { start: ") {
            let st = self.num()?;
            if !self.eat(", values: [") { return None; }
            let mut parts = vec![];
            if !self.eat("]") { loop { parts.push(self.units()?); if self.eat("]") { break; } if !self.eat(", ") { return None; } } }
            if !self.eat(" }") { return None; }
            return Some(format!("a{}:{}", st, parts.join("/")));
        }
        None
    }
    fn map(&mut self) -> Option<String> {
        if !self.eat("{") { return None; }
        let mut es = vec![];
        if self.eat("}") { return Some(String::new()); }
        loop {
            let lo = self.num()?; if !self.eat("..=") { return None; } let hi = self.num()?; if !self.eat(": ") { return None; }
            let t = self.target()?; es.push(format!("{}-{}={}", lo, hi, t));
            if self.eat("}") { break; } if !self.eat(", ") { return None; }
        }
        Some(es.join(","))
    }
}
fn runs_of_debug(dbg: &str) -> Option<String> {
    let mut c = Cur { s: dbg.as_bytes(), i: 0 };
    if !c.eat("ToUnicodeCMap { bf_ranges: [") { return None; }
    let mut maps = vec![];
    for k in 0..4 { let m = c.map()?; maps.push(format!("{}:{}", k + 1, m)); if k < 3 && !c.eat(", ") { return None; } }
    if !c.eat("] }") { return None; }
    Some(format!("ok {}", maps.join(" ")))
}

// ------------------------------------------------------------------ generators

fn max_code(len: u8) -> u32 { if len == 4 { u32::MAX } else { (1u32 << (8 * len as u32)) - 1 } }

fn gen_unit(r: &mut Rng) -> u16 {
    match r.below(10) {
        0 => 0x0020 + r.below(0x60) as u16,
        1 => 0xFFF0 + r.below(16) as u16,
        2 => 0xD7F0 + r.below(32) as u16,             // around the surrogate boundary
        3 => 0xE000 + r.below(0x100) as u16,
        4 => r.below(0x10000) as u16,
        _ => 0x0041 + r.below(0x40) as u16,
    }
}
fn no_surrogate(u: u16) -> u16 { if (0xD800..0xE000).contains(&u) { 0x263A } else { u } }
/// a target string: mostly one unit; sometimes ligature-like several units, sometimes a surrogate pair
fn gen_target(r: &mut Rng, want_multi: bool) -> Vec<u16> {
    if !want_multi { return vec![no_surrogate(gen_unit(r))]; }
    match r.below(4) {
        0 => { let c = 0x10000 + r.below(0x100000) as u32; let c = c - 0x10000; vec![0xD800 + (c >> 10) as u16, 0xDC00 + (c & 0x3FF) as u16] }
        1 => vec![0x0066, 0x0069],
        2 => (0..2 + r.usize(3)).map(|_| no_surrogate(gen_unit(r))).collect(),
        _ => vec![0x0066, 0x0066 + r.below(3) as u16],
    }
}

/// a small window of the code space of `len`-byte codes in which the case's definitions live (so that they collide)
fn gen_base(r: &mut Rng, len: u8) -> u32 {
    let m = max_code(len);
    match r.below(6) { 0 => 0, 1 => m.saturating_sub(40), 2 => (m / 2).saturating_sub(20), _ => (r.next() as u32) % (m.saturating_sub(64).max(1)) }
}

#[derive(Clone, Copy, PartialEq)]
enum Mode { SingleOnly, Isolated, Wild }

/// definitions over a few windows; `mode` decides what multi-unit / array definitions may touch
fn gen_defs(r: &mut Rng, mode: Mode) -> Vec<Def> {
    let nmax = if r.chance(1, 5) { 24 } else { 9 };
    let n = 1 + r.usize(nmax);
    let lens: Vec<u8> = { let k = 1 + r.usize(2); (0..k).map(|_| 1 + r.below(4) as u8).collect() };
    let bases: Vec<(u8, u32)> = lens.iter().map(|l| (*l, gen_base(r, *l))).collect();
    let mut defs: Vec<Def> = vec![];
    for _ in 0..n {
        let (len, base) = *r.pick(&bases);
        let m = max_code(len);
        let span = if r.chance(1, 8) { 60 } else { 14 };
        let lo = base.saturating_add(r.below(span) as u32).min(m);
        let multi = mode != Mode::SingleOnly && r.chance(if mode == Mode::Wild { 1 } else { 2 }, 3);
        let d = if r.chance(2, 5) {
            Def::Char { code: lo, len, dst: gen_target(r, multi) }
        } else {
            let width = if !multi && r.chance(1, 12) { r.below(3000) as u32 } else { r.below(7) as u32 };
            let hi = lo.saturating_add(width).min(m);
            let w = hi - lo;
            if multi && r.chance(1, 2) && w >= 1 {
                Def::Range { lo, hi, len, dsts: (0..=w).map(|_| { let mm = r.chance(1, 2); gen_target(r, mm) }).collect() }
            } else {
                let mut t = gen_target(r, multi);
                // keep the incrementing unit inside u16 (well-formed)
                let last = *t.last().unwrap();
                if last as u64 + w as u64 > 0xFFFF { *t.last_mut().unwrap() = (0xFFFF - w.min(0xFFFF)) as u16; }
                if (0xD800..0xE000).contains(t.last().unwrap()) && t.len() == 1 { *t.last_mut().unwrap() = 0x0100; }
                Def::Range { lo, hi, len, dsts: vec![t] }
            }
        };
        if mode == Mode::Isolated && !d.is_single() {
            // keep non-single definitions away from every other definition of the same length (distance >= 2)
            let touches = |a: &Def, b: &Def| a.len() == b.len() && (a.lo() as u64) <= b.hi() as u64 + 1 && (b.lo() as u64) <= a.hi() as u64 + 1;
            if defs.iter().any(|e| touches(e, &d)) { continue; }
        }
        if mode == Mode::Isolated && d.is_single() {
            let touches = |a: &Def, b: &Def| a.len() == b.len() && (a.lo() as u64) <= b.hi() as u64 + 1 && (b.lo() as u64) <= a.hi() as u64 + 1;
            if defs.iter().any(|e| !e.is_single() && touches(e, &d)) { continue; }
        }
        // in Wild mode: sometimes repeat the target of an earlier definition next to it (ligature twice, producer habit)
        let d = if mode == Mode::Wild && r.chance(1, 4) && !defs.is_empty() {
            let e = r.pick(&defs).clone();
            match (&e, e.hi() < max_code(e.len())) {
                (Def::Char { code, len, dst }, true) => Def::Char { code: code + 1, len: *len, dst: dst.clone() },
                (Def::Range { lo, hi, len, dsts }, true) if (*hi as u64 + 1 + (*hi - *lo) as u64) <= max_code(*len) as u64 =>
                    Def::Range { lo: hi + 1, hi: hi + 1 + (hi - lo), len: *len, dsts: dsts.clone() },
                _ => d,
            }
        } else { d };
        defs.push(d);
    }
    if defs.is_empty() { defs.push(Def::Char { code: 1, len: 1, dst: vec![0x41] }); }
    defs
}

/// random mapping table -> definitions, the way a producer writes them: sorted codes, consecutive codes with
/// consecutive single-unit targets merged into bfrange, other runs as array ranges or bfchar lines, random splitting
fn gen_table_defs(r: &mut Rng) -> Vec<Def> {
    let len = 1 + r.below(2) as u8 + if r.chance(1, 6) { 2 } else { 0 };
    let base = gen_base(r, len);
    let m = max_code(len);
    let n = 2 + r.usize(40);
    let mut table: Vec<(u32, Vec<u16>)> = vec![];
    let mut code = base;
    let mut next_unit = 0x0041 + r.below(0x3000) as u16;
    for _ in 0..n {
        let t = match r.below(10) {
            0 => gen_target(r, true),
            1 if !table.is_empty() => table.last().unwrap().1.clone(),     // same target again (e.g. two glyphs of one ligature)
            2 => { next_unit = 0x0041 + r.below(0x3000) as u16; vec![next_unit] }
            _ => { next_unit = next_unit.wrapping_add(1); vec![no_surrogate(next_unit)] }
        };
        table.push((code, t));
        let step = if r.chance(1, 6) { 2 + r.below(5) as u32 } else { 1 };
        match code.checked_add(step) { Some(x) if x <= m => code = x, _ => break }
    }
    let mut defs = vec![];
    let mut i = 0;
    while i < table.len() {
        // maximal run of consecutive codes
        let mut j = i;
        while j + 1 < table.len() && table[j + 1].0 == table[j].0 + 1 && j - i < 30 { j += 1; }
        // random cut
        if j > i && r.chance(1, 3) { j = i + r.usize(j - i + 1); }
        let run = &table[i..=j];
        let incrementing = run.iter().enumerate().all(|(k, (_, t))| t.len() == run[0].1.len() && t[..t.len() - 1] == run[0].1[..t.len() - 1]
            && *t.last().unwrap() as u32 == *run[0].1.last().unwrap() as u32 + k as u32);
        if run.len() == 1 && r.chance(2, 3) { defs.push(Def::Char { code: run[0].0, len, dst: run[0].1.clone() }); }
        else if incrementing && (run[0].1.len() == 1 || r.chance(1, 2)) { defs.push(Def::Range { lo: run[0].0, hi: run[run.len() - 1].0, len, dsts: vec![run[0].1.clone()] }); }
        else if run.len() >= 2 && r.chance(1, 2) { defs.push(Def::Range { lo: run[0].0, hi: run[run.len() - 1].0, len, dsts: run.iter().map(|(_, t)| t.clone()).collect() }); }
        else { for (c, t) in run { defs.push(Def::Char { code: *c, len, dst: t.clone() }); } }
        i = j + 1;
    }
    if r.chance(1, 3) { r.shuffle(&mut defs); }
    defs
}

/// damage some definitions the way sloppy producers do — the CMap is still accepted by `from_sections`:
/// arrays shorter / longer than their range, incrementing targets that run past FFFF, one-entry arrays over wide ranges
fn make_sloppy(r: &mut Rng, defs: &mut Vec<Def>) {
    for d in defs.iter_mut() {
        if !r.chance(1, 2) { continue; }
        if let Def::Range { lo, hi, len, dsts } = d {
            match r.below(5) {
                0 => { if dsts.len() > 1 { let k = 1 + r.usize(dsts.len() - 1); dsts.truncate(k); } }
                1 => { let extra = 1 + r.usize(3); for _ in 0..extra { let mm = r.chance(1, 2); dsts.push(gen_target(r, mm)); } }
                2 => { if let Some(t) = dsts.first_mut() { if let Some(l) = t.last_mut() { *l = 0xFFFF - r.below(3) as u16; } } *hi = (*hi).saturating_add(r.below(6) as u32).min(max_code(*len)); }
                3 => { dsts.truncate(1); *hi = (*hi).saturating_add(1 + r.below(4) as u32).min(max_code(*len)); }
                _ => { *lo = (*lo).min(*hi); }
            }
        }
    }
}

/// codes of different lengths that are prefixes of one another, and bytes that start nothing: where "first mapped
/// length wins" differs from longest match and where unmapped bytes drag followers along
fn gen_prefix_defs(r: &mut Rng) -> (Vec<Def>, Vec<u8>) {
    let alphabet: Vec<u8> = (0..3 + r.usize(3)).map(|_| if r.chance(1, 3) { r.byte() } else { 0x40 + r.below(6) as u8 }).collect();
    let mut defs = vec![];
    let n = 2 + r.usize(7);
    for _ in 0..n {
        let len = 1 + r.below(4) as u8;
        let code = (0..len).fold(0u32, |a, _| a * 256 + *r.pick(&alphabet) as u32);
        let multi = r.chance(1, 4);
        if r.chance(1, 4) && code < max_code(len) { defs.push(Def::Range { lo: code, hi: code + r.below(2) as u32, len, dsts: vec![vec![0x61 + r.below(26) as u16]] }); }
        else { defs.push(Def::Char { code, len, dst: gen_target(r, multi) }); }
    }
    (defs, alphabet)
}

/// Runs that CONTINUE: (1) a multi-unit incrementing range (or a run of consecutive bfchars with continuing multi-unit
/// targets, or both), (2) redefinitions of codes INSIDE that run, (3) bfchars for the next codes whose targets are exactly
/// the continuation of the run — in file order 1,2,3 and in every other order. Whatever an implementation does to "fold"
/// such runs, the last definition covering a code must keep winning.
fn gen_continuation_defs(r: &mut Rng) -> Vec<Def> {
    let len = match r.below(6) { 0 => 1, 1 => 3, 2 => 4, _ => 2 };
    let m = max_code(len);
    let w = 1 + r.below(if len == 1 { 6 } else { 16 }) as u32;
    let tail = 1 + r.below(3) as u32;
    let base = gen_base(r, len);
    let lo = base.min(m - (w + tail + 2)).max(1);
    let hi = lo + w;
    // the run's first target: a surrogate pair (astral plane), or 2-4 plain units; the last unit has room for the whole run
    let room = (w + tail + 2) as u16;
    let t0: Vec<u16> = match r.below(3) {
        0 => (0..2 + r.usize(3)).map(|i| if i == 0 { 0x0066 } else { 0x0100 + r.below(0xD000) as u16 }).map(no_surrogate).collect(),
        _ => vec![0xD800 + r.below(0x400) as u16, 0xDC00 + r.below(0x400 - room as u64) as u16],
    };
    let mut t0 = t0;
    if *t0.last().unwrap() as u32 + room as u32 > 0xFFFF { *t0.last_mut().unwrap() = 0x4E00; }
    let at = |code: u32| -> Vec<u16> { let mut t = t0.clone(); *t.last_mut().unwrap() += (code - lo) as u16; t };
    // (1) the run
    let mut run: Vec<Def> = vec![];
    match r.below(3) {
        0 => run.push(Def::Range { lo, hi, len, dsts: vec![t0.clone()] }),
        1 => { for c in lo..=hi { run.push(Def::Char { code: c, len, dst: at(c) }); } }
        _ => { let mid = lo + r.below(w as u64) as u32; run.push(Def::Range { lo, hi: mid, len, dsts: vec![t0.clone()] });
               for c in mid + 1..=hi { run.push(Def::Char { code: c, len, dst: at(c) }); } }
    }
    // (2) redefinitions inside
    let mut redefs: Vec<Def> = vec![];
    for _ in 0..1 + r.usize(3) {
        let c = lo + r.below(w as u64 + 1) as u32;
        redefs.push(match r.below(4) {
            0 => Def::Char { code: c, len, dst: gen_target(r, true) },
            1 => { let c2 = (c + r.below(3) as u32).min(hi); Def::Range { lo: c, hi: c2, len, dsts: vec![vec![0x0061 + r.below(20) as u16]] } }
            _ => Def::Char { code: c, len, dst: vec![0x0041 + r.below(26) as u16] },
        });
    }
    // (3) the continuation (sometimes one that only looks like it: other prefix / off by one)
    let mut cont: Vec<Def> = vec![];
    for c in hi + 1..=hi + tail {
        let mut t = at(c);
        match r.below(8) { 0 => { t[0] ^= 1; } 1 => { *t.last_mut().unwrap() += 1; } _ => {} }
        cont.push(Def::Char { code: c, len, dst: t });
    }
    let mut defs: Vec<Def> = vec![];
    match r.below(4) {
        0 | 1 => { defs.extend(run); defs.extend(redefs); defs.extend(cont); }           // the order 1, 2, 3
        2 => { let mut groups = vec![run, redefs, cont]; r.shuffle(&mut groups); for g in groups { defs.extend(g); } }
        _ => { defs.extend(run); defs.extend(redefs); defs.extend(cont); r.shuffle(&mut defs); }
    }
    // a little unrelated noise around it
    for _ in 0..r.usize(3) {
        let c = (lo + r.below((w + tail + 4) as u64) as u32).min(m);
        let pos = r.usize(defs.len() + 1);
        defs.insert(pos, Def::Char { code: c.saturating_sub(2), len, dst: vec![0x0030 + r.below(10) as u16] });
    }
    defs
}

/// split a definition list into sections (bfchar lines must be Char, bfrange lines Range); a Char may be rewritten as a 1-wide range
fn sectionize(r: &mut Rng, defs: &[Def]) -> Vec<Sec> {
    let mut secs: Vec<Sec> = vec![];
    if r.chance(3, 4) { secs.push(Sec::Cs(vec![(0, 0xFFFF, 2)])); }
    for d in defs {
        let d = match d { Def::Char { code, len, dst } if r.chance(1, 6) => Def::Range { lo: *code, hi: *code, len: *len, dsts: vec![dst.clone()] }, d => d.clone() };
        let is_char = matches!(d, Def::Char { .. });
        let fresh = r.chance(1, 5);
        match secs.last_mut() {
            Some(Sec::Chars(v)) if is_char && !fresh => v.push(d),
            Some(Sec::Ranges(v)) if !is_char && !fresh => v.push(d),
            _ => secs.push(if is_char { Sec::Chars(vec![d]) } else { Sec::Ranges(vec![d]) }),
        }
    }
    if r.chance(1, 8) { secs.push(Sec::Cs(vec![(0, 0xFF, 1), (0x8000, 0xFFFF, 2)])); }
    secs
}

fn gen_queries(r: &mut Rng, defs: &[Def]) -> Vec<(u32, u8)> {
    let mut q: Vec<(u32, u8)> = vec![];
    for d in defs {
        let (lo, hi, len) = (d.lo(), d.hi(), d.len());
        for c in [lo, hi, lo.wrapping_sub(1), hi.wrapping_add(1), lo.wrapping_add(1), hi.wrapping_sub(1)] { if c <= max_code(len) { q.push((c, len)); } }
        if hi > lo { for _ in 0..3 { q.push((lo + (r.next() as u32) % (hi - lo + 1), len)); } }
        if hi - lo <= 20 { for c in lo..=hi { q.push((c, len)); } }                              // every code of a short range
        if r.chance(1, 4) { let l2 = 1 + (len % 4); q.push((lo & max_code(l2), l2)); }       // same (low) number, other length
    }
    for _ in 0..3 { let len = 1 + r.below(4) as u8; q.push(((r.next() as u32) & max_code(len), len)); }
    q.sort(); q.dedup();
    if q.len() > 120 { r.shuffle(&mut q); q.truncate(120); q.sort(); }
    q
}

fn code_bytes(code: u32, len: u8) -> Vec<u8> { (0..len).rev().map(|i| (code >> (8 * i as u32)) as u8).collect() }

/// byte strings over the mapped codes (plus a few with unmapped bytes)
thread_local! { static PREFIX_ALPHABET: std::cell::RefCell<Vec<u8>> = std::cell::RefCell::new(vec![]); }

fn gen_inputs(r: &mut Rng, defs: &[Def]) -> Vec<(Vec<u8>, Vec<(u32, u8)>)> {
    let mut out = vec![];
    // strings over the small alphabet of the "prefix" stream (correspondence + total segmentation oracle)
    let alphabet = PREFIX_ALPHABET.with(|a| a.borrow().clone());
    if !alphabet.is_empty() {
        for _ in 0..6 {
            let k = r.usize(14);
            let bytes: Vec<u8> = (0..k).map(|_| if r.chance(1, 8) { r.byte() } else { *r.pick(&alphabet) }).collect();
            out.push((bytes, vec![]));
        }
    }
    // raw strings: mapped codes interleaved with arbitrary bytes (unmapped codes, 4-byte flush, trailing partial code);
    // an empty code list marks them as correspondence-only
    for _ in 0..2 {
        let k = 1 + r.usize(6);
        let mut bytes = vec![];
        for _ in 0..k {
            if r.chance(1, 2) {
                let d = r.pick(defs);
                let c = d.lo() + if d.hi() > d.lo() { (r.next() as u32) % (d.hi() - d.lo() + 1) } else { 0 };
                bytes.extend(code_bytes(c, d.len()));
            } else { let n = 1 + r.usize(5); bytes.extend(r.bytes(n)); }
        }
        out.push((bytes, vec![]));
    }
    for _ in 0..3 {
        let k = 1 + r.usize(8);
        let mut bytes = vec![]; let mut codes = vec![];
        for _ in 0..k {
            let d = r.pick(defs);
            let c = d.lo() + if d.hi() > d.lo() { (r.next() as u32) % (d.hi() - d.lo() + 1) } else { 0 };
            bytes.extend(code_bytes(c, d.len())); codes.push((c, d.len()));
        }
        out.push((bytes, codes));
    }
    out
}

// ------------------------------------------------------------------ one case

struct Stats { strict: bool, canonical: bool }

fn check_case(c: &mut Ctx, r: &mut Rng, stream: &str, secs: &[Sec], st: Stats, simple_meta: bool) {
    let defs = flatten(secs);
    // inside the domain of the theorem every failure is a violation, whatever the stream
    let st = Stats { strict: st.strict || in_proved_domain(&defs), canonical: st.canonical };
    c.count(if st.strict { "cases.in_proved_domain" } else { "cases.outside_proved_domain" });
    let text = if st.canonical { render_canonical(secs) } else { render(r, secs, simple_meta) };
    let queries = gen_queries(r, &defs);
    let inputs = gen_inputs(r, &defs);
    let (doc, font) = make_doc(r, &text);
    let input_bytes: Vec<Vec<u8>> = inputs.iter().map(|(b, _)| b.clone()).collect();
    c.count(&format!("{}.cases", stream));
    let secs_tok = sections_tok(secs);
    let qtok: String = queries.iter().map(|(code, len)| format!(" {}", code_tok(*code, *len))).collect();
    let req_get = format!("cmap_get {}q{}", secs_tok, qtok);
    let req_tget = format!("cmap_text_get {} q{}", hex_tok(&text), qtok);
    c.nontrivial(&req_get);
    if st.canonical { c.corr(format!("cmap_render {}", secs_tok.trim_end()), format!("ok {}", hex_tok(&text))); }
    for d in &defs {
        c.count(if d.is_single() { "defs.single" } else if d.is_array() { "defs.array" } else { "defs.multiunit" });
        c.count(&format!("defs.len{}", d.len()));
    }
    let case = || json!({"stream": stream, "sections": secs_tok, "cmap_text": String::from_utf8_lossy(&text)});
    let input_codes: Vec<Vec<(u32, u8)>> = inputs.iter().map(|(_, cs)| cs.clone()).collect();
    let real = match run_real(&doc, &font, &queries, &input_bytes, &input_codes) {
        Err((site, msg)) => { c.oracle_fail(&format!("panic-in-parse@{}", site), &msg, case()); return; }
        Ok(None) => {
            c.corr(req_get, "err".into()); c.corr(req_tget, "err".into());
            c.count(&format!("{}.rejected", stream));
            let all_ok = defs.iter().all(|d| d.hi() >= d.lo() && match d { Def::Range { dsts, .. } => !dsts.is_empty(), _ => true });
            if all_ok { c.oracle_fail("well-formed-cmap-rejected", "get_font_encoding rejected a well-formed CMap", case()); }
            return;
        }
        Ok(Some(real)) => real,
    };
    // ---- correspondence: lookups, stored runs, decoding; structured sections and the model's own parse of the text
    let reply_get = format!("ok{}", real.gets.iter().map(|g| format!(" {}", show_get(g))).collect::<String>());
    c.corr(req_get, reply_get.clone());
    c.corr(req_tget, reply_get);
    match real.runs.as_deref().and_then(runs_of_debug) {
        Some(runs) => { c.corr(format!("cmap_runs {}", secs_tok), runs.clone()); c.corr(format!("cmap_text_runs {}", hex_tok(&text)), runs); }
        None => c.oracle_fail("debug-print-unparsed", "could not read the Debug print of the map", json!({"debug": real.runs})),
    }
    for ((bytes, _), d) in inputs.iter().zip(real.decodes.iter()) {
        c.corr(format!("cmap_decode {}q {}", secs_tok, hex_tok(bytes)), show_decode(d));
    }
    // ---- oracle: lookups
    for ((code, len), g) in queries.iter().zip(real.gets.iter()) {
        let want = defines(&defs, *code, *len);
        let verdict: Option<(&str, String)> = match (&want, g) {
            (None, Ok(None)) => { c.count("get.unmapped"); None }
            (Some(Some(w)), Ok(Some(v))) if w == v => { c.count("get.mapped_ok"); None }
            (Some(None), _) => { // the definition itself is malformed at this code: only panics are our business
                match g { Err((site, _)) => Some(("panic", site.clone())), _ => { c.count("get.malformed_def_no_panic"); None } }
            }
            (_, Err((site, _))) => Some(("panic", site.clone())),
            _ => Some(("value", String::new())),
        };
        if let Some((kind, site)) = verdict {
            let cz = cause(&defs, *code, *len);
            let sig = match (kind, cz.as_str()) {
                ("value", "") => "unexplained-wrong-target".to_string(),
                ("value", z) => z.to_string(),
                (_, "") => format!("panic@{}", site),
                (_, z) => format!("{}/panic@{}", z, site),
            };
            let sig = if st.strict { c.count("strict.failures"); format!("proved-domain:{}", sig) } else { sig };
            c.oracle_fail(&sig, &format!("get({:#x},{}) = {} but the CMap defines {:?}", code, len, show_get(g), want),
                json!({"stream": stream, "sections": secs_tok, "code": code_tok(*code, *len), "cmap_text": String::from_utf8_lossy(&text)}));
        }
    }
    // ---- oracle: decoding of strings of mapped, prefix-free codes
    for (k, ((bytes, codes), d)) in inputs.iter().zip(real.decodes.iter()).enumerate() {
        // every byte string (mapped or not, prefix-free or not): theorem cmap_decode_total_defines
        match seg_spec(&defs, bytes) {
            None => c.count("decode.total_malformed_def"),
            Some(units) => {
                let want: String = char::decode_utf16(units.iter().cloned()).map(|x| x.unwrap_or('\u{FFFD}')).collect();
                // the Lean specification itself must agree with this oracle (op cmap_segspec runs Spec/CMapSeg.lean)
                if in_proved_domain(&defs) && bytes.len() <= 24 {
                    c.corr(format!("cmap_segspec {}q {}", secs_tok, hex_tok(bytes)), format!("ok {}", units_tok(&units)));
                }
                if matches!(d, Ok(Ok(s)) if *s == want) {
                    c.count("decode.total_ok");
                    if units.contains(&0xFFFD) { c.count("decode.total_with_replacement"); }
                } else {
                    c.oracle_fail("total-segmentation", &format!("decode_text({}) = {} but the segmentation spec gives {:?}", hex(bytes), show_decode(d), want),
                        json!({"stream": stream, "sections": secs_tok, "bytes": hex(bytes), "cmap_text": String::from_utf8_lossy(&text)}));
                }
            }
        }
        if codes.is_empty() { c.count("decode.raw_bytes"); if matches!(d, Ok(Ok(s)) if s.contains('\u{FFFD}')) { c.count("decode.raw_with_replacement"); } continue; }
        let prefix_free = codes.iter().all(|(code, len)| (1..*len).all(|l| defines(&defs, code >> (8 * (*len - l) as u32), l).is_none()));
        if !prefix_free { c.count("decode.not_prefix_free"); continue; }
        let targets: Vec<Option<Option<Vec<u16>>>> = codes.iter().map(|(code, len)| defines(&defs, *code, *len)).collect();
        if targets.iter().any(|t| !matches!(t, Some(Some(_)))) { c.count("decode.malformed_def"); continue; }
        let per_code: Vec<Vec<u16>> = targets.into_iter().map(|t| t.unwrap().unwrap()).collect();
        let units: Vec<u16> = per_code.iter().flatten().cloned().collect();
        let want: String = char::decode_utf16(units.iter().cloned()).map(|x| x.unwrap_or('\u{FFFD}')).collect();
        let got = match d { Ok(Ok(s)) => Some(s.clone()), _ => None };
        if got.as_deref() == Some(want.as_str()) {
            c.count("decode.ok");
            if units.iter().any(|u| (0xD800..0xDC00).contains(u)) { c.count("decode.with_surrogate_pair"); }
            if codes.iter().map(|x| x.1).collect::<std::collections::BTreeSet<_>>().len() > 1 { c.count("decode.mixed_code_lengths"); }
            continue;
        }
        // classify by the first code whose own lookup is not what the CMap defines; if every lookup is right the
        // fault is in segmentation / UTF-16 decoding (BOM sniffing is the one known structure there)
        let first_bad = codes.iter().zip(per_code.iter()).zip(real.decode_gets[k].iter()).find(|((_, w), g)| !matches!(g, Ok(Some(v)) if v == *w));
        let sig = match first_bad {
            Some((((code, len), _), g)) => {
                let z = cause(&defs, *code, *len);
                let p = match g { Err((site, _)) => format!("/panic@{}", site), _ => String::new() };
                if z.is_empty() { format!("unexplained-wrong-text{}", p) } else { format!("{}{}", z, p) }
            }
            None => if units.first() == Some(&0xFEFF) || units.first() == Some(&0xFFFE) || (units.len() >= 2 && units[0] == 0xEFBB && units[1] >> 8 == 0xBF) {
                "bom-sniffed-output".to_string() } else { "unexplained-wrong-text".to_string() },
        };
        let sig = if st.strict { c.count("strict.failures"); format!("proved-domain:{}", sig) } else { sig };
        c.oracle_fail(&sig, &format!("decode_text({}) = {} but the CMap defines {:?}", hex(bytes), show_decode(d), want),
            json!({"stream": stream, "sections": secs_tok, "bytes": hex(bytes), "cmap_text": String::from_utf8_lossy(&text)}));
    }
    c.sample(json!({"stream": stream, "definitions": defs.len(), "sections": if secs_tok.len() < 300 { secs_tok.clone() } else { format!("{}…", &secs_tok[..300]) }}));
}

/// a fixed witness: returns (get replies, decode reply)
fn run_witness(secs: &[Sec], queries: &[(u32, u8)], input: &[u8]) -> (Vec<String>, String) {
    let mut r = Rng::new(7);
    let text = render(&mut r, secs, true);
    let (doc, font) = make_doc(&mut Rng::new(1), &text);
    match run_real(&doc, &font, queries, &[input.to_vec()], &[]) {
        Ok(Some(real)) => (real.gets.iter().map(show_get).collect(), show_decode(&real.decodes[0])),
        Ok(None) => (vec!["err".into()], "err".into()),
        Err((site, _)) => (vec![format!("panic@{}", site)], "err".into()),
    }
}

fn ch(code: u32, len: u8, dst: &[u16]) -> Def { Def::Char { code, len, dst: dst.to_vec() } }
fn rg(lo: u32, hi: u32, len: u8, dsts: &[&[u16]]) -> Def { Def::Range { lo, hi, len, dsts: dsts.iter().map(|d| d.to_vec()).collect() } }

/// The canonical witnesses of the (now fixed) findings F-C15-a..e, re-run on every check as regression cases:
/// `reproduced` = the real code again answers something other than what the CMap defines.
fn witnesses(c: &mut Ctx) {
    let mut one = |c: &mut Ctx, id: &str, what: &str, secs: Vec<Sec>, queries: Vec<(u32, u8)>, want_gets: Vec<&str>, input: Vec<u8>, want_decode: &str| {
        let (g, d) = run_witness(&secs, &queries, &input);
        let ok = g.iter().map(|x| x.as_str()).collect::<Vec<_>>() == want_gets && d == want_decode;
        c.witness(id, !ok, &format!("{}: get = {:?} (defined {:?}), decode {} = {} (defined {})", what, g, want_gets, hex(&input), d, want_decode));
        let qtok: String = queries.iter().map(|(code, len)| format!(" {}", code_tok(*code, *len))).collect();
        c.corr(format!("cmap_get {}q{}", sections_tok(&secs), qtok), format!("ok{}", g.iter().map(|x| format!(" {}", x)).collect::<String>()));
        c.corr(format!("cmap_decode {}q {}", sections_tok(&secs), hex_tok(&input)), d);
    };
    // F-C15-a: two adjacent codes with the same ligature target
    one(c, "F-C15-a", "<01>,<02> -> <00660069>", vec![Sec::Chars(vec![ch(1, 1, &[0x66, 0x69]), ch(2, 1, &[0x66, 0x69])])],
        vec![(1, 1), (2, 1)], vec!["u00660069", "u00660069"], vec![1, 2], "ok 66 69 66 69");
    // F-C15-b: a later bfchar inside an incrementing multi-unit range must not shift the rest of the range
    one(c, "F-C15-b", "<10><13> <00410042> then <11> <0058>", vec![Sec::Ranges(vec![rg(0x10, 0x13, 1, &[&[0x41, 0x42]])]), Sec::Chars(vec![ch(0x11, 1, &[0x58])])],
        vec![(0x10, 1), (0x11, 1), (0x12, 1), (0x13, 1)], vec!["u00410042", "u0058", "u00410044", "u00410045"], vec![0x12], "ok 41 44");
    one(c, "F-C15-b", "array range <10><12> then <10> <0058>", vec![Sec::Ranges(vec![rg(0x10, 0x12, 1, &[&[0x41, 0x41], &[0x42, 0x42], &[0x43, 0x43]])]), Sec::Chars(vec![ch(0x10, 1, &[0x58])])],
        vec![(0x10, 1), (0x11, 1), (0x12, 1)], vec!["u0058", "u00420042", "u00430043"], vec![0x11], "ok 42 42");
    // F-C15-c: two adjacent array ranges with equal arrays; an array shorter than its range (malformed: unmapped, no panic)
    one(c, "F-C15-c", "adjacent equal arrays", vec![Sec::Ranges(vec![rg(1, 2, 1, &[&[0x41, 0x41], &[0x42, 0x42]]), rg(3, 4, 1, &[&[0x41, 0x41], &[0x42, 0x42]])])],
        vec![(3, 1), (4, 1)], vec!["u00410041", "u00420042"], vec![3], "ok 41 41");
    one(c, "F-C15-c", "array shorter than its range", vec![Sec::Ranges(vec![rg(1, 3, 1, &[&[0x41], &[0x42]])])],
        vec![(2, 1), (3, 1)], vec!["u0042", "-"], vec![2], "ok 42");
    // F-C15-d: coalesced equal targets ending in FFFF
    one(c, "F-C15-d", "<01>,<02> -> <0041FFFF>", vec![Sec::Chars(vec![ch(1, 1, &[0x41, 0xFFFF]), ch(2, 1, &[0x41, 0xFFFF])])],
        vec![(2, 1)], vec!["u0041ffff"], vec![2], "ok 41 ffff");
    // F-C15-e: text starting with U+FFFE / U+FEFF
    let bom = vec![Sec::Chars(vec![ch(1, 1, &[0xFFFE]), ch(2, 1, &[0x41]), ch(3, 1, &[0xFEFF])])];
    one(c, "F-C15-e", "<01>-><FFFE>, <02>-><0041>", bom.clone(), vec![], vec![], vec![1, 2], "ok fffe 41");
    one(c, "F-C15-e", "<03>-><FEFF>, <02>-><0041>", bom, vec![], vec![], vec![3, 2], "ok feff 41");
}

/// text-level malformed stream: one byte edit in the section part; only model/implementation correspondence and "no panic"
fn malformed_case(c: &mut Ctx, r: &mut Rng) {
    let defs = gen_defs(r, Mode::SingleOnly);
    let secs = sectionize(r, &defs);
    let mut text = render(r, &secs, true);
    let start = text.windows(9).position(|w| w == b"begincmap").unwrap_or(0);
    let n_edit = 1 + r.usize(2);
    for _ in 0..n_edit {
        let pos = start + r.usize(text.len() - start);
        match r.below(7) {
            4 => { // drop one hex byte of a <..> token (code length mismatch, odd-length target …)
                if let Some(q) = (pos..text.len().saturating_sub(2)).find(|&q| text[q] == b'<' && text[q + 1].is_ascii_hexdigit()) { text.remove(q + 1); text.remove(q + 1); } }
            5 => { // duplicate one hex byte of a <..> token
                if let Some(q) = (pos..text.len().saturating_sub(2)).find(|&q| text[q] == b'<' && text[q + 1].is_ascii_hexdigit()) { let (a, b) = (text[q + 1], text[q + 2]); text.insert(q + 1, b); text.insert(q + 1, a); } }
            6 => { // remove a whole run of blanks
                if let Some(q) = (pos..text.len()).find(|&q| text[q] == b' ' || text[q] == b'\t') { while q < text.len() && (text[q] == b' ' || text[q] == b'\t') { text.remove(q); } } }
            0 => { text.remove(pos); }
            1 => { let b = *r.pick(b"<>[] \n0aG%/"); text.insert(pos, b); }
            2 => { text[pos] = *r.pick(b"<>[] \n0aGf"); }
            _ => { let p2 = start + r.usize(text.len() - start); text.swap(pos, p2); }
        }
    }
    let queries = gen_queries(r, &defs);
    let (doc, font) = make_doc(r, &text);
    let qtok: String = queries.iter().map(|(code, len)| format!(" {}", code_tok(*code, *len))).collect();
    let req = format!("cmap_text_get {} q{}", hex_tok(&text), qtok);
    c.nontrivial(&req);
    c.count("malformed.cases");
    match run_real(&doc, &font, &queries, &[], &[]) {
        Err((site, msg)) => c.oracle_fail(&format!("panic-in-parse@{}", site), &msg, json!({"cmap_text": String::from_utf8_lossy(&text)})),
        Ok(None) => { c.count("malformed.rejected"); c.corr(req, "err".into()); }
        Ok(Some(real)) => {
            c.count("malformed.accepted");
            c.corr(req, format!("ok{}", real.gets.iter().map(|g| format!(" {}", show_get(g))).collect::<String>()));
            if let Some(runs) = real.runs.as_deref().and_then(runs_of_debug) { c.corr(format!("cmap_text_runs {}", hex_tok(&text)), runs); }
        }
    }
}

/// one bfchar / bfrange line written at (and just beyond) the edges of the grammar
fn quirky_line(r: &mut Rng, q: u64) -> (bool, String) {
    let t = |u: u16| format!("{:04x}", u);
    let many = |n: usize| (0..n).map(|i| format!("{:04X}", 0x4E00 + i)).collect::<String>();
    match q {
        0 => (false, "<10> <11> [<0041><0042>]\n".into()),                 // array elements touching
        1 => (false, "<10> <11> [<0041>\t<0042>]\n".into()),               // tab separator
        2 => (false, "<10> <11> [<0041>\n<0042>]\n".into()),               // newline inside an array
        3 => (false, "<10> <11> [ ]\n".into()),                            // empty array
        4 => (false, "<10> <11> [<0041> <0042> <0043>]\n".into()),          // array longer than the range
        5 => (false, format!("<20> <21> <{} {}\n{} % c\n>\n", t(0x41), t(0x42), t(0x43))),  // white space / comment inside a target
        6 => (true, "<20> < 0041>\n".into()),                              // blank after '<'
        7 => (true, "<0000000001> <0041>\n".into()),                       // 5-byte code
        8 => (true, "<> <0041>\n".into()),                                 // empty code
        9 => (true, format!("<30> <{}>\n", many(257))),                    // 257 units
        10 => (true, format!("<30> <{}>\n", many(256))),                   // 256 units
        11 => (true, "<30> <0041><31> <0042>\n".into()),                   // no separator between two lines
        12 => (true, "<30>\n<0041>\n".into()),                             // newline between code and target
        13 => (false, "<0030> <31> <0041>\n".into()),                      // lo / hi of different length
        14 => (true, "<30> <004>\n".into()),                               // odd number of hex digits
        15 => (true, "<30> <00410>\n".into()),
        16 => (false, "<30><32><00410042>% x\n".into()),                   // comment directly after the line
        17 => (false, "<32> <30> <0041>\n".into()),                        // hi < lo: InvalidCodeRange
        18 => (false, "<30> <32> [<0041>] \n".into()),                     // one-element array over a wider range
        19 => (true, "<30>  \t <D83DDE00>  \r\n".into()),
        20 => (false, "<30> <32> [<0041> <0042> <0043> ]\n".into()),
        21 => (false, "<30> <32> [  <0041>  <0042>  <0043>]\n".into()),
        22 => (true, "<3g> <0041>\n".into()),                              // not hex
        _ => { let _ = r; (true, "<30> <0041> <0042>\n".into()) }          // a third token on a bfchar line
    }
}
const N_QUIRKS: u64 = 24;

/// grammar-boundary stream: a valid CMap with one quirky line; correspondence of accept/reject, lookups and stored runs
fn grammar_case(c: &mut Ctx, r: &mut Rng, q: u64) {
    let (is_char, line) = quirky_line(r, q);
    let before = r.below(3); let after = r.below(3);
    let mut body = String::new();
    let (kw_b, kw_e) = if is_char { ("beginbfchar", "endbfchar") } else { ("beginbfrange", "endbfrange") };
    body.push_str(&format!("{} {}\n", 1 + before + after, kw_b));
    let mut filler = |r: &mut Rng, body: &mut String, k: u64| {
        let code = 0x40 + k as u32 * 3;
        let d = if is_char { ch(code, 1, &[0x61 + k as u16]) } else { rg(code, code + 1, 1, &[&[0x61 + k as u16]]) };
        render_def(r, &d, body);
    };
    for k in 0..before { filler(r, &mut body, k); }
    body.push_str(&line);
    for k in 0..after { filler(r, &mut body, 10 + k); }
    body.push_str(&format!("{}\n", kw_e));
    let text = format!("/CIDInit /ProcSet findresource begin\n12 dict begin\nbegincmap\n/CMapType 2 def\n{}endcmap\nCMapName currentdict /CMap defineresource pop\nend\nend\n", body).into_bytes();
    let mut queries: Vec<(u32, u8)> = vec![];
    for code in [0x0f, 0x10, 0x11, 0x12, 0x1f, 0x20, 0x21, 0x22, 0x2f, 0x30, 0x31, 0x32, 0x33, 0x40, 0x41, 0x42, 0x5e, 0x5f] { queries.push((code, 1)); }
    queries.push((0x30, 2)); queries.push((1, 4));
    let (doc, font) = make_doc(r, &text);
    let qtok: String = queries.iter().map(|(code, len)| format!(" {}", code_tok(*code, *len))).collect();
    let req = format!("cmap_text_get {} q{}", hex_tok(&text), qtok);
    c.nontrivial(&req);
    c.count("grammar.cases");
    match run_real(&doc, &font, &queries, &[], &[]) {
        Err((site, msg)) => c.oracle_fail(&format!("panic-in-parse@{}", site), &msg, json!({"cmap_text": String::from_utf8_lossy(&text)})),
        Ok(None) => { c.count(&format!("grammar.q{}.rejected", q)); c.corr(req, "err".into()); }
        Ok(Some(real)) => {
            c.count(&format!("grammar.q{}.accepted", q));
            c.corr(req, format!("ok{}", real.gets.iter().map(|g| format!(" {}", show_get(g))).collect::<String>()));
            if let Some(runs) = real.runs.as_deref().and_then(runs_of_debug) { c.corr(format!("cmap_text_runs {}", hex_tok(&text)), runs); }
        }
    }
}

pub fn run(c: &mut Ctx) {
    if let Err((site, msg)) = guard(std::panic::AssertUnwindSafe(|| run_inner(c))) { eprintln!("harness panic at {}: {}", site, msg); std::process::exit(3); }
}
fn run_inner(c: &mut Ctx) {
    c.rule = "definition lists (bfchar/bfrange; single-unit, multi-unit incrementing, array and surrogate-pair targets; 1-4-byte codes; \
overlapping/adjacent definitions in any order inside small windows of the code space incl. both ends) and random mapping tables rendered \
with range merging/splitting; CMap text with random sectioning, white space, comments, hex case, metadata variants; lookups at every range \
end +-1 and inside, other code lengths, unmapped codes; byte strings over mapped codes. Streams: single (single-unit targets only, strict), \
isolated (non-single definitions touch nothing), wild and table (anything well-formed: equal adjacent targets, later definitions inside ranges …), sloppy (accepted but malformed targets: short/long arrays, ranges past FFFF; no-panic + correspondence), continuation (multi-unit incrementing runs, redefinitions inside them and bfchars continuing them, in every order), canonical (the writer of theorem cmap_parse_render), malformed (byte / hex-byte / blank-run \
edits) and grammar (24 lines at and beyond the edges of the grammar) — correspondence only. Non-trivial = every case; distinct by request text.".into();
    witnesses(c);
    for i in 0..c.n(2000, 40000) {
        let Some(mut r) = c.case("single", i) else { continue };
        let defs = gen_defs(&mut r, Mode::SingleOnly);
        let secs = sectionize(&mut r, &defs);
        check_case(c, &mut r, "single", &secs, Stats { strict: true, canonical: false }, false);
    }
    // ONE bfchar section of 21..100 lines (the legal maximum), codes in shuffled order, a third of the lines redefining a code
    // of the same section: "the last definition that covers it" inside one section, whatever order the lines come in
    for i in 0..c.n(150, 3000) {
        let Some(mut r) = c.case("bigsection", i) else { continue };
        let n = 21 + r.usize(80);
        let ncodes = (n * 2 / 3).max(2);
        let mut codes: Vec<u32> = (0x20u32..0x400).collect(); r.shuffle(&mut codes); codes.truncate(ncodes);
        let mut defs: Vec<Def> = vec![];
        for k in 0..n { let code = if k < ncodes { codes[k] } else { *r.pick(&codes) }; defs.push(Def::Char { code, len: 2, dst: vec![0x41 + r.below(0x500) as u16] }); }
        r.shuffle(&mut defs);
        let secs = vec![Sec::Cs(vec![(0, 0xFFFF, 2)]), Sec::Chars(defs)];
        c.count("bigsection.cases");
        check_case(c, &mut r, "bigsection", &secs, Stats { strict: true, canonical: false }, false);
    }
    for i in 0..c.n(1600, 30000) {
        let Some(mut r) = c.case("isolated", i) else { continue };
        let defs = gen_defs(&mut r, Mode::Isolated);
        let secs = sectionize(&mut r, &defs);
        check_case(c, &mut r, "isolated", &secs, Stats { strict: true, canonical: false }, false);
    }
    for i in 0..c.n(1600, 30000) {
        let Some(mut r) = c.case("wild", i) else { continue };
        let defs = gen_defs(&mut r, Mode::Wild);
        let secs = sectionize(&mut r, &defs);
        check_case(c, &mut r, "wild", &secs, Stats { strict: false, canonical: false }, false);
    }
    for i in 0..c.n(1200, 25000) {
        let Some(mut r) = c.case("table", i) else { continue };
        let defs = gen_table_defs(&mut r);
        let secs = sectionize(&mut r, &defs);
        check_case(c, &mut r, "table", &secs, Stats { strict: false, canonical: false }, false);
    }
    for i in 0..c.n(1500, 25000) {
        let Some(mut r) = c.case("malformed", i) else { continue };
        malformed_case(c, &mut r);
    }
    // fixed: <0000> <000F> <D83DDE00>, then <0005> <0041>, then <0010> <D83DDE10> — <0005> must stay "A"
    if let Some(mut r) = c.case("continuation-fixed", 0) {
        let secs = vec![Sec::Ranges(vec![rg(0, 0xF, 2, &[&[0xD83D, 0xDE00]])]), Sec::Chars(vec![ch(5, 2, &[0x41])]), Sec::Chars(vec![ch(0x10, 2, &[0xD83D, 0xDE10])])];
        check_case(c, &mut r, "continuation-fixed", &secs, Stats { strict: true, canonical: false }, true);
    }
    if let Some(mut r) = c.case("continuation-fixed", 1) {
        let secs = vec![Sec::Chars(vec![ch(1, 1, &[0xD83D, 0xDE00]), ch(2, 1, &[0xD83D, 0xDE01]), ch(3, 1, &[0xD83D, 0xDE02]), ch(2, 1, &[0x42]), ch(4, 1, &[0xD83D, 0xDE03])])];
        check_case(c, &mut r, "continuation-fixed", &secs, Stats { strict: true, canonical: false }, true);
    }
    // runs, interior redefinitions and continuing bfchars in every order: the last covering definition must keep winning
    for i in 0..c.n(1500, 25000) {
        let Some(mut r) = c.case("continuation", i) else { continue };
        let defs = gen_continuation_defs(&mut r);
        let secs = sectionize(&mut r, &defs);
        check_case(c, &mut r, "continuation", &secs, Stats { strict: true, canonical: false }, true);
    }
    // prefix-related codes and unmapped bytes: the total segmentation spec (theorem cmap_decode_total_defines)
    for i in 0..c.n(1000, 20000) {
        let Some(mut r) = c.case("prefix", i) else { continue };
        let (defs, alphabet) = gen_prefix_defs(&mut r);
        let secs = sectionize(&mut r, &defs);
        PREFIX_ALPHABET.with(|a| *a.borrow_mut() = alphabet);
        check_case(c, &mut r, "prefix", &secs, Stats { strict: true, canonical: false }, true);
        PREFIX_ALPHABET.with(|a| a.borrow_mut().clear());
    }
    // accepted but malformed targets: no panic (theorem cmap_get_no_panic), model/implementation correspondence
    for i in 0..c.n(800, 15000) {
        let Some(mut r) = c.case("sloppy", i) else { continue };
        let mut defs = gen_defs(&mut r, Mode::Wild);
        make_sloppy(&mut r, &mut defs);
        let secs = sectionize(&mut r, &defs);
        check_case(c, &mut r, "sloppy", &secs, Stats { strict: false, canonical: false }, true);
    }
    // the canonical writer of Spec/CMapRender.lean (theorem cmap_parse_render): same text from both sides, read by the real parser
    for i in 0..c.n(400, 6000) {
        let Some(mut r) = c.case("canonical", i) else { continue };
        let defs = gen_defs(&mut r, if i % 2 == 0 { Mode::Isolated } else { Mode::SingleOnly });
        let secs = sectionize(&mut r, &defs);
        check_case(c, &mut r, "canonical", &secs, Stats { strict: true, canonical: true }, true);
    }
    for i in 0..c.n(3 * N_QUIRKS, 40 * N_QUIRKS) {
        let Some(mut r) = c.case("grammar", i) else { continue };
        grammar_case(c, &mut r, i % N_QUIRKS);
    }
}
