//! C15 — not yet built
use crate::ctx::Ctx;
pub fn run(c: &mut Ctx) { c.notes.push("C15: not implemented".into()); }
