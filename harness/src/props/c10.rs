//! C10 — not yet built
use crate::ctx::Ctx;
pub fn run(c: &mut Ctx) { c.notes.push("C10: not implemented".into()); }
