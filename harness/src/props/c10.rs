//! C10 — renumbering objects preserves the document graph.
//! Generator: random documents (page trees with page ids out of page order, sparse ids, non-zero
//! generations, shared / cyclic / dangling references, references from the trailer, bookmarks),
//! built directly and (for a share of the cases) saved and re-loaded; x start values.
//! Real code: `Document::renumber_objects_with(start)`.  Correspondence: whole-document digest
//! against the compiled Lean model.  Oracle (independent of both): the renaming rho is computed
//! directly from page order + id order, applied once, and compared with the real result
//! (objects, trailer, max_id, reference resolution incl. dangling ones, page order, bookmarks).
use crate::codec::*;
use crate::ctx::{guard, Ctx};
use crate::rng::Rng;
use lopdf::{Bookmark, Dictionary, Document, Object, ObjectId, Stream};
use serde_json::json;
use std::collections::{BTreeMap, BTreeSet};

// ---------------------------------------------------------------- document digest (protocol)

pub fn show_bm(doc: &Document) -> String {
    let mut roots = format!("{}", doc.bookmarks.len());
    for b in &doc.bookmarks { roots.push_str(&format!(" {}", b)); }
    let t: BTreeMap<u32, &Bookmark> = doc.bookmark_table.iter().map(|(k, v)| (*k, v)).collect();
    let mut s = format!("{} {}", roots, t.len());
    for (id, b) in t {
        s.push_str(&format!(" {} {} {} {}", id, b.page.0, b.page.1, b.children.len()));
        for c in &b.children { s.push_str(&format!(" {}", c)); }
    }
    s
}
/// `<maxid> <trailer> <objects> <roots> <table>`
pub fn show_doc(doc: &Document) -> String {
    format!("{} {} {} {}", doc.max_id, show_obj(&Object::Dictionary(doc.trailer.clone())),
            show_objects(doc.objects.iter()), show_bm(doc))
}
/// the model keeps the bookmark table in request order; canonical = sorted by id (as `show_bm` prints)
pub fn panic_class(msg: &str) -> &'static str {
    if msg.contains("attempt to add with overflow") { "add" }
    else if msg.contains("attempt to subtract with overflow") { "sub" }
    else { "other" }
}

// ---------------------------------------------------------------- generator

#[derive(Clone, Copy, PartialEq, Debug)]
pub enum Dangling { None, Safe, InRange }

#[derive(Clone, Debug)]
pub struct Opts {
    pub pages_in_id_order: bool,
    pub bookmarks: bool,
    pub dangling: Dangling,
    /// several objects with the same number (different generations), pages listed twice, bookmark ids missing
    pub malformed: bool,
    pub max_other: usize,
    /// 1-4 intermediate Pages nodes, nested into each other (page trees up to 5 levels deep)
    pub deep_tree: bool,
    /// bookmark tables as a program can leave them: entries under a parent id that does not exist (in the table, in no
    /// list), entries listed twice (shared children, a root listed again), child / root ids that are not in the table
    pub loose_bookmarks: bool,
}

pub struct GenDoc { pub doc: Document, pub leaves: Vec<ObjectId>, pub others: Vec<ObjectId> }

fn gen_leaf(r: &mut Rng) -> Object {
    match r.below(8) {
        0 => Object::Null,
        1 => Object::Boolean(r.chance(1, 2)),
        2 => Object::Integer(r.range(-1000, 1000)),
        3 => Object::Real([0.5f32, -1.25, 3.0, 100.125][r.usize(4)]),
        4 => Object::Name(r.pick(&[&b"Font"[..], b"X", b"Fit", b"A B", b""]).to_vec()),
        5 => Object::String((0..r.usize(5)).map(|_| r.byte()).collect(), lopdf::StringFormat::Literal),
        6 => Object::String((0..r.usize(4)).map(|_| r.byte()).collect(), lopdf::StringFormat::Hexadecimal),
        _ => Object::Integer(r.range(0, 9)),
    }
}
pub struct RefPool<'a> { pub ids: &'a [ObjectId], pub dangling: Dangling }
fn gen_ref(r: &mut Rng, p: &RefPool) -> Object {
    if p.dangling != Dangling::None && r.chance(1, 6) {
        return Object::Reference(match p.dangling {
            Dangling::Safe => (3_000_000_000 + r.below(100) as u32, if r.chance(1, 4) { r.below(3) as u16 } else { 0 }),
            _ => { // a number near the existing ones (may or may not exist; if it exists with this generation it is not dangling)
                let base = p.ids[r.usize(p.ids.len())].0;
                ((base as i64 + r.range(-2, 6)).max(0) as u32, if r.chance(1, 6) { 1 } else { 0 })
            }
        });
    }
    Object::Reference(*r.pick(p.ids))
}
pub fn gen_obj(r: &mut Rng, depth: usize, p: &RefPool) -> Object {
    // streams only as top-level objects (a stream cannot be a direct value inside another object)
    let k = if depth >= 3 { r.below(5) } else if depth >= 1 { r.below(9) } else { r.below(10) };
    match k {
        0 | 1 => gen_leaf(r),
        2 | 3 | 4 => gen_ref(r, p),
        5 | 6 => {
            let n = r.usize(5);
            let mut v: Vec<Object> = (0..n).map(|_| gen_obj(r, depth + 1, p)).collect();
            if n > 0 && r.chance(1, 4) { let d = v[r.usize(n)].clone(); v.push(d); } // duplicate entry
            Object::Array(v)
        }
        7 | 8 => Object::Dictionary(gen_dict(r, depth + 1, p)),
        _ => {
            let d = gen_dict(r, depth + 1, p);
            let content: Vec<u8> = (0..r.usize(6)).map(|_| r.byte()).collect();
            Object::Stream(Stream::new(d, content))
        }
    }
}
fn gen_dict(r: &mut Rng, depth: usize, p: &RefPool) -> Dictionary {
    let mut d = Dictionary::new();
    let keys: [&[u8]; 8] = [b"A", b"B", b"Next", b"Prev", b"K", b"Dest", b"F", b"Kids2"];
    for _ in 0..r.usize(5) { d.set(r.pick(&keys).to_vec(), gen_obj(r, depth, p)); }
    d
}

pub fn gen_doc(r: &mut Rng, o: &Opts) -> GenDoc {
    let n_pages = if r.chance(1, 12) { 0 } else { 1 + r.usize(6) };
    let n_nodes = if o.deep_tree { 1 + r.usize(4) } else { r.usize(3) };
    let n_other = r.usize(o.max_other + 1);
    let total = 2 + n_nodes + n_pages + n_other;
    // sparse numbers >= 1, distinct; a few non-zero generations
    let mut cur = if r.chance(1, 3) { r.below(40) as u32 } else { 0 };
    let mut nums: Vec<u32> = vec![];
    for _ in 0..total { cur += 1 + if r.chance(1, 2) { 0 } else { r.below(4) as u32 }; nums.push(cur); }
    let mut ids: Vec<ObjectId> = nums.iter().map(|n| (*n, if r.chance(1, 6) { 1 + r.below(3) as u16 } else { 0 })).collect();
    if o.malformed && r.chance(1, 2) && total > 3 {
        // same number, different generation
        let i = r.usize(total); let j = r.usize(total);
        if i != j { ids[j] = (ids[i].0, ids[i].1 + 1); }
    }
    let all_ids = ids.clone();
    // roles
    let mut pool = ids.clone();
    r.shuffle(&mut pool);
    let mut page_ids: Vec<ObjectId> = pool.drain(..n_pages).collect();
    if o.pages_in_id_order { page_ids.sort(); }
    let cat = pool.pop().unwrap();
    let root = pool.pop().unwrap();
    let node_ids: Vec<ObjectId> = pool.drain(..n_nodes).collect();
    let others: Vec<ObjectId> = pool;
    let rp = RefPool { ids: &all_ids, dangling: o.dangling };
    let mut doc = Document::with_version("1.5");
    // page tree: pages distributed in order over root and intermediate nodes (contiguous runs keep DFS = page_ids order)
    // layout: a sequence of entries; each entry is a page or a node holding a run of pages
    let mut root_kids: Vec<Object> = vec![];
    let mut leaves: Vec<ObjectId> = vec![];
    let mut pi = 0usize;
    let mut ni = 0usize;
    let mut parent_of: BTreeMap<ObjectId, ObjectId> = BTreeMap::new();
    // deep_tree: the path of nodes a new node may be hung under (always as the LAST kid, so that the
    // depth-first order of the pages stays the order in which they are handed out)
    let mut chain: Vec<ObjectId> = vec![];
    while pi < n_pages || ni < n_nodes {
        if ni < n_nodes && (pi >= n_pages || r.chance(1, 3)) {
            let nid = node_ids[ni]; ni += 1;
            let run = if pi < n_pages { r.usize(n_pages - pi + 1).min(3) } else { 0 };
            let mut kids = vec![];
            for _ in 0..run { kids.push(Object::Reference(page_ids[pi])); parent_of.insert(page_ids[pi], nid); leaves.push(page_ids[pi]); pi += 1; }
            let nest = o.deep_tree && !chain.is_empty() && r.chance(3, 4);
            if nest { while chain.len() > 1 && r.chance(1, 4) { chain.pop(); } } else { chain.clear(); }
            let parent = if nest { *chain.last().unwrap() } else { root };
            let mut d = Dictionary::new();
            d.set("Type", Object::Name(b"Pages".to_vec()));
            d.set("Parent", Object::Reference(parent));
            d.set("Count", Object::Integer(run as i64));
            d.set("Kids", Object::Array(kids));
            doc.objects.insert(nid, Object::Dictionary(d));
            if nest {
                for (k, a) in chain.iter().enumerate() {
                    if let Some(Object::Dictionary(ad)) = doc.objects.get_mut(a) {
                        if let Ok(Object::Integer(n)) = ad.get(b"Count") { let n = *n; ad.set("Count", Object::Integer(n + run as i64)); }
                        if k + 1 == chain.len() { if let Ok(Object::Array(ks)) = ad.get_mut(b"Kids") { ks.push(Object::Reference(nid)); } }
                    }
                }
            } else { root_kids.push(Object::Reference(nid)); }
            chain.push(nid);
        } else {
            chain.clear();
            root_kids.push(Object::Reference(page_ids[pi])); parent_of.insert(page_ids[pi], root); leaves.push(page_ids[pi]); pi += 1;
        }
    }
    if o.malformed && n_pages > 0 && r.chance(1, 2) {
        // a page listed twice
        let p = *r.pick(&page_ids);
        let pos = r.usize(root_kids.len() + 1);
        root_kids.insert(pos, Object::Reference(p));
    }
    for p in &page_ids {
        let mut d = Dictionary::new();
        d.set("Type", Object::Name(b"Page".to_vec()));
        d.set("Parent", Object::Reference(parent_of[p]));
        if !others.is_empty() && r.chance(2, 3) { d.set("Contents", Object::Reference(*r.pick(&others))); }
        if r.chance(1, 2) { d.set("Annots", Object::Array((0..r.usize(3)).map(|_| gen_ref(r, &rp)).collect())); }
        if r.chance(1, 3) { d.set("Resources", Object::Dictionary(gen_dict(r, 2, &rp))); }
        if r.chance(1, 4) { d.set("Next", gen_ref(r, &rp)); }
        doc.objects.insert(*p, Object::Dictionary(d));
    }
    let mut rd = Dictionary::new();
    rd.set("Type", Object::Name(b"Pages".to_vec()));
    rd.set("Count", Object::Integer(n_pages as i64));
    rd.set("Kids", Object::Array(root_kids));
    doc.objects.insert(root, Object::Dictionary(rd));
    let mut cd = Dictionary::new();
    cd.set("Type", Object::Name(b"Catalog".to_vec()));
    cd.set("Pages", Object::Reference(root));
    if !others.is_empty() && r.chance(1, 2) { cd.set("Names", Object::Reference(*r.pick(&others))); }
    if r.chance(1, 3) { cd.set("OpenAction", Object::Array(vec![gen_ref(r, &rp), Object::Name(b"Fit".to_vec())])); }
    doc.objects.insert(cat, Object::Dictionary(cd));
    for id in &others {
        let ob = if r.chance(1, 10) { gen_ref(r, &rp) } else {
            match gen_obj(r, 0, &rp) { Object::Reference(x) if r.chance(1, 2) => Object::Array(vec![Object::Reference(x)]), x => x } };
        doc.objects.insert(*id, ob);
    }
    doc.trailer.set("Root", Object::Reference(cat));
    if !others.is_empty() && r.chance(1, 2) { doc.trailer.set("Info", Object::Reference(*r.pick(&others))); }
    if r.chance(1, 3) { doc.trailer.set("ID", Object::Array(vec![Object::string_literal("ab"), Object::string_literal("cd")])); }
    if r.chance(1, 4) { doc.trailer.set("X", gen_obj(r, 1, &rp)); }
    doc.max_id = all_ids.iter().map(|i| i.0).max().unwrap_or(0) + r.below(3) as u32;
    if o.bookmarks {
        let n_b = 1 + r.usize(6);
        let mut made: Vec<u32> = vec![];
        for i in 0..n_b {
            let page = if !leaves.is_empty() && r.chance(5, 6) { *r.pick(&leaves) }
                       else if r.chance(1, 2) { (0, 0) } else { *r.pick(&all_ids) };
            let parent = if !made.is_empty() && r.chance(1, 2) { Some(*r.pick(&made)) } else { None };
            let id = doc.add_bookmark(Bookmark::new(format!("b{}", i), [0.0, 0.0, 0.0], 0, page), parent);
            made.push(id);
        }
        if o.loose_bookmarks {
            for i in 0..1 + r.usize(3) {
                let page = if !leaves.is_empty() && r.chance(5, 6) { *r.pick(&leaves) } else { *r.pick(&all_ids) };
                match r.below(4) {
                    0 => { // parent id that does not exist: the entry is in the table and in no list
                        let id = doc.add_bookmark(Bookmark::new(format!("loose{}", i), [0.0, 0.0, 0.0], 0, page), Some(7000 + r.below(5) as u32));
                        // it may have children of its own
                        if r.chance(1, 2) { let k = doc.add_bookmark(Bookmark::new(format!("loosekid{}", i), [0.0, 0.0, 0.0], 0, *r.pick(&all_ids)), Some(id)); made.push(k); }
                    }
                    1 => { // listed twice: as a child of another entry, or once more at the top
                        let k = *r.pick(&made);
                        if r.chance(1, 2) {
                            // never below itself: the table stays acyclic (a cyclic one is outside the domain, the walk of the outline would not end)
                            let h = *r.pick(&made);
                            let mut below_k: Vec<u32> = vec![k]; let mut i2 = 0;
                            while i2 < below_k.len() && below_k.len() < 1000 { if let Some(b) = doc.bookmark_table.get(&below_k[i2]) { for x in &b.children { if !below_k.contains(x) { below_k.push(*x); } } } i2 += 1; }
                            if !below_k.contains(&h) { if let Some(b) = doc.bookmark_table.get_mut(&h) { let pos = r.usize(b.children.len() + 1); b.children.insert(pos, k); } }
                        }
                        else { let pos = r.usize(doc.bookmarks.len() + 1); doc.bookmarks.insert(pos, k); }
                    }
                    2 => { // a child id that is not in the table, before / between / after the real children
                        let k = *r.pick(&made);
                        if let Some(b) = doc.bookmark_table.get_mut(&k) { let pos = r.usize(b.children.len() + 1); b.children.insert(pos, 9000 + r.below(3) as u32); }
                    }
                    _ => { // a top-level id that is not in the table
                        let pos = r.usize(doc.bookmarks.len() + 1); doc.bookmarks.insert(pos, 9100 + r.below(3) as u32);
                    }
                }
            }
        }
        if o.malformed && r.chance(1, 2) {
            // a child id that is not in the table (update_bookmark_pages returns early)
            let k = *r.pick(&made);
            if let Some(b) = doc.bookmark_table.get_mut(&k) { let pos = r.usize(b.children.len() + 1); b.children.insert(pos, 9999); }
        }
    }
    GenDoc { doc, leaves, others }
}

/// `depth` containers (arrays / dictionaries, mixed; the outermost a stream dictionary when `stream_top`) around `inner`
pub fn deep_chain(r: &mut Rng, depth: usize, inner: Object, stream_top: bool) -> Object {
    let mut cur = inner;
    for level in 0..depth {
        let top = level + 1 == depth;
        let as_dict = (top && stream_top) || r.chance(1, 2);
        if as_dict {
            let mut d = Dictionary::new();
            if r.chance(1, 4) { d.set("A", gen_leaf(r)); }
            d.set(*r.pick(&["K", "Next", "Dest"]), cur);
            if r.chance(1, 4) { d.set("B", gen_leaf(r)); }
            cur = if top && stream_top { Object::Stream(Stream::new(d, vec![1, 2, 3])) } else { Object::Dictionary(d) };
        } else {
            let mut v = vec![];
            if r.chance(1, 4) { v.push(gen_leaf(r)); }
            v.push(cur);
            if r.chance(1, 4) { v.push(gen_leaf(r)); }
            cur = Object::Array(v);
        }
    }
    cur
}
fn pick_depth(r: &mut Rng) -> usize { if r.chance(1, 2) { *r.pick(&[100usize, 126, 127, 128]) } else { 1 + r.usize(128) } }

/// references at nesting depths 1..128 (128 = the deepest the reader accepts): a holder object made of `d`
/// nested containers, reachable from the catalog, whose innermost item is the ONLY reference to a target object
/// (so the target must be renamed / kept / stripped through it); likewise a trailer entry. Returns the depths used.
pub fn add_deep_refs(r: &mut Rng, g: &mut GenDoc) -> Vec<usize> {
    let mut used = vec![];
    let cat = match g.doc.trailer.get(b"Root") { Ok(Object::Reference(c)) => *c, _ => return used };
    let mut next = g.doc.objects.keys().map(|k| k.0).max().unwrap_or(0).max(g.doc.max_id);
    let mut fresh = |r: &mut Rng| -> ObjectId { next += 1 + r.below(3) as u32; (next, if r.chance(1, 8) { 1 } else { 0 }) };
    for k in 0..1 + r.usize(2) {
        let d = pick_depth(r);
        let target = fresh(r); let holder = fresh(r);
        let mut td = Dictionary::new(); td.set("DeepTarget", Object::Integer(d as i64));
        // the target in turn refers to something, so that queuing it matters
        if let Some(x) = g.doc.objects.keys().next().cloned() { td.set("Back", Object::Reference(x)); }
        g.doc.objects.insert(target, Object::Dictionary(td));
        // the holder itself is the outermost container (depth 0), its innermost item sits at depth d
        let st = r.chance(1, 4);
        g.doc.objects.insert(holder, deep_chain(r, d, Object::Reference(target), st));
        if let Some(Object::Dictionary(cd)) = g.doc.objects.get_mut(&cat) { cd.set(format!("Deep{}", k), Object::Reference(holder)); }
        g.others.push(target); g.others.push(holder); used.push(d);
    }
    if r.chance(1, 2) {
        // trailer entries are at depth 1 already
        let d = pick_depth(r);
        let target = fresh(r);
        let mut td = Dictionary::new(); td.set("DeepTarget", Object::Integer(d as i64));
        g.doc.objects.insert(target, Object::Dictionary(td));
        g.doc.trailer.set("Deep", deep_chain(r, d - 1, Object::Reference(target), false));
        g.others.push(target); used.push(d);
    }
    g.doc.max_id = g.doc.max_id.max(next);
    used
}

/// references whose generation disagrees with the stored object's (`7 1 R` next to `7 0 obj`): they denote
/// null — the object (7, 0) is NOT referenced by them. Put into reachable dictionaries; the targets are objects
/// nothing else reaches where there are such. Returns how many were placed.
pub fn add_stale_refs(r: &mut Rng, g: &mut GenDoc) -> usize {
    let keys: Vec<ObjectId> = g.doc.objects.keys().cloned().collect();
    if keys.is_empty() { return 0; }
    let reach = reachable(&g.doc);
    let unreach: Vec<ObjectId> = keys.iter().filter(|k| !reach.contains(k)).cloned().collect();
    let holders: Vec<ObjectId> = g.doc.objects.iter().filter(|(k, o)| reach.contains(k) && matches!(o, Object::Dictionary(_))).map(|(k, _)| *k).collect();
    if holders.is_empty() { return 0; }
    let mut placed = 0;
    for i in 0..1 + r.usize(3) {
        let t = if !unreach.is_empty() && r.chance(2, 3) { *r.pick(&unreach) } else { *r.pick(&keys) };
        let g2 = if t.1 == 0 { 1 + r.below(2) as u16 } else if r.chance(1, 2) { 0 } else { t.1 + 1 };
        if g.doc.objects.contains_key(&(t.0, g2)) { continue; }
        let stale = Object::Reference((t.0, g2));
        let h = *r.pick(&holders);
        if let Some(Object::Dictionary(d)) = g.doc.objects.get_mut(&h) {
            if r.chance(1, 2) { d.set(format!("Stale{}", i), stale); } else { d.set(format!("StaleA{}", i), Object::Array(vec![Object::Integer(0), stale])); }
            placed += 1;
        }
    }
    placed
}

/// save and load again; bookmarks (in-memory only) are carried over
pub fn through_file(doc: &Document) -> Option<Document> {
    let mut d = doc.clone();
    let mut buf = Vec::new();
    d.save_to(&mut buf).ok()?;
    let mut l = Document::load_mem(&buf).ok()?;
    l.bookmarks = doc.bookmarks.clone();
    l.bookmark_table = doc.bookmark_table.clone();
    l.max_bookmark_id = doc.max_bookmark_id;
    Some(l)
}

// ---------------------------------------------------------------- oracle (reference renaming)

pub fn map_refs(o: &Object, f: &dyn Fn(ObjectId) -> ObjectId) -> Object {
    match o {
        Object::Reference(id) => Object::Reference(f(*id)),
        Object::Array(a) => Object::Array(a.iter().map(|x| map_refs(x, f)).collect()),
        Object::Dictionary(d) => Object::Dictionary(map_refs_dict(d, f)),
        Object::Stream(s) => { let mut s2 = s.clone(); s2.dict = map_refs_dict(&s.dict, f); Object::Stream(s2) }
        x => x.clone(),
    }
}
pub fn map_refs_dict(d: &Dictionary, f: &dyn Fn(ObjectId) -> ObjectId) -> Dictionary {
    let mut n = Dictionary::new();
    for (k, v) in d.iter() { n.set(k.clone(), map_refs(v, f)); }
    n
}
pub fn collect_refs(o: &Object, out: &mut Vec<ObjectId>) {
    match o {
        Object::Reference(id) => out.push(*id),
        Object::Array(a) => for x in a { collect_refs(x, out) },
        Object::Dictionary(d) => for (_, v) in d.iter() { collect_refs(v, out) },
        Object::Stream(s) => for (_, v) in s.dict.iter() { collect_refs(v, out) },
        _ => {}
    }
}
/// ids reachable from the trailer through existing objects (includes dangling ids that are referenced)
pub fn reachable(doc: &Document) -> BTreeSet<ObjectId> {
    let mut seen = BTreeSet::new();
    let mut todo = vec![];
    for (_, v) in doc.trailer.iter() { collect_refs(v, &mut todo); }
    while let Some(id) = todo.pop() {
        if !seen.insert(id) { continue; }
        if let Some(o) = doc.objects.get(&id) { collect_refs(o, &mut todo); }
    }
    seen
}
/// ordered-equality of objects is too strict for dictionaries? No: renaming keeps entry order; compare protocol text.
fn same(a: &Object, b: &Object) -> bool { canon_line(&show_obj(a)) == canon_line(&show_obj(b)) }

/// the renaming a correct renumbering realises: k-th page in page order gets the number of the k-th
/// smallest page id (own generation) when pages are out of id order; then all ids, sorted, get
/// consecutive numbers from `start` (own generation).
pub fn reference_rho(doc: &Document, leaves: &[ObjectId], start: u32) -> BTreeMap<ObjectId, ObjectId> {
    let mut sorted = leaves.to_vec(); sorted.sort();
    let mut rho1: BTreeMap<ObjectId, ObjectId> = doc.objects.keys().map(|k| (*k, *k)).collect();
    if sorted != leaves {
        for (k, p) in leaves.iter().enumerate() { rho1.insert(*p, (sorted[k].0, p.1)); }
    }
    let mut mid: Vec<ObjectId> = rho1.values().cloned().collect(); mid.sort();
    let rho2: BTreeMap<ObjectId, ObjectId> = mid.iter().enumerate().map(|(k, id)| (*id, (start + k as u32, id.1))).collect();
    rho1.into_iter().map(|(old, m)| (old, rho2[&m])).collect()
}

/// keys after a correct page-order pass (before the dense pass)
fn intermediate_keys(doc: &Document, leaves: &[ObjectId]) -> BTreeSet<ObjectId> {
    let mut sorted = leaves.to_vec(); sorted.sort();
    let mut keys: BTreeSet<ObjectId> = doc.objects.keys().cloned().collect();
    if sorted != leaves {
        for p in leaves { keys.remove(p); }
        for (k, p) in leaves.iter().enumerate() { keys.insert((sorted[k].0, p.1)); }
    }
    keys
}

fn check_dense(c: &mut Ctx, before: &Document, after: &Document, start: u32, strict_count: bool, case: &serde_json::Value) {
    let n = after.objects.len() as u32;
    let nums: Vec<u32> = after.objects.keys().map(|k| k.0).collect();
    let want: Vec<u32> = (0..n as u64).map(|i| (start as u64 + i) as u32).collect();
    if nums != want { c.oracle_fail("dense:numbers", "object numbers are not start..start+n-1", case.clone()); }
    if n > 0 && after.max_id != start + (n - 1) { c.oracle_fail("dense:max_id", "max_id is not the last number", case.clone()); }
    if n == 0 && after.max_id != start.saturating_sub(1) { c.oracle_fail("dense:max_id", "empty document: max_id is not start - 1", case.clone()); }
    if strict_count && after.objects.len() != before.objects.len() {
        c.oracle_fail("dense:count", "number of objects changed", case.clone());
    }
}

#[derive(PartialEq, Clone, Copy)]
enum Mode { Full, SanityOnly }

/// run one case: real code, correspondence, oracle. Returns the real result.
fn run_case(c: &mut Ctx, stream: &str, g: &GenDoc, start: u32, mode: Mode) {
    let doc = &g.doc;
    let req = format!("renumber {} {}", start, show_doc(doc));
    c.count(&format!("{}.cases", stream));
    let real = guard(|| { let mut d = doc.clone(); d.renumber_objects_with(start); d });
    let short = if req.len() < 600 { req.clone() } else { format!("{}…", &req[..600]) };
    let case = json!({"stream": stream, "start": start, "request": short});
    let after = match real {
        Ok(d) => { c.corr(req.clone(), format!("ok {}", show_doc(&d))); d }
        Err((site, msg)) => {
            let cls = panic_class(&msg);
            c.corr(req.clone(), format!("panic {}", cls));
            c.count(&format!("panic.{}", cls));
            let total = start as u64 + doc.objects.len() as u64;
            let in_processor = site.starts_with("src/processor.rs");
            if in_processor && cls == "sub" && doc.objects.is_empty() && start == 0 {
                // no object, no "last number": outside what the property talks about
                c.count("observation.panic_start0_on_empty_document"); return;
            }
            if in_processor && cls == "add" && total > u32::MAX as u64 + 1 {
                // the ids start..start+n-1 do not fit into u32: no correct result exists
                c.count("observation.panic_ids_do_not_fit_u32"); return;
            }
            // total == 2^32: every id fits (the last one is u32::MAX) and the call still panics
            let sig = if in_processor && cls == "add" && total == u32::MAX as u64 + 1 { "panic:add:last-id-is-u32-max".to_string() }
                      else { format!("panic@{}", site) };
            c.oracle_fail(&sig, &msg, case);
            return;
        }
    };
    c.nontrivial(&req);
    if doc.objects.len() >= 4 { c.count("objects_ge_4"); }
    check_dense(c, doc, &after, start, mode == Mode::Full, &case);
    if mode == Mode::SanityOnly { return; }
    // ---- reference renaming
    let rho = reference_rho(doc, &g.leaves, start);
    { let mut s = g.leaves.to_vec(); s.sort(); if s != g.leaves { c.count("pages_reordered"); } }
    let new_keys: BTreeSet<ObjectId> = rho.values().cloned().collect();
    let f = |id: ObjectId| -> ObjectId { *rho.get(&id).unwrap_or(&id) };
    let reach = reachable(doc);
    // dangling references that a moved object now answers to (at the final ids, or already at the
    // intermediate ids after the page-order pass — then the reference itself is renamed by the dense pass)
    let mut all_refs = vec![];
    for (_, v) in doc.trailer.iter() { collect_refs(v, &mut all_refs); }
    for id in reach.iter() { if let Some(o) = doc.objects.get(id) { collect_refs(o, &mut all_refs); } }
    let mid_keys = intermediate_keys(doc, &g.leaves);
    let captured: Vec<ObjectId> = all_refs.iter().filter(|r| !doc.objects.contains_key(r) && (new_keys.contains(r) || mid_keys.contains(r))).cloned().collect();
    if !captured.is_empty() {
        c.count("dangling_captured");
        // on the REAL result: walk old and new holders in parallel; a reference that was dangling and now resolves
        let mut pairs: Vec<(ObjectId, ObjectId)> = vec![];
        { let mut a = vec![]; let mut b = vec![];
          for (_, v) in doc.trailer.iter() { collect_refs(v, &mut a); }
          for (_, v) in after.trailer.iter() { collect_refs(v, &mut b); }
          if a.len() == b.len() { pairs.extend(a.into_iter().zip(b)); } }
        for id in reach.iter() {
            if let (Some(o), Some(n)) = (doc.objects.get(id), after.objects.get(&f(*id))) {
                let mut a = vec![]; let mut b = vec![];
                collect_refs(o, &mut a); collect_refs(n, &mut b);
                if a.len() == b.len() { pairs.extend(a.into_iter().zip(b)); }
            }
        }
        if pairs.iter().any(|(o, n)| !doc.objects.contains_key(o) && after.objects.contains_key(n)) {
            c.oracle_fail("dangling-captured", "a reference that resolved to nothing resolves to a renumbered object afterwards",
                json!({"stream": stream, "start": start, "request": case["request"], "refs": format!("{:?}", captured)}));
            // everything below (trailer and object equality, page order) is affected by the capture, whether the
            // dangling reference sits in an object or directly in the trailer: reported once, under this signature
            return;
        }
        // the capture was possible but did not happen on the real code: all checks below apply unchanged
        c.count("dangling_capture_possible_but_absent");
    } else if all_refs.iter().any(|r| !doc.objects.contains_key(r)) { c.count("dangling_still_dangling"); }
    // trailer
    if !same(&Object::Dictionary(map_refs_dict(&doc.trailer, &f)), &Object::Dictionary(after.trailer.clone())) {
        c.oracle_fail("iso:trailer", "trailer is not the original with references renamed", case.clone());
    }
    // objects: every old object sits at rho(id); reachable ones renamed, others untouched.
    // (an unreachable object that became reachable through a captured dangling reference is renamed too: skip those cases)
    {
        for (old, o) in doc.objects.iter() {
            let want = if reach.contains(old) { map_refs(o, &f) } else { o.clone() };
            match after.objects.get(&f(*old)) {
                Some(got) if same(got, &want) => {}
                Some(_) => { c.oracle_fail(if reach.contains(old) { "iso:object" } else { "iso:unreachable-object-changed" },
                    "object at rho(id) is not the original with references renamed", json!({"case": case, "old": format!("{:?}", old)})); break; }
                None => { c.oracle_fail("iso:object-missing", "no object at rho(id)", json!({"case": case, "old": format!("{:?}", old)})); break; }
            }
        }
        // resolution of every reference of the reachable part
        for r in &all_refs {
            let before = doc.objects.get(r);
            let after_o = after.objects.get(&f(*r));
            let ok = match (before, after_o) {
                (None, None) => true,
                (Some(b), Some(a)) => same(&if reach.contains(r) { map_refs(b, &f) } else { b.clone() }, a),
                _ => false };
            if !ok { c.oracle_fail("iso:resolve", "a reference does not resolve to the renamed original", json!({"case": case, "ref": format!("{:?}", r)})); break; }
        }
        c.count_n("references_checked", all_refs.len() as u64);
    }
    // page order
    let pages_after: Vec<ObjectId> = after.page_iter().collect();
    let want_pages: Vec<ObjectId> = g.leaves.iter().map(|p| f(*p)).collect();
    if pages_after != want_pages {
        c.oracle_fail("iso:page-order", "page order changed", json!({"case": case, "want": format!("{:?}", want_pages), "got": format!("{:?}", pages_after)}));
    }
    // order (renumber_spec / renumber_monotone / renumber_pages_ascending), stated without the reference renaming:
    // pages get strictly ascending numbers in page order; objects that are not pages keep their relative order
    {
        let nums: BTreeSet<u32> = doc.objects.keys().map(|k| k.0).collect();
        if nums.len() == doc.objects.len() {
            let mut first: Vec<ObjectId> = Vec::new();
            for p in &pages_after { if !first.contains(p) { first.push(*p); } }
            if first.windows(2).any(|w| w[0].0 >= w[1].0) {
                c.oracle_fail("order:pages-ascending", "page numbers do not ascend in page order", json!({"case": case, "pages": format!("{:?}", pages_after)}));
            }
            let leaves: BTreeSet<ObjectId> = g.leaves.iter().cloned().collect();
            let others: Vec<u32> = doc.objects.keys().filter(|k| !leaves.contains(k)).map(|k| f(*k).0).collect();
            if others.windows(2).any(|w| w[0] >= w[1]) {
                c.oracle_fail("order:non-pages", "objects that are not pages changed their relative order", case.clone());
            }
            c.count("order_checked");
        }
    }
    // bookmarks
    if !doc.bookmark_table.is_empty() {
        let seq = sequential_pairs(doc, &g.leaves, start);
        let mut chain = 0; let mut other = 0;
        {
            // which entries the outline reaches, and how often (the check below does not depend on it)
            let mut listed: BTreeMap<u32, usize> = BTreeMap::new();
            let mut stack: Vec<u32> = doc.bookmarks.iter().rev().cloned().collect();
            let mut steps = 0;
            while let Some(id) = stack.pop() { steps += 1; if steps > 10_000 { break; }
                if let Some(b) = doc.bookmark_table.get(&id) { let n = listed.entry(id).or_insert(0); *n += 1; if *n <= 2 { for k in b.children.iter().rev() { stack.push(*k); } } }
                else { c.count("bookmark_list_id_not_in_table"); } }
            for id in doc.bookmark_table.keys() { match listed.get(id) { None => c.count("bookmark_entry_not_in_outline"), Some(n) if *n > 1 => c.count("bookmark_entry_listed_twice"), _ => {} } }
            if after.bookmark_table.len() != doc.bookmark_table.len() || after.bookmarks != doc.bookmarks
                || doc.bookmark_table.iter().any(|(id, b)| after.bookmark_table.get(id).map(|a| a.children != b.children || a.title != b.title) != Some(false)) {
                c.oracle_fail("bookmark-frame", "renumbering changed the outline structure (ids, children, titles)", case.clone());
            }
        }
        for (id, b) in doc.bookmark_table.iter() {
            let got = after.bookmark_table[id].page;
            let want = f(b.page);
            if got != want {
                let mut p = b.page;
                for (o, n) in &seq { if p == *o { p = *n; } }
                if got == p { chain += 1 } else { other += 1 }
            } else { c.count("bookmark_ok"); }
        }
        if other > 0 { c.oracle_fail("bookmark-target:other", "a bookmark does not point at the renamed page", case.clone()); }
        else if chain > 0 {
            c.count("bookmark_chained");
            c.oracle_fail("bookmark-target:sequential-chain", "a bookmark target was renamed more than once (old and new numbers overlap)", case.clone());
        }
    }
    c.sample(json!({"stream": stream, "start": start, "objects": doc.objects.len(), "pages": g.leaves.len(),
                    "bookmarks": doc.bookmark_table.len(), "request": if req.len() < 300 { req } else { format!("{}…", &req[..300]) }}));
}

/// the (old, new) pairs in the order in which a sequential renamer would meet them — used ONLY to
/// classify a wrong bookmark as "renamed more than once" (finding F-C10-a) versus anything else
fn sequential_pairs(doc: &Document, leaves: &[ObjectId], start: u32) -> Vec<(ObjectId, ObjectId)> {
    let mut seq = vec![];
    let mut sorted = leaves.to_vec(); sorted.sort();
    let mut keys: BTreeSet<ObjectId> = doc.objects.keys().cloned().collect();
    if sorted != leaves {
        for (k, p) in leaves.iter().enumerate() { let n = (sorted[k].0, p.1); if *p != n { seq.push((*p, n)); } }
        for (k, p) in leaves.iter().enumerate() { let _ = k; keys.remove(p); }
        for (k, p) in leaves.iter().enumerate() { keys.insert((sorted[k].0, p.1)); }
    }
    for (k, id) in keys.iter().enumerate() { let n = (start + k as u32, id.1); if id.0 != n.0 { seq.push((*id, n)); } }
    seq
}

fn pick_start(r: &mut Rng, doc: &Document, kinds: &[u8]) -> u32 {
    let lo = doc.objects.keys().map(|k| k.0).min().unwrap_or(1);
    let hi = doc.objects.keys().map(|k| k.0).max().unwrap_or(1);
    match *r.pick(kinds) {
        0 => 1,
        1 => lo + r.below((hi - lo + 1) as u64) as u32,                 // inside the range
        2 => hi + 1 + r.below(20) as u32,                                 // above it
        3 => 1_000_000 + r.below(2_000_000_000) as u32,                   // large
        _ => 0,
    }
}

/// independent page enumeration for the oracle: plain recursive DFS over direct `Kids` arrays of
/// dictionaries typed Pages / Page (enough for the documents generated here)
pub fn oracle_pages(doc: &Document) -> Vec<ObjectId> {
    fn walk(doc: &Document, id: ObjectId, depth: usize, out: &mut Vec<ObjectId>) {
        if depth > 50 { return; }
        if let Some(Object::Dictionary(d)) = doc.objects.get(&id) {
            match d.get(b"Type") {
                Ok(Object::Name(n)) if n == b"Page" => out.push(id),
                Ok(Object::Name(n)) if n == b"Pages" => {
                    if let Ok(Object::Array(kids)) = d.get(b"Kids") {
                        for k in kids { if let Object::Reference(kid) = k { walk(doc, *kid, depth + 1, out); } }
                    }
                }
                _ => {}
            }
        }
    }
    let mut out = vec![];
    if let Ok(Object::Reference(cat)) = doc.trailer.get(b"Root") {
        if let Some(Object::Dictionary(c)) = doc.objects.get(cat) {
            if let Ok(Object::Reference(root)) = c.get(b"Pages") {
                if let Some(Object::Dictionary(rd)) = doc.objects.get(root) {
                    if let Ok(Object::Array(kids)) = rd.get(b"Kids") {
                        for k in kids { if let Object::Reference(kid) = k { walk(doc, *kid, 1, &mut out); } }
                    }
                }
            }
        }
    }
    out
}

fn maybe_loaded(c: &mut Ctx, r: &mut Rng, g: GenDoc) -> GenDoc {
    if r.chance(1, 4) {
        if let Some(l) = through_file(&g.doc) {
            c.count("loaded_from_generated_file");
            if l.objects.len() < g.doc.objects.len() {
                c.count("loaded_with_fewer_objects");
                if std::env::var("C10_DEBUG_LOAD").is_ok() {
                    for (id, o) in g.doc.objects.iter() { if !l.objects.contains_key(id) { eprintln!("LOST {:?} {}", id, show_obj(o)); } }
                }
            }
            let leaves = oracle_pages(&l);
            return GenDoc { doc: l, leaves, others: g.others };
        }
        c.count("load_failed");
    }
    g
}

pub fn run(c: &mut Ctx) {
    c.rule = "random documents: 0-6 pages over a root and 0-2 intermediate Pages nodes (stream deep_nesting: 1-4, nested up to 5 levels) with page ids shuffled against page order, \
sparse numbers, non-zero generations, up to 10 further objects (arrays/dicts/streams/top-level references) whose references are shared, cyclic, \
from the trailer, dangling (out of range), unreachable holders; references inside 1..128 nested arrays / dictionaries / stream dictionaries that are the only way to their target (deep_nesting); references with a generation the stored object does not have (stale_generation); bookmarks via Document::add_bookmark (stream bookmarks_loose: entries under a parent that does not exist, entries listed twice, child / top-level ids missing from the table); 1 in 4 saved and re-loaded; \
start in {0, 1, inside the id range, above it, large}. Non-trivial = the call returned (no panic) on a document; distinct by request text.".into();
    witnesses(c);
    // ---- graphs without bookmarks, all start values: full isomorphism oracle
    for i in 0..c.n(4000, 80000) {
        let Some(mut r) = c.case("graph", i) else { continue };
        let o = Opts { pages_in_id_order: r.chance(1, 5), bookmarks: false, dangling: if r.chance(1, 2) { Dangling::Safe } else { Dangling::None }, malformed: false, max_other: 10, deep_tree: false, loose_bookmarks: false };
        let g = gen_doc(&mut r, &o);
        let g = maybe_loaded(c, &mut r, g);
        let start = pick_start(&mut r, &g.doc, &[0, 0, 1, 1, 2, 3, 4]);
        run_case(c, "graph", &g, start, Mode::Full);
    }
    // ---- bookmarks where old and new numberings cannot chain (pages in id order; start 1 / above / large)
    for i in 0..c.n(1500, 30000) {
        let Some(mut r) = c.case("bookmarks", i) else { continue };
        let o = Opts { pages_in_id_order: true, bookmarks: true, dangling: Dangling::Safe, malformed: false, max_other: 8, deep_tree: false, loose_bookmarks: false };
        let g = gen_doc(&mut r, &o);
        let g = maybe_loaded(c, &mut r, g);
        let start = pick_start(&mut r, &g.doc, &[0, 2, 3]);
        run_case(c, "bookmarks", &g, start, Mode::Full);
    }
    // ---- known-finding territory: bookmarks with overlapping numberings, dangling references in range
    for i in 0..c.n(300, 5000) {
        let Some(mut r) = c.case("bookmarks_overlap", i) else { continue }; // known territory
        let o = Opts { pages_in_id_order: false, bookmarks: true, dangling: Dangling::None, malformed: false, max_other: 6, deep_tree: false, loose_bookmarks: false };
        let g = gen_doc(&mut r, &o);
        let start = pick_start(&mut r, &g.doc, &[0, 1, 1, 2]);
        run_case(c, "bookmarks_overlap", &g, start, Mode::Full);
    }
    // ---- bookmark tables with loose entries, entries listed twice, ids missing from the table; numberings overlap or not.
    // The oracle wants EVERY entry of the table at rho(old page) (the statement of bookmarks_follow_rho).
    for i in 0..c.n(500, 8000) {
        let Some(mut r) = c.case("bookmarks_loose", i) else { continue };
        let o = Opts { pages_in_id_order: r.chance(1, 2), bookmarks: true, dangling: if r.chance(1, 2) { Dangling::Safe } else { Dangling::None }, malformed: false, max_other: 6, deep_tree: false, loose_bookmarks: true };
        let g = gen_doc(&mut r, &o);
        let start = pick_start(&mut r, &g.doc, &[0, 1, 1, 1, 2, 3]);
        run_case(c, "bookmarks_loose", &g, start, Mode::Full);
    }
    for i in 0..c.n(300, 5000) {
        let Some(mut r) = c.case("dangling_in_range", i) else { continue };
        let o = Opts { pages_in_id_order: r.chance(1, 2), bookmarks: false, dangling: Dangling::InRange, malformed: false, max_other: 8, deep_tree: false, loose_bookmarks: false };
        let g = gen_doc(&mut r, &o);
        let start = pick_start(&mut r, &g.doc, &[0, 1, 2]);
        run_case(c, "dangling_in_range", &g, start, Mode::Full);
    }
    // ---- references at nesting depths up to 128 (the referenced object is reached through them only), deeper page trees
    for i in 0..c.n(250, 4000) {
        let Some(mut r) = c.case("deep_nesting", i) else { continue };
        let o = Opts { pages_in_id_order: r.chance(1, 3), bookmarks: false, dangling: if r.chance(1, 2) { Dangling::Safe } else { Dangling::None }, malformed: false, max_other: 5, deep_tree: r.chance(1, 2), loose_bookmarks: false };
        let mut g = gen_doc(&mut r, &o);
        for d in add_deep_refs(&mut r, &mut g) { c.count(if d >= 126 { "deep_ref_depth_ge_126" } else if d >= 64 { "deep_ref_depth_ge_64" } else { "deep_ref_depth_lt_64" }); if d == 128 { c.count("deep_ref_depth_128"); } }
        let g = maybe_loaded(c, &mut r, g);
        let start = pick_start(&mut r, &g.doc, &[0, 1, 1, 2, 3]);
        run_case(c, "deep_nesting", &g, start, Mode::Full);
    }
    // ---- references whose generation disagrees with the stored object's: dangling, must stay so (or be a registered capture)
    for i in 0..c.n(250, 4000) {
        let Some(mut r) = c.case("stale_generation", i) else { continue };
        let o = Opts { pages_in_id_order: r.chance(1, 3), bookmarks: false, dangling: Dangling::None, malformed: false, max_other: 8, deep_tree: r.chance(1, 3), loose_bookmarks: false };
        let mut g = gen_doc(&mut r, &o);
        let n = add_stale_refs(&mut r, &mut g);
        c.count_n("stale_generation_refs", n as u64);
        let start = pick_start(&mut r, &g.doc, &[0, 1, 1, 2, 3]);
        run_case(c, "stale_generation", &g, start, Mode::Full);
    }
    // ---- outside the guarded domain (same number twice, page listed twice, missing bookmark ids): model = code, dense numbering
    for i in 0..c.n(1000, 20000) {
        let Some(mut r) = c.case("malformed", i) else { continue };
        let o = Opts { pages_in_id_order: false, bookmarks: r.chance(1, 2), dangling: Dangling::InRange, malformed: true, max_other: 6, deep_tree: false, loose_bookmarks: false };
        let g = gen_doc(&mut r, &o);
        let start = pick_start(&mut r, &g.doc, &[0, 1, 2, 3, 4]);
        run_case(c, "malformed", &g, start, Mode::SanityOnly);
    }
    // ---- u32 boundary
    // back = how far the last id start+n-1 stays below u32::MAX (negative: beyond)
    for (i, back) in [-3i64, -1, 0, 0, 1, 2, 40].iter().enumerate() {
        let Some(mut r) = c.case("u32_boundary", i as u64) else { continue };
        let o = Opts { pages_in_id_order: false, bookmarks: false, dangling: Dangling::None, malformed: false, max_other: 3, deep_tree: false, loose_bookmarks: false };
        let g = gen_doc(&mut r, &o);
        let n = g.doc.objects.len() as i64;
        let start = (u32::MAX as i64 - back - (n - 1)).clamp(0, u32::MAX as i64) as u32;
        run_case(c, "u32_boundary", &g, start, Mode::Full);
    }
}

// ---------------------------------------------------------------- canonical witnesses of the known findings

fn dict(kv: Vec<(&str, Object)>) -> Object { let mut d = Dictionary::new(); for (k, v) in kv { d.set(k, v); } Object::Dictionary(d) }
fn rf(n: u32) -> Object { Object::Reference((n, 0)) }

/// ids 1..5: 1 catalog, 2 pages root, 3 / 4 pages, 5 info
pub fn witness_doc_1to5() -> Document {
    let mut d = Document::with_version("1.5");
    d.objects.insert((1, 0), dict(vec![("Type", Object::Name(b"Catalog".to_vec())), ("Pages", rf(3))]));
    d.objects.insert((2, 0), dict(vec![("Type", Object::Name(b"Page".to_vec())), ("Parent", rf(3))]));
    d.objects.insert((3, 0), dict(vec![("Type", Object::Name(b"Pages".to_vec())), ("Count", Object::Integer(2)), ("Kids", Object::Array(vec![rf(2), rf(4)]))]));
    d.objects.insert((4, 0), dict(vec![("Type", Object::Name(b"Page".to_vec())), ("Parent", rf(3))]));
    d.objects.insert((5, 0), dict(vec![("Title", Object::string_literal("t"))]));
    d.trailer.set("Root", rf(1));
    d.trailer.set("Info", rf(5));
    d.max_id = 5;
    d
}

fn witnesses(c: &mut Ctx) {
    // F-C10-a: renumber_objects_with(2) on ids 1..5, bookmark on page (2,0)
    if let Some(_r) = c.case("witness_bookmark_chain", 0) {
        let mut d = witness_doc_1to5();
        d.add_bookmark(Bookmark::new("b".into(), [0.0; 3], 0, (2, 0)), None);
        let req = format!("renumber 2 {}", show_doc(&d));
        match guard(|| { let mut x = d.clone(); x.renumber_objects_with(2); x }) {
            Ok(x) => {
                c.corr(req, format!("ok {}", show_doc(&x)));
                let got = x.bookmark_table[&1].page;
                // the page object (2,0) now lives at (3,0)
                let page_moved_to_3 = matches!(x.objects.get(&(3, 0)), Some(Object::Dictionary(dd)) if dd.has_type(b"Page"));
                c.witness("F-C10-a", page_moved_to_3 && got == (6, 0),
                    &format!("renumber_objects_with(2) on ids 1..5: bookmark on page (2,0) ends at {:?}; the page moved to (3,0)", got));
            }
            Err((s, m)) => c.oracle_fail(&format!("panic@{}", s), &m, json!({"witness": "F-C10-a"})),
        }
    }
    // F-C10-a, second shape: plain renumber_objects() when the page-order pass swaps two pages
    if let Some(_r) = c.case("witness_bookmark_swap", 0) {
        let mut d = witness_doc_1to5();
        // page order 4, 2
        if let Some(Object::Dictionary(p)) = d.objects.get_mut(&(3, 0)) { p.set("Kids", Object::Array(vec![rf(4), rf(2)])); }
        d.add_bookmark(Bookmark::new("first".into(), [0.0; 3], 0, (4, 0)), None);
        d.add_bookmark(Bookmark::new("second".into(), [0.0; 3], 0, (2, 0)), None);
        let req = format!("renumber 1 {}", show_doc(&d));
        match guard(|| { let mut x = d.clone(); x.renumber_objects(); x }) {
            Ok(x) => {
                c.corr(req, format!("ok {}", show_doc(&x)));
                let pages: Vec<ObjectId> = x.page_iter().collect();
                let b1 = x.bookmark_table[&1].page; let b2 = x.bookmark_table[&2].page;
                c.witness("F-C10-a", pages == vec![(2, 0), (4, 0)] && !(b1 == (2, 0) && b2 == (4, 0)),
                    &format!("renumber_objects() with page order [4,2]: pages now {:?}, bookmark of first page -> {:?}, of second page -> {:?}", pages, b1, b2));
            }
            Err((s, m)) => c.oracle_fail(&format!("panic@{}", s), &m, json!({"witness": "F-C10-a"})),
        }
    }
    // F-C10-b: ids 1,2,3,4,8 with a dangling `5 0 R`: after renumber_objects() object 8 answers to `5 0 R`
    if let Some(_r) = c.case("witness_dangling_captured", 0) {
        let mut d = witness_doc_1to5();
        let info = d.objects.remove(&(5, 0)).unwrap();
        d.objects.insert((8, 0), info);
        d.trailer.set("Info", rf(8));
        if let Some(Object::Dictionary(cat)) = d.objects.get_mut(&(1, 0)) { cat.set("Dangling", rf(5)); }
        d.max_id = 8;
        let before = d.objects.get(&(5, 0)).is_none();
        let req = format!("renumber 1 {}", show_doc(&d));
        match guard(|| { let mut x = d.clone(); x.renumber_objects(); x }) {
            Ok(x) => {
                c.corr(req, format!("ok {}", show_doc(&x)));
                let still_ref5 = matches!(x.objects.get(&(1, 0)), Some(Object::Dictionary(cat)) if matches!(cat.get(b"Dangling"), Ok(Object::Reference((5, 0)))));
                let now = x.objects.get(&(5, 0)).is_some();
                c.witness("F-C10-b", before && still_ref5 && now,
                    "ids 1,2,3,4,8 + dangling `5 0 R` in the catalog: after renumber_objects() `5 0 R` resolves to the former object 8");
            }
            Err((s, m)) => c.oracle_fail(&format!("panic@{}", s), &m, json!({"witness": "F-C10-b"})),
        }
    }
    // F-C10-c: every assigned id fits (last id = u32::MAX) and the call still panics at `new_id += 1`.
    // Observations outside the property's domain: start 0 on an empty document, ids that do not fit.
    if let Some(_r) = c.case("witness_domain", 0) {
        let d = Document::with_version("1.5");
        let req = format!("renumber 0 {}", show_doc(&d));
        let res = guard(|| { let mut x = d.clone(); x.renumber_objects_with(0); x });
        let rep = match &res { Ok(x) => format!("ok {}", show_doc(x)), Err((_, m)) => format!("panic {}", panic_class(m)) };
        c.corr(req, rep);
        if res.is_err() { c.count("observation.panic_start0_on_empty_document"); }
        let d2 = witness_doc_1to5();
        let req2 = format!("renumber {} {}", u32::MAX - 4, show_doc(&d2));
        let res2 = guard(|| { let mut x = d2.clone(); x.renumber_objects_with(u32::MAX - 4); x });
        let rep2 = match &res2 { Ok(x) => format!("ok {}", show_doc(x)), Err((_, m)) => format!("panic {}", panic_class(m)) };
        c.corr(req2, rep2);
        let p2 = matches!(&res2, Err((s, m)) if s.starts_with("src/processor.rs") && panic_class(m) == "add");
        // fixed: reproduced = the call panics again although every id fits
        c.witness("F-C10-c", p2, &format!("5 objects, renumber_objects_with(u32::MAX - 4), every id fits: {}", match &res2 { Ok(x) => format!("returned, max_id = {}", x.max_id), Err((s, m)) => format!("panic at {} ({})", s, m) }));
    }
}
