//! C16 — not yet built
use crate::ctx::Ctx;
pub fn run(c: &mut Ctx) { c.notes.push("C16: not implemented".into()); }
