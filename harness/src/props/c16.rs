//! C16 — text strings and one-byte encodings round-trip text.
//!
//! Real code exercised: `text_string`, `decode_text_string`, `encode_utf16_be`, `encode_utf8`,
//! `Dictionary::get_font_encoding`, `Document::{decode_text, encode_text}`, `Document::extract_text`
//! (before and after `save_to` + `load_mem`).
//! Correspondence: every request below is answered by the compiled Lean model (`Model/Text.lean`).
//! Oracles (independent of lopdf and of the model): round-trip equalities stated on Rust `String`s,
//! the published charts (ISO 32000-1 Annex D) written out below, a hand-written UTF-16BE reference
//! decoder, and the text the document generator intended to show.
use crate::codec::*;
use crate::ctx::{guard, Ctx};
use crate::rng::Rng;
use lopdf::content::{Content, Operation};
use lopdf::{Dictionary, Document, Encoding, Object, Stream, StringFormat};
use serde_json::json;

const NAMES: [&str; 5] = ["StandardEncoding", "MacRomanEncoding", "MacExpertEncoding", "WinAnsiEncoding", "PDFDocEncoding"];

fn ustr(s: &str) -> String {
    if s.is_empty() { return "-".into(); }
    s.chars().map(|c| format!("{:x}", c as u32)).collect::<Vec<_>>().join(".")
}
fn show_res(r: &Result<Result<String, lopdf::Error>, (String, String)>) -> String {
    match r {
        Ok(Ok(s)) => format!("ok {}", ustr(s)),
        Ok(Err(_)) => "err".into(),
        Err((site, _)) => format!("panic {}", site),
    }
}
fn font(enc: Option<Object>) -> Dictionary {
    let mut d = Dictionary::new();
    d.set("Type", Object::Name(b"Font".to_vec()));
    d.set("Subtype", Object::Name(b"Type1".to_vec()));
    d.set("BaseFont", Object::Name(b"Helvetica".to_vec()));
    if let Some(e) = enc { d.set("Encoding", e); }
    d
}
fn named_font(n: &str) -> Dictionary { font(Some(Object::Name(n.as_bytes().to_vec()))) }

fn cells(t: &[Option<u16>; 256]) -> String {
    t.iter().map(|c| match c { Some(u) => format!("{:x}", u), None => "_".into() }).collect::<Vec<_>>().join(",")
}
fn show_enc(r: &lopdf::Result<Encoding>) -> String {
    match r {
        Ok(Encoding::OneByteEncoding(t)) => format!("one {}", cells(t)),
        Ok(Encoding::SimpleEncoding(n)) => format!("simple {}", hex_tok(n)),
        Ok(Encoding::UnicodeMapEncoding(_)) => "cmap".into(),
        Err(_) => "err".into(),
    }
}
/// the real table behind an /Encoding name (through the public enum variant)
fn real_table(name: &str) -> Option<[Option<u16>; 256]> {
    let doc = Document::new();
    let f = named_font(name);
    match f.get_font_encoding(&doc) { Ok(Encoding::OneByteEncoding(t)) => Some(*t), _ => None }
}

// ---------------------------------------------------------------- published charts (oracle)
/// the full published chart of a predefined encoding: generated once by tools/mkcharts.py from sources other
/// than lopdf (python3 cp1252 / mac_roman / latin_1 + the deviations of ISO 32000-1 Annex D; Standard and MacExpert
/// frozen at the pinned commit) and committed as `c16_charts.txt`
fn full_chart(name: &str) -> Option<Vec<Option<u16>>> {
    let key = match name { "StandardEncoding" => "STANDARD_ENCODING", "MacRomanEncoding" => "MAC_ROMAN_ENCODING", "MacExpertEncoding" => "MAC_EXPERT_ENCODING",
                           "WinAnsiEncoding" => "WIN_ANSI_ENCODING", "PDFDocEncoding" => "PDF_DOC_ENCODING", _ => return None };
    for line in include_str!("c16_charts.txt").lines() {
        if let Some((n, cells)) = line.split_once(' ') {
            if n == key { return Some(cells.split(',').map(|c| if c == "_" { None } else { u16::from_str_radix(c, 16).ok() }).collect()); }
        }
    }
    None
}

/// Some(Some(u)) = the chart says byte b is u; Some(None) = chart says undefined; None = chart silent here
fn chart(name: &str, b: u8) -> Option<Option<u16>> {
    const MAC_80_9F: [u16; 32] = [0xC4, 0xC5, 0xC7, 0xC9, 0xD1, 0xD6, 0xDC, 0xE1, 0xE0, 0xE2, 0xE4, 0xE3, 0xE5, 0xE7, 0xE9, 0xE8,
                                  0xEA, 0xEB, 0xED, 0xEC, 0xEE, 0xEF, 0xF1, 0xF3, 0xF2, 0xF4, 0xF6, 0xF5, 0xFA, 0xF9, 0xFB, 0xFC];
    // code page 1252, 0x80-0x9F (defined cells) and PDFDocEncoding specials (Annex D.2)
    const CP1252: [(u8, u16); 27] = [(0x80, 0x20AC), (0x82, 0x201A), (0x83, 0x0192), (0x84, 0x201E), (0x85, 0x2026), (0x86, 0x2020),
        (0x87, 0x2021), (0x88, 0x02C6), (0x89, 0x2030), (0x8A, 0x0160), (0x8B, 0x2039), (0x8C, 0x0152), (0x8E, 0x017D), (0x91, 0x2018),
        (0x92, 0x2019), (0x93, 0x201C), (0x94, 0x201D), (0x95, 0x2022), (0x96, 0x2013), (0x97, 0x2014), (0x98, 0x02DC), (0x99, 0x2122),
        (0x9A, 0x0161), (0x9B, 0x203A), (0x9C, 0x0153), (0x9E, 0x017E), (0x9F, 0x0178)];
    const PDFDOC: [(u8, u16); 39] = [(0x18, 0x02D8), (0x19, 0x02C7), (0x1A, 0x02C6), (0x1B, 0x02D9), (0x1C, 0x02DD), (0x1D, 0x02DB),
        (0x1E, 0x02DA), (0x1F, 0x02DC), (0x80, 0x2022), (0x81, 0x2020), (0x82, 0x2021), (0x83, 0x2026), (0x84, 0x2014), (0x85, 0x2013),
        (0x86, 0x0192), (0x87, 0x2044), (0x88, 0x2039), (0x89, 0x203A), (0x8A, 0x2212), (0x8B, 0x2030), (0x8C, 0x201E), (0x8D, 0x201C),
        (0x8E, 0x201D), (0x8F, 0x2018), (0x90, 0x2019), (0x91, 0x201A), (0x92, 0x2122), (0x93, 0xFB01), (0x94, 0xFB02), (0x95, 0x0141),
        (0x96, 0x0152), (0x97, 0x0160), (0x98, 0x0178), (0x99, 0x017D), (0x9A, 0x0131), (0x9B, 0x0142), (0x9C, 0x0153), (0x9D, 0x0161),
        (0x9E, 0x017E)];
    if name == "WinAnsiEncoding" { if let Some((_, u)) = CP1252.iter().find(|(x, _)| *x == b) { return Some(Some(*u)); } }
    if name == "PDFDocEncoding" { if let Some((_, u)) = PDFDOC.iter().find(|(x, _)| *x == b) { return Some(Some(*u)); } }
    match name {
        "WinAnsiEncoding" => match b {
            0x20..=0x7E => Some(Some(b as u16)),
            0xA0 => Some(Some(0x20)),
            0xAD => Some(Some(0x2D)),
            0xA1..=0xFF => Some(Some(b as u16)),
            _ => None,
        },
        "PDFDocEncoding" => match b {
            0x20..=0x7E => Some(Some(b as u16)),
            0xA0 => Some(Some(0x20AC)),
            0xAD => Some(None),
            0xA1..=0xFF => Some(Some(b as u16)),
            0x00..=0x17 => Some(None),
            _ => None,
        },
        "MacRomanEncoding" => match b {
            0x20..=0x7E => Some(Some(b as u16)),
            0x80..=0x9F => Some(Some(MAC_80_9F[(b - 0x80) as usize])),
            _ => None,
        },
        _ => None,
    }
}

/// hand-written strict UTF-16BE decoder (reference for `decode_text_string`, even length only)
fn ref_utf16be(bs: &[u8]) -> Option<String> {
    let mut units = vec![];
    let mut i = 0;
    while i < bs.len() {
        let hi = bs[i] as u32; let lo = if i + 1 < bs.len() { bs[i + 1] as u32 } else { 0 };
        units.push(hi * 256 + lo); i += 2;
    }
    let mut out = String::new();
    let mut i = 0;
    while i < units.len() {
        let u = units[i];
        if (0xD800..0xDC00).contains(&u) {
            if i + 1 >= units.len() { return None; }
            let v = units[i + 1];
            if !(0xDC00..0xE000).contains(&v) { return None; }
            out.push(char::from_u32(0x10000 + ((u - 0xD800) << 10) + (v - 0xDC00))?);
            i += 2;
        } else if (0xDC00..0xE000).contains(&u) { return None; }
        else { out.push(char::from_u32(u)?); i += 1; }
    }
    Some(out)
}

// ---------------------------------------------------------------- generators
fn rand_scalar(r: &mut Rng) -> char {
    loop {
        let v = match r.below(10) {
            0..=2 => 0x20 + r.below(0x5F) as u32,            // printable ASCII
            3 => r.below(0x20) as u32,                        // C0
            4 => 0x80 + r.below(0x780) as u32,                // 2-byte UTF-8
            5 | 6 => 0x800 + r.below(0xF800) as u32,          // rest of BMP
            7 => 0x10000 + r.below(0x100000) as u32,          // astral
            8 => *r.pick(&[0xFEFFu32, 0xFFFE, 0xFFFD, 0xFFFF, 0xD7FF, 0xE000, 0x10000, 0x10FFFF, 0x7F, 0x80, 0xFF, 0x100, 0x7FF, 0x800]),
            _ => 0x1F300 + r.below(0x400) as u32,             // emoji
        };
        if let Some(c) = char::from_u32(v) { return c; }
    }
}
fn rand_string(r: &mut Rng, max: usize) -> String { let n = r.usize(max + 1); (0..n).map(|_| rand_scalar(r)).collect() }
/// strings over a small alphabet of "structural" code points, length 0..12, and whole patterns (language escape
/// sequences ESC ll ESC / ESC llCC ESC, marks inside the text, surrogate-boundary characters next to ASCII, NUL runs)
fn structural_string(r: &mut Rng) -> String {
    const ALPHA: [u32; 22] = [0x1B, 0xFEFF, 0xFFFE, 0x0000, 0x00FF, 0x0100, 0xD7FF, 0xE000, 0xFFFD, 0x10000, 0x10FFFF, 0x7F, 0x0A,
                              0x61, 0x62, 0x65, 0x6E, 0x55, 0x53, 0x7A, 0x41, 0x20];
    const PATTERNS: [&str; 14] = ["\u{1b}en\u{1b}", "\u{1b}enUS\u{1b}", "\u{1b}de\u{1b}Hallo", "a\u{1b}fr\u{1b}b\u{1b}frCA\u{1b}c", "\u{1b}\u{1b}", "\u{1b}e\u{1b}",
                                 "\u{1b}eng\u{1b}", "\u{feff}\u{feff}", "\u{fffe}a", "\u{ef}\u{bb}\u{bf}", "\u{fe}\u{ff}", "\u{0}\u{0}\u{0}", "\u{d7ff}a\u{e000}", "\u{10000}\u{1b}xx\u{1b}\u{10ffff}"];
    match r.below(4) {
        0 => { let mut s = String::new(); for _ in 0..(1 + r.usize(3)) { if r.chance(1, 3) { s.push(char::from_u32(*r.pick(&ALPHA)).unwrap()); } s.push_str(*r.pick(&PATTERNS[..])); } s }
        1 => { let n = 13 + r.usize(200); let c = char::from_u32(*r.pick(&ALPHA)).unwrap(); let mut s: String = std::iter::repeat(c).take(n).collect(); if r.chance(1, 2) { s.push_str(*r.pick(&PATTERNS[..])); } s }
        _ => { let n = r.usize(13); (0..n).map(|_| char::from_u32(*r.pick(&ALPHA)).unwrap()).collect() }
    }
}
fn printable_ascii(r: &mut Rng, max: usize) -> String { let n = r.usize(max + 1); (0..n).map(|_| (0x20 + r.below(0x5F) as u8) as char).collect() }
/// printable ASCII only (the texts `text_string` keeps as a PDFDocEncoding literal)
fn printable(s: &str) -> bool { s.bytes().all(|b| (0x20..0x7F).contains(&b)) }

fn repertoire(t: &[Option<u16>; 256]) -> Vec<char> {
    let mut v: Vec<char> = t.iter().filter_map(|c| c.and_then(|u| char::from_u32(u as u32))).collect();
    v.sort(); v.dedup(); v
}

fn dts(o: &Object) -> Result<Result<String, lopdf::Error>, (String, String)> { guard(|| lopdf::decode_text_string(o)) }

pub fn run(c: &mut Ctx) {
    c.rule = "tables: 5 public /Encoding names x 256 bytes exhaustively (single bytes, the 256-byte string, random byte strings), \
font dictionaries with absent / ill-typed / unknown / Identity encodings; encode direction over each table's repertoire and outside it; \
text strings: every Unicode scalar through text_string/decode_text_string (oracle exhaustive in both tiers; model comparison exhaustive in \
thorough, boundaries + sample in quick), random strings (astral, C0 in non-ASCII text, lone BOM characters), decode_text_string on \
malformed input (odd-length and unpaired-surrogate UTF-16BE, valid and invalid UTF-8 after a mark, non-strings); extraction on generated \
documents (1-3 pages, fonts direct / by reference / inherited / shadowed, Tj and TJ, several Tf switches, compressed or plain streams) \
before and after save_to + load_mem. Non-trivial = input not empty and not plain printable ASCII, or a document; distinct by request text.".into();
    let doc0 = Document::new();

    // ---------------------------------------------------------------- font dictionary -> encoding
    let mut font_cases: Vec<(String, Dictionary)> = vec![];
    for n in NAMES { font_cases.push((n.to_string(), named_font(n))); }
    font_cases.push(("absent".into(), font(None)));
    font_cases.push(("int".into(), font(Some(Object::Integer(3)))));
    font_cases.push(("dict".into(), font(Some(Object::Dictionary(Dictionary::new())))));
    font_cases.push(("string".into(), font(Some(Object::string_literal("WinAnsiEncoding")))));
    for n in ["Identity-H", "Identity-V", "SymbolEncoding", "ExpertEncoding", "winansiencoding", "WinAnsiEncoding ", "", "GBK-EUC-H", "StandardEncodin", "PDFDocEncodingX"] {
        font_cases.push((format!("name:{}", n), named_font(n)));
    }
    { let mut d = named_font("WinAnsiEncoding"); d.remove(b"Type"); font_cases.push(("no-type".into(), d)); }
    { let mut d = named_font("WinAnsiEncoding"); d.set("Type", Object::Name(b"Fnt".to_vec())); font_cases.push(("wrong-type".into(), d)); }
    { let mut d = named_font("WinAnsiEncoding"); d.set("Type", Object::string_literal("Font")); font_cases.push(("type-string".into(), d)); }
    { let mut d = Dictionary::new(); d.set("Encoding", Object::Name(b"MacRomanEncoding".to_vec())); d.set("Type", Object::Name(b"Font".to_vec())); font_cases.push(("reordered".into(), d)); }
    for (i, (label, d)) in font_cases.iter().enumerate() {
        let Some(_r) = c.case("fenc", i as u64) else { continue };
        let req = format!("c16.fenc {}", show_obj(&Object::Dictionary(d.clone())));
        c.nontrivial(&req);
        match guard(|| show_enc(&d.get_font_encoding(&doc0))) {
            Ok(rep) => {
                c.count(&format!("fenc.{}", rep.split(' ').next().unwrap_or("")));
                if i < 5 && !rep.starts_with("one ") {
                    c.oracle_fail("fenc:predefined-name-not-a-table", "a predefined /Encoding name did not select a one-byte table", json!({"font": label}));
                }
                c.corr(req, rep);
            }
            Err((site, msg)) => c.oracle_fail(&format!("panic@{}", site), &msg, json!({"font": label})),
        }
    }

    // ---------------------------------------------------------------- 5 encodings x 256 bytes
    for (ti, name) in NAMES.iter().enumerate() {
        let f = named_font(name);
        let fobj = show_obj(&Object::Dictionary(f.clone()));
        let Some(table) = real_table(name) else {
            c.oracle_fail("fenc:predefined-name-not-a-table", "no table behind a predefined name", json!({"name": name}));
            continue;
        };
        let enc = f.get_font_encoding(&doc0).unwrap();
        let rep = repertoire(&table);
        let fchart = full_chart(name).expect("chart file");
        // single bytes, exhaustively
        for b in 0..=255u8 {
            let Some(_r) = c.case(&format!("byte.{}", name), b as u64) else { continue };
            let req = format!("c16.dec {} {}", fobj, hex(&[b]));
            c.nontrivial(&req);
            let res = guard(|| Document::decode_text(&enc, &[b]));
            c.corr(req.clone(), show_res(&res));
            match &res {
                Ok(Ok(s)) => {
                    if s.is_empty() { c.count(&format!("byte.{}.undefined", name)); } else { c.count(&format!("byte.{}.defined", name)); }
                    // the published chart, all 256 codes of all five encodings
                    {
                        let got: Option<u16> = { let u: Vec<u16> = s.encode_utf16().collect(); if u.len() == 1 { Some(u[0]) } else if u.is_empty() { None } else { Some(0xFFFF) } };
                        c.count("chart.full_cells_checked");
                        if got != fchart[b as usize] {
                            c.oracle_fail("chart:mismatch", "decoding the byte does not give the character the published chart assigns",
                                json!({"encoding": name, "byte": b, "byte_hex": format!("{:02x}", b), "chart": format!("{:?}", fchart[b as usize].map(|u| format!("U+{:04X}", u))), "got": format!("{:?}", got.map(|u| format!("U+{:04X}", u)))}));
                        }
                    }
                    // chart agreement (the ranges the property text names, written out by hand above)
                    if let Some(exp) = chart(name, b) {
                        let got: Option<u16> = { let u: Vec<u16> = s.encode_utf16().collect(); if u.len() == 1 { Some(u[0]) } else if u.is_empty() { None } else { Some(0xFFFF) } };
                        c.count("chart.cells_checked");
                        if got != exp {
                            c.oracle_fail("chart:mismatch", "table cell differs from the published chart",
                                json!({"encoding": name, "byte": b, "expected": format!("{:?}", exp), "got": format!("{:?}", got)}));
                        }
                    }
                    // re-encoding decoded text reproduces bytes that decode to the same text
                    let back = guard(|| { let e = Document::encode_text(&enc, s); Document::decode_text(&enc, &e) });
                    match back {
                        Ok(Ok(s2)) if &s2 == s => {}
                        other => c.oracle_fail("reencode:unstable", "decode(encode(decode b)) differs from decode b",
                            json!({"encoding": name, "byte": b, "decoded": ustr(s), "again": format!("{:?}", other.map(|x| x.ok()))})),
                    }
                }
                Ok(Err(e)) => c.oracle_fail("decode:failed", "decoding a byte with a predefined encoding failed", json!({"encoding": name, "byte": b, "error": e.to_string()})),
                Err((site, msg)) => c.oracle_fail(&format!("panic@{}", site), msg, json!({"encoding": name, "byte": b})),
            }
        }
        // all 256 bytes at once + random byte strings
        let n_rand = c.n(60, 1500);
        for i in 0..(n_rand + 1) {
            let Some(mut r) = c.case(&format!("bytes.{}", name), i) else { continue };
            let bs: Vec<u8> = if i == 0 { (0..=255u8).collect() } else { let n = r.usize(40); r.bytes(n) };
            let req = format!("c16.dec {} {}", fobj, hex_tok(&bs));
            c.nontrivial(&req);
            let res = guard(|| Document::decode_text(&enc, &bs));
            c.corr(req, show_res(&res));
            match &res {
                Ok(Ok(s)) => {
                    // oracle: concatenation of the per-byte cells, as the type of the table says
                    let exp: String = String::from_utf16_lossy(&bs.iter().filter_map(|b| table[*b as usize]).collect::<Vec<u16>>());
                    if &exp != s { c.oracle_fail("decode:not-cellwise", "decoded string is not the concatenation of the cells", json!({"encoding": name, "bytes": hex(&bs)})); }
                    let e = Document::encode_text(&enc, s);
                    let req2 = format!("c16.enc {} {}", fobj, ustr(s));
                    c.corr(req2, format!("ok {}", hex_tok(&e)));
                    match Document::decode_text(&enc, &e) {
                        Ok(s2) if &s2 == s => c.count("reencode.stable"),
                        _ => c.oracle_fail("reencode:unstable", "decode(encode(decode bs)) differs from decode bs", json!({"encoding": name, "bytes": hex(&bs)})),
                    }
                }
                Ok(Err(e)) => c.oracle_fail("decode:failed", "decoding failed", json!({"encoding": name, "bytes": hex(&bs), "error": e.to_string()})),
                Err((site, msg)) => c.oracle_fail(&format!("panic@{}", site), msg, json!({"encoding": name, "bytes": hex(&bs)})),
            }
        }
        // encode direction: every repertoire character alone, then strings inside / outside the repertoire
        let n_enc = c.n(80, 2000);
        for i in 0..(rep.len() as u64 + n_enc) {
            let Some(mut r) = c.case(&format!("enc.{}", name), i) else { continue };
            let (s, inside): (String, bool) = if (i as usize) < rep.len() { (rep[i as usize].to_string(), true) }
                else if r.chance(2, 3) { let n = 1 + r.usize(24); ((0..n).map(|_| *r.pick(&rep)).collect(), true) }
                else { let n = 1 + r.usize(12); ((0..n).map(|_| if r.chance(1, 2) { *r.pick(&rep) } else { rand_scalar(&mut r) }).collect(), false) };
            let req = format!("c16.enc {} {}", fobj, ustr(&s));
            c.nontrivial(&req);
            match guard(|| { let e = Document::encode_text(&enc, &s); let d = Document::decode_text(&enc, &e); (e, d) }) {
                Ok((e, d)) => {
                    c.corr(req, format!("ok {}", hex_tok(&e)));
                    if inside {
                        c.count("enc.inside_repertoire");
                        match d { Ok(s2) if s2 == s => {}
                            other => c.oracle_fail("encode:repertoire-rt", "text over the table's repertoire does not survive encode+decode",
                                json!({"encoding": name, "text": ustr(&s), "bytes": hex(&e), "got": format!("{:?}", other.ok().map(|x| ustr(&x)))})) }
                    } else {
                        c.count("enc.outside_repertoire");
                        // characters outside the repertoire are dropped, the others survive in order
                        let exp: String = s.chars().filter(|ch| rep.contains(ch)).collect();
                        match d { Ok(s2) if s2 == exp => {}
                            _ => c.oracle_fail("encode:outside-repertoire", "characters inside the repertoire did not survive in order", json!({"encoding": name, "text": ustr(&s)})) }
                    }
                }
                Err((site, msg)) => c.oracle_fail(&format!("panic@{}", site), &msg, json!({"encoding": name, "text": ustr(&s)})),
            }
        }
        let _ = ti;
    }

    // ---------------------------------------------------------------- text strings: every scalar
    scalar_block(c);
    rest(c);
}

fn scalar_block(c: &mut Ctx) {
    {
        let mut corr_scalars: Vec<u32> = vec![];
        if c.quick() {
            corr_scalars.extend(0x00..0x200);
            for b in [0x7FFu32, 0x800, 0xFFF, 0x1000, 0x20AC, 0xD7FF, 0xE000, 0xFDD0, 0xFEFF, 0xFFFD, 0xFFFE, 0xFFFF, 0x10000, 0x10001,
                      0x103FF, 0x10400, 0x1F600, 0xFFFFF, 0x100000, 0x10FC00, 0x10FFFE, 0x10FFFF] { corr_scalars.push(b); }
            let Some(mut r) = c.case("scalar.sample", 0) else { return };
            for _ in 0..3000 { corr_scalars.push(rand_scalar(&mut r) as u32); }
        }
        let Some(_r) = c.case("scalar.all", 0) else { return };
        let mut checked = 0u64; let mut lit = 0u64; let mut hexs = 0u64;
        for v in 0..=0x10FFFFu32 {
            let Some(ch) = char::from_u32(v) else { continue };
            let s = ch.to_string();
            let o = lopdf::text_string(&s);
            let d = lopdf::decode_text_string(&o);
            checked += 1;
            match &o { Object::String(_, StringFormat::Literal) => lit += 1, _ => hexs += 1 }
            // form: ASCII stays a literal string of the same bytes; everything else is FE FF + UTF-16BE
            let form_ok = match &o {
                Object::String(b, StringFormat::Literal) => (0x20..0x7F).contains(&v) && b == s.as_bytes(),
                Object::String(b, StringFormat::Hexadecimal) => !(0x20..0x7F).contains(&v) && b.len() >= 2 && b[0] == 0xFE && b[1] == 0xFF && ref_utf16be(&b[2..]).as_deref() == Some(&s),
                _ => false,
            };
            if !form_ok { c.oracle_fail("ts:form", "text_string output has the wrong form", json!({"scalar": format!("{:x}", v), "obj": show_obj(&o)})); }
            if d.as_deref().ok() != Some(s.as_str()) {
                c.oracle_fail("ts-rt:other", "decode_text_string(text_string(c)) != c", json!({"scalar": format!("{:x}", v), "obj": show_obj(&o)}));
            }
            if !c.quick() {
                c.corr(format!("c16.tsrt {:x}", v), format!("{} ; {}", show_obj(&o), match &d { Ok(x) => format!("ok {}", ustr(x)), Err(_) => "err".into() }));
            }
        }
        c.count_n("scalar.checked", checked); c.count_n("scalar.literal_form", lit); c.count_n("scalar.utf16_form", hexs);
        c.evaluations += checked;
        for v in corr_scalars {
            let Some(ch) = char::from_u32(v) else { continue };
            let s = ch.to_string();
            let o = lopdf::text_string(&s); let d = lopdf::decode_text_string(&o);
            if v >= 0x7F { c.nontrivial(&format!("scalar {:x}", v)); }
            c.corr(format!("c16.tsrt {:x}", v), format!("{} ; {}", show_obj(&o), match &d { Ok(x) => format!("ok {}", ustr(x)), Err(_) => "err".into() }));
        }
    }

}

fn rest(c: &mut Ctx) {
    // ---------------------------------------------------------------- text strings: random strings
    let n_ts = c.n(1500, 40000);
    for i in 0..n_ts {
        let Some(mut r) = c.case("ts", i) else { continue };
        let s = match r.below(8) {
            0 => printable_ascii(&mut r, 30),
            5 => { let n = r.usize(16); (0..n).map(|_| r.below(0x80) as u8 as char).collect() }      // ASCII incl. C0 controls and DEL
            6 | 7 => structural_string(&mut r),
            1 => { let mut s = rand_string(&mut r, 12); s.push('\u{FEFF}'); s.push_str(&rand_string(&mut r, 4)); s }
            2 => { let mut s = String::from("\u{FEFF}"); s.push_str(&rand_string(&mut r, 8)); s }
            _ => rand_string(&mut r, 24),
        };
        let req = format!("c16.tsrt {}", ustr(&s));
        if !s.is_empty() && !s.bytes().all(|b| (0x20..0x7F).contains(&b)) { c.nontrivial(&req); }
        match guard(|| { let o = lopdf::text_string(&s); let d = lopdf::decode_text_string(&o); (o, d) }) {
            Ok((o, d)) => {
                if printable(&s) { c.count("ts.literal"); } else { c.count("ts.utf16"); }
                if s.is_ascii() && !printable(&s) { c.count("ts.ascii_with_controls"); }
                let form_ok = match &o { Object::String(b, StringFormat::Literal) => printable(&s) && b == s.as_bytes(),
                                         Object::String(b, StringFormat::Hexadecimal) => !printable(&s) && b.len() >= 2 && b[0] == 0xFE && b[1] == 0xFF && ref_utf16be(&b[2..]).as_deref() == Some(s.as_str()),
                                         _ => false };
                if !form_ok { c.oracle_fail("ts:form", "text_string output has the wrong form", json!({"text": ustr(&s), "obj": show_obj(&o)})); }
                if s.chars().any(|ch| ch as u32 >= 0x10000) { c.count("ts.with_astral"); }
                if s.chars().any(|ch| (ch as u32) < 0x20 || ch as u32 == 0x7F) { c.count("ts.with_c0_or_del"); }
                c.corr(req, format!("{} ; {}", show_obj(&o), match &d { Ok(x) => format!("ok {}", ustr(x)), Err(_) => "err".into() }));
                if d.as_deref().ok() != Some(s.as_str()) {
                    c.oracle_fail("ts-rt:other", "decode_text_string(text_string(s)) != s", json!({"text": ustr(&s), "obj": show_obj(&o)}));
                }
                // the explicit encoders
                let u16b = lopdf::encode_utf16_be(&s);
                c.corr(format!("c16.u16 {}", ustr(&s)), format!("ok {}", hex_tok(&u16b)));
                if u16b.len() < 2 || u16b[0] != 0xFE || u16b[1] != 0xFF || ref_utf16be(&u16b[2..]).as_deref() != Some(s.as_str()) {
                    c.oracle_fail("u16:form", "encode_utf16_be is not FE FF + UTF-16BE of the text", json!({"text": ustr(&s)}));
                }
                let u8b = lopdf::encode_utf8(&s);
                c.corr(format!("c16.u8 {}", ustr(&s)), format!("ok {}", hex_tok(&u8b)));
                if u8b.len() < 3 || u8b[..3] != [0xEF, 0xBB, 0xBF] || &u8b[3..] != s.as_bytes() {
                    c.oracle_fail("u8:form", "encode_utf8 is not EF BB BF + UTF-8 of the text", json!({"text": ustr(&s)}));
                }
                // "UTF-8 with a mark decodes too": exactly the text comes back
                let o8 = Object::String(u8b, StringFormat::Literal);
                let d8 = dts(&o8);
                c.corr(format!("c16.dts {}", show_obj(&o8)), show_res(&d8));
                match &d8 {
                    Ok(Ok(t)) if t == &s => c.count("u8.exact"),
                    _ => c.oracle_fail("u8:decode", "UTF-8 text string with a mark does not decode to its text", json!({"text": ustr(&s)})),
                }
            }
            Err((site, msg)) => c.oracle_fail(&format!("panic@{}", site), &msg, json!({"text": ustr(&s)})),
        }
    }

    // ---------------------------------------------------------------- decode_text_string on arbitrary objects
    let n_dts = c.n(1500, 40000);
    for i in 0..n_dts {
        let Some(mut r) = c.case("dts", i) else { continue };
        let kind = r.below(9);
        let o: Object = match kind {
            0 => { // UTF-16BE, valid, even length
                let s = rand_string(&mut r, 10); let mut b = vec![0xFE, 0xFF]; for u in s.encode_utf16() { b.extend(u.to_be_bytes()); } Object::String(b, StringFormat::Hexadecimal) }
            1 => { // UTF-16BE with random units (unpaired surrogates likely)
                let n = r.usize(8); let mut b = vec![0xFE, 0xFF];
                for _ in 0..n { let u: u16 = if r.chance(1, 2) { 0xD800 + r.below(0x800) as u16 } else { r.next() as u16 }; b.extend(u.to_be_bytes()); }
                Object::String(b, StringFormat::Hexadecimal) }
            2 => { // odd length
                let s = rand_string(&mut r, 6); let mut b = vec![0xFE, 0xFF]; for u in s.encode_utf16() { b.extend(u.to_be_bytes()); } b.push(r.byte()); Object::String(b, StringFormat::Literal) }
            3 => { // UTF-8 with mark, valid
                let s = rand_string(&mut r, 10); Object::String(lopdf::encode_utf8(&s), StringFormat::Literal) }
            4 => { // UTF-8 mark then arbitrary / nearly valid bytes
                let mut b = vec![0xEF, 0xBB, 0xBF];
                let s = rand_string(&mut r, 6); b.extend(s.as_bytes());
                for _ in 0..(1 + r.usize(3)) { if b.len() > 3 { let p = 3 + r.usize(b.len() - 3); match r.below(3) { 0 => b[p] = r.byte(), 1 => { b.remove(p); } _ => b.insert(p, *r.pick(&[0xC0, 0xC1, 0xED, 0xA0, 0xF4, 0x90, 0xF5, 0x80, 0xE0, 0x9F, 0xF0, 0x8F, 0xBF])) } } }
                Object::String(b, StringFormat::Literal) }
            5 => { let n = r.usize(20); Object::String(r.bytes(n), StringFormat::Literal) }            // PDFDocEncoding / whatever
            6 => { // truncated marks
                Object::String(r.pick(&[vec![0xFE], vec![0xFF, 0xFE, 0x41, 0x00], vec![0xEF, 0xBB], vec![0xFE, 0xFF], vec![0xEF, 0xBB, 0xBF], vec![0xFE, 0xFF, 0x41], vec![]]).clone(), StringFormat::Literal) }
            7 => r.pick(&[Object::Null, Object::Integer(5), Object::Name(b"abc".to_vec()), Object::Array(vec![]), Object::Boolean(true)]).clone(),
            _ => { let s = printable_ascii(&mut r, 20); Object::string_literal(s) }
        };
        let req = format!("c16.dts {}", show_obj(&o));
        c.nontrivial(&req);
        let res = dts(&o);
        c.count(&format!("dts.kind{}.{}", kind, match &res { Ok(Ok(_)) => "ok", Ok(Err(_)) => "err", Err(_) => "panic" }));
        c.corr(req.clone(), show_res(&res));
        match (&o, &res) {
            (_, Err((site, msg))) => c.oracle_fail(&format!("panic@{}", site), msg, json!({"request": req})),
            (Object::String(b, _), Ok(got)) if b.starts_with(&[0xFE, 0xFF]) => {
                // reference: strict UTF-16BE (a trailing odd byte read as the high byte of a unit — stated behaviour)
                let exp = ref_utf16be(&b[2..]);
                if exp.as_deref() != got.as_ref().ok().map(|x| x.as_str()) {
                    c.oracle_fail("dts:utf16", "UTF-16BE text string decoded differently from the reference decoder", json!({"request": req}));
                }
            }
            (Object::String(b, _), Ok(got)) if b.starts_with(&[0xEF, 0xBB, 0xBF]) => {
                let exp = std::str::from_utf8(&b[3..]).ok();
                let g = got.as_ref().ok().map(|x| x.as_str());
                if exp != g { c.oracle_fail("dts:utf8", "UTF-8 text string decoded differently from the reference", json!({"request": req})); }
            }
            (Object::String(b, _), Ok(got)) => {
                // PDFDocEncoding: printable ASCII and Latin-1 per the chart; never an error
                match got { Ok(s) => {
                    if b.iter().all(|x| matches!(chart("PDFDocEncoding", *x), Some(Some(_)))) {
                        let exp: String = b.iter().map(|x| char::from_u32(chart("PDFDocEncoding", *x).unwrap().unwrap() as u32).unwrap()).collect();
                        if &exp != s { c.oracle_fail("dts:pdfdoc", "PDFDocEncoding text decoded differently from the chart", json!({"request": req})); }
                    } }
                    Err(_) => c.oracle_fail("dts:pdfdoc-failed", "PDFDocEncoding decoding failed", json!({"request": req})) }
            }
            (_, Ok(got)) => if got.is_ok() { c.oracle_fail("dts:non-string", "a non-string object decoded as a text string", json!({"request": req})); },
        }
    }

    // ---------------------------------------------------------------- witnesses of known findings
    if let Some(_r) = c.case("witness", 0) {
        // F-C16-a (fixed by 66885be): reproduced = the defect is back
        let s = "a\nb\tc";
        let o = lopdf::text_string(s);
        let d = lopdf::decode_text_string(&o).ok();
        c.corr(format!("c16.tsrt {}", ustr(s)), format!("{} ; ok {}", show_obj(&o), ustr(d.as_deref().unwrap_or("?"))));
        let mut lost = 0;
        for v in (0u32..0x20).chain([0x7F]) {
            let s = char::from_u32(v).unwrap().to_string();
            if lopdf::decode_text_string(&lopdf::text_string(&s)).ok().as_deref() != Some(s.as_str()) { lost += 1; }
        }
        c.count_n("witness.ascii_chars_not_round_tripping", lost);
        c.witness("F-C16-a", d.as_deref() != Some(s) || lost > 0, &format!("text_string({:?}) decodes to {:?}; {} of the 33 C0/DEL characters do not round-trip", s, d, lost));
        // F-C16-b (fixed by 62deee4)
        let o = Object::String(lopdf::encode_utf8("abc"), StringFormat::Literal);
        let d = lopdf::decode_text_string(&o).ok();
        c.corr(format!("c16.dts {}", show_obj(&o)), format!("ok {}", ustr(d.as_deref().unwrap_or("?"))));
        c.witness("F-C16-b", d.as_deref() != Some("abc"), &format!("decode_text_string(encode_utf8(\"abc\")) = {:?}", d));
    }

    // ---------------------------------------------------------------- extraction on generated documents
    let tables: Vec<(&str, [Option<u16>; 256])> = NAMES.iter().filter_map(|n| real_table(n).map(|t| (*n, t))).collect();
    if tables.len() != NAMES.len() { return; }
    let n_doc = c.n(250, 4000);
    for i in 0..n_doc {
        let Some(mut r) = c.case("extract", i) else { continue };
        gen_doc_case(c, &mut r, &tables);
    }
}

struct PageSpec { fonts: Vec<(Vec<u8>, Dictionary)>, ops: Vec<Operation>, expected: Option<String> }

/// build the effective font list (BTreeMap order, first definition wins) — computed here, not by lopdf
fn effective(page_fonts: &[(Vec<u8>, Dictionary)], parent_fonts: &[(Vec<u8>, Dictionary)]) -> Vec<(Vec<u8>, Dictionary)> {
    let mut m: std::collections::BTreeMap<Vec<u8>, Dictionary> = std::collections::BTreeMap::new();
    for (n, d) in page_fonts.iter().chain(parent_fonts.iter()) { if !m.contains_key(n) { m.insert(n.clone(), d.clone()); } }
    m.into_iter().collect()
}

fn gen_doc_case(c: &mut Ctx, r: &mut Rng, tables: &[(&str, [Option<u16>; 256])]) {
    let mut doc = Document::with_version("1.5");
    let pages_id = doc.new_object_id();
    let n_pages = 1 + r.usize(3);
    let malformed = r.chance(1, 6);
    // parent-level fonts (inherited), possibly shadowed by page-level ones
    let mut parent_fonts: Vec<(Vec<u8>, Dictionary)> = vec![];
    if r.chance(1, 2) {
        for k in 0..(1 + r.usize(2)) { let (n, _) = *r.pick(tables); parent_fonts.push((format!("F{}", k + 1).into_bytes(), named_font(n))); }
    }
    let mut specs: Vec<PageSpec> = vec![];
    let mut kids = vec![];
    for _ in 0..n_pages {
        // page fonts
        let mut page_fonts: Vec<(Vec<u8>, Dictionary)> = vec![];
        let nf = 1 + r.usize(3);
        for k in 0..nf {
            let name = if r.chance(1, 5) { format!("G{}", k) } else { format!("F{}", k + 1) }.into_bytes();
            let d = if malformed && r.chance(1, 3) {
                match r.below(4) { 0 => font(None), 1 => named_font("Custom-Enc"), 2 => { let mut d = named_font("WinAnsiEncoding"); d.remove(b"Type"); d } _ => named_font("Identity-H") }
            } else { named_font(r.pick(tables).0) };
            if !page_fonts.iter().any(|(n, _)| n == &name) { page_fonts.push((name, d)); }
        }
        let eff = effective(&page_fonts, &parent_fonts);
        // content
        let mut ops = vec![Operation::new("BT", vec![])];
        let mut expected = String::new();
        let exp_ok = !malformed;
        let mut chunk = String::new();           // text shown since the last font switch: a space per TJ array / wide gap, newline at ET
        let mut cur: Option<[Option<u16>; 256]> = None;
        let n_ops = 1 + r.usize(7);
        for _ in 0..n_ops {
            match r.below(10) {
                0..=2 => { // Tf
                    let (fname, fd) = if malformed && r.chance(1, 5) { (b"Nope".to_vec(), None) } else { let (n, d) = r.pick(&eff).clone(); (n, Some(d)) };
                    ops.push(Operation::new("Tf", vec![Object::Name(fname), Object::Integer(12)]));
                    expected.push_str(&chunk); chunk.clear();
                    cur = fd.and_then(|d| match d.get(b"Encoding").and_then(Object::as_name) { Ok(n) => tables.iter().find(|(tn, _)| tn.as_bytes() == n).map(|(_, t)| *t), _ => None }
                        .or_else(|| if d.has(b"Encoding") { None } else { tables.iter().find(|(tn, _)| *tn == "StandardEncoding").map(|(_, t)| *t) }));
                }
                3..=6 => { // Tj
                    if let Some(t) = cur {
                        let rep = repertoire(&t);
                        // every fourth string is made of the characters the literal-string writer has to treat specially
                        // (parentheses balanced / unbalanced in any order, backslash) and a letter
                        let special: Vec<char> = ['(', ')', '\\', '(', 'a'].iter().cloned().filter(|ch| rep.contains(ch)).collect();
                        let n = r.usize(12); let s: String = if r.chance(1, 16) && rep.contains(&'(') && rep.contains(&')') && rep.contains(&'a') {
                            // balanced parentheses nested up to and BEYOND what the literal-string parser accepts unescaped (100 levels)
                            let d = *r.pick(&[99usize, 100, 101, 102, 128, 300]); c.count("extract.deep_parentheses");
                            format!("{}a{}", "(".repeat(d), ")".repeat(d))
                        } else if r.chance(1, 4) && !special.is_empty() { c.count("extract.structural_string"); (0..2 + r.usize(7)).map(|_| *r.pick(&special)).collect() } else { (0..n).map(|_| *r.pick(&rep)).collect() };
                        let bytes = encode_ref(&t, &s);
                        ops.push(Operation::new("Tj", vec![Object::String(bytes, if r.chance(1, 4) { StringFormat::Hexadecimal } else { StringFormat::Literal })]));
                        chunk.push_str(&s);
                    } else { ops.push(Operation::new("Tj", vec![Object::string_literal("ignored")])); }
                }
                7 | 8 => { // TJ
                    if let Some(t) = cur {
                        let rep = repertoire(&t);
                        let mut arr = vec![];
                        for _ in 0..(1 + r.usize(4)) {
                            if r.chance(2, 3) { let n = r.usize(6); let s: String = (0..n).map(|_| *r.pick(&rep)).collect(); arr.push(Object::String(encode_ref(&t, &s), StringFormat::Literal)); chunk.push_str(&s); }
                            else if r.chance(1, 3) {
                                // a real kerning number: one with a fraction stays a real after decoding and is ignored by the
                                // loop; an integral one is written without a point and comes back as an integer (C01/C14 normal form)
                                let v = *r.pick(&[-300.5f32, -150.0, -100.0, -100.5, -99.5, 12.25, -1000.0, 0.5, -101.0]);
                                arr.push(Object::Real(v));
                                if v.fract() == 0.0 && v < -100.0 { chunk.push(' '); }
                            }
                            else { let k = if r.chance(1, 4) { *r.pick(&[-101i64, -100, -99]) } else { r.range(-300, 100) }; arr.push(Object::Integer(k)); if k < -100 { chunk.push(' '); } }
                        }
                        ops.push(Operation::new("TJ", vec![Object::Array(arr)]));
                        chunk.push(' ');
                    }
                }
                _ => { ops.push(Operation::new("ET", vec![])); if !chunk.ends_with('\n') { chunk.push('\n'); } ops.push(Operation::new("BT", vec![])); }
            }
        }
        ops.push(Operation::new("ET", vec![]));
        if !chunk.ends_with('\n') { chunk.push('\n'); }
        expected.push_str(&chunk);
        // install
        let content = Content { operations: ops.clone() };
        let data = match content.encode() { Ok(d) => d, Err(_) => return };
        let cid = doc.add_object(Stream::new(Dictionary::new(), data));
        let mut fd = Dictionary::new();
        for (n, d) in &page_fonts { if r.chance(1, 2) { let id = doc.add_object(Object::Dictionary(d.clone())); fd.set(n.clone(), Object::Reference(id)); } else { fd.set(n.clone(), Object::Dictionary(d.clone())); } }
        let mut res = Dictionary::new();
        if r.chance(1, 3) { let id = doc.add_object(Object::Dictionary(fd)); res.set("Font", Object::Reference(id)); } else { res.set("Font", Object::Dictionary(fd)); }
        let mut page = Dictionary::new();
        page.set("Type", Object::Name(b"Page".to_vec()));
        page.set("Parent", Object::Reference(pages_id));
        page.set("Contents", Object::Reference(cid));
        if r.chance(1, 2) { let id = doc.add_object(Object::Dictionary(res)); page.set("Resources", Object::Reference(id)); } else { page.set("Resources", Object::Dictionary(res)); }
        let pid = doc.add_object(Object::Dictionary(page));
        kids.push(Object::Reference(pid));
        specs.push(PageSpec { fonts: eff, ops, expected: if exp_ok { Some(expected) } else { None } });
    }
    let mut pages = Dictionary::new();
    pages.set("Type", Object::Name(b"Pages".to_vec()));
    pages.set("Count", Object::Integer(n_pages as i64));
    pages.set("Kids", Object::Array(kids));
    if !parent_fonts.is_empty() {
        let mut fd = Dictionary::new();
        for (n, d) in &parent_fonts { fd.set(n.clone(), Object::Dictionary(d.clone())); }
        let mut res = Dictionary::new(); res.set("Font", Object::Dictionary(fd));
        let id = doc.add_object(Object::Dictionary(res));
        pages.set("Resources", Object::Reference(id));      // inherited resources are only followed by reference
    }
    doc.objects.insert(pages_id, Object::Dictionary(pages));
    let mut cat = Dictionary::new();
    cat.set("Type", Object::Name(b"Catalog".to_vec()));
    cat.set("Pages", Object::Reference(pages_id));
    let cat_id = doc.add_object(Object::Dictionary(cat));
    doc.trailer.set("Root", Object::Reference(cat_id));
    let compressed = r.chance(1, 2);
    if compressed { doc.compress(); c.count("extract.compressed"); }

    // reload
    let reloaded: Option<Document> = guard(|| { let mut d2 = doc.clone(); let mut buf = vec![]; d2.save_to(&mut buf).ok().and_then(|_| Document::load_mem(&buf).ok()) }).ok().flatten();
    if reloaded.is_none() { c.oracle_fail("extract:reload-failed", "generated document does not save and reload", json!({})); }
    c.count(if malformed { "extract.docs_malformed" } else { "extract.docs_valid" });

    for (pi, spec) in specs.iter().enumerate() {
        let pn = (pi + 1) as u32;
        let mut req = format!("c16.extract {}", spec.fonts.len());
        for (n, d) in &spec.fonts { req.push_str(&format!(" {} {}", hex_tok(n), show_obj(&Object::Dictionary(d.clone())))); }
        req.push_str(&format!(" {}", spec.ops.len()));
        // the loop sees DECODED operations: an integral-valued real has become an integer by then (C14 normal form)
        fn normal(o: &Object) -> Object { match o {
            Object::Real(v) if v.fract() == 0.0 && v.abs() < 9.0e18 => Object::Integer(*v as i64),
            Object::Array(a) => Object::Array(a.iter().map(normal).collect()),
            x => x.clone() } }
        for op in &spec.ops { req.push_str(&format!(" {} {}", hex_tok(op.operator.as_bytes()), show_obj(&Object::Array(op.operands.iter().map(normal).collect())))); }
        c.nontrivial(&req);
        let res = guard(|| doc.extract_text(&[pn]));
        c.corr(req.clone(), show_res(&res));
        c.count(&format!("extract.page.{}", match &res { Ok(Ok(_)) => "ok", Ok(Err(_)) => "err", Err(_) => "panic" }));
        // the whole document through the composed model (pages C12, fonts/content C13, decode C14, loop C16)
        if !compressed {
            c.corr(format!("c16.xdoc {} {} {}", pn, show_obj(&Object::Dictionary(doc.trailer.clone())), show_objects(doc.objects.iter())), show_res(&res));
            c.count("extract.whole_document_model");
        }
        // the same page from its content BYTES: Content::decode (C14's model) + the loop
        if let Some(pid) = doc.get_pages().get(&pn) {
            if let Ok(bytes) = doc.get_page_content(*pid) {
                let mut req2 = format!("c16.extractc {}", spec.fonts.len());
                for (n, d) in &spec.fonts { req2.push_str(&format!(" {} {}", hex_tok(n), show_obj(&Object::Dictionary(d.clone())))); }
                req2.push_str(&format!(" {}", hex_tok(&bytes)));
                c.corr(req2, show_res(&res));
                c.count("extract.from_content_bytes");
            }
        }
        match (&res, &spec.expected) {
            (Err((site, msg)), _) => c.oracle_fail(&format!("panic@{}", site), msg, json!({"request": req})),
            (Ok(Ok(got)), Some(exp)) => { if got != exp { c.oracle_fail("extract:text", "extracted text differs from the text shown", json!({"request": req, "expected": ustr(exp), "got": ustr(got)})); } else { c.count("extract.oracle_equal"); } }
            (Ok(Err(e)), Some(exp)) => c.oracle_fail("extract:failed", "extraction failed on a well-formed page", json!({"request": req, "expected": ustr(exp), "error": e.to_string()})),
            _ => {}
        }
        if let Some(d2) = &reloaded {
            let res2 = guard(|| d2.extract_text(&[pn]));
            if show_res(&res2) != show_res(&res) {
                c.oracle_fail("extract:after-reload", "extraction differs after save_to + load_mem", json!({"request": req, "before": show_res(&res), "after": show_res(&res2)}));
            } else { c.count("extract.same_after_reload"); }
        }
        if pi == 0 { c.sample(json!({"stream": "extract", "request": if req.len() < 500 { req.clone() } else { format!("{}…", &req[..500]) }, "reply": show_res(&res)})); }
    }
}

/// reference one-byte encoder (first byte whose cell is the character) — oracle side
fn encode_ref(t: &[Option<u16>; 256], s: &str) -> Vec<u8> {
    s.chars().map(|ch| t.iter().position(|c| *c == Some(ch as u32 as u16)).expect("char in repertoire") as u8).collect()
}
