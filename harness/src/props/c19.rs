//! C19 — not yet built
use crate::ctx::Ctx;
pub fn run(c: &mut Ctx) { c.notes.push("C19: not implemented".into()); }
