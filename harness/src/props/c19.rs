//! C19 — saving reports sink failures and ignores sink chunking.
//! Real code: Document::save_to / IncrementalDocument::save_to against scripted sinks.
//! Model: `sink <script> ; <chunks>` (write_all loop + CountingWrite + `?`).
use crate::codec::*;
use crate::ctx::{guard, Ctx};
use crate::gen::*;
use crate::props::c01::compare_docs;
use crate::rng::Rng;
use lopdf::xref::XrefType;
use lopdf::{Document, IncrementalDocument};
use serde_json::json;
use std::io::{self, Write};

#[derive(Clone, Copy, Debug)]
enum Resp { Accept(usize), Interrupted, Fail }

/// a sink driven by a finite script; afterwards it accepts everything
struct ScriptSink { script: Vec<Resp>, pos: usize, delivered: Vec<u8>, calls: Vec<usize> }
impl Write for ScriptSink {
    fn write(&mut self, buf: &[u8]) -> io::Result<usize> {
        self.calls.push(buf.len());
        if buf.is_empty() { return Ok(0); }
        if self.pos >= self.script.len() { self.delivered.extend_from_slice(buf); return Ok(buf.len()); }
        let r = self.script[self.pos]; self.pos += 1;
        match r {
            Resp::Accept(k) => { let n = k.min(buf.len()); self.delivered.extend_from_slice(&buf[..n]); Ok(n) }
            Resp::Interrupted => Err(io::Error::new(io::ErrorKind::Interrupted, "interrupted")),
            Resp::Fail => Err(io::Error::new(io::ErrorKind::Other, "sink failure")),
        }
    }
    fn flush(&mut self) -> io::Result<()> { Ok(()) }
}
/// records the write_all requests as the sink sees them when it accepts everything
struct Recorder { chunks: Vec<Vec<u8>> }
impl Write for Recorder {
    fn write(&mut self, buf: &[u8]) -> io::Result<usize> { if !buf.is_empty() { self.chunks.push(buf.to_vec()); } Ok(buf.len()) }
    fn flush(&mut self) -> io::Result<()> { Ok(()) }
}

fn script_tokens(s: &[Resp]) -> String {
    // run-length encode accepts
    let mut out: Vec<String> = vec![]; let mut i = 0;
    while i < s.len() {
        match s[i] {
            Resp::Accept(0) => { out.push("z".into()); i += 1; }
            Resp::Accept(k) => { let mut n = 1; while i + n < s.len() && matches!(s[i + n], Resp::Accept(k2) if k2 == k) { n += 1; } out.push(if n == 1 { format!("a{}", k) } else { format!("a{}x{}", k, n) }); i += n; }
            Resp::Interrupted => { out.push("i".into()); i += 1; }
            Resp::Fail => { out.push("e".into()); i += 1; }
        }
    }
    out.join(" ")
}

enum Target { Plain(Document), Incr(IncrementalDocument) }
impl Target {
    fn save<W: Write>(&mut self, w: &mut W) -> io::Result<()> { match self { Target::Plain(d) => d.save_to(w), Target::Incr(d) => d.save_to(w) } }
    fn clone_t(&self) -> Target { match self { Target::Plain(d) => Target::Plain(d.clone()), Target::Incr(d) => Target::Incr(d.clone()) } }
}

fn run_script(c: &mut Ctx, t: &Target, chunks: &[Vec<u8>], baseline: &[u8], script: Vec<Resp>, what: &str, expect_ok: bool) {
    let mut t2 = t.clone_t();
    let mut sink = ScriptSink { script: script.clone(), pos: 0, delivered: vec![], calls: vec![] };
    let res = guard(|| t2.save(&mut sink));
    let req = format!("sink {} ; {}", script_tokens(&script), chunks.iter().map(|c| hex_tok(c)).collect::<Vec<_>>().join(" "));
    match res {
        Ok(r) => {
            // model reply: ok|err <delivered-len>  (counter and issued are model-internal: compared only through their consequences)
            c.corr(req, format!("{} {}", if r.is_ok() { "ok" } else { "err" }, sink.delivered.len()));
            // the same run as a function of the DOCUMENT: the model derives the bytes, the point at which save
            // mutates the document, and the document the caller holds afterwards (Model/SaveSink.lean)
            {
                let (kind, prev, before, after): (&str, Vec<u8>, &Document, &Document) = match (t, &t2) {
                    (Target::Plain(d0), Target::Plain(d1)) => (if matches!(d0.reference_table.cross_reference_type, XrefType::CrossReferenceStream) { "stream" } else { "table" }, vec![], d0, d1),
                    (Target::Incr(i0), Target::Incr(i1)) => (if matches!(i0.get_prev_documents().reference_table.cross_reference_type, XrefType::CrossReferenceStream) { "stream" } else { "table" }, i0.get_prev_documents_bytes().to_vec(), &i0.new_document, &i1.new_document),
                    _ => unreachable!(),
                };
                // the first request of an incremental save is the previous file itself: not part of the new revision
                let new_chunks: Vec<&Vec<u8>> = if prev.is_empty() { chunks.iter().collect() } else { chunks.iter().skip(1).collect() };
                let script_new: Vec<Resp> = script.clone();
                let req2 = format!("c19_save {} {} {} {} {} {} {} ; {} ; {}", kind, before.max_id, hex_tok(before.version.as_bytes()), hex_tok(&before.binary_mark), hex_tok(&prev),
                    show_obj(&lopdf::Object::Dictionary(before.trailer.clone())), show_objects(before.objects.iter()),
                    script_tokens(&script_new), std::iter::once(hex_tok(&prev)).filter(|_| !prev.is_empty()).chain(new_chunks.iter().map(|c| hex_tok(c))).collect::<Vec<_>>().join(" "));
                c.corr(req2, format!("{} {} {} {}", if r.is_ok() { "ok" } else { "err" }, sink.delivered.len(), after.max_id, show_obj(&lopdf::Object::Dictionary(after.trailer.clone()))));
                c.count(if after.max_id != before.max_id || after.trailer != before.trailer { "state.mutated" } else { "state.unchanged" });
            }
            if !baseline.starts_with(&sink.delivered) {
                c.oracle_fail("not-prefix", &format!("{}: delivered bytes are not a prefix of the complete output", what), json!({"script": script_tokens(&script)}));
            }
            if r.is_ok() != expect_ok {
                c.oracle_fail(if expect_ok { "spurious-error" } else { "failure-not-reported" }, &format!("{}: save returned {:?}", what, r.as_ref().err().map(|e| e.kind())), json!({"script": script_tokens(&script)}));
            }
            if r.is_ok() && sink.delivered != baseline {
                c.oracle_fail("chunking-visible", &format!("{}: bytes differ from the baseline although save succeeded", what), json!({"script": script_tokens(&script)}));
            }
            // a later save of the same document to a healthy sink produces a valid file with the same content
            if !expect_ok {
                let mut again = Vec::new();
                match t2.save(&mut again) {
                    Ok(()) => {
                        let ok = match (Document::load_mem(&again), Document::load_mem(baseline)) {
                            (Ok(a), Ok(b)) => { let xs = matches!(t, Target::Plain(d) if matches!(d.reference_table.cross_reference_type, XrefType::CrossReferenceStream)) || matches!(t, Target::Incr(_));
                                                 compare_docs_loose(&b, &a, xs) }
                            _ => false };
                        if !ok { c.oracle_fail("resave-differs", &format!("{}: save after a failed save does not load to the same content", what), json!({"script": script_tokens(&script)})); }
                        c.count("resave.ok");
                    }
                    Err(e) => c.oracle_fail("resave-error", &format!("{}: save after a failed save failed: {}", what, e), json!({})),
                }
            }
        }
        Err((site, msg)) => c.oracle_fail(&format!("panic@{}", site), &format!("{}: {}", what, msg), json!({"script": script_tokens(&script)})),
    }
}
/// both documents were loaded from files; cross-reference stream objects are bookkeeping
fn compare_docs_loose(a: &Document, b: &Document, _xs: bool) -> bool {
    let strip = |d: &Document| { let mut d = d.clone(); d.objects.retain(|_, o| !matches!(o, lopdf::Object::Stream(s) if s.dict.has_type(b"XRef"))); d };
    compare_docs(&strip(a), &strip(b), false).is_none()
}

/// script that delivers exactly `p` bytes (whole requests, then a partial one) and then responds `last`
fn script_until(chunks: &[Vec<u8>], p: usize, last: Resp) -> Vec<Resp> {
    let mut s = vec![]; let mut total = 0;
    for ch in chunks {
        if total + ch.len() <= p { s.push(Resp::Accept(ch.len())); total += ch.len(); if total == p && false { break; } }
        else { if p > total { s.push(Resp::Accept(p - total)); } break; }
    }
    s.push(last);
    s
}

pub fn run(c: &mut Ctx) {
    c.rule = "small generated documents x {table, stream} xref x {plain, incremental} save; per document: EVERY byte offset of the complete output as \
failure position x {hard error, zero-length write} (exhaustive), chunkings of 1..7 and random bytes per accepted write, random transient Interrupted; \
the request list is recorded from the real run and replayed through the model. Non-trivial = script with a failure or a split; distinct by request text.".into();
    let n_docs = c.n(6, 40);
    let mut exhaustive_positions = 0u64;
    for i in 0..n_docs {
        let Some(mut r) = c.case("doc", i) else { continue };
        let mut doc = loop { let d = gen_doc(&mut r); if d.objects.len() >= 1 && d.objects.len() <= 6 { break d; } };
        // every document holds literal strings that need each kind of escape (backslash, unbalanced parentheses, CR) and a name that
        // needs #-escapes: those are written by their own loops / helpers, not by one write_all
        { let id = doc.new_object_id(); doc.objects.insert(id, lopdf::Object::Array(vec![
            lopdf::Object::String(b"a\\b(c\rd)e)f((".to_vec(), lopdf::StringFormat::Literal),
            lopdf::Object::String(vec![b'\\'; 300], lopdf::StringFormat::Literal),
            lopdf::Object::Name(b"A B#(".to_vec())])); c.count("doc.escaped_strings"); }
        let stream = i % 2 == 1;
        doc.reference_table.cross_reference_type = if stream { XrefType::CrossReferenceStream } else { XrefType::CrossReferenceTable };
        let incr = i % 4 >= 2;
        let target = if incr {
            // previous revision = the plain save of `doc`; new revision adds/replaces objects
            let mut prev = Vec::new(); let mut d0 = doc.clone(); if d0.save_to(&mut prev).is_err() { continue; }
            let Ok(mut inc) = IncrementalDocument::load_from(&prev[..]) else { c.count("incr.load_failed"); continue };
            let id = inc.new_document.new_object_id();
            inc.new_document.objects.insert(id, gen_obj(&mut r, 2));
            Target::Incr(inc)
        } else { Target::Plain(doc.clone()) };
        c.count(&format!("doc.{}.{}", if incr { "incremental" } else { "plain" }, if stream { "stream" } else { "table" }));
        // baseline + request list
        let mut rec = Recorder { chunks: vec![] };
        let mut t0 = target.clone_t();
        if t0.save(&mut rec).is_err() { c.count("doc.save_error"); continue; }
        let chunks = rec.chunks;
        let baseline: Vec<u8> = chunks.concat();
        if i < 2 { c.sample(json!({"incremental": incr, "xref_stream": stream, "requests": chunks.len(), "bytes": baseline.len()})); }
        // chunkings
        for k in 1..=7usize {
            let script = vec![Resp::Accept(k); baseline.len() / k + chunks.len() + 2];
            c.evaluations += 1; c.nontrivial(&format!("{}c{}", i, k));
            run_script(c, &target, &chunks, &baseline, script, &format!("chunking {}", k), true);
        }
        for j in 0..c.n(5, 30) {
            let mut script = vec![];
            for _ in 0..(baseline.len() + chunks.len()) { script.push(match r.below(10) { 0 => Resp::Interrupted, _ => Resp::Accept(1 + r.usize(9)) }); }
            c.evaluations += 1; c.nontrivial(&format!("{}r{}", i, j));
            run_script(c, &target, &chunks, &baseline, script, "random chunking + Interrupted", true);
        }
        // every failure position x {hard error, zero-length write}
        let step = if c.quick() && baseline.len() > 600 { 3 } else { 1 };
        let mut p = 0;
        while p < baseline.len() {
            for last in [Resp::Fail, Resp::Accept(0)] {
                let script = script_until(&chunks, p, last);
                c.evaluations += 1; c.nontrivial(&format!("{}f{}{:?}", i, p, last));
                run_script(c, &target, &chunks, &baseline, script, &format!("failure at byte {}", p), false);
                exhaustive_positions += 1;
            }
            p += step;
        }
    }
    c.extra.insert("failure_positions_run".into(), json!(exhaustive_positions));
}
#[allow(dead_code)]
fn _unused(_: &mut Rng) {}
