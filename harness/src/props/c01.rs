//! C01 — save then load returns the same document.
//! Object level: real Writer::write_object / _direct_object vs the model (write_obj / parse_obj),
//! oracle parse(write(o) ++ rest) = norm(o). Document level: real save_to (table and stream)
//! vs the model's bytes (`save`), oracle load_mem(save_to(d)) ≅ d, repeated cycles.
use crate::codec::*;
use crate::ctx::{guard, Ctx};
use crate::gen::*;
use crate::rng::Rng;
use lopdf::xref::XrefType;
use lopdf::{Dictionary, Document, Object};
use serde_json::json;

/// `norm`: an integral real may come back as the integer of the same value — nothing else
pub fn norm(o: &Object) -> Object {
    match o {
        // the integer read back is the one the decimal text denotes; it must convert to the same f32
        Object::Real(f) if f.fract() == 0.0 && *f >= -9.223372e18 && *f < 9.223372e18 => {
            match format!("{}", f).parse::<i64>() { Ok(i) if (i as f32) == *f => Object::Integer(i), _ => o.clone() }
        }
        Object::Array(a) => Object::Array(a.iter().map(norm).collect()),
        Object::Dictionary(d) => Object::Dictionary(norm_dict(d)),
        Object::Stream(s) => { let mut s = s.clone(); s.dict = norm_dict(&s.dict); s.start_position = None; s.allows_compression = true; Object::Stream(s) }
        x => x.clone(),
    }
}
pub fn norm_dict(d: &Dictionary) -> Dictionary {
    let mut n = Dictionary::new();
    for (k, v) in d.iter() { n.set(k.clone(), norm(v)); }
    n
}
/// structural equality, reals compared by bits of the f32 (−0.0 == 0.0 allowed: Display prints "-0" → integer 0)
pub fn same(a: &Object, b: &Object) -> bool { show_obj(a) == show_obj(b) || a == b }

pub fn write_real(o: &Object) -> Vec<u8> {
    let mut v = Vec::new();
    lopdf::verif_api::Writer::write_object(&mut v, o).expect("write to Vec");
    v
}

fn parse_reply(bytes: &[u8]) -> String {
    match lopdf::verif_api::direct_object(bytes) {
        Some((o, used)) => format!("ok {} {}", used, show_obj(&o)),
        None => "err".into(),
    }
}

fn gen_rest(r: &mut Rng) -> Vec<u8> {
    // what may follow an object inside a file: a delimiter / white space / end, then anything
    let starts: &[&[u8]] = &[b"", b" ", b"\n", b"]", b">>", b"/N", b"(s)", b"<41>", b"[", b"\nendobj\n", b" % c\n/x", b"\r\nendobj"];
    let mut v = r.pick(starts).to_vec();
    // random continuation; no `R`: the writer never puts `<digits> R` after an object unless that object IS a reference
    if !v.is_empty() && r.chance(1, 3) { v.extend(gen_bytes(r, 8).into_iter().filter(|b| *b != b'R')); }
    v
}

pub fn run(c: &mut Ctx) {
    c.rule = "objects of all direct kinds nested to depth 5 with bytes weighted to ()\\#/%<>[]{} NUL CR LF 0x80-0xFF, extreme integers, \
finite reals from the f32 bit space, extreme references; byte sweeps through name / literal / hex string / key; token soups for the parser; \
documents with sparse ids, generations, streams, any version / binary mark x table|stream xref, 3 save/load cycles. \
Non-trivial = object with >= 1 non-plain byte or nesting, or document with >= 2 objects; distinct by request text.".into();
    objects(c);
    sweeps(c);
    soups(c);
    documents(c);
    dirty_documents(c);
}

fn check_object(c: &mut Ctx, o: &Object, rest: &[u8], tag: &str) {
    let req = format!("write_obj {}", show_obj(o));
    match guard(|| write_real(o)) {
        Ok(bytes) => {
            c.corr(req.clone(), format!("ok {}", hex_tok(&bytes)));
            let mut inp = bytes.clone(); inp.extend_from_slice(rest);
            c.corr(format!("parse_obj {}", hex_tok(&inp)), parse_reply(&inp));
            // oracle: parse (write o ++ rest) gives norm o and consumes the written bytes + following space
            match lopdf::verif_api::direct_object(&inp) {
                Some((back, used)) => {
                    if !same(&back, &norm(o)) {
                        c.oracle_fail(&format!("obj-rt:{}", sig_of(o)), "object read back differs from the one written",
                            json!({"object": show_obj(o), "written": hex(&bytes), "rest": hex(rest), "read": show_obj(&back)}));
                    } else if used < bytes.len() {
                        c.oracle_fail("obj-rt:short", "parser consumed less than the writer wrote", json!({"object": show_obj(o), "written": hex(&bytes), "used": used}));
                    }
                }
                None => c.oracle_fail(&format!("obj-rt:{}", sig_of(o)), "written object does not parse", json!({"object": show_obj(o), "written": hex(&bytes), "rest": hex(rest)})),
            }
            c.count(&format!("{}.cases", tag));
        }
        Err((site, msg)) => c.oracle_fail(&format!("panic@{}", site), &msg, json!({"object": show_obj(o)})),
    }
}

/// signature of an object for known-finding matching: which risky features it contains
fn sig_of(o: &Object) -> String {
    fn walk(o: &Object, f: &mut Vec<&'static str>) {
        match o {
            Object::Real(v) => { if !v.is_finite() { f.push("nonfinite-real"); } }
            Object::Array(a) => a.iter().for_each(|x| walk(x, f)),
            Object::Dictionary(d) => d.iter().for_each(|(_, x)| walk(x, f)),
            _ => {}
        }
    }
    let mut f = vec![]; walk(o, &mut f); f.sort(); f.dedup();
    if f.is_empty() { "plain".into() } else { f.join("+") }
}

fn objects(c: &mut Ctx) {
    let n = c.n(3000, 60000);
    for i in 0..n {
        let Some(mut r) = c.case("obj", i) else { continue };
        let depth = r.usize(6);
        let o = gen_obj(&mut r, depth);
        let rest = gen_rest(&mut r);
        let s = show_obj(&o);
        if s.len() > 6 { c.nontrivial(&s); }
        match &o { Object::Real(f) => { c.count("obj.real"); if f.fract() == 0.0 { c.count("obj.real_integral"); } if f.abs() >= 9.2e18 { c.count("obj.real_outside_i64"); } }
                   Object::Array(_) | Object::Dictionary(_) => c.count("obj.container"), Object::String(..) => c.count("obj.string"), Object::Name(_) => c.count("obj.name"), _ => c.count("obj.scalar") }
        if i < 3 { c.sample(json!({"stream": "obj", "object": s, "written": String::from_utf8_lossy(&write_real(&o)).to_string()})); }
        check_object(c, &o, &rest, "obj");
    }
    // fixed regression witnesses (repaired defects): must stay repaired
    let Some(_) = c.case("witness", 0) else { return };
    let w1 = Object::Real(1e19);
    let back = lopdf::verif_api::direct_object(&write_real(&w1));
    c.witness("F-C01-a", !matches!(back, Some((Object::Real(v), _)) if v == 1e19), "Real(1e19) must be written so that it reads back as the same real");
    let mut deep = vec![b'('; 150]; deep.extend(vec![b')'; 150]);
    let w2 = Object::String(deep.clone(), lopdf::StringFormat::Literal);
    let back = lopdf::verif_api::direct_object(&write_real(&w2));
    c.witness("F-C01-b", !matches!(back, Some((Object::String(ref s, _), _)) if *s == deep), "literal string with 150 nested parentheses must read back");
}

fn sweeps(c: &mut Ctx) {
    // all byte pairs (thorough) / all single bytes + sampled pairs (quick) as name, literal, hex string, key
    let Some(mut r) = c.case("sweep", 0) else { return };
    let mut pairs: Vec<Vec<u8>> = (0..=255u8).map(|b| vec![b]).collect();
    if c.quick() { for _ in 0..4096 { pairs.push(vec![r.byte(), r.byte()]); } }
    else { for a in 0..=255u8 { for b in 0..=255u8 { pairs.push(vec![a, b]); } } }
    for p in &pairs {
        for kind in 0..4 {
            let o = match kind {
                0 => Object::Name(p.clone()),
                1 => Object::String(p.clone(), lopdf::StringFormat::Literal),
                2 => Object::String(p.clone(), lopdf::StringFormat::Hexadecimal),
                _ => { let mut d = Dictionary::new(); d.set(p.clone(), Object::Integer(1)); Object::Dictionary(d) }
            };
            c.nontrivial(&show_obj(&o));
            c.evaluations += 1;
            check_object(c, &o, b" 0", "sweep");
        }
    }
    c.extra.insert("sweep_exhaustive_pairs".into(), json!(!c.quick()));
}

fn soups(c: &mut Ctx) {
    // parser-only correspondence on token soups (mostly not valid objects)
    const TOK: &[&[u8]] = &[b"1", b"0", b"R", b" ", b"\n", b"-", b"+", b".", b"5", b"/", b"#", b"4", b"1", b"(", b")", b"\\", b"<", b">", b"[", b"]", b"<<", b">>",
        b"true", b"false", b"null", b"%x\n", b"%", b"\r", b"9223372036854775807", b"9223372036854775808", b"4294967296", b"65536", b"/A", b"(a)", b"<4>", b"\\053", b"\\8", b"z", b"#4G"];
    let n = c.n(4000, 80000);
    for i in 0..n {
        let Some(mut r) = c.case("soup", i) else { continue };
        let k = 1 + r.usize(10);
        let mut inp = vec![];
        for _ in 0..k { if r.chance(1, 8) { inp.push(special_byte(&mut r)); } else { let t: &[u8] = *r.pick(TOK); inp.extend_from_slice(t); } }
        let reply = match guard(|| parse_reply(&inp)) { Ok(s) => s, Err((site, msg)) => { c.oracle_fail(&format!("panic@{}", site), &msg, json!({"input": hex(&inp)})); continue; } };
        if reply != "err" { c.count("soup.parsed"); c.nontrivial(&hex(&inp)); } else { c.count("soup.rejected"); }
        c.corr(format!("parse_obj {}", hex_tok(&inp)), reply);
    }
}

/// canonical reply of the real loader for the `load` operation
pub fn load_reply(bytes: &[u8]) -> String {
    match guard(|| Document::load_mem(bytes)) {
        Ok(Ok(d)) => format!("ok {} {} {} {} {} {}", d.max_id, d.xref_start, hex_tok(d.version.as_bytes()), hex_tok(&d.binary_mark),
            show_obj(&Object::Dictionary(d.trailer.clone())), show_objects(d.objects.iter())),
        Ok(Err(_)) => "err".into(),
        Err((site, msg)) => format!("panic {} {}", site, msg.replace('\n', " ")),
    }
}

pub fn doc_request(kind: &str, doc: &Document) -> String {
    format!("save {} {} {} {} {} {}", kind, doc.max_id, hex_tok(doc.version.as_bytes()), hex_tok(&doc.binary_mark),
        show_obj(&Object::Dictionary(doc.trailer.clone())), show_objects(doc.objects.iter()))
}

/// keys that are cross-reference bookkeeping and may differ after a cycle
const BOOKKEEPING: &[&[u8]] = &[b"Size", b"Prev", b"Type", b"W", b"Index", b"Length", b"Filter", b"DecodeParms", b"XRefStm"];

pub fn compare_docs(orig: &Document, back: &Document, xref_stream: bool) -> Option<String> {
    if orig.version != back.version { return Some(format!("version {:?} -> {:?}", orig.version, back.version)); }
    let mut ids: Vec<_> = orig.objects.iter().filter(|(_, o)| !skipped(o)).map(|(k, _)| *k).collect();
    ids.sort();
    let mut back_ids: Vec<_> = back.objects.iter().filter(|(_, o)| !(xref_stream && is_xref_stream(o))).map(|(k, _)| *k).collect();
    back_ids.sort();
    if ids != back_ids { return Some(format!("object ids {:?} -> {:?}", ids, back_ids)); }
    for id in ids {
        let a = norm(&orig.objects[&id]); let b = norm(&back.objects[&id]);
        if !same(&a, &b) { return Some(format!("object {:?}: {} -> {}", id, show_obj(&a), show_obj(&b))); }
    }
    let strip = |d: &Dictionary| { let mut n = norm_dict(d); for k in BOOKKEEPING { n.remove(k); } n };
    let (ta, tb) = (strip(&orig.trailer), strip(&back.trailer));
    if ta != tb { return Some(format!("trailer {} -> {}", show_obj(&Object::Dictionary(ta)), show_obj(&Object::Dictionary(tb)))); }
    None
}
fn skipped(o: &Object) -> bool { matches!(o.type_name(), Ok(b"ObjStm") | Ok(b"XRef") | Ok(b"Linearized")) }
fn is_xref_stream(o: &Object) -> bool { matches!(o, Object::Stream(s) if s.dict.has_type(b"XRef")) }

/// documents that have ALREADY been saved once and were edited afterwards (the trailer carries the bookkeeping of the
/// previous save, max_id was raised by a cross-reference-stream save), then saved again WITHOUT a reload in between:
/// objects added at the top with a generation other than 0, replaced and removed objects, the cross-reference kind
/// switched between the saves. `save` must not trust anything it left behind.
fn dirty_documents(c: &mut Ctx) {
    let n = c.n(300, 4000);
    for i in 0..n {
        let Some(mut r) = c.case("dirty", i) else { continue };
        let mut doc = gen_doc(&mut r);
        let first_stream = i % 2 == 0;
        doc.reference_table.cross_reference_type = if first_stream { XrefType::CrossReferenceStream } else { XrefType::CrossReferenceTable };
        let saves = 1 + r.usize(2);
        let mut ok = true;
        for _ in 0..saves { let mut sink = Vec::new(); if !matches!(guard(|| doc.save_to(&mut sink)), Ok(Ok(()))) { ok = false; break; } }
        if !ok { c.count("dirty.first_save_error"); continue; }
        // every third document is RELOADED from its own file before it is edited: what the reader remembers about the file
        // (the cross-reference stream's object, its number, max_id) must not leak into the next save
        if i % 3 == 2 {
            let mut buf0 = Vec::new();
            if !matches!(guard(|| doc.save_to(&mut buf0)), Ok(Ok(()))) { continue; }
            let Ok(Ok(back)) = guard(|| Document::load_mem(&buf0)) else { continue };
            doc = back;
            doc.reference_table.cross_reference_type = if first_stream { XrefType::CrossReferenceStream } else { XrefType::CrossReferenceTable };
            c.count("dirty.reloaded");
            // the stale cross-reference stream object: removed, and its number reused by an ordinary object; or everything renumbered
            let xref_ids: Vec<_> = doc.objects.iter().filter(|(_, o)| is_xref_stream(o)).map(|(k, _)| *k).collect();
            match r.below(4) {
                0 => { for id in &xref_ids { doc.objects.remove(id); doc.objects.insert(*id, gen_obj(&mut r, 3)); c.count("dirty.xref_number_reused"); } }
                1 => { for id in &xref_ids { doc.objects.remove(id); } let start = 1 + r.below(4) as u32; let _ = guard(|| doc.renumber_objects_with(start)); c.count("dirty.renumbered_after_load"); }
                2 => { let start = 1 + r.below(4) as u32; let _ = guard(|| doc.renumber_objects_with(start)); c.count("dirty.renumbered_after_load_with_xref"); }
                _ => {}
            }
        }
        for _ in 0..r.usize(5) {
            match r.below(5) {
                0 => { let id = (doc.max_id + 1, 1 + r.below(3) as u16); doc.set_object(id, gen_obj(&mut r, 3)); c.count("dirty.top_object_with_generation"); }
                1 => { doc.add_object(gen_obj(&mut r, 3)); c.count("dirty.added"); }
                2 => { let keys: Vec<_> = doc.objects.keys().cloned().collect(); if !keys.is_empty() { let k = *r.pick(&keys); doc.objects.remove(&k); c.count("dirty.removed"); } }
                3 => { let keys: Vec<_> = doc.objects.keys().cloned().collect(); if !keys.is_empty() { let k = *r.pick(&keys); doc.objects.insert(k, gen_obj(&mut r, 3)); c.count("dirty.replaced"); } }
                _ => { let id = (doc.max_id, 1 + r.below(2) as u16); if doc.max_id > 0 && !doc.objects.keys().any(|k| k.0 == doc.max_id) { doc.objects.insert(id, gen_obj(&mut r, 2)); c.count("dirty.generation_at_max_id"); } }
            }
        }
        let stream = if r.chance(1, 4) { !first_stream } else { first_stream };
        if stream != first_stream { c.count("dirty.kind_switched"); }
        doc.reference_table.cross_reference_type = if stream { XrefType::CrossReferenceStream } else { XrefType::CrossReferenceTable };
        let kind = if stream { "stream" } else { "table" };
        c.nontrivial(&format!("d{}", i));
        let before = doc.clone();
        let req = doc_request(kind, &doc);
        let mut buf = Vec::new();
        match guard(|| doc.save_to(&mut buf)) {
            Ok(Ok(())) => {
                c.corr(req, format!("ok {} {} {}", hex_tok(&buf), doc.max_id, show_obj(&Object::Dictionary(doc.trailer.clone()))));
                c.corr(format!("load {}", hex_tok(&buf)), load_reply(&buf));
                match guard(|| Document::load_mem(&buf)) {
                    Ok(Ok(back)) => if let Some(diff) = compare_docs(&before, &back, stream) {
                        c.oracle_fail("doc-rt", &format!("document saved before, edited, saved again: {}", diff), json!({"file": hex(&buf), "kind": kind}));
                    },
                    Ok(Err(e)) => c.oracle_fail("doc-rt:load-error", &format!("re-saved file does not load: {:?}", e), json!({"file": hex(&buf), "kind": kind})),
                    Err((site, msg)) => c.oracle_fail(&format!("panic@{}", site), &msg, json!({"file": hex(&buf)})),
                }
            }
            Ok(Err(_)) => { c.corr(req, "err".into()); c.count("dirty.save_error"); }
            Err((site, msg)) => c.oracle_fail(&format!("panic@{}", site), &msg, json!({"kind": kind})),
        }
    }
}

fn documents(c: &mut Ctx) {
    // damaged, over-deep files first (see c02::over_deep_prelude): what save wrote must load whatever this process parsed before
    super::c02::over_deep_prelude(c);
    let n = c.n(300, 5000);
    for i in 0..n {
        let Some(mut r) = c.case("doc", i) else { continue };
        let mut doc = gen_doc(&mut r);
        let stream = r.chance(1, 2);
        doc.reference_table.cross_reference_type = if stream { XrefType::CrossReferenceStream } else { XrefType::CrossReferenceTable };
        // every 6th document ends with an object that itself contains the tail of a PDF file (an
        // embedded file, a string quoting `startxref … %%EOF`): the reader must use the REAL, last marker
        if i % 6 == 0 {
            let id = (doc.max_id + 1, 0); doc.max_id += 1;
            let fake = format!("junk\nstartxref\n{}\n%%EOF\n", r.below(400)).into_bytes();
            let o = if r.chance(1, 2) { Object::Stream(lopdf::Stream::new(Dictionary::new(), fake)) } else { Object::String(fake, lopdf::StringFormat::Literal) };
            doc.objects.insert(id, o); c.count("doc.embedded_fake_trailer");
        }
        // every 10th document holds an object nested up to the deepest level the parser accepts (MAX_NESTING = 128 containers):
        // what the writer writes the reader must read back, at 64, 65, 127 and 128 levels as well as at 5. Optimised builds only:
        // unoptimised frames overflow a rayon worker's stack near the limit (known finding F-C04-k).
        if i % 10 == 3 && !cfg!(debug_assertions) {
            let d = *r.pick(&[60usize, 64, 65, 100, 127, 128]);
            let mut o = Object::Integer(r.range(-9, 9));
            for _ in 0..d { o = if r.chance(1, 2) { Object::Array(vec![o]) } else { let mut dd = Dictionary::new(); dd.set("K", o); Object::Dictionary(dd) }; }
            let id = (doc.max_id + 1, 0); doc.max_id += 1;
            doc.objects.insert(id, o); c.count(&format!("doc.deep_nesting_{}", d));
        }
        if doc.objects.len() >= 2 { c.nontrivial(&format!("{}{}", i, doc.objects.len())); }
        c.count(if stream { "doc.xref_stream" } else { "doc.xref_table" });
        let kind = if stream { "stream" } else { "table" };
        let orig = doc.clone();
        let mut cur = doc;
        for cycle in 0..3 {
            let before = cur.clone();
            let req = doc_request(kind, &cur);
            let mut buf = Vec::new();
            match guard(|| cur.save_to(&mut buf)) {
                Ok(Ok(())) => {
                    c.corr(req, format!("ok {} {} {}", hex_tok(&buf), cur.max_id, show_obj(&Object::Dictionary(cur.trailer.clone()))));
                    c.corr(format!("load {}", hex_tok(&buf)), load_reply(&buf));
                    // the same document through a sink with short writes / Interrupted: the file must be the same
                    if i % 3 == 0 {
                        let mut odd = OddSink::new(&mut r); let mut d2 = before.clone();
                        match guard(|| d2.save_to(&mut odd)) {
                            Ok(Ok(())) => if odd.data != buf { c.oracle_fail("sink-dependent-bytes", &format!("cycle {}: saving through a sink with {} gives other bytes than saving into a Vec", cycle, odd.describe()), json!({"file": hex(&buf), "odd": hex(&odd.data), "kind": kind})); },
                            Ok(Err(e)) => c.oracle_fail("sink-dependent-bytes", &format!("save through a sink with {} fails: {:?}", odd.describe(), e), json!({"kind": kind})),
                            Err((site, msg)) => c.oracle_fail(&format!("panic@{}", site), &msg, json!({"kind": kind})),
                        }
                        c.count("doc.odd_sink_saves");
                    }
                    match guard(|| Document::load_mem(&buf)) {
                        Ok(Ok(back)) => {
                            if let Some(diff) = compare_docs(&before, &back, stream) {
                                c.oracle_fail("doc-rt", &format!("cycle {}: {}", cycle, diff), json!({"file": hex(&buf), "kind": kind}));
                                break;
                            }
                            if cycle == 0 && i < 2 { c.sample(json!({"stream": "doc", "kind": kind, "objects": orig.objects.len(), "file_len": buf.len()})); }
                            cur = back;
                            cur.reference_table.cross_reference_type = if stream { XrefType::CrossReferenceStream } else { XrefType::CrossReferenceTable };
                        }
                        Ok(Err(e)) => { c.oracle_fail("doc-rt:load-error", &format!("cycle {}: saved file does not load: {:?}", cycle, e), json!({"file": hex(&buf), "kind": kind})); break; }
                        Err((site, msg)) => { c.oracle_fail(&format!("panic@{}", site), &msg, json!({"file": hex(&buf)})); break; }
                    }
                }
                Ok(Err(e)) => { c.corr(req, "err".into()); c.count("doc.save_error"); let _ = e; break; }
                Err((site, msg)) => { c.oracle_fail(&format!("panic@{}", site), &msg, json!({"kind": kind})); break; }
            }
        }
    }
}
