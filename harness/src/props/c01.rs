//! C01 — not yet built
use crate::ctx::Ctx;
pub fn run(c: &mut Ctx) { c.notes.push("C01: not implemented".into()); }
