//! C09 — not yet built
use crate::ctx::Ctx;
pub fn run(c: &mut Ctx) { c.notes.push("C09: not implemented".into()); }
