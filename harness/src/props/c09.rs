//! C09 — stream filters decode as specified; compression is lossless.
//!
//! Generators: reference ENCODERS owned by the harness (PNG filters from the PNG specification,
//! ASCII85 from ISO 32000-1 §7.4.3, flate2's zlib encoder, weezl's LZW encoder with and without the
//! TIFF size switch) turn a plaintext into the content of a stream with a filter chain of length
//! 1…3 and predictor / geometry / EarlyChange parameters in dictionary or array form.
//! Real code: `Stream::{decompressed_content, get_plain_content, decompress, compress, set_content,
//! set_plain_content, filters}`, `Document::{compress, decompress}`, `filters::png::{decode_row,
//! decode_frame}` — all through the public API, in-process.
//! Correspondence: ops `a85`, `pngrow`, `pngframe`, `filters`, `decode`, `plain`, `decompress`,
//! `compress`, `setcontent`, `setplain`, `doccompress`, `docdecompress` of lean/Driver/C09.lean; the
//! results of flate2 / weezl on the inputs the chain feeds them are shipped as `ext` data.
//! Oracle (independent of model and lopdf): the original plaintext; an own PNG reference decoder
//! for arbitrary filtered rows; `Length = |content|`; not-longer; untouched objects.
use crate::codec::*;
use crate::ctx::{guard, Ctx};
use crate::rng::Rng;
use lopdf::filters::png;
use lopdf::{Dictionary, Document, Object, Stream};
use serde_json::json;
use std::io::{Read, Write};

// ---------------------------------------------------------------- reference encoders / decoders

fn ref_paeth(a: u8, b: u8, c: u8) -> u8 {
    let (ia, ib, ic) = (a as i64, b as i64, c as i64);
    let p = ia + ib - ic;
    let (pa, pb, pc) = ((p - ia).abs(), (p - ib).abs(), (p - ic).abs());
    if pa <= pb && pa <= pc { a } else if pb <= pc { b } else { c }
}
fn ref_pred(t: u8, a: u8, b: u8, c: u8) -> u8 {
    match t { 0 => 0, 1 => a, 2 => b, 3 => ((a as u32 + b as u32) / 2) as u8, _ => ref_paeth(a, b, c) }
}
/// PNG §9: Filt(x) = Orig(x) - Pred(Orig(a), Orig(b), Orig(c))
fn ref_encode_row(t: u8, bpp: usize, prev: &[u8], cur: &[u8]) -> Vec<u8> {
    (0..cur.len()).map(|i| {
        let a = if i >= bpp { cur[i - bpp] } else { 0 };
        let b = prev.get(i).copied().unwrap_or(0);
        let c = if i >= bpp { prev.get(i - bpp).copied().unwrap_or(0) } else { 0 };
        cur[i].wrapping_sub(ref_pred(t, a, b, c))
    }).collect()
}
/// PNG §9: Recon(x) = Filt(x) + Pred(Recon(a), Recon(b), Recon(c))
fn ref_decode_row(t: u8, bpp: usize, prev: &[u8], filt: &[u8]) -> Vec<u8> {
    let mut out: Vec<u8> = Vec::with_capacity(filt.len());
    for i in 0..filt.len() {
        let a = if i >= bpp { out[i - bpp] } else { 0 };
        let b = prev.get(i).copied().unwrap_or(0);
        let c = if i >= bpp { prev.get(i - bpp).copied().unwrap_or(0) } else { 0 };
        out.push(filt[i].wrapping_add(ref_pred(t, a, b, c)));
    }
    out
}
/// rows of `rowlen` bytes, each preceded by its filter type; row above the first = 0
fn ref_encode_frame(data: &[u8], bpp: usize, rowlen: usize, types: &[u8]) -> Vec<u8> {
    let mut out = vec![];
    let mut prev = vec![0u8; rowlen];
    for (k, row) in data.chunks(rowlen.max(1)).enumerate() {
        let t = types[k % types.len()];
        out.push(t);
        out.extend(ref_encode_row(t, bpp, &prev, row));
        prev = row.to_vec();
    }
    out
}

#[derive(Clone, Copy)]
pub struct A85Style { pub use_z: bool, pub wrap: usize, pub ws: u8, pub eod: bool }
/// ISO 32000-1 §7.4.3 encoder
pub fn ref_a85_encode(x: &[u8], st: A85Style) -> Vec<u8> {
    let mut digits: Vec<u8> = vec![];
    for g in x.chunks(4) {
        let mut v: u64 = 0;
        for i in 0..4 { v = v * 256 + *g.get(i).unwrap_or(&0) as u64; }
        if g.len() == 4 && v == 0 && st.use_z { digits.push(b'z'); continue; }
        let mut d = [0u8; 5];
        for i in (0..5).rev() { d[i] = (v % 85) as u8 + b'!'; v /= 85; }
        digits.extend_from_slice(&d[..g.len() + 1]);
    }
    let mut out = vec![];
    for (i, d) in digits.iter().enumerate() {
        if st.wrap > 0 && i > 0 && i % st.wrap == 0 { out.push(st.ws); }
        out.push(*d);
    }
    if st.eod { out.extend_from_slice(b"~>"); }
    out
}

fn zlib_encode(x: &[u8], level: u32) -> Vec<u8> {
    let mut e = flate2::write::ZlibEncoder::new(Vec::new(), flate2::Compression::new(level));
    e.write_all(x).unwrap();
    e.finish().unwrap()
}
/// exactly what `Stream::compress` asks of flate2
fn zlib_best(x: &[u8]) -> Vec<u8> {
    let mut e = flate2::write::ZlibEncoder::new(Vec::new(), flate2::Compression::best());
    e.write_all(x).unwrap();
    e.finish().unwrap()
}
/// exactly what `decompress_zlib` asks of flate2 (errors ignored, partial output kept)
fn ext_inflate(input: &[u8]) -> Vec<u8> {
    let mut out = Vec::new();
    if !input.is_empty() { let _ = flate2::read::ZlibDecoder::new(input).read_to_end(&mut out); }
    out
}
pub fn lzw_encode(x: &[u8], early: bool) -> Vec<u8> {
    use weezl::{encode::Encoder, BitOrder};
    let mut e = if early { Encoder::with_tiff_size_switch(BitOrder::Msb, 8) } else { Encoder::new(BitOrder::Msb, 8) };
    e.encode(x).unwrap()
}
/// weezl as `decompress_lzw` calls it, plus whether weezl itself reported a clean end of the stream
fn ext_lzw_status(input: &[u8], early: bool) -> (Vec<u8>, bool) {
    use weezl::{decode::Decoder, BitOrder};
    let mut d = if early { Decoder::with_tiff_size_switch(BitOrder::Msb, 8) } else { Decoder::new(BitOrder::Msb, 8) };
    let mut out = vec![];
    let ok = d.into_stream(&mut out).decode_all(input).status.is_ok();
    (out, ok)
}
/// exactly what `decompress_lzw` asks of weezl
fn ext_lzw(input: &[u8], early: bool) -> Vec<u8> {
    use weezl::{decode::Decoder, BitOrder};
    let mut d = if early { Decoder::with_tiff_size_switch(BitOrder::Msb, 8) } else { Decoder::new(BitOrder::Msb, 8) };
    let mut out = vec![];
    let _ = d.into_stream(&mut out).decode_all(input);
    out
}

// ---------------------------------------------------------------- protocol helpers

fn out_reply(r: &Result<Result<Vec<u8>, lopdf::Error>, (String, String)>) -> String {
    match r { Ok(Ok(v)) => format!("ok {}", hex_tok(v)), Ok(Err(_)) => "err".into(), Err(_) => "panic".into() }
}
fn stream_tok(s: &Stream) -> String { show_obj(&Object::Stream(s.clone())) }

#[derive(Default)]
struct ExtTab(Vec<(String, Vec<u8>, Vec<u8>)>);
/// every shipped weezl result that weezl itself calls a clean decode is re-derived by the Lean LZW specification
fn emit_lzw_checks(c: &mut Ctx, tab: &ExtTab) {
    for (k, i, o) in &tab.0 {
        let early = match k.as_str() { "l0" => false, "l1" => true, _ => continue };
        if i.len() > 40000 { continue; }
        let (out, ok) = ext_lzw_status(i, early);
        if ok && out == *o { c.count("lzwspec.shipped_checked"); c.corr(format!("lzwspec {} {}", early as u8, hex_tok(i)), format!("eod {}", hex_tok(o))); }
        else { c.count("lzwspec.shipped_not_clean"); }
    }
}
impl ExtTab {
    fn add(&mut self, kind: &str, i: &[u8], o: Vec<u8>) {
        if !self.0.iter().any(|(k, a, _)| k == kind && a == i) { self.0.push((kind.into(), i.to_vec(), o)); }
    }
    fn text(&self) -> String {
        let mut s = self.0.len().to_string();
        for (k, i, o) in &self.0 { s.push_str(&format!(" {} {} {}", k, hex_tok(i), hex_tok(o))); }
        s
    }
}
/// external results for every Flate / LZW stage input the REAL chain reaches: the input of stage
/// k+1 is obtained by running lopdf on the first k filters (facts about flate2 / weezl only).
fn ext_for(s: &Stream) -> ExtTab {
    let mut tab = ExtTab::default();
    let Ok(filters) = s.filters() else { return tab };
    let filters: Vec<Vec<u8>> = filters.into_iter().map(|f| f.to_vec()).collect();
    let mut input = s.content.clone();
    for (k, f) in filters.iter().enumerate() {
        match f.as_slice() {
            b"FlateDecode" => tab.add("z", &input, ext_inflate(&input)),
            b"LZWDecode" => { tab.add("l0", &input, ext_lzw(&input, false)); tab.add("l1", &input, ext_lzw(&input, true)); }
            _ => {}
        }
        if k + 1 == filters.len() { break; }
        let mut p = s.clone();
        p.dict.set("Filter", Object::Array(filters[..=k].iter().map(|n| Object::Name(n.clone())).collect()));
        match guard(|| p.decompressed_content()) { Ok(Ok(v)) => input = v, _ => break }
    }
    tab
}

// ---------------------------------------------------------------- ASCII85

fn a85_stream(content: Vec<u8>) -> Stream {
    let mut d = Dictionary::new();
    d.set("Filter", Object::Name(b"ASCII85Decode".to_vec()));
    Stream::new(d, content)
}
fn a85_real(content: &[u8]) -> Result<Result<Vec<u8>, lopdf::Error>, (String, String)> {
    let s = a85_stream(content.to_vec());
    guard(|| s.decompressed_content())
}
fn a85_check_valid(c: &mut Ctx, x: &[u8], st: A85Style, stream: &str) {
    let enc = ref_a85_encode(x, st);
    let r = a85_real(&enc);
    let req = format!("a85 {}", hex_tok(&enc));
    c.corr(req.clone(), out_reply(&r));
    c.count(&format!("{}.cases", stream));
    match &r {
        Ok(Ok(v)) if v == x => {}
        Ok(Ok(v)) => c.oracle_fail("a85-wrong", "ASCII85Decode of a reference-encoded string is not the original",
            json!({"plain": hex(x), "encoded": String::from_utf8_lossy(&enc), "decoded": hex(v)})),
        Ok(Err(e)) => c.oracle_fail("a85-error", "ASCII85Decode rejects a reference-encoded string",
            json!({"plain": hex(x), "encoded": String::from_utf8_lossy(&enc), "error": format!("{}", e)})),
        Err((site, msg)) => c.oracle_fail(&format!("panic@{}", site), msg, json!({"plain": hex(x), "encoded": String::from_utf8_lossy(&enc)})),
    }
}
fn gen_plain(r: &mut Rng, maxlen: usize) -> Vec<u8> {
    let n = match r.below(10) { 0 => 0, 1..=5 => r.usize(maxlen / 4 + 1), _ => r.usize(maxlen + 1) };
    let mode = r.below(6);
    (0..n).map(|i| match mode {
        0 => r.byte(),
        1 => if r.chance(1, 2) { 0 } else { r.byte() },
        2 => 0,
        3 => 255,
        4 => (i % 7) as u8 * 31,
        _ => *r.pick(&[0u8, 1, 84, 85, 127, 128, 254, 255]),
    }).collect()
}
fn gen_style(r: &mut Rng) -> A85Style {
    A85Style { use_z: r.chance(3, 4), wrap: if r.chance(1, 2) { 0 } else { 1 + r.usize(20) }, ws: *r.pick(&[b' ', b'\n', b'\r', b'\t', 12u8]), eod: true }
}

fn run_a85(c: &mut Ctx) {
    let plain_style = A85Style { use_z: true, wrap: 0, ws: b'\n', eod: true };
    // random strings, random layout
    for i in 0..c.n(1500, 20000) {
        let Some(mut r) = c.case("a85.valid", i) else { continue };
        let x = gen_plain(&mut r, 40);
        let st = gen_style(&mut r);
        if x.len() >= 1 { c.nontrivial(&format!("a85 {}", hex(&x))); }
        if x.len() % 4 != 0 { c.count(&format!("a85.partial_len{}", x.len() % 4)); }
        if x.chunks(4).any(|g| g == [0, 0, 0, 0]) { c.count(if st.use_z { "a85.z_group" } else { "a85.zero_group_as_digits" }); }
        a85_check_valid(c, &x, st, "a85.valid");
    }
    // every partial final group of 1 byte; of 2 bytes: all (thorough) / a lattice + random (quick); 3 bytes: sample + corners
    for a in 0..256u64 {
        let Some(_) = c.case("a85.partial1", a) else { continue };
        a85_check_valid(c, &[a as u8], plain_style, "a85.partial1");
    }
    let n2 = c.n(4096, 65536);
    for i in 0..n2 {
        let Some(mut r) = c.case("a85.partial2", i) else { continue };
        let v = if c.quick() { (r.below(65536)) as u32 } else { i as u32 };
        a85_check_valid(c, &[(v >> 8) as u8, v as u8], plain_style, "a85.partial2");
    }
    for i in 0..c.n(4096, 200000) {
        let Some(mut r) = c.case("a85.partial3", i) else { continue };
        let corners = [0u8, 1, 84, 85, 254, 255];
        let x = if i < 216 { let k = i as usize; vec![corners[k % 6], corners[k / 6 % 6], corners[k / 36]] } else { r.bytes(3) };
        // preceded by 0..2 full groups so that the state before the partial group varies
        let k = 4 * r.usize(3); let mut pre = r.bytes(k);
        pre.extend(x);
        a85_check_valid(c, &pre, plain_style, "a85.partial3");
    }
    // malformed / unusual: correspondence + no panic
    for i in 0..c.n(1500, 20000) {
        let Some(mut r) = c.case("a85.malformed", i) else { continue };
        let x = gen_plain(&mut r, 24);
        let mut st = gen_style(&mut r);
        st.eod = r.chance(3, 4);
        let mut enc = ref_a85_encode(&x, st);
        for _ in 0..1 + r.usize(3) {
            let pos = r.usize(enc.len() + 1);
            match r.below(12) {
                0 => enc.insert(pos, b'z'),
                1 => enc.insert(pos, *r.pick(&[0u8, 11, 0x7f, b'v', b'w', b'x', b'y', b'{', b'~', b'>', 0x80, 0xff])),
                2 => enc.insert(pos, b'u'),
                3 => { for _ in 0..5 { enc.insert(pos.min(enc.len()), b'u'); } }
                4 => { let g = *r.pick(&[&b"s8W-!"[..], b"s8W-\"", b"s8W-#", b"s8W.!", b"s8W-", b"s8W", b"s8", b"s", b"t", b"u", b"uu", b"rr"]); for (k, b) in g.iter().enumerate() { enc.insert((pos + k).min(enc.len()), *b); } }
                5 => { if !enc.is_empty() { enc.remove(pos.min(enc.len() - 1)); } }
                6 => { enc.truncate(pos); }
                7 => { enc.insert(pos, b'~'); enc.insert((pos + 1).min(enc.len()), b'>'); }
                8 => enc.push(*r.pick(&[b'\n', b' ', b'~', b'>'])),
                9 => { if !enc.is_empty() { let p = pos.min(enc.len() - 1); enc[p] = r.byte(); } }
                10 => enc.insert(pos, *r.pick(&[b' ', b'\n', b'\r', b'\t', 12u8, 11u8, 0u8])),
                _ => { if !enc.is_empty() { let p = pos.min(enc.len() - 1); enc[p] = *r.pick(&[b'!', b'u', b't', b's']); } }
            }
        }
        let res = a85_real(&enc);
        let req = format!("a85 {}", hex_tok(&enc));
        c.nontrivial(&req);
        c.count("a85.malformed.cases");
        match &res { Ok(Ok(_)) => c.count("a85.malformed.ok"), Ok(Err(_)) => c.count("a85.malformed.err"),
            Err((site, msg)) => { c.oracle_fail(&format!("panic@{}", site), msg, json!({"encoded": hex(&enc)})); } }
        c.corr(req, out_reply(&res));
    }
}

// ---------------------------------------------------------------- PNG rows and frames

fn ft(t: u8) -> png::FilterType {
    match t { 0 => png::FilterType::None, 1 => png::FilterType::Sub, 2 => png::FilterType::Up, 3 => png::FilterType::Avg, _ => png::FilterType::Paeth }
}
fn gen_row(r: &mut Rng, n: usize) -> Vec<u8> {
    let mode = r.below(5);
    (0..n).map(|i| match mode { 0 | 1 => r.byte(), 2 => *r.pick(&[0u8, 1, 127, 128, 254, 255]), 3 => (i * 37) as u8, _ => if r.chance(1, 2) { 255 } else { r.byte() } }).collect()
}
fn real_row(t: u8, bpp: usize, prev: &[u8], cur: &[u8]) -> Result<Vec<u8>, (String, String)> {
    let mut cur = cur.to_vec();
    guard(move || { png::decode_row(ft(t), bpp, prev, &mut cur); cur })
}
fn run_png(c: &mut Ctx) {
    // rows: encoded by the reference encoder (round trip) and arbitrary filtered bytes (reference decoder)
    for i in 0..c.n(3000, 60000) {
        let Some(mut r) = c.case("pngrow", i) else { continue };
        let t = r.below(5) as u8;
        let bpp = 1 + r.usize(8);
        let n = match r.below(24) { 0 => r.usize(3), 1 => bpp, 2 => bpp.saturating_sub(1), 3 => bpp + 1, _ => bpp + r.usize(40) };
        let prev = gen_row(&mut r, n);
        let orig = gen_row(&mut r, n);
        let from_encoder = r.chance(1, 2);
        let filt = if from_encoder { ref_encode_row(t, bpp, &prev, &orig) } else { orig.clone() };
        let expect = if from_encoder { orig.clone() } else { ref_decode_row(t, bpp, &prev, &filt) };
        let req = format!("pngrow {} {} {} {}", t, bpp, hex_tok(&prev), hex_tok(&filt));
        if n > bpp { c.nontrivial(&req); }
        c.count(&format!("pngrow.type{}", t));
        if n <= bpp { c.count("pngrow.len_le_bpp"); }
        match real_row(t, bpp, &prev, &filt) {
            Ok(v) => {
                c.corr(req.clone(), format!("ok {}", hex_tok(&v)));
                if v != expect {
                    c.oracle_fail(&format!("png-row-type{}", t), "decode_row differs from the PNG specification's reconstruction",
                        json!({"type": t, "bpp": bpp, "prev": hex(&prev), "filtered": hex(&filt), "expected": hex(&expect), "actual": hex(&v)}));
                }
            }
            Err((site, msg)) => { c.corr(req.clone(), "panic".into()); c.oracle_fail(&format!("panic@{}", site), &msg, json!({"request": req})); }
        }
    }
    // outside the property (bpp = 0, previous shorter / longer than current): correspondence only
    for i in 0..c.n(300, 3000) {
        let Some(mut r) = c.case("pngrow.odd", i) else { continue };
        let t = r.below(5) as u8;
        let bpp = r.usize(4);
        let n = r.usize(12);
        let np = if r.chance(1, 2) { n } else { r.usize(14) };
        let prev = gen_row(&mut r, np);
        let filt = gen_row(&mut r, n);
        let req = format!("pngrow {} {} {} {}", t, bpp, hex_tok(&prev), hex_tok(&filt));
        c.nontrivial(&req);
        match real_row(t, bpp, &prev, &filt) {
            Ok(v) => { c.count("pngrow.odd.ok"); c.corr(req, format!("ok {}", hex_tok(&v))) }
            Err(_) => { c.count("pngrow.odd.panic"); c.corr(req, "panic".into()) }
        }
    }
    // frames
    for i in 0..c.n(1500, 20000) {
        let Some(mut r) = c.case("pngframe", i) else { continue };
        let bpp = 1 + r.usize(8);
        let ppr = 1 + r.usize(6);
        let rowlen = bpp * ppr;
        let rows = r.usize(6);
        let data = gen_row(&mut r, rows * rowlen);
        let types: Vec<u8> = if r.chance(1, 3) { vec![r.below(5) as u8] } else { (0..7).map(|_| r.below(5) as u8).collect() };
        let mut enc = ref_encode_frame(&data, bpp, rowlen, &types);
        let malformed = r.chance(1, 4);
        if malformed && !enc.is_empty() {
            match r.below(4) {
                0 => { let k = r.usize(enc.len()); enc.truncate(k); }
                1 => { let row = r.usize(rows.max(1)); let p = (row * (rowlen + 1)).min(enc.len() - 1); enc[p] = 5 + r.below(251) as u8; }
                2 => enc.push(r.below(5) as u8),
                _ => { let p = r.usize(enc.len()); enc[p] = r.byte(); }
            }
        }
        let req = format!("pngframe {} {} {}", bpp, ppr, hex_tok(&enc));
        if rows >= 2 { c.nontrivial(&req); }
        let res = guard(|| png::decode_frame(&enc, bpp, ppr));
        let reply = match &res {
            Ok(Ok(v)) => format!("ok {}", hex_tok(v)),
            Ok(Err(e)) => format!("err {}", match e.kind() { std::io::ErrorKind::InvalidData => "invalid", std::io::ErrorKind::UnexpectedEof => "eof", _ => "other" }),
            Err(_) => "panic".into(),
        };
        c.count(&format!("pngframe.{}", reply.split(' ').take(if reply.starts_with("err") { 2 } else { 1 }).collect::<Vec<_>>().join("_")));
        c.corr(req.clone(), reply);
        if !malformed {
            match &res {
                Ok(Ok(v)) if *v == data => {}
                Ok(Ok(v)) => c.oracle_fail("png-frame", "decode_frame of a reference-encoded frame is not the original",
                    json!({"bpp": bpp, "ppr": ppr, "types": types, "plain": hex(&data), "encoded": hex(&enc), "actual": hex(v)})),
                Ok(Err(e)) => c.oracle_fail("png-frame-error", "decode_frame rejects a reference-encoded frame", json!({"request": req, "error": format!("{}", e)})),
                Err((site, msg)) => c.oracle_fail(&format!("panic@{}", site), msg, json!({"request": req})),
            }
        } else if let Err((site, msg)) = &res {
            c.oracle_fail(&format!("panic@{}", site), msg, json!({"request": req}));
        }
    }
    // bpp = 0 frames (public function only): correspondence
    for i in 0..c.n(100, 1000) {
        let Some(mut r) = c.case("pngframe.bpp0", i) else { continue };
        let enc: Vec<u8> = (0..r.usize(6)).map(|_| r.below(6) as u8).collect();
        let ppr = r.usize(3);
        let req = format!("pngframe 0 {} {}", ppr, hex_tok(&enc));
        let res = guard(|| png::decode_frame(&enc, 0, ppr));
        let reply = match &res {
            Ok(Ok(v)) => format!("ok {}", hex_tok(v)),
            Ok(Err(e)) => format!("err {}", match e.kind() { std::io::ErrorKind::InvalidData => "invalid", std::io::ErrorKind::UnexpectedEof => "eof", _ => "other" }),
            Err(_) => "panic".into(),
        };
        c.corr(req, reply);
    }
}

// ---------------------------------------------------------------- filter chains

#[derive(Clone, Debug)]
struct Parms { predictor: Option<i64>, columns: Option<i64>, colors: Option<i64>, bits: Option<i64>, early: Option<i64> }
impl Parms {
    fn none() -> Parms { Parms { predictor: None, columns: None, colors: None, bits: None, early: None } }
    fn dict(&self, r: &mut Rng) -> Dictionary {
        let mut items: Vec<(&str, i64)> = vec![];
        if let Some(v) = self.predictor { items.push(("Predictor", v)); }
        if let Some(v) = self.columns { items.push(("Columns", v)); }
        if let Some(v) = self.colors { items.push(("Colors", v)); }
        if let Some(v) = self.bits { items.push(("BitsPerComponent", v)); }
        if let Some(v) = self.early { items.push(("EarlyChange", v)); }
        r.shuffle(&mut items);
        let mut d = Dictionary::new();
        for (k, v) in items { d.set(k, Object::Integer(v)); }
        d
    }
    fn png_active(&self) -> bool { matches!(self.predictor, Some(10..=15)) }
    /// (bytes per pixel, bytes per row) as ISO 32000 / PNG define them for 8 and 16 bit components
    fn geometry(&self) -> (usize, usize) {
        let colors = self.colors.unwrap_or(1).max(1) as usize;
        let bits = self.bits.unwrap_or(8).clamp(1, 64) as usize;
        let columns = self.columns.unwrap_or(1).max(1) as usize;
        (((colors * bits + 7) / 8).max(1), (columns * colors * bits + 7) / 8)
    }
    fn early(&self) -> bool { self.early.map(|v| v != 0).unwrap_or(true) }
    fn is_default_equivalent(&self) -> bool { !self.png_active() && self.predictor.map_or(true, |p| p == 1) && self.early() }
}
fn gen_parms(r: &mut Rng, legal_only: bool) -> Parms {
    let predictor = match r.below(10) { 0 => None, 1 => Some(1), _ => Some(10 + r.below(6) as i64) };
    let mut p = Parms {
        predictor,
        columns: if r.chance(1, 6) { None } else { Some(1 + r.below(12) as i64) },
        colors: if r.chance(1, 4) { None } else { Some(1 + r.below(4) as i64) },
        bits: match r.below(4) { 0 => None, 1 | 2 => Some(8), _ => Some(16) },
        early: match r.below(4) { 0 | 1 => None, 2 => Some(1), _ => Some(0) },
    };
    if !legal_only {
        match r.below(6) {
            0 => p.predictor = Some(*r.pick(&[2i64, 0, 9, 16, -1, 3])),
            1 => p.bits = Some(*r.pick(&[1i64, 2, 4, 0, -8, 12, 32])),
            2 => p.columns = Some(*r.pick(&[0i64, -3])),
            3 => p.colors = Some(*r.pick(&[0i64, -1, 5, 7])),
            4 => p.early = Some(*r.pick(&[2i64, -1, 7])),
            _ => {}
        }
    }
    p
}
const FILTERS: [&[u8]; 3] = [b"FlateDecode", b"LZWDecode", b"ASCII85Decode"];

/// encode `plain` for the chain: decoding order is `chain`, so encode in reverse; `parms[i]` is what
/// stage `i` will be decoded with (predictor applied after the Flate / LZW stage).
fn encode_chain(r: &mut Rng, plain: &[u8], chain: &[usize], parms: &[Parms], types: &[u8]) -> Vec<u8> {
    let mut data = plain.to_vec();
    for (i, f) in chain.iter().enumerate().rev() {
        let p = &parms[i];
        match f {
            0 | 1 => {
                if p.png_active() { let (bpp, rowlen) = p.geometry(); data = ref_encode_frame(&data, bpp, rowlen, types); }
                data = if *f == 0 { zlib_encode(&data, *r.pick(&[0u32, 1, 6, 9])) } else { lzw_encode(&data, p.early()) };
            }
            _ => { let st = gen_style(r); data = ref_a85_encode(&data, st); }
        }
    }
    data
}
/// number of predictor-active Flate/LZW stages (the plaintext must be a whole number of rows for each)
fn gen_plain_rows(r: &mut Rng, rowlen: usize, long: bool) -> Vec<u8> {
    let rows = if long { 40 + r.usize(200) } else { r.usize(7) };
    gen_row(r, rows * rowlen)
}

enum Form { NoParms, Dict, Array }

fn build_stream(r: &mut Rng, chain: &[usize], parms: &[Parms], form: &Form, content: Vec<u8>) -> Stream {
    let mut d = Dictionary::new();
    let names: Vec<Object> = chain.iter().map(|f| Object::Name(FILTERS[*f].to_vec())).collect();
    let filter = if chain.len() == 1 && r.chance(2, 3) { names[0].clone() } else { Object::Array(names) };
    let mut entries: Vec<(&str, Object)> = vec![("Filter", filter)];
    match form {
        Form::NoParms => {}
        Form::Dict => entries.push(("DecodeParms", Object::Dictionary(parms[0].dict(r)))),
        Form::Array => {
            let arr: Vec<Object> = chain.iter().enumerate().map(|(i, f)| {
                if (*f == 2 && r.chance(3, 4)) || (parms[i].predictor.is_none() && parms[i].early.is_none() && r.chance(1, 2)) { Object::Null } else { Object::Dictionary(parms[i].dict(r)) }
            }).collect();
            let mut arr = arr;
            // a shorter array (missing entries = no parameters) when the trailing stages need none; extra entries are ignored
            while r.chance(1, 4) && !arr.is_empty() && parms[arr.len() - 1].is_default_equivalent() { arr.pop(); }
            if arr.len() == chain.len() && r.chance(1, 6) { let extra = gen_parms(r, true); arr.push(if r.chance(1, 2) { Object::Null } else { Object::Dictionary(extra.dict(r)) }); }
            entries.push(("DecodeParms", Object::Array(arr)));
        }
    }
    if r.chance(1, 3) { entries.push(("Type", Object::Name(b"XObject".to_vec()))); }
    if r.chance(1, 4) { entries.push(("Length", Object::Integer(r.range(0, 99)))); }
    r.shuffle(&mut entries);
    for (k, v) in entries { d.set(k, v); }
    let mut s = Stream::new(d, content);
    // Length as it may stand in a loaded file: indirect / not an integer / wrong / absent (decompress must repair it)
    match r.below(8) { 0 | 1 => { let l = odd_length(r, &[]); s.dict.set("Length", l); } 2 => { s.dict.remove(b"Length"); } _ => {} }
    s
}

/// run decode / plain / decompress on the real code, record correspondence, return decoded result
fn decode_and_corr(c: &mut Ctx, s: &Stream) -> Result<Result<Vec<u8>, lopdf::Error>, (String, String)> {
    let tab = ext_for(s);
    emit_lzw_checks(c, &tab);
    count_length_kind(c, s, "decompress");
    let ext = tab.text();
    let tok = stream_tok(s);
    let res = guard(|| s.decompressed_content());
    c.corr(format!("decode {} {}", tok, ext), out_reply(&res));
    let res2 = guard(|| s.get_plain_content());
    c.corr(format!("plain {} {}", tok, ext), out_reply(&res2));
    let mut s2 = s.clone();
    let res3 = guard(move || { let r = s2.decompress(); (r, s2) });
    let reply = match &res3 { Ok((Ok(()), s2)) => format!("ok {}", stream_tok(s2)), Ok((Err(_), _)) => "err".into(), Err(_) => "panic".into() };
    c.corr(format!("decompress {} {}", tok, ext), reply);
    // oracle part that needs no plaintext: after a successful decompress the stream is plain and Length is right
    if let Ok((Ok(()), s2)) = &res3 {
        let len_ok = matches!(s2.dict.get(b"Length"), Ok(Object::Integer(n)) if *n == s2.content.len() as i64);
        if !len_ok || s2.dict.has(b"Filter") || s2.dict.has(b"DecodeParms") {
            c.oracle_fail("decompress-dict", "after decompress: Length != |content| or Filter / DecodeParms still present", json!({"before": tok, "after": stream_tok(s2)}));
        }
        if let Ok(Ok(v)) = &res { if *v != s2.content { c.oracle_fail("decompress-content", "decompress stored something else than decompressed_content", json!({"before": tok})); } }
        if let Err(_) | Ok(Err(_)) = &res { c.oracle_fail("decompress-content", "decompress succeeded although decompressed_content failed", json!({"before": tok})); }
    } else if let Ok((Err(_), s2)) = &res3 {
        if stream_tok(s2) != tok { c.oracle_fail("decompress-partial", "failed decompress modified the stream", json!({"before": tok, "after": stream_tok(s2)})); }
    }
    res
}

fn chain_name(chain: &[usize]) -> String { chain.iter().map(|f| ["Fl", "LZW", "A85"][*f]).collect::<Vec<_>>().join("+") }

fn run_chains(c: &mut Ctx) {
    // ---- main stream: legal chains; parameters none / dictionary / array of default-equivalent entries
    for i in 0..c.n(2500, 40000) {
        let Some(mut r) = c.case("chain", i) else { continue };
        let len = 1 + r.usize(3);
        let chain: Vec<usize> = (0..len).map(|_| r.usize(3)).collect();
        let form = match r.below(6) { 0 => Form::NoParms, 1 => Form::Array, _ => Form::Dict };
        let mut shared = gen_parms(&mut r, true);
        // ONE dictionary is applied after every Flate / LZW stage; intermediate data is not row-aligned,
        // so with a predictor and more than one stage in total use 1-byte rows (every length is whole rows)
        if shared.png_active() && len > 1 && !(chain[len - 1] < 2 && chain[..len - 1].iter().all(|f| *f == 2)) {
            shared.columns = Some(1); shared.colors = if r.chance(1, 2) { None } else { Some(1) }; shared.bits = if r.chance(1, 2) { None } else { Some(8) };
        }
        let parms: Vec<Parms> = match form {
            Form::NoParms => vec![Parms::none(); len],
            Form::Dict => vec![shared.clone(); len],
            // array form in the main stream: entries that change nothing (null, Predictor 1, EarlyChange 1, geometry keys only)
            Form::Array => (0..len).map(|_| { let mut p = gen_parms(&mut r, true); if p.png_active() { p.predictor = if r.chance(1, 2) { Some(1) } else { None }; } if p.early == Some(0) { p.early = Some(1); } p }).collect(),
        };
        // a dictionary's predictor is applied after EVERY Flate / LZW stage: keep the plaintext row-aligned
        let (_, rowlen) = if parms[0].png_active() { parms[0].geometry() } else { (1, 1) };
        let long = r.chance(1, 12);
        let plain = gen_plain_rows(&mut r, rowlen.max(1), long);
        let types: Vec<u8> = match shared.predictor { Some(15) | None => (0..5).map(|_| r.below(5) as u8).collect(), Some(p @ 10..=14) => if r.chance(2, 3) { vec![(p - 10) as u8] } else { (0..5).map(|_| r.below(5) as u8).collect() }, _ => vec![0] };
        let content = encode_chain(&mut r, &plain, &chain, &parms, &types);
        let s = build_stream(&mut r, &chain, &parms, &form, content);
        let key = format!("{} {}", stream_tok(&s), hex(&plain));
        if !plain.is_empty() { c.nontrivial(&key); }
        c.count(&format!("chain.len{}", len));
        c.count(&format!("chain.form.{}", match form { Form::NoParms => "none", Form::Dict => "dict", Form::Array => "array-default-equivalent" }));
        if parms[0].png_active() && chain.iter().any(|f| *f < 2) {
            c.count(&format!("chain.predictor{}", parms[0].predictor.unwrap()));
            let (bpp, _) = parms[0].geometry(); c.count(&format!("chain.bpp{}", bpp));
            if parms[0].bits == Some(16) { c.count("chain.bits16"); }
        }
        if chain.contains(&1) { c.count(if parms[chain.iter().position(|f| *f == 1).unwrap()].early() { "chain.lzw.early1" } else { "chain.lzw.early0" }); }
        if long { c.count("chain.long"); }
        let res = decode_and_corr(c, &s);
        match &res {
            Ok(Ok(v)) if *v == plain => {}
            Ok(Ok(v)) => c.oracle_fail("chain-wrong", "decoded content differs from the plaintext the reference encoders started from",
                json!({"chain": chain_name(&chain), "parms": format!("{:?}", parms), "stream": stream_tok(&s), "plain": hex(&plain), "decoded": hex(v)})),
            Ok(Err(e)) => c.oracle_fail("chain-error", "decoder rejects reference-encoded content",
                json!({"chain": chain_name(&chain), "parms": format!("{:?}", parms), "stream": stream_tok(&s), "plain": hex(&plain), "error": format!("{}", e)})),
            Err((site, msg)) => c.oracle_fail(&format!("panic@{}", site), msg, json!({"stream": stream_tok(&s)})),
        }
        if i < 3 {
            let t = stream_tok(&s);
            let t = if t.len() < 300 { t } else { format!("{}…", &t[..300]) };
            c.sample(json!({"stream": "chain", "chain": chain_name(&chain), "parms": format!("{:?}", parms[0]), "plain_len": plain.len(), "request": t}));
        }
    }
    // ---- outside the property's parameter domain / malformed content: correspondence + no panic
    for i in 0..c.n(1200, 15000) {
        let Some(mut r) = c.case("chain.odd", i) else { continue };
        let len = r.usize(4);
        let chain: Vec<usize> = (0..len).map(|_| r.usize(3)).collect();
        let shared = gen_parms(&mut r, false);
        let parms = vec![shared.clone(); len.max(1)];
        let n = r.usize(60); let plain = gen_row(&mut r, n);
        let types: Vec<u8> = (0..5).map(|_| r.below(5) as u8).collect();
        let mut content = if len > 0 { encode_chain(&mut r, &plain, &chain, &parms, &types) } else { plain.clone() };
        if r.chance(1, 2) && !content.is_empty() {
            match r.below(4) { 0 => { let k = r.usize(content.len()); content.truncate(k); } 1 => { let p = r.usize(content.len()); content[p] ^= 1 << r.below(8); } 2 => content.push(r.byte()), _ => { let k = r.usize(20); content = r.bytes(k); } }
        }
        let form = match r.below(5) { 0 => Form::NoParms, 1 => Form::Array, _ => Form::Dict };
        let mut s = if len > 0 { build_stream(&mut r, &chain, &parms, &form, content) } else { Stream::new(Dictionary::new(), content) };
        match r.below(10) {
            0 => s.dict.set("Filter", Object::Array(vec![])),
            1 => s.dict.set("Filter", Object::Name(b"DCTDecode".to_vec())),
            2 => s.dict.set("Filter", Object::Array(vec![Object::Name(b"FlateDecode".to_vec()), Object::Integer(3)])),
            3 => s.dict.set("Filter", Object::Integer(1)),
            4 => s.dict.set("DecodeParms", Object::Reference((9, 0))),
            5 => s.dict.set("DecodeParms", Object::Dictionary({ let mut d = shared.dict(&mut r); d.set("Predictor", Object::Real(12.0)); d })),
            6 => s.dict.set("Filter", Object::Array(vec![Object::Name(b"ASCIIHexDecode".to_vec()), Object::Name(b"FlateDecode".to_vec())])),
            7 => { s.dict.remove(b"Filter"); }
            _ => {}
        }
        c.nontrivial(&stream_tok(&s));
        let ftok = stream_tok(&s);
        let fr = guard(|| s.filters().map(|v| v.iter().map(|f| f.to_vec()).collect::<Vec<_>>()));
        let freply = match &fr { Ok(Ok(v)) => format!("ok {}{} {}", v.len(), v.iter().map(|f| format!(" {}", hex_tok(f))).collect::<String>(), if s.is_compressed() { "c" } else { "u" }), Ok(Err(_)) => "err".into(), Err(_) => "panic".into() };
        c.corr(format!("filters {}", ftok), freply);
        let res = decode_and_corr(c, &s);
        match &res { Ok(Ok(_)) => c.count("chain.odd.ok"), Ok(Err(_)) => c.count("chain.odd.err"),
            Err((site, msg)) => c.oracle_fail(&format!("panic@{}", site), msg, json!({"stream": stream_tok(&s)})) }
    }
}
fn run_parms_array(c: &mut Ctx) {
    // ---- array form with per-stage parameters that matter (the clause repaired with F-C09-b): main stream
    for i in 0..c.n(1200, 15000) {
        let Some(mut r) = c.case("chain.parms_array", i) else { continue };
        let len = 1 + r.usize(3);
        let mut chain: Vec<usize> = (0..len).map(|_| r.usize(3)).collect();
        if !chain.iter().any(|f| *f < 2) { chain[0] = r.usize(2); }
        let mut parms: Vec<Parms> = (0..len).map(|_| gen_parms(&mut r, true)).collect();
        // only the final stage sees row-aligned data (the plaintext); earlier stages get 1-byte rows or no predictor
        for k in 0..len - 1 {
            if parms[k].png_active() { if r.chance(1, 2) { parms[k].predictor = Some(1); } else { parms[k].columns = Some(1); parms[k].colors = None; parms[k].bits = None; } }
        }
        let last_rowlen = if chain[len - 1] < 2 && parms[len - 1].png_active() { parms[len - 1].geometry().1 } else { 1 };
        let rows = if r.chance(1, 3) { 600 / last_rowlen + r.usize(20) } else { 1 + r.usize(5) };
        let plain = gen_row(&mut r, rows * last_rowlen);
        let types: Vec<u8> = (0..5).map(|_| r.below(5) as u8).collect();
        let content = encode_chain(&mut r, &plain, &chain, &parms, &types);
        let s = build_stream(&mut r, &chain, &parms, &Form::Array, content);
        c.nontrivial(&stream_tok(&s));
        let matters = chain.iter().enumerate().any(|(k, f)| *f < 2 && !parms[k].is_default_equivalent());
        c.count(if matters { "parms_array.nontrivial" } else { "parms_array.default_equivalent" });
        let res = decode_and_corr(c, &s);
        match &res {
            Ok(Ok(v)) if *v == plain => { if matters { c.count("parms_array.nontrivial_decoded_right"); } }
            Ok(_) => {
                let sig = if matters { "parms-array-ignored" } else { "chain-wrong" };
                c.count("parms_array.failures");
                c.oracle_fail(sig, "DecodeParms given as an array parallel to the filters: decoded content differs from the plaintext",
                    json!({"chain": chain_name(&chain), "parms": format!("{:?}", parms), "stream": stream_tok(&s), "plain": hex(&plain)}));
            }
            Err((site, msg)) => c.oracle_fail(&format!("panic@{}", site), msg, json!({"stream": stream_tok(&s)})),
        }
    }
}

// ---------------------------------------------------------------- LZW: weezl against the Lean reference decoder

fn gen_lzw_plain(r: &mut Rng, big: bool) -> Vec<u8> {
    let n = if big { 6000 + r.usize(14000) } else { r.usize(300) };
    match if big && r.chance(1, 2) { 0 } else { r.below(7) } {
        0 => r.bytes(n),
        1 => { let b = r.byte(); vec![b; n] }                                               // KwKwK sequences
        2 => { let k = 1 + r.usize(4); let pat = r.bytes(k); (0..n).map(|i| pat[i % pat.len()]).collect() }
        3 => (0..n).map(|i| (i % 256) as u8).collect(),
        4 => (0..n).map(|_| if r.chance(9, 10) { b' ' } else { r.byte() }).collect(),
        5 => (0..n).map(|i| b"BT /F1 12 Tf 72 712 Td (Hello World) Tj ET\n"[i % 42]).collect(),
        _ => (0..n).map(|_| *r.pick(&[0u8, 1, 255])).collect(),
    }
}
/// the harness's own rendering of the reference ENCODER of lean/LopdfModel/Spec/LzwCodec.lean (ISO 32000-1 §7.4.4):
/// clear code first, greedy longest match, width rule seen from the decoder (`EarlyChange`), clear again when all
/// 12-bit codes are used, EOD, MSB-first packing with zero padding. Compared byte for byte with `lzwenc`.
fn ref_lzw_encode(x: &[u8], early: bool) -> Vec<u8> {
    struct Bits { out: Vec<u8>, acc: u32, n: u32 }
    impl Bits {
        fn put(&mut self, code: usize, wd: u32) {
            self.acc = (self.acc << wd) | code as u32; self.n += wd;
            while self.n >= 8 { self.out.push((self.acc >> (self.n - 8)) as u8); self.n -= 8; self.acc &= (1 << self.n) - 1; }
        }
        fn finish(mut self) -> Vec<u8> { if self.n > 0 { self.out.push((self.acc << (8 - self.n)) as u8); } self.out }
    }
    let bump = |wd: u32, next: usize| if wd < 12 && next + early as usize >= (1usize << wd) { wd + 1 } else { wd };
    let mut bits = Bits { out: vec![], acc: 0, n: 0 };
    bits.put(256, 9);
    let mut table: std::collections::HashMap<Vec<u8>, usize> = std::collections::HashMap::new();
    let mut wd = 9u32;
    let mut w: Vec<u8> = vec![];
    let code_of = |table: &std::collections::HashMap<Vec<u8>, usize>, w: &Vec<u8>| if w.len() == 1 { w[0] as usize } else { 258 + table[w] };
    for &b in x {
        if w.is_empty() { w.push(b); continue; }
        let mut wb = w.clone(); wb.push(b);
        if table.contains_key(&wb) { w = wb; continue; }
        bits.put(code_of(&table, &w), wd);
        wd = bump(wd, 258 + table.len());
        let idx = table.len();
        table.insert(wb, idx);
        if table.len() == 3838 { bits.put(256, wd); table.clear(); wd = 9; }
        w = vec![b];
    }
    if !w.is_empty() { bits.put(code_of(&table, &w), wd); wd = bump(wd, 258 + table.len()); }
    bits.put(257, wd);
    bits.finish()
}

/// every result the model takes from weezl is re-derived by the executable Lean specification of LZW
fn run_lzw(c: &mut Ctx) {
    // known answer: the example of ISO 32000-1 §7.4.4.2 (codes 256 45 258 258 65 259 66 257)
    if let Some(_) = c.case("lzwspec.iso", 0) {
        let enc = [0x80u8, 0x0B, 0x60, 0x50, 0x22, 0x0C, 0x0C, 0x85, 0x01];
        let want = [45u8, 45, 45, 45, 45, 65, 45, 45, 45, 66];
        let got = ext_lzw(&enc, true);
        if got != want { c.oracle_fail("lzw-weezl", "weezl does not decode the LZW example of ISO 32000-1", json!({"got": hex(&got)})); }
        c.corr(format!("lzwspec 1 {}", hex(&enc)), format!("eod {}", hex(&want)));
        let mut s = Stream::new(Dictionary::new(), enc.to_vec());
        s.dict.set("Filter", Object::Name(b"LZWDecode".to_vec()));
        match guard(|| s.decompressed_content()) {
            Ok(Ok(v)) if v == want => {}
            other => c.oracle_fail("lzw-iso-example", "LZWDecode of the ISO 32000-1 example is wrong", json!({"result": out_reply(&other)})),
        }
    }
    for i in 0..c.n(400, 4000) {
        let Some(mut r) = c.case("lzwspec", i) else { continue };
        let big = r.chance(1, 8);
        let plain = gen_lzw_plain(&mut r, big);
        let early = r.chance(1, 2);
        let enc = lzw_encode(&plain, early);
        let dec = ext_lzw(&enc, early);
        c.nontrivial(&format!("{} {}", early, hex(&plain)));
        c.count(if early { "lzwspec.early1" } else { "lzwspec.early0" });
        if big { c.count("lzwspec.big"); }
        if enc.len() * 8 / 9 > 3900 { c.count("lzwspec.table_full"); }
        if dec != plain { c.oracle_fail("lzw-weezl", "weezl does not decode what it encoded", json!({"early": early, "plain_len": plain.len()})); }
        c.corr(format!("lzwspec {} {}", early as u8, hex_tok(&enc)), format!("eod {}", hex_tok(&dec)));
        // the other EarlyChange setting on the same bytes (the data then usually goes wrong at the first width change): outputs only
        // the proved reference ENCODER: harness rendering == Lean `lzwEncode` (byte for byte), and weezl as well as
        // lopdf's LZWDecode decode its output to the plaintext; the spec decoders do so too (lzwspec)
        if plain.len() <= 6000 || r.chance(1, 3) {
            let renc = ref_lzw_encode(&plain, early);
            c.corr(format!("lzwenc {} {}", early as u8, hex_tok(&plain)), format!("ok {}", hex_tok(&renc)));
            c.corr(format!("lzwspec {} {}", early as u8, hex_tok(&renc)), format!("eod {}", hex_tok(&plain)));
            c.count("lzwenc.cases");
            if renc.len() * 8 / 9 > 3850 { c.count("lzwenc.table_full_clear"); }
            let (wout, wok) = ext_lzw_status(&renc, early);
            if !wok || wout != plain { c.oracle_fail("lzw-spec-encoder-weezl", "weezl does not decode the output of the reference LZW encoder to the plaintext", json!({"early": early, "plain": hex(&plain[..plain.len().min(64)]), "plain_len": plain.len(), "clean": wok, "decoded_len": wout.len()})); }
            let mut s = Stream::new(Dictionary::new(), renc.clone());
            s.dict.set("Filter", Object::Name(b"LZWDecode".to_vec()));
            if !early || r.chance(1, 2) { let mut pd = Dictionary::new(); pd.set("EarlyChange", Object::Integer(early as i64)); s.dict.set("DecodeParms", Object::Dictionary(pd)); }
            match guard(|| s.decompressed_content()) {
                Ok(Ok(v)) if v == plain => {}
                other => c.oracle_fail("lzw-spec-encoder-lopdf", "LZWDecode of the reference encoder's output is not the plaintext", json!({"early": early, "plain_len": plain.len(), "result": out_reply(&other).chars().take(80).collect::<String>()})),
            }
        }
        if r.chance(1, 4) {
            let (other, ok) = ext_lzw_status(&enc, !early);
            if ok { c.corr(format!("lzwspec {} {}", !early as u8, hex_tok(&enc)), format!("eod {}", hex_tok(&other))); c.count("lzwspec.wrong_early_clean"); }
            else { c.count("lzwspec.wrong_early_error"); }
        }
    }
}

// ---------------------------------------------------------------- compress / set_content / documents

fn gen_content(r: &mut Rng) -> Vec<u8> {
    match r.below(8) {
        0 => vec![],
        1 => { let k = r.usize(80); r.bytes(k) }
        2 => { let n = r.usize(120); let b = r.byte(); vec![b; n] }
        3 => { let n = 20 + r.usize(60); let k = 1 + r.usize(3); let pat = r.bytes(k); (0..n).map(|i| pat[i % pat.len()]).collect() }
        4 => { let n = r.usize(400); (0..n).map(|i| b"BT /F1 12 Tf 72 712 Td (Hello) Tj ET\n"[i % 36]).collect() }
        5 => { let k = 200 + r.usize(300); r.bytes(k) }
        6 => { let n = r.usize(60); (0..n).map(|_| if r.chance(4, 5) { b' ' } else { r.byte() }).collect() }
        _ => { let n = 25 + r.usize(20); (0..n).map(|i| (i / 3) as u8).collect() }
    }
}
fn gen_extra_dict(r: &mut Rng, d: &mut Dictionary) {
    let mut e: Vec<(&str, Object)> = vec![];
    if r.chance(1, 2) { e.push(("Type", Object::Name(b"XObject".to_vec()))); }
    if r.chance(1, 3) { e.push(("Subtype", Object::Name(b"Form".to_vec()))); }
    if r.chance(1, 4) { e.push(("BBox", Object::Array(vec![Object::Integer(0), Object::Integer(0), Object::Integer(10), Object::Integer(10)]))); }
    r.shuffle(&mut e);
    for (k, v) in e { d.set(k, v); }
}
/// a Length entry as it stands BEFORE a content-changing operation: a wrong number, an indirect reference (to an
/// integer object of the document, to another kind of object, dangling), or another non-integer object. Whatever was
/// there, afterwards the entry must be the direct integer `content.len()` (the property's last sentence).
fn odd_length(r: &mut Rng, refs: &[(u32, u16)]) -> Object {
    match r.below(10) {
        0 | 1 => Object::Integer(r.range(0, 500)),
        2 | 3 | 4 | 5 => Object::Reference(if !refs.is_empty() && r.chance(3, 4) { *r.pick(refs) } else { (90 + r.below(9) as u32, 0) }),
        6 => Object::Real(12.0),
        7 => Object::Null,
        8 => Object::Name(b"Length".to_vec()),
        _ => Object::Array(vec![Object::Integer(3)]),
    }
}
fn count_length_kind(c: &mut Ctx, s: &Stream, op: &str) {
    let k = match s.dict.get(b"Length") { Ok(Object::Integer(n)) if *n == s.content.len() as i64 => "right", Ok(Object::Integer(_)) => "wrong_integer",
        Ok(Object::Reference(_)) => "reference", Ok(_) => "other_object", Err(_) => "absent" };
    c.count(&format!("length_before.{}.{}", op, k));
}
fn length_ok(s: &Stream) -> bool { matches!(s.dict.get(b"Length"), Ok(Object::Integer(n)) if *n == s.content.len() as i64) }

/// a stream for the compress / set_* experiments. `stale_parms` adds a DecodeParms although there is no Filter.
fn gen_edit_stream(r: &mut Rng, allow_filter: bool, stale_parms: bool) -> (Stream, Option<Vec<u8>>) {
    let mut d = Dictionary::new();
    gen_extra_dict(r, &mut d);
    let plain = gen_content(r);
    if allow_filter && r.chance(1, 3) {
        // an already filtered stream
        let chain = vec![r.usize(3)];
        let p = if r.chance(1, 2) { gen_parms(r, true) } else { Parms::none() };
        let (_, rowlen) = if p.png_active() { p.geometry() } else { (1, 1) };
        let plain = gen_plain_rows(r, rowlen, false);
        let t = r.below(5) as u8;
        let content = encode_chain(r, &plain, &chain, &[p.clone()], &[t]);
        let form = if p.predictor.is_some() || p.early.is_some() { Form::Dict } else { Form::NoParms };
        let mut s = build_stream(r, &chain, &[p], &form, content);
        for (k, v) in d.iter() { if !s.dict.has(k) { s.dict.set(k.clone(), v.clone()); } }
        return (s, Some(plain));
    }
    if stale_parms { d.set("DecodeParms", Object::Dictionary(gen_parms(r, true).dict(r))); }
    else if r.chance(1, 8) { d.set("DecodeParms", Object::Dictionary({ let mut p = gen_parms(r, true); if p.png_active() { p.predictor = Some(1); } p.dict(r) })); }
    let mut s = Stream::new(d, plain.clone());
    match r.below(6) { 0 | 1 => { let l = odd_length(r, &[]); s.dict.set("Length", l); } 2 => { if r.chance(1, 3) { s.dict.remove(b"Length"); } } _ => {} }   // Length before the operation
    (s, Some(plain))
}

fn compress_case(c: &mut Ctx, s: &Stream, stream: &str, stale_sig: bool) {
    let before_plain = guard(|| s.get_plain_content());
    count_length_kind(c, s, "compress");
    let mut tab = ext_for(s);
    tab.add("d", &s.content, zlib_best(&s.content));
    let tok = stream_tok(s);
    let mut s2 = s.clone();
    let res = guard(move || { let r = s2.compress(); (r, s2) });
    let (ok, s2) = match res { Ok((r, s2)) => (r.is_ok(), s2), Err((site, msg)) => { c.corr(format!("compress {} {}", tok, tab.text()), "panic".into()); c.oracle_fail(&format!("panic@{}", site), &msg, json!({"stream": tok})); return; } };
    let changed = stream_tok(&s2) != tok;
    // the decoder of the result needs flate2's answer on the new content
    if changed { tab.add("z", &s2.content, ext_inflate(&s2.content)); }
    c.corr(format!("compress {} {}", tok, tab.text()), if ok { format!("ok {}", stream_tok(&s2)) } else { "err".into() });
    c.count(&format!("{}.{}", stream, if changed { "compressed" } else { "unchanged" }));
    if s.content.len() as i64 - zlib_best(&s.content).len() as i64 == 19 && !s.dict.has(b"Filter") { c.count("compress.exactly_at_margin"); }
    // oracle
    if s2.content.len() > s.content.len() {
        c.oracle_fail("compress-longer", "compress made the content longer", json!({"before": tok, "after": stream_tok(&s2)}));
    }
    if changed {
        if !length_ok(&s2) { c.oracle_fail("length", "Length != |content| after compress", json!({"before": tok, "after": stream_tok(&s2)})); }
        // the serialised object must not grow: the added entry `/Filter/FlateDecode` costs 19 bytes
        if s2.content.len() + 19 > s.content.len() { c.oracle_fail("compress-longer", "compressed content + the 19 bytes of /Filter/FlateDecode exceed the original", json!({"before": tok})); }
    }
    let after_plain = guard(|| s2.get_plain_content());
    let same = match (&before_plain, &after_plain) { (Ok(Ok(a)), Ok(Ok(b))) => a == b, (Ok(Err(_)), Ok(Err(_))) => true, _ => false };
    if !same {
        let sig = if stale_sig && changed && !s.dict.has(b"Filter") && s.dict.has(b"DecodeParms") { "compress-stale-decodeparms" } else { "compress-lossy" };
        c.oracle_fail(sig, "get_plain_content after compress differs from before", json!({"before": tok, "after": stream_tok(&s2),
            "plain_before": format!("{:?}", before_plain.as_ref().map(|r| r.as_ref().map(|v| hex(v)).map_err(|e| e.to_string()))),
            "plain_after": format!("{:?}", after_plain.as_ref().map(|r| r.as_ref().map(|v| hex(v)).map_err(|e| e.to_string())))}));
    }
    if changed {
        let ext2 = ext_for(&s2).text();
        c.corr(format!("plain {} {}", stream_tok(&s2), ext2), out_reply(&after_plain));
    }
}

fn run_edit(c: &mut Ctx) {
    // compress: random streams
    for i in 0..c.n(1500, 20000) {
        let Some(mut r) = c.case("compress", i) else { continue };
        let (s, _) = gen_edit_stream(&mut r, true, false);
        c.nontrivial(&stream_tok(&s));
        compress_case(c, &s, "compress", false);
    }
    // compress: sweep across the `+19 <` boundary (run of one byte, and a 2-byte pattern), every length 0..=120
    for i in 0..c.n(242, 242) {
        let Some(mut r) = c.case("compress.boundary", i) else { continue };
        let n = (i / 2) as usize;
        let content: Vec<u8> = if i % 2 == 0 { vec![b'a'; n] } else { (0..n).map(|k| if k % 2 == 0 { b'x' } else { b'y' }).collect() };
        let mut d = Dictionary::new();
        gen_extra_dict(&mut r, &mut d);
        let s = Stream::new(d, content);
        c.nontrivial(&stream_tok(&s));
        compress_case(c, &s, "compress.boundary", false);
    }
    // compress: incompressible random content built to sit around the margin
    for i in 0..c.n(300, 3000) {
        let Some(mut r) = c.case("compress.margin", i) else { continue };
        // k random bytes followed by a run: compressed size ~ k + const, so total length sweeps the margin
        let k = r.usize(30);
        let mut content = r.bytes(k);
        content.extend(std::iter::repeat(r.byte()).take(r.usize(60)));
        let s = Stream::new(Dictionary::new(), content);
        compress_case(c, &s, "compress.margin", false);
    }
    // set_content / set_plain_content
    for i in 0..c.n(800, 8000) {
        let Some(mut r) = c.case("setcontent", i) else { continue };
        let stale = r.chance(1, 3);
        let (s, _) = gen_edit_stream(&mut r, true, stale);
        let newc = gen_content(&mut r);
        let tok = stream_tok(&s);
        count_length_kind(c, &s, "set");
        c.nontrivial(&format!("{} {}", tok, hex(&newc)));
        let mut a = s.clone();
        a.set_content(newc.clone());
        c.corr(format!("setcontent {} {}", tok, hex_tok(&newc)), format!("ok {}", stream_tok(&a)));
        if !length_ok(&a) || a.content != newc { c.oracle_fail("length", "Length != |content| after set_content", json!({"before": tok, "after": stream_tok(&a)})); }
        let mut b = s.clone();
        b.set_plain_content(newc.clone());
        c.corr(format!("setplain {} {}", tok, hex_tok(&newc)), format!("ok {}", stream_tok(&b)));
        let plain = guard(|| b.get_plain_content());
        if !length_ok(&b) || b.content != newc || b.dict.has(b"Filter") || b.dict.has(b"DecodeParms") || !matches!(&plain, Ok(Ok(v)) if *v == newc) {
            c.oracle_fail("setplain", "after set_plain_content the stream is not the plain content with the right Length", json!({"before": tok, "after": stream_tok(&b)}));
        }
        // every key other than the three touched ones keeps its value
        for (k, v) in s.dict.iter() {
            if k != b"Length" && k != b"Filter" && k != b"DecodeParms" && b.dict.get(k).ok() != Some(v) {
                c.oracle_fail("setplain", "set_plain_content lost an unrelated dictionary entry", json!({"before": tok, "after": stream_tok(&b)}));
            }
        }
    }
    // Document::compress / Document::decompress
    for i in 0..c.n(400, 4000) {
        let Some(mut r) = c.case("doc", i) else { continue };
        let mut doc = Document::with_version("1.5");
        let n = 1 + r.usize(6);
        let mut deny: Vec<(u32, u16)> = vec![];
        let mut tab = ExtTab::default();
        let mut num = 0u32;
        for _ in 0..n {
            num += 1 + r.below(3) as u32;
            let id = (num, if r.chance(1, 8) { 1 } else { 0 });
            let o = match r.below(6) {
                0 => Object::Integer(r.range(-5, 5)),
                1 => { let mut d = Dictionary::new(); d.set("Filter", Object::Name(b"FlateDecode".to_vec())); d.set("Length", Object::Integer(3)); Object::Dictionary(d) }
                _ => {
                    let (mut s, _) = gen_edit_stream(&mut r, true, false);
                    if r.chance(1, 8) { s.dict.set("Filter", Object::Name(b"DCTDecode".to_vec())); }
                    if r.chance(1, 4) { s.allows_compression = false; deny.push(id); }
                    Object::Stream(s)
                }
            };
            doc.objects.insert(id, o);
        }
        // Length of some streams: indirect (to an integer object of the document, to another object, dangling) or odd
        let ids: Vec<(u32, u16)> = doc.objects.keys().cloned().collect();
        for o in doc.objects.values_mut() {
            if let Object::Stream(s) = o { if r.chance(1, 3) { let l = odd_length(&mut r, &ids); s.dict.set("Length", l); } count_length_kind(c, s, "doc"); }
        }
        for o in doc.objects.values() {
            if let Object::Stream(s) = o {
                for e in ext_for(s).0 { tab.add(&e.0, &e.1, e.2); }
                tab.add("d", &s.content, zlib_best(&s.content));
            }
        }
        let objs = show_objects(doc.objects.iter());
        c.nontrivial(&objs);
        let deny_txt = format!("{}{}", deny.len(), deny.iter().map(|(a, b)| format!(" {} {}", a, b)).collect::<String>());
        let plains: Vec<_> = doc.objects.iter().map(|(id, o)| (*id, if let Object::Stream(s) = o { guard(|| s.get_plain_content()).ok().and_then(|r| r.ok()) } else { None })).collect();
        // compress
        let mut dc = doc.clone();
        if let Err((site, msg)) = guard(|| dc.compress()) { c.oracle_fail(&format!("panic@{}", site), &msg, json!({"objects": objs})); continue; }
        c.corr(format!("doccompress {} {} {}", objs, deny_txt, tab.text()), format!("ok {}", show_objects(dc.objects.iter())));
        for ((id, o), (_, p)) in dc.objects.iter().zip(plains.iter()) {
            let before = &doc.objects[id];
            match (before, o) {
                (Object::Stream(b), Object::Stream(a)) => {
                    if !b.allows_compression && stream_tok(a) != stream_tok(b) { c.oracle_fail("doc-compress", "a stream with allows_compression = false was modified", json!({"objects": objs})); }
                    if a.content.len() > b.content.len() { c.oracle_fail("compress-longer", "Document::compress made a stream longer", json!({"objects": objs})); }
                    let ap = guard(|| a.get_plain_content()).ok().and_then(|r| r.ok());
                    if ap != *p { c.oracle_fail("compress-lossy", "Document::compress changed the plain content of a stream", json!({"objects": objs, "id": format!("{:?}", id)})); }
                    if stream_tok(a) != stream_tok(b) { c.count("doc.compressed_streams"); if !length_ok(a) { c.oracle_fail("length", "Length wrong after Document::compress", json!({"objects": objs})); } }
                }
                (b, a) => if show_obj(a) != show_obj(b) { c.oracle_fail("doc-compress", "Document::compress modified a non-stream object", json!({"objects": objs})); }
            }
        }
        // decompress
        let mut dd = doc.clone();
        if let Err((site, msg)) = guard(|| dd.decompress()) { c.oracle_fail(&format!("panic@{}", site), &msg, json!({"objects": objs})); continue; }
        c.corr(format!("docdecompress {} {}", objs, tab.text()), format!("ok {}", show_objects(dd.objects.iter())));
        for ((id, o), (_, p)) in dd.objects.iter().zip(plains.iter()) {
            let before = &doc.objects[id];
            match (before, o) {
                (Object::Stream(b), Object::Stream(a)) => {
                    let filtered = matches!(b.filters(), Ok(v) if !v.is_empty());
                    if filtered && p.is_some() {
                        if Some(&a.content) != p.as_ref() || a.dict.has(b"Filter") || !length_ok(a) { c.oracle_fail("doc-decompress", "Document::decompress did not leave the plain content with the right Length", json!({"objects": objs, "id": format!("{:?}", id)})); }
                        c.count("doc.decompressed_streams");
                    } else if filtered && stream_tok(a) != stream_tok(b) {
                        c.oracle_fail("doc-decompress", "Document::decompress modified a stream it cannot decode", json!({"objects": objs}));
                    }
                }
                (b, a) => if show_obj(a) != show_obj(b) { c.oracle_fail("doc-decompress", "Document::decompress modified a non-stream object", json!({"objects": objs})); }
            }
        }
    }
}

fn run_stale_parms(c: &mut Ctx) {
    // compress with a DecodeParms entry but no Filter (the repaired F-C09-c: a failure here is a violation)
    for i in 0..c.n(300, 3000) {
        let Some(mut r) = c.case("compress.stale_parms", i) else { continue };
        let (s, _) = gen_edit_stream(&mut r, false, true);
        c.nontrivial(&stream_tok(&s));
        compress_case(c, &s, "compress.stale_parms", true);
    }
}

// ---------------------------------------------------------------- canonical witnesses

/// every content-changing operation on a stream whose Length is INDIRECT (`/Length 7 0 R`, as most producers write
/// it), a real, null or absent: afterwards `dict.get(Length) == Integer(content.len())` on the real stream
fn run_length_forms(c: &mut Ctx) {
    let forms: Vec<(&str, Option<Object>)> = vec![
        ("ref_to_integer", Some(Object::Reference((7, 0)))), ("ref_dangling", Some(Object::Reference((99, 0)))),
        ("ref_to_stream", Some(Object::Reference((8, 0)))), ("real", Some(Object::Real(3.0))), ("null", Some(Object::Null)),
        ("wrong_integer", Some(Object::Integer(1))), ("absent", None)];
    for (fi, (fname, form)) in forms.iter().enumerate() {
        let Some(_) = c.case("length.forms", fi as u64) else { continue };
        let plain: Vec<u8> = (0..200).map(|i| b"BT /F1 12 Tf (Hello) Tj ET\n"[i % 27]).collect();
        let with_len = |mut s: Stream| { match form { Some(o) => s.dict.set("Length", o.clone()), None => { s.dict.remove(b"Length"); } } s };
        let plain_stream = with_len(Stream::new(Dictionary::new(), plain.clone()));
        let mut fd = Dictionary::new();
        fd.set("Filter", Object::Name(b"FlateDecode".to_vec()));
        let flate_stream = with_len(Stream::new(fd, zlib_encode(&plain, 6)));
        let fail = |c: &mut Ctx, op: &str, s: &Stream| {
            if !length_ok(s) { c.oracle_fail("length", &format!("Length != |content| after {} on a stream whose Length was {}", op, fname), json!({"op": op, "length_before": fname, "after": stream_tok(s).chars().take(200).collect::<String>(), "content_len": s.content.len()})); }
            c.count(&format!("length.forms.{}", op));
        };
        // set_content / set_plain_content
        let tok = stream_tok(&flate_stream);
        let mut a = flate_stream.clone(); a.set_content(vec![1, 2, 3]);
        c.corr(format!("setcontent {} 010203", tok), format!("ok {}", stream_tok(&a)));
        fail(c, "set_content", &a);
        let mut b = flate_stream.clone(); b.set_plain_content(vec![4, 5]);
        c.corr(format!("setplain {} 0405", tok), format!("ok {}", stream_tok(&b)));
        fail(c, "set_plain_content", &b);
        // compress (changes the stream: 200 compressible bytes), decompress
        compress_case(c, &plain_stream, "length.forms", false);
        let mut cs = plain_stream.clone(); let _ = cs.compress();
        if cs.dict.has(b"Filter") { fail(c, "compress", &cs); } else { c.oracle_fail("witness-setup", "length.forms: the stream was not compressed", json!({})); }
        let _ = decode_and_corr(c, &flate_stream);
        let mut ds = flate_stream.clone();
        if ds.decompress().is_ok() { fail(c, "decompress", &ds); } else { c.oracle_fail("witness-setup", "length.forms: the stream was not decompressed", json!({})); }
        // Document::compress / Document::decompress with the Length target present as object 7 (an integer) and 8 (a stream)
        let mut doc = Document::with_version("1.5");
        doc.objects.insert((5, 0), Object::Stream(plain_stream.clone()));
        doc.objects.insert((6, 0), Object::Stream(flate_stream.clone()));
        doc.objects.insert((7, 0), Object::Integer(200));
        doc.objects.insert((8, 0), Object::Stream(Stream::new(Dictionary::new(), vec![9, 9])));
        let mut dc = doc.clone(); dc.compress();
        if let Some(Object::Stream(s)) = dc.objects.get(&(5, 0)) { if s.dict.has(b"Filter") { fail(c, "Document::compress", s); } }
        if dc.objects.get(&(7, 0)) != doc.objects.get(&(7, 0)) { c.oracle_fail("doc-compress", "Document::compress modified the integer object a Length points at", json!({})); }
        let mut dd = doc.clone(); dd.decompress();
        if let Some(Object::Stream(s)) = dd.objects.get(&(6, 0)) { if !s.dict.has(b"Filter") { fail(c, "Document::decompress", s); } }
        if dd.objects.get(&(7, 0)) != doc.objects.get(&(7, 0)) { c.oracle_fail("doc-decompress", "Document::decompress modified the integer object a Length points at", json!({})); }
    }
}

fn run_witnesses(c: &mut Ctx) {
    // tie of Lean `decompress_empty_filter_witness`: `Filter []` — get_plain_content returns the content,
    // decompress() used to replace it by the empty string (finding F-C09-d, repaired by lopdf 70e5e99)
    if let Some(_) = c.case("witness.empty_filter", 0) {
        let mut d = Dictionary::new();
        d.set("Filter", Object::Array(vec![]));
        let s = Stream::new(d, vec![1, 2, 3]);
        let before = guard(|| s.get_plain_content());
        let _ = decode_and_corr(c, &s);
        let mut s2 = s.clone();
        let _ = s2.decompress();
        let erased = matches!(&before, Ok(Ok(v)) if v == &[1u8, 2, 3]) && s2.content.is_empty();
        c.count(if erased { "empty_filter.decompress_erases_content" } else { "empty_filter.decompress_keeps_content" });
        c.witness("F-C09-d", erased, "decompress() of a stream with /Filter [] replaces its content by the empty string");
    }
    // regression: F-C09-a (repaired by e2fc7b5) — Average must halve the SUM of left and above
    if let Some(_) = c.case("witness.avg", 0) {
        let got = real_row(3, 1, &[100, 200], &[10, 20]);
        let back = !matches!(&got, Ok(v) if v == &[60u8, 150]);
        c.corr("pngrow 3 1 64c8 0a14".into(), match &got { Ok(v) => format!("ok {}", hex_tok(v)), Err(_) => "panic".into() });
        c.witness("F-C09-a", back, &format!("decode_row(Avg, bpp 1, previous [100,200], filtered [10,20]) = {:?}, PNG specification: [60,150]", got));
    }
    // regression: F-C04-a / C09 (repaired by 87734a4) — group value above u32::MAX must be an error
    if let Some(_) = c.case("witness.a85overflow", 0) {
        let got = a85_real(b"s8W-\"~>");
        let back = !matches!(&got, Ok(Err(_)));
        c.corr(format!("a85 {}", hex(b"s8W-\"~>")), out_reply(&got));
        c.witness("F-C09-a85-overflow", back, &format!("decode of ASCII85 `s8W-\"~>` (group value 2^32): {}", match &got { Ok(Ok(v)) => format!("Ok({})", hex(v)), Ok(Err(e)) => format!("Err({})", e), Err((s, m)) => format!("PANIC at {}: {}", s, m) }));
        // neighbours: the largest legal group and the first illegal ones
        for (g, want_ok) in [(&b"s8W-!~>"[..], true), (b"s8W-#~>", false), (b"s8W.!~>", false), (b"uuuuu~>", false), (b"rr~>", true), (b"s8~>", false)] {
            let r = a85_real(g);
            c.corr(format!("a85 {}", hex(g)), out_reply(&r));
            if matches!(&r, Ok(Ok(_))) != want_ok || r.is_err() {
                c.oracle_fail("a85-boundary", "ASCII85 group at the u32 boundary handled wrongly", json!({"input": String::from_utf8_lossy(g), "result": out_reply(&r)}));
            }
        }
    }
    // regression: F-C09-b (repaired) — DecodeParms as an array parallel to the filters must be applied per stage
    if let Some(_) = c.case("witness.parms_array", 0) {
        let plain = vec![1u8, 2, 3, 4];
        let enc = ref_encode_frame(&plain, 1, 2, &[2]);
        let mut pd = Dictionary::new();
        pd.set("Predictor", Object::Integer(12));
        pd.set("Columns", Object::Integer(2));
        let mut d = Dictionary::new();
        d.set("Filter", Object::Array(vec![Object::Name(b"FlateDecode".to_vec())]));
        d.set("DecodeParms", Object::Array(vec![Object::Dictionary(pd.clone())]));
        let s = Stream::new(d, zlib_encode(&enc, 6));
        let got = decode_and_corr(c, &s);
        // the same stream with the dictionary form decodes correctly (control)
        let mut d2 = Dictionary::new();
        d2.set("Filter", Object::Array(vec![Object::Name(b"FlateDecode".to_vec())]));
        d2.set("DecodeParms", Object::Dictionary(pd));
        let s2 = Stream::new(d2, s.content.clone());
        let ctl = decode_and_corr(c, &s2);
        if !matches!(&ctl, Ok(Ok(v)) if *v == plain) { c.oracle_fail("chain-wrong", "control of the F-C09-b witness (dictionary form) does not decode", json!({"stream": stream_tok(&s2)})); }
        let reproduced = !matches!(&got, Ok(Ok(v)) if *v == plain);
        c.witness("F-C09-b", reproduced, &format!("Filter [/FlateDecode] DecodeParms [<</Predictor 12 /Columns 2>>], plaintext 01020304: decoded {}", out_reply(&got)));
    }
    // regression: F-C09-c (repaired by 7763e3b) — compress must drop a stale DecodeParms entry
    // (same stream as Lean `Lopdf.wStale`: 40 bytes 0x09 — not a PNG filter type — Predictor 12, Columns 4)
    if let Some(_) = c.case("witness.stale_parms", 0) {
        let mut pd = Dictionary::new();
        pd.set("Predictor", Object::Integer(12));
        pd.set("Columns", Object::Integer(4));
        let mut d = Dictionary::new();
        d.set("DecodeParms", Object::Dictionary(pd));
        let content = vec![9u8; 40];
        let s = Stream::new(d, content.clone());
        let mut s2 = s.clone();
        let _ = s2.compress();
        let compressed = s2.dict.has(b"Filter");
        let after = guard(|| s2.get_plain_content());
        let reproduced = compressed && !matches!(&after, Ok(Ok(v)) if *v == content);
        if !compressed { c.oracle_fail("witness-setup", "the F-C09-c witness stream was not compressed (margin changed?)", json!({"stream": stream_tok(&s)})); }
        compress_case(c, &s, "witness.stale_parms", true);
        c.witness("F-C09-c", reproduced, &format!("<</DecodeParms <</Predictor 12 /Columns 4>> /Length 40>> with 40 bytes 0x09, no Filter: after compress() get_plain_content = {}", match &after { Ok(Ok(v)) => format!("Ok({} bytes)", v.len()), Ok(Err(e)) => format!("Err({})", e), Err(_) => "panic".into() }));
    }
}

/// large, extremely compressible streams (blank scans): compress then decode must return every byte
fn run_big(c: &mut Ctx) {
    for (i, (len, byte)) in [(1_200_000usize, 0u8), (900_000, 0xff), (2_000_000, 0x20), (300_000, 0)].iter().enumerate() {
        let Some(_r) = c.case("big", i as u64) else { continue };
        let plain = vec![*byte; *len];
        let mut st = lopdf::Stream::new(lopdf::Dictionary::new(), plain.clone());
        let r = crate::ctx::guard(|| { st.compress().map_err(|e| format!("{:?}", e))?; st.get_plain_content().map_err(|e| format!("{:?}", e)) });
        c.nontrivial(&format!("big{}", i));
        match r {
            Ok(Ok(back)) => {
                if back != plain { c.oracle_fail("compress-rt:big", &format!("compress then decode of {} x {:#04x} returned {} bytes", len, byte, back.len()), json!({"len": len, "byte": byte})); }
                if st.content.len() > plain.len() { c.oracle_fail("compress-longer", "compress made the stream longer", json!({"len": len})); }
                match st.dict.get(b"Length") { Ok(Object::Integer(n)) if *n as usize == st.content.len() => {}, _ => c.oracle_fail("length-inv", "Length differs from the content length after compress", json!({"len": len})) }
                c.count("big.cases");
            }
            Ok(Err(e)) => c.oracle_fail("compress-rt:big", &format!("compress/decode failed: {}", e), json!({"len": len})),
            Err((site, msg)) => c.oracle_fail(&format!("panic@{}", site), &msg, json!({"len": len})),
        }
    }
}

/// RFC 1950 / 1951 stored-block encoder, as `Spec/Inflate.zlibStored` (the encoder of the round-trip theorem `zlib_stored_rt`)
fn zlib_stored(x: &[u8]) -> Vec<u8> {
    let mut out = vec![0x78u8, 0x01];
    let mut rest = x;
    loop {
        let n = rest.len().min(65535); let last = rest.len() <= 65535;
        out.push(if last { 1 } else { 0 });
        out.extend_from_slice(&(n as u16).to_le_bytes()); out.extend_from_slice(&(!(n as u16)).to_le_bytes());
        out.extend_from_slice(&rest[..n]); rest = &rest[n..];
        if last { break; }
    }
    let (mut a, mut b) = (1u32, 0u32); for v in x { a = (a + *v as u32) % 65521; b = (b + a) % 65521; }
    out.extend_from_slice(&((b << 16) | a).to_be_bytes());
    out
}

/// the specification inflate (`Spec/Inflate.lean`, the decoder the reader model uses for Flate-coded structural streams) against
/// flate2: every compression level (stored / fixed / dynamic blocks), streams without their Adler-32 (complete data: decoded),
/// streams cut inside the data (`none`); and the Lean stored-block ENCODER of the round-trip theorem against flate2's decoder
fn run_inflate(c: &mut Ctx) {
    for i in 0..c.n(150, 2500) {
        let Some(mut r) = c.case("inflate", i) else { continue };
        let plain = match i % 25 { 0 => { let n = 65000 + r.usize(80000); if i % 2 == 0 { (0..n).map(|k| (k % 251) as u8).collect() } else { r.bytes(n) } }, 1 => vec![], 2 => vec![b'a'; 3000 + r.usize(3000)],
            3 => { let wl = 1 + r.usize(40); let w = r.bytes(wl); let mut v = vec![]; while v.len() < 2000 { v.extend_from_slice(&w); } v },
            _ => { let mut v = gen_plain(&mut r, 1500); if r.chance(1, 2) { let alpha = b"0123456789 obj<>/[]R\nendstream"; v = (0..v.len()).map(|_| *r.pick(alpha)).collect(); } v } };
        if !plain.is_empty() { c.nontrivial(&format!("infl{}", i)); }
        let big = plain.len() > 20000;
        for level in [0u32, 1, 6, 9] {
            if big && level != 0 && level != 6 { continue; }
            let z = zlib_encode(&plain, level);
            c.evaluations += 1; c.count(&format!("inflate.level{}", level));
            c.corr(format!("inflate {}", hex_tok(&z)), format!("ok {}", hex_tok(&plain)));
            if !big {
                // what lopdf gets from flate2 (read_to_end, error ignored) decides what the specification has to say:
                // complete output -> `ok <it>`; anything else (lost tail, nothing) -> the specification must answer `none`
                let spec_reply = |z: &[u8]| -> String { let o = ext_inflate(z); if o == plain { format!("ok {}", hex_tok(&plain)) } else { "none".into() } };
                // the Adler-32 cut short (1..4 bytes missing): flate2 has produced everything before it complains
                let cut = 1 + r.usize(4); let zc = &z[..z.len() - cut];
                c.corr(format!("inflate {}", hex_tok(zc)), spec_reply(zc)); c.count(if ext_inflate(zc) == plain { "inflate.adler_cut.complete" } else { "inflate.adler_cut.lost" });
                // the Adler-32 present but wrong: flate2 reports it with the last output, which read_to_end drops
                let mut zb = z.clone(); let k = zb.len() - 1 - r.usize(4); zb[k] ^= 1 << r.below(8);
                c.corr(format!("inflate {}", hex_tok(&zb)), spec_reply(&zb)); c.count(if ext_inflate(&zb) == plain { "inflate.adler_wrong.complete" } else { "inflate.adler_wrong.lost" });
                // cut inside the data
                if z.len() > 12 { let cut = 5 + r.usize(z.len() - 11); let zd = &z[..z.len() - cut]; let rep = spec_reply(zd); if rep == "none" { c.corr(format!("inflate {}", hex_tok(zd)), rep); c.count("inflate.data_cut"); } else { c.count("inflate.data_cut.still_complete"); } }
                // bytes after the stream
                let mut zt = z.clone(); let nt = 1 + r.usize(6); zt.extend(r.bytes(nt));
                c.corr(format!("inflate {}", hex_tok(&zt)), spec_reply(&zt)); c.count("inflate.trailing_bytes");
            }
        }
        // the theorem's encoder: Lean bytes = this rendering, and flate2 decodes them to the plaintext
        let st = zlib_stored(&plain);
        c.corr(format!("deflate_stored {}", hex_tok(&plain)), format!("ok {}", hex_tok(&st)));
        if ext_inflate(&st) != plain { c.oracle_fail("stored-encoder", "flate2 does not decode the stored-block reference encoder's output to the plaintext", json!({"plain_len": plain.len()})); }
        let mut strict = flate2::read::ZlibDecoder::new(&st[..]); let mut o = vec![];
        if strict.read_to_end(&mut o).is_err() || o != plain { c.oracle_fail("stored-encoder", "flate2 reports an error on the stored-block reference encoder's output", json!({"plain_len": plain.len()})); }
    }
}

pub fn run(c: &mut Ctx) {
    c.rule = "plaintexts x reference encoders (own PNG filter encoder incl. mixed rows, own ASCII85 encoder with z / layout variants, flate2, weezl \
EarlyChange 0/1) x chains of length 1-3 over {Flate, LZW, ASCII85} x {no parms, dictionary, array} x Predictor {absent,1,10..15} x Columns 1-12 x Colors 1-4 x \
BitsPerComponent 8/16; all 1-byte and (thorough) all 2-byte partial final ASCII85 groups, sampled 3-byte ones; rows through decode_row (encoded and arbitrary \
filtered bytes, bpp 1-8); frames through decode_frame; malformed ASCII85 / frames / dictionaries; compress incl. a length sweep across the +19 margin; \
set_content / set_plain_content; Document::compress / decompress; before every content-changing operation the Length entry is right / a wrong integer / \
an indirect reference (to an integer object, another object, dangling) / another object / absent, and afterwards it must be Integer(content.len()). Non-trivial = non-empty plaintext (chains), row longer than bpp (rows), >=2 rows (frames), \
any malformed / edit case; distinct by request text.".into();
    run_witnesses(c);
    run_length_forms(c);
    run_big(c);
    run_inflate(c);
    run_a85(c);
    run_png(c);
    run_lzw(c);
    run_chains(c);
    run_parms_array(c);
    run_edit(c);
    run_stale_parms(c);
}
