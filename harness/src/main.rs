//! vharness: correspondence + oracle harness (DESIGN §3).
//!   vharness <Cxx> --tier quick|thorough --seed N --out DIR --drv PATH [--only ID]
mod rng;
mod codec;
mod ctx;
mod iso;
mod props;
mod gen;
mod refparse;
mod strict;
mod refwriter;

use ctx::{Ctx, Tier};

struct StderrLog;
impl log::Log for StderrLog {
    fn enabled(&self, _: &log::Metadata) -> bool { true }
    fn log(&self, r: &log::Record) { eprintln!("[{}] {}", r.level(), r.args()); }
    fn flush(&self) {}
}
static LOGGER: StderrLog = StderrLog;

fn main() {
    let args: Vec<String> = std::env::args().collect();
    if std::env::var("VERIF_LOG").is_ok() { let _ = log::set_logger(&LOGGER); log::set_max_level(log::LevelFilter::Debug); }
    if args.len() >= 4 && args[1] == "debug-nest" {
        let depth: usize = args[2].parse().unwrap(); let kb: usize = args[3].parse().unwrap();
        let mut obj = vec![b'['; depth]; obj.extend(vec![b']'; depth]);
        let h = std::thread::Builder::new().stack_size(kb * 1024).spawn(move || {
            let r = lopdf::verif_api::direct_object(&obj);
            println!("depth {} stack {}KB -> {}", depth, kb, if r.is_some() { "parsed" } else { "rejected" });
        }).unwrap();
        h.join().unwrap();
        return;
    }
    if args.len() >= 3 && args[1] == "debug-load" {
        let hexs = std::fs::read_to_string(&args[2]).expect("read"); let b = codec::unhex(hexs.trim()).expect("hex");
        match lopdf::Document::load_mem(&b) { Ok(d) => { for (id, o) in &d.objects { println!("{:?} {}", id, codec::show_obj(o).chars().take(100).collect::<String>()); } println!("trailer {}", codec::show_obj(&lopdf::Object::Dictionary(d.trailer.clone()))); } Err(e) => println!("ERR {:?}", e) }
        return;
    }
    if args.len() < 2 { eprintln!("usage: vharness <Cxx> [--tier t] [--seed n] [--out dir] [--drv path] [--only id]"); std::process::exit(2); }
    if args[1] == "worker" { iso::worker_main(&args[2..]); return; }
    let prop = args[1].clone();
    let mut tier = Tier::Quick; let mut seed = 1u64; let mut out = String::from("out"); let mut drv = String::new();
    let mut only = None;
    let mut i = 2;
    while i < args.len() {
        match args[i].as_str() {
            "--tier" => { tier = if args[i + 1] == "thorough" { Tier::Thorough } else { Tier::Quick }; i += 2; }
            "--seed" => { seed = args[i + 1].parse().expect("seed"); i += 2; }
            "--out" => { out = args[i + 1].clone(); i += 2; }
            "--drv" => { drv = args[i + 1].clone(); i += 2; }
            "--only" => { only = Some(args[i + 1].parse().expect("only")); i += 2; }
            x => { eprintln!("unknown arg {}", x); std::process::exit(2); }
        }
    }
    ctx::install_panic_hook();
    let mut c = Ctx::new(&prop, tier, seed, only);
    // a panic that escapes a generator or an oracle (typically an `unwrap` on a result of the code under test that the
    // unchanged code never fails) must not end the run without a verdict: it is recorded as an oracle failure of the current
    // case — replayable with `--only <case_id>` — and everything found before it is kept
    let known = {
        let cref = std::panic::AssertUnwindSafe(&mut c);
        ctx::guard(move || { let std::panic::AssertUnwindSafe(c) = cref; props::run(&prop, c) })
    };
    match known {
        Ok(true) => {}
        Ok(false) => { eprintln!("unknown property"); std::process::exit(2); }
        Err((site, msg)) => {
            let cur = c.cur;
            c.oracle_fail(&format!("harness-panic@{}", site), &format!("the run stopped in case {}: {}", cur, msg.chars().take(300).collect::<String>()),
                serde_json::json!({"replay": format!("vharness <prop> --seed {} --only {}", seed, cur), "panic_site": site}));
        }
    }
    c.finish(&out, &drv).expect("write result");
}
