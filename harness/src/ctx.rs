//! Run context: collects correspondence requests, oracle failures, counters and
//! samples of one harness run and writes `result.json` for `check`.
use crate::rng::Rng;
use serde_json::{json, Value};
use std::collections::{BTreeMap, BTreeSet};
use std::io::Write;
use std::panic::{self, AssertUnwindSafe};
use std::cell::RefCell;

#[derive(Clone, Copy, PartialEq, Eq, Debug)]
pub enum Tier { Quick, Thorough }

pub struct Corr { pub idx: u64, pub req: String, pub impl_reply: String }

pub struct Ctx {
    pub prop: String,
    pub tier: Tier,
    pub seed: u64,
    /// `--only <idx>`: run just this case (replay)
    pub only: Option<u64>,
    pub verbose: bool,
    pub corr: Vec<Corr>,
    pub oracle_failures: Vec<Value>,
    pub known_witness: Vec<Value>,
    pub counters: BTreeMap<String, u64>,
    pub samples: Vec<Value>,
    pub evaluations: u64,
    pub nontrivial: BTreeSet<u64>,
    pub rule: String,
    pub notes: Vec<String>,
    pub cur: u64,
    pub extra: BTreeMap<String, Value>,
}

thread_local! {
    static LAST_PANIC: RefCell<Option<(String, String)>> = RefCell::new(None);
}

pub fn install_panic_hook() {
    panic::set_hook(Box::new(|info| {
        let site = info.location().map(|l| {
            let f = l.file();
            let f = f.rsplit_once("/src/").map(|(_, b)| format!("src/{}", b)).unwrap_or(f.to_string());
            format!("{}:{}", f, l.line())
        }).unwrap_or_else(|| "?".into());
        let msg = if let Some(s) = info.payload().downcast_ref::<&str>() { s.to_string() }
                  else if let Some(s) = info.payload().downcast_ref::<String>() { s.clone() } else { "?".into() };
        LAST_PANIC.with(|p| *p.borrow_mut() = Some((site, msg)));
    }));
}

/// run `f`, turning a panic into `Err((site, message))`
pub fn guard<T>(f: impl FnOnce() -> T) -> Result<T, (String, String)> {
    LAST_PANIC.with(|p| *p.borrow_mut() = None);
    match panic::catch_unwind(AssertUnwindSafe(f)) {
        Ok(v) => Ok(v),
        Err(_) => Err(LAST_PANIC.with(|p| p.borrow_mut().take()).unwrap_or(("?".into(), "?".into()))),
    }
}

fn fnv(s: &str) -> u64 {
    let mut h = 0xcbf29ce484222325u64;
    for b in s.bytes() { h = (h ^ b as u64).wrapping_mul(0x100000001b3); }
    h
}

impl Ctx {
    pub fn new(prop: &str, tier: Tier, seed: u64, only: Option<u64>) -> Ctx {
        Ctx { prop: prop.into(), tier, seed, only, verbose: only.is_some(), corr: vec![], oracle_failures: vec![],
              known_witness: vec![], counters: BTreeMap::new(), samples: vec![], evaluations: 0,
              nontrivial: BTreeSet::new(), rule: String::new(), notes: vec![], cur: 0, extra: BTreeMap::new() }
    }
    pub fn quick(&self) -> bool { self.tier == Tier::Quick }
    /// number of cases for the tier
    pub fn n(&self, quick: u64, thorough: u64) -> u64 { if self.quick() { quick } else { thorough } }
    /// start case `idx` of stream `stream`: returns the per-case RNG, or None when filtered by `--only`.
    pub fn case(&mut self, stream: &str, idx: u64) -> Option<Rng> {
        let id = fnv(stream).wrapping_mul(1_000_003).wrapping_add(idx) % 1_000_000_000_000;
        if let Some(o) = self.only { if o != id { return None; } }
        self.cur = id;
        self.evaluations += 1;
        Some(Rng::for_case(self.seed, &format!("{}/{}", self.prop, stream), idx))
    }
    pub fn count(&mut self, key: &str) { *self.counters.entry(key.into()).or_insert(0) += 1; }
    pub fn count_n(&mut self, key: &str, n: u64) { *self.counters.entry(key.into()).or_insert(0) += n; }
    /// mark the current case as non-trivial; `key` identifies the distinct input
    pub fn nontrivial(&mut self, key: &str) { self.nontrivial.insert(fnv(key)); }
    pub fn sample(&mut self, v: Value) { if self.samples.len() < 6 { self.samples.push(v); } }
    /// record a correspondence request together with the implementation's canonical reply
    pub fn corr(&mut self, req: String, impl_reply: String) {
        if self.verbose { eprintln!("REQ  {}\nIMPL {}", req, impl_reply); }
        self.corr.push(Corr { idx: self.cur, req, impl_reply });
    }
    /// the property's oracle failed on the real code. `sig` classifies the failure for the
    /// known-findings match (empty = unclassified); `case` is the readable failing input.
    pub fn oracle_fail(&mut self, sig: &str, what: &str, case: Value) {
        if self.verbose { eprintln!("ORACLE-FAIL sig={} {}", sig, what); }
        // at most 20 recorded failures per signature, so that a high-volume known finding can never
        // crowd out a failure with a new signature
        let k = format!("oracle_failures.sig.{}", sig);
        let seen = *self.counters.get(&k).unwrap_or(&0);
        if seen < 20 {
            let rec = json!({"case_id": self.cur, "sig": sig, "what": what, "case": case});
            // also appended to a side file at once: if the run is cut short (watchdog), the failing inputs found
            // so far are not lost
            if let Ok(p) = std::env::var("VERIF_PARTIAL") {
                use std::io::Write;
                if let Ok(mut f) = std::fs::OpenOptions::new().create(true).append(true).open(&p) { let _ = writeln!(f, "{}", rec); }
            }
            self.oracle_failures.push(rec);
        }
        self.count(&k);
        self.count("oracle_failures");
    }
    /// a canonical witness of a known finding was re-run: `reproduced` says whether it still fails
    pub fn witness(&mut self, finding: &str, reproduced: bool, what: &str) {
        self.known_witness.push(json!({"finding": finding, "reproduced": reproduced, "what": what}));
    }

    pub fn finish(mut self, outdir: &str, drv: &str) -> std::io::Result<()> {
        std::fs::create_dir_all(outdir)?;
        // run the model driver on all requests
        let req_path = format!("{}/req.txt", outdir);
        let model_path = format!("{}/model.txt", outdir);
        {
            let mut f = std::io::BufWriter::new(std::fs::File::create(&req_path)?);
            for c in &self.corr { writeln!(f, "{}", c.req)?; }
        }
        let mut disagreements = vec![];
        let mut ext_skipped = 0u64;
        let mut driver_error: Option<String> = None;
        if !self.corr.is_empty() {
            let out = std::process::Command::new(drv)
                .stdin(std::fs::File::open(&req_path)?)
                .stdout(std::fs::File::create(&model_path)?)
                .status();
            match out {
                Ok(st) if st.success() => {
                    let model = std::fs::read_to_string(&model_path)?;
                    let lines: Vec<&str> = model.lines().collect();
                    if lines.len() != self.corr.len() {
                        driver_error = Some(format!("driver produced {} replies for {} requests", lines.len(), self.corr.len()));
                    }
                    for (c, m) in self.corr.iter().zip(lines.iter()) {
                        let a = crate::codec::canon_line(&c.impl_reply);
                        let b = crate::codec::canon_line(m);
                        if b == "ext" { ext_skipped += 1; continue; }
                        if a != b {
                            if self.verbose { eprintln!("DISAGREE\n req   {}\n impl  {}\n model {}", c.req, a, b); }
                            if disagreements.len() < 50 {
                                disagreements.push(json!({"case_id": c.idx, "req": c.req, "impl": a, "model": b}));
                            }
                        } else if self.verbose { eprintln!("MODEL {}", b); }
                    }
                }
                Ok(st) => driver_error = Some(format!("driver exit {:?}", st.code())),
                Err(e) => driver_error = Some(format!("driver spawn: {}", e)),
            }
        }
        let slow = crate::iso::SLOW_CASES.load(std::sync::atomic::Ordering::Relaxed);
        if slow > 0 { self.counters.entry("isolated.slow_cases_answered_on_retry".into()).and_modify(|v| *v += slow).or_insert(slow); }
        let res = json!({
            "property": self.prop, "seed": self.seed,
            "tier": if self.tier == Tier::Quick { "quick" } else { "thorough" },
            "evaluations": self.evaluations, "distinct_nontrivial": self.nontrivial.len(),
            "rule": self.rule, "samples": self.samples, "counters": self.counters,
            "corr_requests": self.corr.len(), "disagreements": disagreements,
            "driver_error": driver_error, "model_ext_skipped": ext_skipped, "oracle_failures": self.oracle_failures,
            "known_witness": self.known_witness, "notes": self.notes, "extra": self.extra,
        });
        std::fs::write(format!("{}/result.json", outdir), serde_json::to_string_pretty(&res)?)?;
        Ok(())
    }
}
