#!/bin/sh
# Offline setup after a fresh restore: build the Lean library + driver and the harness.
set -e
cd "$(dirname "$0")"
export CARGO_NET_OFFLINE=true
REPO="${VERIF_REPO:-/repo}"
ln -sfn "$REPO" repo-link
python3 tools/translate.py "$REPO" lean
(cd lean && lake build LopdfModel drv)
[ -f harness/Cargo.lock ] || cp "$REPO"/Cargo.lock harness/Cargo.lock
(cd harness && cargo build --release --offline)
(cd harness && cargo build --release --offline --no-default-features --features dates --target-dir target-seq)
echo "setup ok"
