example (n : Nat) (h : n < 256) : n.toUInt8.toNat = n := by
  simp [Nat.toUInt8]; omega
example (n : Nat) (h : n < 128) : n.toUInt8 < 128 := by
  rw [UInt8.lt_iff_toNat_lt]; simp [Nat.toUInt8]; omega
example (a : UInt8) (h : a < 128) : ¬ a = 254 := by
  intro e; subst e; simp at h
