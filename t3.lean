import LopdfModel.Thm.C12
open Lopdf
example (os : Objects) (id : ObjId) (d : Dict) (h : getDictionary os id = some d) : True := by
  simp only [getDictionary, getObject] at h
  trace_state
  trivial
