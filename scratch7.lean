import LopdfModel.Lemmas.C09Chain
namespace Lopdf
open Gen
def wParms : Dict := [(K_PREDICTOR, .int 12), (K_COLUMNS, .int 2)]
def wDict : Strm := { dict := [(K_FILTER, .arr [.name F_FLATE]), (K_DECODEPARMS, .dict wParms)], content := [120] }
def wExt2 : Ext := { inflate := fun _ => [2, 1, 2, 2, 2, 2], lzw := fun _ x => x }
example : streamFilters wDict.dict = some [F_FLATE] := by rfl
example : decodeParms wDict.dict = some wParms := by rfl
example : predGeom wParms = ⟨12, 2, 1, 8⟩ := by decide
example : (predGeom wParms).active = true := by decide
example : decompressPredictor [2, 1, 2, 2, 2, 2] (some wParms) = decodeFrame [2, 1, 2, 2, 2, 2] 1 2 := by
  have h : predGeom wParms = ⟨12, 2, 1, 8⟩ := by decide
  simp only [decompressPredictor, h]
  rfl
example : decompressedContent wExt2 wDict = decompressPredictor [2, 1, 2, 2, 2, 2] (some wParms) := by rfl
end Lopdf
