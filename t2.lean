#check @List.nodup_append
#check @List.Nodup.sublist
#check @List.nodup_cons
#check @List.idxOf_cons
#check @List.sublist_append_left
#check @List.Sublist.append
#check @List.nodup_middle
#check @List.Nodup.map_on
