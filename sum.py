import json,sys
r=json.load(open(sys.argv[1] if len(sys.argv)>1 else '/tmp/vw/c09/out/C09/default/result.json'))
print(r['evaluations'], r['corr_requests'], len(r['disagreements']), len(r['oracle_failures']), r['driver_error'], r['distinct_nontrivial'])
for d in r['disagreements'][:6]: print(json.dumps(d)[:900])
from collections import Counter
print(Counter(f['sig'] for f in r['oracle_failures']))
seen=set()
for f in r['oracle_failures']:
    if f['sig'] in seen: continue
    seen.add(f['sig']); print(json.dumps(f)[:900])
print(r['known_witness'])
print(r['counters'])
