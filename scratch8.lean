import LopdfModel.Spec.Png
namespace Lopdf
open Spec.Png
/-- PaethPredictor is symmetric in (left, above): swapping them, or making the first tie-break strict, changes nothing -/
theorem paeth_symm' (a b c : UInt8) : paeth a b c = paeth b a c := by
  have ha := UInt8.toNat_lt a
  have hb := UInt8.toNat_lt b
  have hc := UInt8.toNat_lt c
  simp only [paeth]
  by_cases hab : a = b
  · subst hab; rfl
  · have hne : a.toNat ≠ b.toNat := fun h => hab (UInt8.toNat_inj.mp h)
    have key : ∀ x y z : UInt8, x.toNat ≠ y.toNat →
        ((x.toNat : Int) + y.toNat - z.toNat - x.toNat).natAbs = ((x.toNat : Int) + y.toNat - z.toNat - y.toNat).natAbs →
        ((x.toNat : Int) + y.toNat - z.toNat - z.toNat).natAbs = 0 := by
      intro x y z h1 h2; omega
    repeat' split
    all_goals first | rfl | (exfalso; omega)
end Lopdf
