import LopdfModel.Model.Pages
namespace Lopdf
def unseen (os : Objects) (seen : List ObjId) : Nat :=
  (os.filter (fun p => decide (p.1 ∉ seen))).length

theorem unseen_le (seen : List ObjId) (pid : ObjId) (l : Objects) :
    unseen l (pid :: seen) ≤ unseen l seen := by
  unfold unseen
  induction l with
  | nil => simp
  | cons q l ih =>
    simp only [List.filter_cons]
    by_cases h1 : q.1 ∈ seen
    · have h2 : q.1 ∈ pid :: seen := List.mem_cons_of_mem _ h1
      simp only [h1, h2, not_true_eq_false, decide_false]
      exact ih
    · by_cases h2 : q.1 ∈ pid :: seen
      · simp only [h1, h2, not_true_eq_false, not_false_eq_true, decide_false, decide_true, List.length_cons]
        simp at ih ⊢; omega
      · simp only [h1, h2, not_false_eq_true, decide_true, List.length_cons]
        simp at ih ⊢; omega

theorem unseen_lt (os : Objects) (seen : List ObjId) (pid : ObjId) (o : Obj)
    (hmem : (pid, o) ∈ os) (hs : pid ∉ seen) :
    unseen os (pid :: seen) < unseen os seen := by
  induction os with
  | nil => simp at hmem
  | cons p rest ih =>
    rcases List.mem_cons.mp hmem with h | h
    · subst h
      have hle := unseen_le seen pid rest
      unfold unseen at hle ⊢
      simp only [List.filter_cons]
      have h2 : pid ∈ pid :: seen := List.mem_cons_self
      simp only [hs, h2, not_true_eq_false, not_false_eq_true, decide_false, decide_true, List.length_cons]
      simp at hle ⊢; omega
    · have := ih h
      unfold unseen at this ⊢
      simp only [List.filter_cons]
      by_cases h1 : p.1 ∈ seen
      · have h2 : p.1 ∈ pid :: seen := List.mem_cons_of_mem _ h1
        simp only [h1, h2, not_true_eq_false, decide_false]
        exact this
      · by_cases h2 : p.1 ∈ pid :: seen
        · simp only [h1, h2, not_true_eq_false, not_false_eq_true, decide_false, decide_true, List.length_cons]
          simp at this ⊢; omega
        · simp only [h1, h2, not_false_eq_true, decide_true, List.length_cons]
          simp at this ⊢; omega
end Lopdf
