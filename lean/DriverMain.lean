import Driver
/-
  Protocol driver: one request per line on stdin, one reply per line on stdout.
  A request is `<op> <args…>`; every property's `handle` is tried in turn.
  Unknown operation / undecodable arguments -> `bad-op` (never a default value).
-/
open Lopdf Lopdf.Codec

def handlers : List (String → List String → Option String) :=
  [Lopdf.Driver.C01.handle, Lopdf.Driver.C02.handle, Lopdf.Driver.C03.handle,
   Lopdf.Driver.C04.handle, Lopdf.Driver.C05.handle, Lopdf.Driver.C06.handle,
   Lopdf.Driver.C07.handle, Lopdf.Driver.C08.handle, Lopdf.Driver.C09.handle,
   Lopdf.Driver.C10.handle, Lopdf.Driver.C11.handle, Lopdf.Driver.C12.handle,
   Lopdf.Driver.C13.handle, Lopdf.Driver.C14.handle, Lopdf.Driver.C15.handle,
   Lopdf.Driver.C16.handle, Lopdf.Driver.C17.handle, Lopdf.Driver.C18.handle,
   Lopdf.Driver.C19.handle]

def dispatch (line : String) : String :=
  match tokens line with
  | [] => "bad-op"
  | op :: args =>
    match handlers.findSome? (fun h => h op args) with
    | some r => r
    | none => "bad-op"

partial def loop (hin : IO.FS.Stream) (hout : IO.FS.Stream) : IO Unit := do
  let line ← hin.getLine
  if line.isEmpty then return ()
  hout.putStrLn (dispatch line)
  loop hin hout

def main : IO Unit := do
  let hin ← IO.getStdin
  let hout ← IO.getStdout
  loop hin hout
  hout.flush
