import LopdfModel.Model.Queries
/-
  C13 — models of `get_named_destinations` (src/destinations.rs), `get_outline`,
  `build_outline_result`, `get_outlines` (src/outlines.rs) and `get_toc` (src/toc.rs).

  No fuel anywhere: every walker is defined by well-founded recursion on the guard the code has.
  * `get_named_destinations` (recursion over `Kids`): the `seen` set of name-tree nodes already
    entered (ba860eb). The recursion is written as an explicit stack of frames
    (kids still to visit, node whose `Names` are read afterwards); measure: (objects not yet in
    `seen`, pending frames and kids).
  * `get_outlines` (loop over `Next`, recursion over `First`): one `seen` set of outline items
    entered through a `First` or `Next` reference (bca5e67), threaded through the recursion
    and returned with the result; measure: (objects not yet in `seen`, size of an inline
    dictionary). Inline `First` / `Next` dictionaries are strict sub-terms of the current node.
-/
namespace Lopdf.Q13
open Gen

/-- `IndexMap<Vec<u8>, Destination>`: key ↦ `.dict <Title, Page, Type>` in insertion order -/
abbrev Named := Dict

/-- `Destination::new(title, page, typ)` -/
def mkDest (title page typ : Obj) : Dict :=
  Dict.set (Dict.set (Dict.set [] K_Title title) PAGE page) TYPE typ

/-! ### get_named_destinations -/

/-- `insert_destination`: pairs with a non-string key or fewer than two array elements are skipped -/
def insertDest (key : Obj) (val : List Obj) (named : Named) : Named :=
  match key, val with
  | .str s _, v0 :: v1 :: _ => Dict.set named s (.dict (mkDest key v0 v1))
  | _, _ => named

/-- `if let Ok(val) = dict.get(b"D") { insert_destination(named, key, val.as_array()?) }` -/
def insertDestFromDict (key : Obj) (d : Dict) (named : Named) : Outcome Named :=
  match d.get K_D with
  | none => .ok named
  | some dv =>
    match dv.asArr with
    | none => E
    | some val => .ok (insertDest key val named)

/-- one (key, value) pair of the `Names` array -/
def destOfPair (os : Objects) (key val : Obj) (named : Named) : Outcome Named :=
  match val with
  | .ref a b =>
    match getDictionary os (a, b) with
    | some d => insertDestFromDict key d named
    | none =>
      match getObject os (a, b) with
      | some (.arr v) => .ok (insertDest key v named)
      | _ => .ok named
  | .dict d => insertDestFromDict key d named
  | _ => .ok named

/-- the `Names` loop: consumes (key, value) pairs -/
def namesLoop (os : Objects) : List Obj → Named → Outcome Named
  | key :: val :: rest, named =>
    match destOfPair os key val named with
    | .ok named' => namesLoop os rest named'
    | .err e => .err e
    | .panic s => .panic s
  | _, named => .ok named

/-- the part of `get_named_destinations` after the `Kids` recursion -/
def namesPart (os : Objects) (tree : Dict) (named : Named) : Outcome Named :=
  match tree.get K_Names with
  | none => .ok named
  | some names =>
    match names.asArr with
    | none => E
    | some l => namesLoop os l named

/-- a frame of the `Kids` recursion: the kids still to visit and the node whose `Names` are read
after them -/
abbrev NdFrame := List Obj × Dict

def ndWeight (fs : List NdFrame) : Nat := (fs.map (fun f => f.1.length + 1)).sum

/-- entering a name-tree node: `if let Ok(kids) = tree.get(b"Kids") { for kid in kids.as_array()? … }`;
`none` = `Err` -/
def ndEnter (tree : Dict) : Option NdFrame :=
  match tree.get KIDS with
  | none => some ([], tree)
  | some k =>
    match k.asArr with
    | some ks => some (ks, tree)
    | none => none

/-- the recursion of `get_named_destinations_guarded` as a stack machine. A kid is entered only if
it is a reference to a dictionary; entering it twice is `Err(ReferenceCycle)`. No fuel: either the
`seen` set grows by an existing object or the pending work shrinks. -/
def ndRun (os : Objects) (fs : List NdFrame) (named : Named) (seen : List ObjId) : Outcome Named :=
  match fs with
  | [] => .ok named
  | ([], tree) :: rest =>
    match namesPart os tree named with
    | .ok named' => ndRun os rest named' seen
    | .err e => .err e
    | .panic s => .panic s
  | (kid :: kids, tree) :: rest =>
    match kid.asRef with
    | none => ndRun os ((kids, tree) :: rest) named seen
    | some id =>
      match hd : getDictionary os id with
      | none => ndRun os ((kids, tree) :: rest) named seen
      | some kd =>
        if hs : id ∈ seen then E
        else
          match ndEnter kd with
          | none => E
          | some fr => ndRun os (fr :: (kids, tree) :: rest) named (id :: seen)
termination_by (unseen os seen, ndWeight fs)
decreasing_by
  · apply Prod.Lex.right; simp [ndWeight]
  · apply Prod.Lex.right; simp [ndWeight]
  · apply Prod.Lex.right; simp [ndWeight]
  · obtain ⟨o, hm⟩ := getDictionary_mem hd
    exact Prod.Lex.left _ _ (unseen_lt os seen id o hm hs)

/-- `Document::get_named_destinations` -/
def namedDests (os : Objects) (tree : Dict) (named : Named) : Outcome Named :=
  match ndEnter tree with
  | none => E
  | some fr => ndRun os [fr] named []

/-! ### outlines -/

inductive Outline where
  | dest (d : Dict)
  | sub (items : List Outline)
  deriving Repr

/-- `build_outline_result` on a destination that is not a reference -/
def buildDirect (dest title : Obj) (named : Named) : Outcome (Option Outline × Named) :=
  match dest with
  | .arr a =>
    match a with
    | p :: t :: _ => .ok (some (.dest (mkDest title p t)), named)
    | _ => E
  | .str key _ =>
    match named.get key with
    | some (.dict dd) =>
      let dd' := Dict.set dd K_Title title
      .ok (some (.dest dd'), Dict.set named key (.dict dd'))
    | _ => .ok (none, named)
  | _ => E

/-- `Document::build_outline_result`. The `Reference` arm calls itself on `get_object(id)?`,
which is never a reference (`getObject_not_ref`), so the recursion has depth ≤ 1; the model
unfolds it once. -/
def buildOutlineResult (os : Objects) (dest title : Obj) (named : Named) : Outcome (Option Outline × Named) :=
  match dest with
  | .ref a b =>
    match getObject os (a, b) with
    | none => E
    | some d' => buildDirect d' title named
  | d => buildDirect d title named

/-- `Document::get_outline` -/
def getOutline (os : Objects) (node : Dict) (named : Named) : Outcome (Option Outline × Named) :=
  match getDictInDict os node K_A with
  | none =>
    match node.get K_Dest with
    | none => E
    | some dest =>
      match node.get K_Title with
      | none => E
      | some title => buildOutlineResult os dest title named
  | some action =>
    match (action.get K_S).bind Obj.asName with
    | none => E
    | some cmd =>
      if cmd ≠ K_GoTo ∧ cmd ≠ K_GoToR then E else
      match node.get K_Title with
      | none => E
      | some titleObj =>
        match titleObj with
        | .ref a b =>
          match action.get K_D with
          | none => E
          | some d =>
            match getObject os (a, b) with
            | none => E
            | some t => buildOutlineResult os d t named
        | .str _ _ =>
          match action.get K_D with
          | none => E
          | some d => buildOutlineResult os d titleObj named
        | _ => E

/-- resolution of the `node` argument of a recursive `get_outlines` call -/
def outlineNode (os : Objects) (first : Obj) : Option Dict :=
  match first with
  | .dict d => some d
  | o => (o.asRef.bind (getObject os)).bind Obj.asDict

/-- `if let Ok(Some(outline)) = self.get_outline(node, named) { outlines.push(outline) }` -/
def pushOutline (r : Outcome (Option Outline × Named)) (acc : List Outline) (named : Named) : List Outline × Named :=
  match r with
  | .ok (some o, nm) => (acc ++ [o], nm)
  | .ok (none, nm) => (acc, nm)
  | _ => (acc, named)

theorem Dict.sizeOf_get_lt {d : Dict} {k : Bytes} {v : Obj} (h : d.get k = some v) : sizeOf v < sizeOf d := by
  induction d with
  | nil => simp [Dict.get] at h
  | cons p rest ih =>
    obtain ⟨k', v'⟩ := p
    unfold Dict.get at h
    split at h
    · cases h; simp; omega
    · have := ih h; simp; omega

/-- result of a walk and the `seen` set afterwards -/
abbrev WalkOut := Outcome (List Outline × Named) × List ObjId

/-- a walk started with `seen` returns a set with no more unseen objects -/
abbrev WalkSub (os : Objects) (seen : List ObjId) := { r : WalkOut // unseen os r.2 ≤ unseen os seen }

/-- wrap the result of a sub-walk over `First` into the parent's list -/
def wrapSub (st : List Outline × Named) (r : WalkOut) : WalkOut :=
  match r.1 with
  | .ok (subs, nm) => (.ok (if subs.isEmpty then st.1 else st.1 ++ [.sub subs], nm), r.2)
  | .err e => (.err e, r.2)
  | .panic s => (.panic s, r.2)

theorem wrapSub_snd (st : List Outline × Named) (r : WalkOut) : (wrapSub st r).2 = r.2 := by
  unfold wrapSub; split <;> rfl

/-- `get_outlines_guarded` after the node has been resolved: per item `get_outline`, the recursion
over `First` (inline dictionary, or reference entered at most once), then `Next` (reference
entered at most once, or inline dictionary). `seen` is threaded through and returned. -/
def walkG (os : Objects) (node : Dict) (acc : List Outline) (named : Named) (seen : List ObjId) :
    WalkSub os seen :=
  match getOutline os node named with
  | .panic s => ⟨(.panic s, seen), Nat.le_refl _⟩
  | r =>
    let st := pushOutline r acc named
    let fr : WalkSub os seen :=
      match hf : node.get K_First with
      | none => ⟨(.ok st, seen), Nat.le_refl _⟩
      | some (.dict d) =>
        let sub := walkG os d [] st.2 seen
        ⟨wrapSub st sub.val, by rw [wrapSub_snd]; exact sub.property⟩
      | some (.ref a b) =>
        if hs : (a, b) ∈ seen then ⟨(E, seen), Nat.le_refl _⟩
        else
          match hd : getDictionary os (a, b) with
          | none => ⟨(E, seen), Nat.le_refl _⟩
          | some d =>
            let sub := walkG os d [] st.2 ((a, b) :: seen)
            ⟨wrapSub st sub.val, by rw [wrapSub_snd]; exact Nat.le_trans sub.property (unseen_le seen (a, b) os)⟩
      | some _ => ⟨(E, seen), Nat.le_refl _⟩
    match fr.val.1 with
    | .ok (acc2, named2) =>
      match hn : node.get K_Next with
      | some (.ref a b) =>
        if hs : (a, b) ∈ fr.val.2 then ⟨(E, fr.val.2), fr.property⟩
        else
          match hd : getDictionary os (a, b) with
          | some next =>
            let r2 := walkG os next acc2 named2 ((a, b) :: fr.val.2)
            ⟨r2.val, Nat.le_trans r2.property (Nat.le_trans (unseen_le fr.val.2 (a, b) os) fr.property)⟩
          | none => ⟨(.ok (acc2, named2), (a, b) :: fr.val.2), Nat.le_trans (unseen_le fr.val.2 (a, b) os) fr.property⟩
      | some (.dict d) =>
        let r2 := walkG os d acc2 named2 fr.val.2
        ⟨r2.val, Nat.le_trans r2.property fr.property⟩
      | _ => ⟨(.ok (acc2, named2), fr.val.2), fr.property⟩
    | .err e => ⟨(.err e, fr.val.2), fr.property⟩
    | .panic s => ⟨(.panic s, fr.val.2), fr.property⟩
termination_by (unseen os seen, sizeOf node)
decreasing_by
  · apply Prod.Lex.right
    have := Dict.sizeOf_get_lt hf
    simp at this; omega
  · obtain ⟨o, hm⟩ := getDictionary_mem hd
    exact Prod.Lex.left _ _ (unseen_lt os seen (a, b) o hm hs)
  · obtain ⟨o, hm⟩ := getDictionary_mem hd
    exact Prod.Lex.left _ _ (Nat.lt_of_lt_of_le (unseen_lt os fr.val.2 (a, b) o hm hs) fr.property)
  · have hsz : sizeOf d < sizeOf node := by
      have := Dict.sizeOf_get_lt hn
      simp at this; omega
    rcases Nat.lt_or_eq_of_le fr.property with h | h
    · exact Prod.Lex.left _ _ h
    · rw [h]; exact Prod.Lex.right _ hsz

/-- the destination name tree `get_outlines` loads first -/
def destTree (os : Objects) (cat : Dict) : Option Dict :=
  match getDictInDict os cat K_Dests with
  | some t => some t
  | none => (getDictInDict os cat K_Names).bind fun n => getDictInDict os n K_Dests

/-- `Document::get_outlines(None, None, &mut named)` -/
def getOutlines (trailer : Dict) (os : Objects) : Outcome (List Outline × Named) :=
  match catalog trailer os with
  | none => E
  | some cat =>
    match getDictInDict os cat K_Outlines with
    | none => E
    | some outl =>
      let node := match getDictInDict os outl K_First with
        | some f => f
        | none => outl
      let named : Outcome Named := match destTree os cat with
        | none => .ok []
        | some t => namedDests os t []
      match named with
      | .err e => .err e
      | .panic s => .panic s
      | .ok nm => (walkG os node [] nm []).val.1

/-! ### table of contents (src/toc.rs) -/

/-- `IndexMap::insert` -/
def tocInsert (k : Bytes) (v : ObjId × Nat) : List (Bytes × (ObjId × Nat)) → List (Bytes × (ObjId × Nat))
  | [] => [(k, v)]
  | (k', v') :: rest => if k' = k then (k, v) :: rest else (k', v') :: tocInsert k v rest

/- `setup_outline_page_ids`: title ↦ (page id, level) in `IndexMap` order; `none` = `Err` -/
mutual
def tocIdsOne (level : Nat) : Outline → List (Bytes × (ObjId × Nat)) → Option (List (Bytes × (ObjId × Nat)))
  | .dest d, acc =>
    match (d.get K_Title).bind Obj.asStr with
    | none => none
    | some title =>
      match (d.get PAGE).bind Obj.asRef with
      | none => none
      | some pid => some (tocInsert title (pid, level) acc)
  | .sub items, acc => tocIdsList (level + 1) items acc
def tocIdsList (level : Nat) : List Outline → List (Bytes × (ObjId × Nat)) → Option (List (Bytes × (ObjId × Nat)))
  | [], acc => some acc
  | o :: rest, acc =>
    match tocIdsOne level o acc with
    | none => none
    | some acc' => tocIdsList level rest acc'
end

/-- page number of a page id: the LAST position (1-based) at which `get_pages` lists it
(`setup_page_id_to_num` overwrites) -/
def pageNumOf (pages : List ObjId) (id : ObjId) : Option Nat :=
  (pages.zipIdx.foldl (fun (acc : Option Nat) (p : ObjId × Nat) => if p.1 = id then some (p.2 + 1) else acc) none)

/-- is the title reported as an error (`toc.errors`): UTF-16 BOM with odd length -/
def tocTitleBad (t : Bytes) : Bool :=
  match t with
  | 0xfe :: 0xff :: _ => t.length % 2 = 1
  | 0xff :: 0xfe :: _ => t.length % 2 = 1
  | _ => false

/-- `Document::get_toc`: the (level, page number) entries and the number of title errors -/
def getToc (memMax : Nat) (trailer : Dict) (os : Objects) : Outcome (List (Nat × Nat) × Nat) :=
  match getOutlines trailer os with
  | .err e => .err e
  | .panic s => .panic s
  | .ok (outlines, _) =>
    match tocIdsList 1 outlines [] with
    | none => E
    | some ids =>
      match getPages memMax trailer os with
      | .err e => .err e
      | .panic s => .panic s
      | .ok pages =>
        .ok (ids.foldl (fun (acc : List (Nat × Nat) × Nat) (p : Bytes × (ObjId × Nat)) =>
          match pageNumOf pages p.2.1 with
          | none => acc
          | some n => if tocTitleBad p.1 then (acc.1, acc.2 + 1) else (acc.1 ++ [(p.2.2, n)], acc.2)) ([], 0))

end Lopdf.Q13
